"""Machinery of C09 (spec/Unbind.tla): constants extraction, grid, TLC tabulation, Apalache obligations."""
import concurrent.futures
import glob
import json
import os
import subprocess
import threading
import time

import vf

NETS = [{"name": "mainnet", "id": 1}, {"name": "polaris", "id": 2}, {"name": "other", "id": 3}]
HARNESS = "c09_unbind"
PKG = "smartcontract/service/native/utils"
U32 = 2 ** 32 - 1
U64 = 2 ** 64 - 1

# the values transcribed when the specification was written (spec/Unbind_K.tla); a difference is only noted
REFERENCE = {"T": 31536000, "rate": [5, 4, 3, 3, 2, 2, 2, 1, 1, 1, 1, 1, 1, 1, 1, 1, 1, 1],
             "newrate": [5, 4, 1, 1, 1, 1, 1, 1, 1, 1, 1, 1, 1, 2, 2, 2, 3, 3],
             "ont_supply": 10 ** 9, "ong_supply": 10 ** 18,
             "D": {"mainnet": 63763200, "polaris": 62985600, "other": 0}}

OBLIGATIONS_COMMON = ["ObSane", "ObHolderAdditive", "ObTotalIsSupply", "ObNeverAboveSupply", "ObNoWrap"]
OBLIGATIONS_CODED = ["ObGovAdditiveOffDeadline", "ObGovLossIsGap"]  # GapAtDeadline = FALSE (code as it is)
OBLIGATIONS_FIXED = ["ObGovAdditive"]  # GapAtDeadline = TRUE (intended design)


def run_harness(ctx, binary, inp, tag):
    fin = os.path.join(ctx.scratch, "%s.in.json" % tag)
    fout = os.path.join(ctx.scratch, "%s.out.ndjson" % tag)
    vf.write_json(fin, inp)
    rc, out = ctx.run_bin(binary, "TestVerifUnbind", env={"VERIF_IN": fin, "VERIF_OUT": fout}, timeout=1500)
    if rc != 0:
        ctx.infra("unbind harness (%s) failed rc=%s" % (tag, rc))
        return None
    return vf.read_ndjson(fout)


def big(x, unit):
    """a TLA+ expression for x that TLC can parse (TLC rejects literals >= 2^31 even when they are never evaluated)"""
    if x < 2 ** 31:
        return str(x)
    q, r = divmod(x, unit)
    assert q < 2 ** 31 and r < 2 ** 31 and unit < 2 ** 31
    return "K_OntSupply * %d + %d" % (q, r)


def k_module(net, k, fixed):
    seq = lambda xs: "<<" + ", ".join(str(x) for x in xs) + ">>"
    return """------------------------------ MODULE Unbind_K ------------------------------
(* generated from the values read from the Go tree, network %s *)
EXTENDS Integers, Sequences
K_Net == "%s"
K_T == %d
\\* @type: Seq(Int);
K_Rate == %s
\\* @type: Seq(Int);
K_NewRate == %s
K_D == %d
K_GD == %d
K_Gap == %d
K_OntSupply == %d
K_OngSupply == %s
K_GapAtDeadline == %s
=============================================================================
""" % (net, net, k["T"], seq(k["rate"]), seq(k["newrate"]), k["D"], k["GD"], k["gap"], k["ont_supply"], big(k["ong_supply"], k["ont_supply"]), "TRUE" if fixed else "FALSE")


def g_module(points):
    return """------------------------------ MODULE Unbind_G ------------------------------
EXTENDS Integers, Sequences
G_Points == <<%s>>
=============================================================================
""" % ", ".join(str(p) for p in points)


def grid(ctx, k, nrand):
    """interval boundaries, both deadlines, each -2..+2, a few extremes and nrand seeded points"""
    T = k["T"]
    base = [i * T for i in range(0, 21)] + [k["D"], k["GD"], 0, 2 ** 31 - 3, 108 * T]
    pts = set()
    for b in base:
        for d in (-2, -1, 0, 1, 2):
            if 0 <= b + d <= U32:
                pts.add(b + d)
    rng = ctx.rng
    for _ in range(nrand):
        r = rng.random()
        if r < 0.6:
            pts.add(rng.randrange(0, 19 * T))
        elif r < 0.75:
            pts.add(min(U32, max(0, k["D"] + rng.randrange(-5000, 5000))))
        elif r < 0.9:
            pts.add(min(U32, max(0, k["GD"] + rng.randrange(-5000, 5000))))
        else:
            pts.add(rng.randrange(0, 2 ** 31 - 1))
    small = sorted(p for p in pts if p < 2 ** 31)
    big = sorted({2 ** 31, 2 ** 31 + 1, 3000000000, U32 - 1, U32})
    return small, big


def apalache(ctx, d, invs, timeout=1800):
    """one apalache-mc run (in the staged directory d) checking several invariants"""
    cmd = ["apalache-mc", "check", "--length=0", "--init=Init", "--next=Next", "--inv=" + ",".join(invs),
           "--out-dir=" + os.path.join(d, "apa-out"), "--run-dir=" + os.path.join(d, "apa-run"), "Unbind_Apa.tla"]
    t = time.time()
    try:
        p = subprocess.run(cmd, cwd=d, stdout=subprocess.PIPE, stderr=subprocess.STDOUT, timeout=timeout, text=True)
        out, rc = p.stdout, p.returncode
    except subprocess.TimeoutExpired:
        out, rc = "", -9
    res = {"rc": rc, "wall": time.time() - t, "cmd": " ".join(cmd), "dir": d, "invs": invs, "cex": None}
    with open(os.path.join(d, "apalache.log"), "w") as f:
        f.write(out)
    if rc == 0 and "The outcome is: NoError" in out:
        res["status"] = "ok"
    elif rc == 12 and "The outcome is: Error" in out:
        res["status"] = "violation"
        for fn in sorted(glob.glob(os.path.join(d, "apa-run", "violation1.itf.json"))):
            st = json.load(open(fn))["states"][0]
            val = lambda v: int(v["#bigint"]) if isinstance(v, dict) else int(v)
            res["cex"] = {x: val(st[x]) for x in ("a", "b", "c")}
    elif rc == -9:
        res["status"] = "timeout"
    else:
        res["status"] = "error"
        res["tail"] = out[-1500:]
    return res


class Prover:
    """Runs apalache jobs (tag, files, invs) in background threads; a failing batch of several invariants is
    re-run one invariant at a time so that every refuted obligation gets its own counterexample."""

    def __init__(self, ctx, jobs, workers):
        self.ctx = ctx
        self.ex = concurrent.futures.ThreadPoolExecutor(max_workers=workers)
        self.futs = {}
        for tag, files, invs in jobs:  # staging is done here, sequentially (ctx.stage_specs is not thread-safe)
            d = ctx.stage_specs(files)
            self.futs[self.ex.submit(apalache, ctx, d, invs)] = (tag, files, invs)

    def wait(self):
        ctx = self.ctx
        out = {}
        retry = {}
        for f in concurrent.futures.as_completed(self.futs):
            tag, files, invs = self.futs[f]
            r = f.result()
            ctx.log("apalache %s %s: %s in %.0fs%s" % (tag, ",".join(invs), r["status"], r["wall"],
                                                      (" cex=%s" % r["cex"]) if r["cex"] else ""))
            if r["status"] == "violation" and len(invs) > 1 and ctx.violations:
                # the Go grid already showed a (non-recorded) violation on the real functions: do not spend the time to
                # attribute the refuted batch to single obligations
                out[tag] = {"status": "refuted-batch", "invs": invs, "wall": r["wall"], "cmd": r["cmd"], "cex": r["cex"]}
            elif r["status"] == "violation" and len(invs) > 1:
                for inv in invs:
                    d = ctx.stage_specs(files)
                    retry[self.ex.submit(apalache, ctx, d, [inv])] = tag + ":" + inv
                out[tag] = {"status": "split", "invs": invs, "wall": r["wall"], "cmd": r["cmd"]}
            else:
                out[tag] = r
        for f in concurrent.futures.as_completed(retry):
            r = f.result()
            ctx.log("apalache %s: %s in %.0fs%s" % (retry[f], r["status"], r["wall"], (" cex=%s" % r["cex"]) if r["cex"] else ""))
            out[retry[f]] = r
        self.ex.shutdown()
        return out
