"""Shared machinery for the LedgerQuery properties C39, C40, C42, C43 (spec/LedgerQuery.tla).

model_check  : TLC exhaustive run of a LedgerQuery_MC configuration, edges exported
replay       : the cover paths are executed on a real solo-net ledger (harness/b_ledger, TestVerifLQReplay)
check_steps  : every replayed step is compared with the model's post-state (query maps, heights, bloom bits,
               result of Submit, "unchanged" digests)
"""
import json
import os
import shutil
import vf

PKG = "core/store/ledgerstore"
HARNESS = "b_ledger"
VALID = {"height": "next", "prev": "cur", "ts": "gt", "broot": "ok", "troot": "ok", "body": "ok", "sigs": "ok",
         "keepers": "ok", "sroot": "ok"}
MUT_GO = {"height": "Height", "prev": "Prev", "ts": "Ts", "broot": "Broot", "troot": "Troot", "body": "Body", "sigs": "Sigs",
          "keepers": "Keepers", "sroot": "Sroot"}


def ledger_tmp(ctx):
    """ledger directories live on tmpfs when available (fsync on the shared disk stalls for seconds)"""
    for base in ("/dev/shm", "/tmp"):
        if os.path.isdir(base) and os.access(base, os.W_OK):
            d = os.path.join(base, "b-ledger-%s-%s-%d" % (ctx.pid, ctx.tier, os.getpid()))
            os.makedirs(d, exist_ok=True)
            return d
    return os.path.join(ctx.scratch, "ledgers")


def cleanup(ctx):
    d = getattr(ctx, "_lq_tmp", None)
    if d:
        shutil.rmtree(d, ignore_errors=True)


def build(ctx, tags=()):
    b = ctx.go_test_bin(PKG, harness=HARNESS, hide_own_tests=True, tags=tags)
    ctx._lq_tmp = ledger_tmp(ctx)
    return b


def run_harness(ctx, binary, test, inp, tag, timeout=3000):
    fin = os.path.join(ctx.scratch, "%s.in.json" % tag)
    fout = os.path.join(ctx.scratch, "%s.out.ndjson" % tag)
    vf.write_json(fin, inp)
    rc, out = ctx.run_bin(binary, test, env={"VERIF_IN": fin, "VERIF_OUT": fout, "VERIF_LEDGER_TMP": ctx._lq_tmp}, timeout=timeout)
    if rc != 0:
        ctx.infra("harness %s failed rc=%s" % (test, rc))
        return None
    return fout


def real_bits(ctx, binary):
    """bloom9 bit positions of the model's items from the real go-ethereum Bloom -> module LQBits"""
    # the positions depend only on the seed (contract addresses) and on the harness sources: cached per seed
    import hashlib
    hd = os.path.join(vf.VERIF, "harness", HARNESS)
    sig = hashlib.sha256(("%d|%s|" % (ctx.seed, vf.REPO)).encode() + b"".join(open(os.path.join(hd, f), "rb").read() for f in sorted(os.listdir(hd)))).hexdigest()[:16]
    cache = os.path.join(vf.VERIF, "build", "cache", "lqbits-%s.json" % sig)
    if os.path.exists(cache):
        m = json.load(open(cache))
    else:
        fout = run_harness(ctx, binary, "TestVerifLQBits", {"shapes": {}, "paths": []}, "bits")
        if not fout:
            return None, None
        m = vf.read_ndjson(fout)[0]
        os.makedirs(os.path.dirname(cache), exist_ok=True)
        vf.write_json(cache, m)
    arms = ["x = \"%s\" -> {%s}" % (k, ", ".join(str(b) for b in m[k])) for k in sorted(m)]
    text = ("------------------------------- MODULE LQBits -------------------------------\n"
            "\\* generated from the real types.Bloom by harness/b_ledger TestVerifLQBits\n"
            "RealBits(x) == CASE " + "\n                 [] ".join(arms) + "\n"
            "=============================================================================\n")
    return m, text


def model_check(ctx, cfg, required, files=None, module="LedgerQuery_MC", timeout=1500):
    r = ctx.tlc(module, cfg=cfg, workers=1, timeout=timeout, files=files, coverage=False, heap="6g")
    if r.status != "ok":
        ctx.infra("TLC did not verify %s: status=%s violated=%s %s\n%s" % (cfg, r.status, r.violated, r.errors[:2], r.trace_text[:1500]))
        return None
    edges = r.prints.get("EDGE", [])
    inits = r.prints.get("INIT", [])
    shapes = None
    for n in r.prints.get("NOTE", []):
        if isinstance(n, dict) and "shapes" in n:
            shapes = {s["name"]: {"ntx": s["ntx"], "logs": s["logs"]} for s in n["shapes"]}
    names = {}
    for e in edges:
        a = e["act"]
        k = a["name"] if a["name"] != "Submit" else "Submit:" + ("ok" if a["res"] == "ok" else "ignored" if a["res"] == "ignored" else "refused")
        names[k] = names.get(k, 0) + 1
    missing = [a for a in required if a not in names]
    if missing:
        ctx.infra("vacuous model run %s: never taken: %s" % (cfg, missing))
    ctx.log("TLC %s: %d generated, %d distinct, depth %d, %d edges %s, %.1fs" % (cfg, r.generated, r.distinct, r.depth, len(edges), names, r.wall))
    return r, edges, inits, shapes, names


def go_act(a):
    g = {"name": a["name"]}
    if a["name"] == "Submit":
        g.update({"path": a["path"], "shape": a["shape"], "res": a["res"], "mut": {MUT_GO[k]: v for k, v in a["mut"].items()}})
        if "point" in a:
            g.update({"kind": a["kind"], "point": a["point"]})
    elif a["name"] == "PreExec":
        g["kind"] = a["kind"]
    elif a["name"] == "SyncHeader":
        g["shape"] = a["shape"]
    return g


def replay(ctx, binary, shapes, paths, tag, views="all"):
    inp = {"shapes": shapes, "nkeepers": 4, "views": views,
           "paths": [{"fresh": p["init"]["fresh"], "steps": [go_act(s["act"]) for s in p["steps"]]} for p in paths]}
    fout = run_harness(ctx, binary, "TestVerifLQReplay", inp, "replay-" + tag)
    if not fout:
        return None
    obs = {}
    for o in vf.read_ndjson(fout):
        obs[(o["path"], o["step"])] = o
    return obs


def mut_class(m):
    d = ["%s=%s" % (k, m[k]) for k in sorted(m) if m[k] != VALID[k]]
    return ",".join(d) if d else "valid"


def deviation_part(m):
    """the components of a mutation that only Block.Deserialization checks"""
    d = []
    if m["body"] in ("drop", "alter", "dup"):
        d.append("body=" + m["body"])
    if m["troot"] in ("badc", "zeroc"):
        d.append("troot=" + m["troot"])
    return ",".join(d)


def replay_prefix(paths, pi, si):
    p = paths[pi]
    return {"fresh": p["init"]["fresh"], "steps": [s["act"] for s in p["steps"][:si]]}


def as_map(pairs):
    return {vf.canon(k): v for k, v in pairs}


def expected_views(st):
    """the answers of the query interface according to the model's stores"""
    hdr, body, txat = as_map(st["hdrOf"]), as_map(st["bodyOf"]), as_map(st["txAt"])
    hidx = as_map(st["hidx"]["m"])
    out = []
    cur = st["memCur"][0]
    for h in range(cur + 1):
        idm = hidx.get(vf.canon(h), st["hashAt"][h] if h < len(st["hashAt"]) else ["none"])
        k = vf.canon(idm)
        b = body.get(k, [])
        out.append({"h": h, "id": idm, "hdrHeight": hdr.get(k), "body": b, "txs": [[t, txat.get(vf.canon(t))] for t in b]})
    return out


def check_steps(ctx, paths, obs, what):
    """what: set of oracles to apply: 'result', 'unchanged', 'views', 'bloom', 'history'.
    Returns the number of steps checked."""
    n = 0
    seen = {}  # model state -> (digest tuple, where)
    for pi, p in enumerate(paths):
        states = [p["init"]] + [s["to"] for s in p["steps"]]
        acts = [{"name": "Init"}] + [s["act"] for s in p["steps"]]
        for si, (st, a) in enumerate(zip(states, acts)):
            o = obs.get((pi, si))
            if o is None:
                ctx.infra("no observation for path %d step %d" % (pi, si))
                break
            n += 1
            rp = replay_prefix(paths, pi, si)
            name = a["name"]
            # ---------------------------------------------------------------- result of Submit
            if name == "Submit":
                mc = mut_class(a["mut"])
                model_ok = a["res"] == "ok"
                real_ok = o["res"] == "ok"
                invalid = bool(deviation_part(a["mut"]))  # (sroot=bad on an empty block is not an invalid block)
                if real_ok and not model_ok:
                    ctx.violation("accepted:%s:%s" % (a["path"], mc), {"model": a["res"], "real": o["res"], "height": o["cur"]}, rp)
                    break
                if model_ok and not real_ok:
                    if mc == "valid" or not deviation_part(a["mut"]):
                        ctx.infra("model drift: %s block (%s, %s) refused by the real ledger: %s" % (mc, a["path"], a["shape"], o.get("err")))
                    else:
                        # the code refuses a body/root mismatch that the as-is model expects to pass: the deviation is gone
                        ctx.notes.append("deviation not reproduced: %s %s refused: %s" % (a["path"], mc, o.get("err")))
                    break
                if real_ok and invalid and "result" in what:
                    # committed although the delivered block is not a valid next block (named deviation BodyChecked)
                    ctx.violation("accepted:%s:%s" % (a["path"], deviation_part(a["mut"]) or mc),
                                  {"mutation": mc, "shape": a["shape"], "height": o["cur"], "curId": o["curId"]}, rp)
                if not model_ok and "result" in what:
                    if a["res"] != "ignored" and o["res"] != "error":
                        ctx.violation("no-error:%s:%s" % (a["path"], mc), {"model": a["res"], "real": o["res"]}, rp)
                    if o.get("stored"):
                        ctx.violation("refused-but-stored:%s:%s" % (a["path"], mc), {"err": o.get("err")}, rp)
                    if a["res"] not in ("ignored",) and o["reason"] != a["res"]:
                        ctx.extra.setdefault("reason_mismatch", {}).setdefault("%s:%s model=%s real=%s" % (a["path"], mc, a["res"], o["reason"]), 0)
                        ctx.extra["reason_mismatch"]["%s:%s model=%s real=%s" % (a["path"], mc, a["res"], o["reason"])] += 1
            elif name == "SyncHeader":
                if o["res"] != "ok":
                    ctx.infra("model drift: AddHeaders refused the valid next header: %s" % o.get("err"))
                    break
                if o["changed"] and "unchanged" in what:
                    ctx.violation("syncheader-changed-store", {"stores": o["changed"], "keys": o.get("diff")}, rp)
            elif name == "Restart" and o["res"] != "ok":
                ctx.violation("restart-failed", {"err": o.get("err")}, rp)
                break
            # ---------------------------------------------------------------- unchanged
            if "unchanged" in what and ((name == "Submit" and a["res"] != "ok") or name == "PreExec"):
                if o["changed"]:
                    key = ("changed:%s:%s" % (a["path"], mut_class(a["mut"]))) if name == "Submit" else "preexec-changed:%s" % a["kind"]
                    ctx.violation(key, {"stores": o["changed"], "keys": o.get("diff")}, rp)
            # ---------------------------------------------------------------- heights
            exp = {"cur": st["memCur"][0], "curId": st["memCur"][1], "blkCur": st["blkCur"][0], "stCur": len(st["stApplied"]) - 1,
                   "evCur": st["evCur"], "hdrLast": st["hidx"]["last"]}
            got = {k: o[k] for k in exp}
            if got != exp:
                key = "heights:%s" % (name if name != "Submit" else "Submit:%s:%s" % (a["path"], mut_class(a["mut"])))
                if "point" in a:
                    key = "preexec-during-commit:%s:%s:heights" % (a["kind"], a["point"])
                ctx.violation(key, {"model": exp, "real": got}, rp)
                break
            # ---------------------------------------------------------------- views
            if "views" in what:
                ev = expected_views(st)
                rv = {v["h"]: v for v in o["views"]}
                bad = None
                for e in ev:
                    v = rv.get(e["h"])
                    if v is None:
                        continue
                    if v.get("problems"):
                        bad = ("bytes", e["h"], v["problems"])
                        break
                    if v["hashByHeight"] != e["id"]:
                        bad = ("hashByHeight", e["h"], {"model": e["id"], "real": v["hashByHeight"]})
                    elif not isinstance(v["blockByHeight"], list) or v["blockByHeight"][0] != e["id"]:
                        bad = ("blockByHeight", e["h"], {"model": e["id"], "real": v["blockByHeight"]})
                    elif not isinstance(v["blockByHash"], list) or v["blockByHash"][0] != e["id"] or v["blockByHash"][2] != e["hdrHeight"]:
                        bad = ("blockByHash", e["h"], {"model": [e["id"], e["hdrHeight"]], "real": v["blockByHash"]})
                    elif v["headerByHash"] != [e["id"], e["hdrHeight"]]:
                        bad = ("headerByHash", e["h"], {"model": [e["id"], e["hdrHeight"]], "real": v["headerByHash"]})
                    elif v["headerByHeight"] != [e["id"], e["hdrHeight"]]:
                        bad = ("headerByHeight", e["h"], {"model": [e["id"], e["hdrHeight"]], "real": v["headerByHeight"]})
                    elif e["h"] > 0 and (v["blockByHeight"][1] != e["body"] or v["blockByHash"][1] != e["body"]):
                        bad = ("blockBody", e["h"], {"model": e["body"], "real": [v["blockByHeight"][1], v["blockByHash"][1]]})
                    elif e["h"] > 0 and v["txs"] != e["txs"]:
                        bad = ("transactionByHash", e["h"], {"model": e["txs"], "real": v["txs"]})
                    if bad:
                        break
                exp_above = as_map(st["hidx"]["m"]).get(vf.canon(st["memCur"][0] + 1), ["none"])  # a synced header, if any
                if not bad and (o["above"]["hashByHeight"] != exp_above or o["above"]["blockByHeight"] != "none"):
                    bad = ("aboveCurrent", st["memCur"][0] + 1, {"real": o["above"], "model": exp_above})
                if bad:
                    ctx.violation("view:%s:after-%s%s" % (bad[0], name, ":fresh" if st["fresh"] else ""), {"height": bad[1], "detail": bad[2]}, rp)
                    break
            # ---------------------------------------------------------------- bloom
            if "bloom" in what:
                if o["missed"]:
                    ctx.violation("bloom-miss:event-log", {"missed": o["missed"][:6]}, rp)
                rb = {v["h"]: set(b) for v, b in zip(o["views"], o["bloom"])}
                for h, bits in enumerate(st["bloomAt"]):
                    if h in rb and not set(bits) <= rb[h]:
                        ctx.violation("bloom-miss:model-log", {"height": h, "missing_bits": sorted(set(bits) - rb[h])}, rp)
                        break
            # ---------------------------------------------------------------- same chain => same state
            if "history" in what and not st["halt"]:
                k = vf.canon(st["chain"])
                dg = (o["root"], o["dump"]["State"], o["dump"]["Event"], o["dump"]["Block"], o["dump"]["Merkle"])
                if k in seen and seen[k][0] != dg:
                    hk = "history-dependent-state" if "point" not in a else "preexec-during-commit:%s:%s:state" % (a["kind"], a["point"])
                    ctx.violation(hk, {"chain": st["chain"], "a": seen[k][0], "b": dg, "first_seen": seen[k][1]}, rp)
                seen.setdefault(k, (dg, replay_prefix(paths, pi, si)))
    return n


# ---------------------------------------------------------------------------------------------- trace validation
def trace_run(ctx, binary, tag, **kw):
    inp = {"ntraces": 2, "nsteps": 40, "maxtx": 4, "mode": "mixed", "nkeepers": 4}
    inp.update(kw)
    return run_harness(ctx, binary, "TestVerifLQTrace", inp, "trace-" + tag)


def slim(e):
    return {k: e[k] for k in e if k not in ("views",)} if e else None


def trace_check(ctx, trace_path, what, timeout=1500):
    """TLC validates the recorded trace against LedgerQuery_Trace.  A rejected event is a behaviour of the real ledger
    that the specification (= the properties) does not allow."""
    v = ctx.trace_validate("LedgerQuery_Trace", trace_path, timeout=timeout)
    r = v["result"]
    ev = vf.read_ndjson(trace_path)
    if v["accepted"]:
        return v
    errs = " ".join(r.errors)
    if r.status == "violation":
        k = min(v["matched"], len(ev) - 1)
        ctx.violation("trace:%s:invariant-%s" % (what, r.violated), {"matched": v["matched"], "event": slim(ev[k])},
                      {"trace": trace_path, "upto": v["matched"] + 1})
    elif r.status == "timeout":
        ctx.infra("trace validation timed out")
    elif v["matched"] < 1 or (r.errors and "ostcondition" not in errs):
        ctx.infra("trace validation failed to run: %s" % r.errors[:3])
    else:
        bad = ev[v["matched"]] if v["matched"] < len(ev) else None
        name = bad["event"] if bad else "?"
        if bad and name == "Submit":
            name = "Submit:%s:%s:%s" % (bad["path"], mut_class(bad["mut"]), bad["res"])
        elif bad and name == "PreExec":
            name = "PreExec:%s" % bad["kind"]
        ctx.violation("trace:%s:%s" % (what, name), {"unexplained_event_index": v["matched"] + 1, "event": slim(bad),
                                                      "views": (bad or {}).get("views", [])[-3:]},
                      {"trace_prefix_file": trace_path, "upto": v["matched"] + 1})
    return v


def self_test(ctx, trace_path):
    """binding self-test: a corrupted observation and a dropped event must both be rejected by the trace spec"""
    ev = vf.read_ndjson(trace_path)
    idx = next((i for i in range(2, len(ev) - 1) if ev[i]["event"] == "Submit" and ev[i]["res"] == "ok" and ev[i]["views"]
                and ev[i + 1]["event"] != "Reset"), None)
    if idx is None:
        ctx.infra("binding self-test: no committed Submit in the trace")
        return False
    bad1 = json.loads(json.dumps(ev))
    bad1[idx]["views"][-1]["hdrHeight"] += 1
    bad2 = ev[:idx] + ev[idx + 1:]
    bad3 = json.loads(json.dumps(ev))
    j = next((i for i in range(2, len(ev)) if ev[i]["event"] in ("PreExec",) or (ev[i]["event"] == "Submit" and ev[i]["res"] == "error")), None)
    tests = [("corrupt", bad1), ("drop", bad2)]
    if j is not None and ctx.thorough:
        bad3[j]["changed"] = ["state"]
        tests.append(("changed", bad3))
    import threading, time
    res = {}

    def one(name, t):
        p = os.path.join(ctx.scratch, "selftest-%s.ndjson" % name)
        with open(p, "w") as f:
            for e in t:
                f.write(json.dumps(e) + "\n")
        res[name] = ctx.trace_validate("LedgerQuery_Trace", p)

    ths = []
    for name, t in tests:  # the three TLC runs are independent: run them side by side
        th = threading.Thread(target=one, args=(name, t))
        th.start()
        ths.append(th)
        time.sleep(1.0)
    for th in ths:
        th.join()
    ok = True
    for name, _ in tests:
        if name not in res or res[name]["accepted"]:
            ok = False
            ctx.infra("binding self-test: %s trace was accepted" % name)
    ctx.extra["binding_self_test"] = {n: "rejected" for n in res if not res[n]["accepted"]}
    return ok


def reference_paths(edges, inits):
    """commit-only paths (plain Submit of valid blocks, nothing else) from every initial state to every reachable chain:
    replayed FIRST, in the same harness process, they give the reference digests of each chain before any
    pre-execution / refused block / header sync has run in that process"""
    succ = {}
    for e in edges:
        a = e["act"]
        if a["name"] == "Submit" and a["res"] == "ok" and "point" not in a and mut_class(a["mut"]) == "valid" and a["path"] == "wire":
            succ.setdefault(vf.canon(e["from"]), []).append(e)
    out = []

    def walk(state, steps):
        nxt = succ.get(vf.canon(state), [])
        if not nxt and steps:
            out.append(steps)
        for e in nxt:
            walk(e["to"], steps + [{"act": e["act"], "to": e["to"]}])
    for i in inits:
        before = len(out)
        walk(i, [])
        out[before:] = [{"init": i, "steps": st} for st in out[before:]]
    return out


def standard(ctx, pid, cfgs, required, oracles, tv=None, extra=None, assumptions=None, tags=(), reference=False):
    """the common flow of C40 / C42 / C43: TLC exhaustive -> edge cover -> replay -> oracles -> trace validation"""
    binary = build(ctx, tags)
    cfg = cfgs[1] if ctx.thorough else cfgs[0]
    paths, nsteps, names, ntr, nev = [], 0, {}, 0, 0
    mc = None
    if binary:
        bits, bits_mod = real_bits(ctx, binary)
        files = {"LQBits.tla": bits_mod} if bits_mod else None
        mc = model_check(ctx, cfg, required, files=files)
    if mc:
        r, edges, inits, shapes, names = mc
        paths, ncov = ctx.cover(edges, inits, max_len=40)
        if ncov != len(edges):
            ctx.infra("cover reaches %d of %d edges" % (ncov, len(edges)))
        if reference:
            ref = reference_paths(edges, inits)
            paths = ref + paths
            ctx.extra["reference_paths"] = len(ref)
        ctx.log("cover: %d paths, %d steps" % (len(paths), sum(len(p["steps"]) for p in paths)))
        obs = replay(ctx, binary, shapes, paths, pid.lower())
        if obs is not None:
            nsteps = check_steps(ctx, paths, obs, oracles)
            ctx.log("replayed %d steps on the real ledger" % nsteps)
        if paths:
            lp = max(paths, key=lambda p: len(p["steps"]))
            ctx.samples.append({"replayed_path": [(s["act"]["name"], s["act"].get("path"), s["act"].get("shape"), s["act"].get("kind")) for s in lp["steps"][:8]]})
        if tv:
            kw = tv[1] if ctx.thorough else tv[0]
            tp = trace_run(ctx, binary, pid.lower(), **kw)
            if tp:
                v = trace_check(ctx, tp, pid)
                ntr, nev = kw.get("ntraces", 3), v["total"]
                ctx.log("trace validation: %d/%d events matched" % (v["matched"], v["total"]))
                if v["accepted"]:
                    self_test(ctx, tp)
                    evs = vf.read_ndjson(tp)
                    ctx.samples.append({"trace_event": slim(evs[min(5, len(evs) - 1)])})
        if extra:
            extra(ctx, binary, bits)
    cov = {"states": ctx.stats["states"], "transitions": ctx.stats["transitions"],
           "traces_validated_against_impl": len(paths) + ntr, "replayed_steps": nsteps, "trace_events": nev,
           "edges_by_action": names, "cfg": cfg, "exhaustive": True}
    cov.update(ctx.extra)
    ctx.finish("model_checking", cov, [
        "solo network with 4 bookkeepers (3 signatures required); blocks carry signed ONT/ONG transfers and EIP-155 transactions",
        "model height 0 is the last of two bootstrap blocks (funding, contract deployment) on top of the real genesis block",
    ] + (assumptions or []))


# ---------------------------------------------------------------------------------------------- bin/check <ID> --replay <file>
ALL_SHAPES = {"l0f": 1, "e": 0, "b": 2, "a": 1, "c": 3, "n0": 0, "n1": 1, "n2": 2, "n3": 3, "l0": 0,
              "l1": [["a1", "t1"]], "l2": [["a2", "t2"], ["a1", "t3"]], "l3": [["a3", "t1"], ["a3", "t3"], ["a2", "t1"]]}


def replay_mode(ctx):
    """re-executes the action sequence (or re-validates the trace prefix) of a violation file on the real ledger and
    applies the model-free part of the oracles; exit 1 iff the reported behaviour shows again, never writes evidence"""
    import sys
    rep = json.load(open(ctx.replay_in))
    ctx.seed = rep.get("seed", ctx.seed)
    obj = rep["replay"]
    try:
        binary = build(ctx)
        if not binary:
            sys.exit(2)
        if "trace_prefix_file" in obj or "trace" in obj:
            src = obj.get("trace_prefix_file") or obj["trace"]
            p = os.path.join(ctx.scratch, "replay-trace.ndjson")
            with open(src) as f, open(p, "w") as g:
                for i, line in enumerate(f):
                    if i < obj["upto"]:
                        g.write(line)
            v = ctx.trace_validate("LedgerQuery_Trace", p)
            print("REPLAY trace prefix of %d events: accepted=%s matched=%d" % (obj["upto"], v["accepted"], v["matched"]))
            sys.exit(0 if v["accepted"] else 1)
        if "steps" not in obj:
            print("REPLAY: this replay object is the input of the section run; re-run bin/check %s" % ctx.pid)
            sys.exit(2)
        shapes = {k: ({"ntx": v, "logs": []} if isinstance(v, int) else {"ntx": len(v), "logs": v}) for k, v in ALL_SHAPES.items()}
        paths = [{"init": {"fresh": obj["fresh"]}, "steps": [{"act": a} for a in obj["steps"]]}]
        obs = replay(ctx, binary, shapes, paths, "replayfile")
        if obs is None:
            sys.exit(2)
        bad = False
        for si, s in enumerate(obj["steps"], 1):
            o = obs.get((0, si))
            if o is None:
                break
            slimo = {k: o[k] for k in ("res", "reason", "err", "cur", "curId", "changed", "diff", "stored", "missed", "pre") if k in o}
            print("REPLAY step %d %s -> %s" % (si, json.dumps(s)[:300], json.dumps(slimo)[:600]))
            if s["name"] == "Submit":
                mutated = mut_class(s["mut"]) not in ("valid", "sroot=bad")
                if o["res"] == "ok" and mutated:
                    bad = True
                if o["res"] != "ok" and (o["changed"] or o.get("stored")):
                    bad = True
            if s["name"] == "PreExec" and o["changed"]:
                bad = True
            if o.get("missed") or any(v.get("problems") for v in o["views"]):
                bad = True
        last = obs.get((0, len(obj["steps"])))
        if last:
            print("REPLAY final views: %s" % json.dumps(last["views"])[:1500])
        print("REPLAY result: %s (model-free oracles; the complete comparison needs the model: bin/check %s)" % ("reproduced" if bad else "not shown by the model-free oracles", ctx.pid))
        sys.exit(1 if bad else 0)
    finally:
        cleanup(ctx)
