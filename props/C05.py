"""C05 — a failed transaction changes nothing except the fee it is charged (spec/TxExec.tla)."""
import threading

import _txexec as tx


def run(ctx):
    box = {}
    tb = threading.Thread(target=lambda: box.__setitem__("bin", tx.build(ctx)))
    tb.start()
    mc = tx.model_check(ctx, "TxExec_C05.cfg")
    if ctx.thorough:
        r2 = tx.model_check(ctx, "TxExec_C05t.cfg", workers=max(2, tx.vf.NCPU // 2))
    tx.deviation_check(ctx, "TxExec_C05dev.cfg")
    tb.join()
    binary = box.get("bin")
    npaths = ngroups = nev = 0
    counts = {}
    if mc and binary:
        r, edges, inits = mc
        paths, ncov = ctx.cover(edges, inits, max_len=3)
        ctx.log("cover: %d paths, %d steps, %d edges" % (len(paths), sum(len(p["steps"]) for p in paths), ncov))
        npaths = len(paths)
        singles = {tx.vf.canon(e["act"]["tx"]) for e in edges}
        blocks = tx.blocks_from_paths(paths + [{"init": inits[0], "steps": [{"act": e["act"]}]} for e in edges if e["from"] == inits[0]], ctx.rng,
                                      None if ctx.thorough else 500)
        npaths = sum(1 for b in blocks if b.get("reset"))      # scenario groups really executed (after de-duplication)
        ngroups, nblk = (150, 6) if ctx.thorough else (30, 5)
        blocks += tx.random_blocks(ctx.rng, ngroups, nblk)
        tp = tx.run_blocks(ctx, binary, blocks, "c05")
        if tp:
            v, counts = tx.trace_check(ctx, tp, "C05")
            if v:
                nev = v["total"]
                ctx.log("trace validation: %d/%d events matched; (site/state) counts: %s" % (v["matched"], v["total"], counts))
                sites = {k.split("/")[0] for k in counts}
                missing = [s for s in tx.SITES if s not in sites]
                if missing:
                    ctx.infra("vacuous run: branches of HandleInvokeTransaction never reached on the real code: %s" % missing)
                if v["accepted"]:
                    tx.self_test(ctx, tp)
            ev = tx.vf.read_ndjson(tp)
            ctx.samples.append({"trace_event": next((e for e in ev if e["event"] == "Tx" and e["state"] == "FAIL" and e["gas"] > 0), ev[-1])})
    if binary:
        tx.deploy_destroyed_probe(ctx, binary)
    ctx.finish("model_checking", {
        "states": ctx.stats["states"], "transitions": ctx.stats["transitions"],
        "traces_validated_against_impl": npaths + ngroups, "trace_events": nev,
        "real_transactions_by_branch_and_state": counts,
        "constants": {"cfg": "TxExec_C05.cfg", "KU": tx.KU},
        "exhaustive": True,
    }, ["transactions are executed by the real executeBlock inside real signed blocks of a single-bookkeeper (solo) ledger; each block is also executed per prefix to attribute write-set changes to transactions",
        "amounts in 1000-unit multiples of 10^-9 ONG, gas limits in multiples of 1000",
        "WASM contracts are not executed (stub archive)"])
