"""C41 — role-based contract authorization grants exactly the assigned functions (spec/Auth.tla)."""
import _auth as au


def run(ctx):
    T = ctx.thorough
    binary = ctx.go_test_bin("smartcontract/service/native/auth", harness="c41_auth", hide_own_tests=True)
    # 1. the design (deviation off) satisfies Exact, TokensAssigned, DelegByHolder, AdminAuth, AdminChange, DelegAuth
    au.tlc_design(ctx, "Auth_C41t.cfg" if T else "Auth_C41.cfg")
    dev = au.probe(ctx, binary) if binary else None
    npaths = nsteps = 0
    if dev is not None:
        ctx.log("deviations exhibited by the tree under test: %s" % dev)
        runs = [("E0", "Inits0", 3, "ModesAll", None), ("E1", "Inits1", 3 if T else 2, "ModesAll", None),
                ("E2", "Inits2", 3 if T else 2, "ModesOwn", None),
                # an expired, still stored delegation entry A -> C while B holds the role too: renewal by the other holder
                ("E3", "Inits3", 3 if T else 2, "ModesOwn", None),
                ("R", "InitsAll", 1000, "ModesAll", ("num=%d" % (1500 if T else 300), 30))]
        for tag, inits, max_ops, modes, sim in runs:
            mc = au.tlc_asis(ctx, "Auth_asis_%s.cfg" % tag, dev, inits, max_ops, modes, simulate=sim[0] if sim else None, depth=sim[1] if sim else None,
                             max_t=4 if tag == "E3" else 3)
            if not mc:
                continue
            r, edges, inits_ = mc
            names = {e["act"]["name"] for e in edges}
            missing = [a for a in ("InitAdmin", "Transfer", "AssignFuncs", "AssignIds", "Delegate", "Withdraw", "Verify", "Tick") if a not in names]
            if missing:
                ctx.infra("vacuous model run %s: actions never taken: %s" % (tag, missing))
            paths, ncov = ctx.cover(edges, inits_, max_len=80)
            ctx.log("run %s: cover %d paths, %d steps, %d/%d edges" % (tag, len(paths), sum(len(p["steps"]) for p in paths), ncov, len(edges)))
            obs = au.run_paths(ctx, binary, paths, tag)
            if obs:
                nsteps += au.check(ctx, paths, obs, dev)
                npaths += len(paths)
            if paths and len(ctx.samples) < 4:
                ctx.samples.append({"run": tag, "replayed_path": [s["act"] for s in paths[-1]["steps"][:6]]})
    ctx.finish("model_checking", {
        "states": ctx.stats["states"], "transitions": ctx.stats["transitions"],
        "traces_validated_against_impl": npaths, "replayed_steps": nsteps, "deviations_probed": dev,
        "constants": {"ids": au.IDS, "roles": au.ROLES, "fns": au.FNS, "times": "0..3", "periods": [1, 2], "levels": [0, 1, 2]},
        "exhaustive": True,
    }, ["one application contract; identities are real ONT IDs registered in the real ontid contract (key 1 valid, key 2 revoked, no key 3)",
        "signer sets are installed through the transaction's SignedAddr (what CheckWitness reads)",
        "a delegation counts as unexpired at time t iff t <= expireTime (verifyToken's own comparison; hasRole/delegate/withdraw use t < expireTime)"])
