"""X03 — P2P connection life cycle (handshake + neighbour bookkeeping) against spec/Handshake.tla.

Not one of the 45 listed properties: additional system-level coverage (see spec/Handshake.README.md).
 (a) a peer enters NbrPeers only after every handshake step, with exactly the PeerInfo the remote announced
 (b) a node never has itself as neighbour
 (c) one live link per remote id; a replaced link is closed and leaves no bookkeeping; all counts return to zero
 (d) both sides of a completed handshake agree on roles and ids; a failed side keeps no entry
 (e) peers of another network (magic) are never admitted (no version / service test exists in the code: switch)
 (f) liveness under fairness (separate configuration)
MC: TLC checks (a)-(e) on every configuration, (f) on the fair ones.  RP: the edge cover of every exhaustive
configuration (thorough: plus simulation walks of the 3-node worlds) is replayed action by action on real NetServer
instances.  TV: random schedules chosen by the harness are validated against Handshake_Trace.tla.
"""
import json
import os
from concurrent.futures import ThreadPoolExecutor

import _handshake as hs

PURE_QUICK = [("X03live", "ok", "(f): fair, reliable link: DHT ids (A-B) and pseudo ids (A-O)"),
              ("X03livex", "Temporal", "(f) is not vacuous: without fairness it fails")]
PURE_THOROUGH = [("X03lsn", "LsnBook", "as coded the inbound listen-address set loses the address of the surviving link on replacement (deviation LsnCounted)"),
                 ("X03lsnfix", "ok", "with reference counting (LsnCounted) LsnBook and (a)-(e) hold"),
                 ("X03ver", "NoOldVer", "as coded a peer with a protocol version below MinVer is admitted (deviation CheckVersion)"),
                 ("X03verfix", "ok", "with CheckVersion the old peer is refused"),
                 ("X03livesim", "Temporal", "simultaneous open: both links can end up closed (each side keeps the other one)")]


def trace_cfg(base="X03tv"):
    c = dict(hs.CFGS[base])
    c.update(spec="TSpec", props=[], edges=False, inv=["TypeOK"])
    hs.CFGS["__trace"] = c
    txt = hs.cfg_text("__trace")
    del hs.CFGS["__trace"]
    return txt + "CONSTRAINT HW\nPOSTCONDITION Accepted\n"


def to_model_vocab(o, w):
    """renames real addresses / message types of one harness observation into the model's names (no logic)"""
    back = {v: k for k, v in w.addr.items()}
    tname = {v: k for k, v in hs.MSG_T.items()}
    nodes = {}
    for n, no in o["nodes"].items():
        nodes[n] = {"nbr": [{"id": e["id"], "c": e["c"]} for e in no["nbr"]],
                    "peers": [{"id": i, "addr": back.get(a, a)} for i, a in sorted((no.get("peers") or {}).items())],
                    "inb": [back.get(a, a) for a in no.get("inb") or []], "outb": [back.get(a, a) for a in no.get("outb") or []],
                    "lsn": [back.get(a, a) for a in no.get("lsn") or []], "cing": [back.get(a, a) for a in no.get("cing") or []],
                    "own": back.get(no["own"], no["own"]), "cnt": no["cnt"]}
    ends, q = {}, {}
    for c in sorted({k.split(".")[0] for k in o["ends"]}):
        ends[c] = {e: {k: o["ends"]["%s.%s" % (c, e)][k] for k in ("gate", "hs", "closed", "made")} for e in ("c", "s")}
        q[c] = {d: [{"t": tname.get(m["t"], m["t"]), "ok": m["ok"]} for m in o["q"].get("%s.%s" % (c, d)) or []] for d in ("cs", "sc")}
    ev = {"act": o["act"], "res": o["res"], "nodes": nodes, "ends": ends, "q": q, "brk": o["brk"]}
    if o["act"]["name"] == "Reset":
        ev["allowed"] = sorted(ends)
        ev["nf0"] = o["nf0"]
    return ev


def trace_validation(ctx, binary, name, w, scenarios, walks, steps, base="X03tv"):
    """random schedules on the real nodes -> Handshake_Trace.  scenarios: list of (allowed conns, maxf).  Returns #walks."""
    jobs = []
    for allowed, maxf in scenarios:
        job = w.harness_input(allowed)
        job["random"] = {"walks": walks, "steps": steps, "faults": w.faults, "maxFaults": maxf, "closes": w.closes}
        jobs.append(job)
    fin = os.path.join(ctx.scratch, "trace-%s.in.json" % name)
    fout = os.path.join(ctx.scratch, "trace-%s.out.ndjson" % name)
    hs.vf.write_json(fin, {"jobs": jobs})
    rc, out = ctx.run_bin(binary, "TestVerifX03Trace", env={"VERIF_IN": fin, "VERIF_OUT": fout}, timeout=900,
                          cwd=os.path.join(ctx.scratch, "wd-trace-%s" % name))
    if rc != 0:
        ctx.infra("trace harness failed (%s)" % name)
        return 0
    obs = hs.vf.read_ndjson(fout)
    for o in obs:
        o["nf0"] = w.max_faults - scenarios[o["job"]][1]
        if o.get("infra"):
            ctx.infra("trace harness problem (%s) at job %d walk %d step %d: %s" % (name, o["job"], o["path"], o["step"], o["infra"]))
            return 0
    # property (a), info part, on the real observations: a neighbour carries what its remote node announces
    for o in obs:
        for n, no in o["nodes"].items():
            for e in no["nbr"]:
                if e["c"] not in w.conns:
                    continue
                m = w.remote(e["c"], w.end_of(n, e["c"]))
                inf = w.nodes[m]
                exp = {"id": w.rec_id(m, n), "port": inf["port"], "height": inf["height"], "svc": inf["svc"], "ver": inf["ver"],
                       "soft": hs.SOFT[inf["soft"]], "addr": w.raddr(e["c"], w.end_of(n, e["c"]))}
                for f, v in exp.items():
                    if e[f] != v:
                        ctx.violation("X03:a:peerinfo-mismatch:%s" % f, "trace %s: node %s recorded %s=%s for %s, announced %s" % (name, n, f, e[f], m, v),
                                      {"cfg": name, "walk": o["path"], "step": o["step"], "real": o})
    events = [to_model_vocab(o, w) for o in obs]
    tpath = os.path.join(ctx.scratch, "trace-%s.ndjson" % name)
    with open(tpath, "w") as f:
        f.write(json.dumps({"header": name}) + "\n")
        for e in events:
            f.write(json.dumps(e) + "\n")
    # binding self-test (runs beside the validation): a trace with a dropped neighbour entry must be rejected
    from concurrent.futures import ThreadPoolExecutor as _TPE
    cut = None
    for i, e in enumerate(events):
        if any(e["nodes"][n]["nbr"] for n in e["nodes"]):
            cut = i
            break
    ex = _TPE(max_workers=2)
    fself = None
    if cut is not None:
        bad = json.loads(json.dumps(events[:cut + 1]))
        for n in bad[cut]["nodes"]:
            bad[cut]["nodes"][n]["nbr"] = []
            bad[cut]["nodes"][n]["cnt"] = 0
        bpath = os.path.join(ctx.scratch, "trace-%s-bad.ndjson" % name)
        with open(bpath, "w") as f:
            f.write(json.dumps({"header": name}) + "\n")
            for e in bad:
                f.write(json.dumps(e) + "\n")
        fself = ex.submit(ctx.trace_validate, "Handshake_Trace", bpath, "Handshake_Trace_%s.cfg" % name,
                          {"Handshake_Trace_%s.cfg" % name: trace_cfg(base)}, 600)
    else:
        ctx.notes.append("trace %s: no walk reached an established link (self-test skipped)" % name)
    tv = ex.submit(ctx.trace_validate, "Handshake_Trace", tpath, "Handshake_Trace_%s.cfg" % name,
                   {"Handshake_Trace_%s.cfg" % name: trace_cfg(base)}, 900).result()
    if fself is not None and fself.result()["accepted"]:
        ctx.infra("trace binding self-test (%s): a trace with a dropped neighbour entry was accepted" % name)
    ex.shutdown()
    nwalks = len({(o["job"], o["path"]) for o in obs})
    if not tv["accepted"]:
        k = tv["matched"]
        bad = obs[k - 1] if 0 < k <= len(obs) else None      # line k+1 of the file = event k (1-based) = obs[k-1]
        r = tv["result"]
        if r.status in ("error", "timeout") and r.errors and not r.violated and k == 0:
            ctx.infra("trace validation could not run (%s): %s" % (name, r.errors[:2]))
            return 0
        sched = ["%s(%s%s)->%s" % (o["act"]["name"], o["act"].get("c", ""), "." + o["act"]["e"] if o["act"].get("e") else "", o["res"])
                 for o in obs[max(0, k - 8):k]]
        # which property?  evaluate the real observation itself; anything else is drift
        judged = judge_trace_reject(ctx, w, name, obs, k, sched)
        if not judged:
            ctx.infra("MODEL-DRIFT trace %s: event %d of %d not accepted by Handshake_Trace (violated=%s): ... %s ; observed %s" % (
                name, k, tv["total"] - 1, r.violated, " ".join(sched), json.dumps(bad)[:700] if bad else ""))
        return 0
    ctx.log("trace %s: %d walks, %d events accepted by Handshake_Trace" % (name, nwalks, len(events)))
    return nwalks


def judge_trace_reject(ctx, w, name, obs, k, sched):
    """the trace spec stopped before event k+1 (obs index k): classify by the properties evaluated on the real state"""
    if not (0 < k <= len(obs)):
        return False
    o = obs[k - 1]
    hit = False
    for n, no in o["nodes"].items():
        own = (w.nodes[n]["id"], w.pseudo[n])
        for e in no["nbr"]:
            c = e["c"]
            if e["id"].split("!=")[0] in own:
                ctx.violation("X03:b:self-neighbour", "trace %s: node %s has itself as neighbour after %s" % (name, n, " ".join(sched)), {"cfg": name, "real": o})
                hit = True
            if c in w.conns:
                m = w.remote(c, w.end_of(n, c))
                if w.magic[m] != w.magic[n]:
                    ctx.violation("X03:e:incompatible-admitted:magic", "trace %s: node %s admitted %s after %s" % (name, n, m, " ".join(sched)), {"cfg": name, "real": o})
                    hit = True
                eo = o["ends"]["%s.%s" % (c, w.end_of(n, c))]
                if eo["hs"] or eo["gate"] in ("W", "D"):
                    ctx.violation("X03:a:admitted-before-handshake-end:trace", "trace %s: node %s has neighbour %s on %s while its handshake goroutine is still at %s; after %s" % (
                        name, n, e["id"], c, eo["gate"], " ".join(sched)), {"cfg": name, "real": o})
                    hit = True
                elif eo["closed"]:
                    ctx.violation("X03:c:entry-of-closed-link", "trace %s: node %s keeps neighbour %s of the closed link %s after %s" % (name, n, e["id"], c, " ".join(sched)), {"cfg": name, "real": o})
                    hit = True
    live = {}
    for key, eo in o["ends"].items():
        c, e = key.split(".")
        if eo["gate"] == "R" and not eo["hs"] and not eo["closed"]:
            n = w.conns[c]["cl"] if e == "c" else w.conns[c]["sv"]
            live.setdefault((n, w.rec_id(w.remote(c, e), n)), []).append(c)
    for (n, rid), cs in live.items():
        if len(cs) > 1:
            ctx.violation("X03:c:two-live-links-same-id", "trace %s: node %s holds open links %s to %s after %s" % (name, n, sorted(cs), rid, " ".join(sched)), {"cfg": name, "real": o})
            hit = True
    quiet = all(not eo["gate"] for eo in o["ends"].values())
    if quiet:
        for n, no in o["nodes"].items():
            for f in ("inb", "outb", "lsn", "cing", "peers", "nbr"):
                if no.get(f):
                    ctx.violation("X03:c:bookkeeping-remains:%s" % f, "trace %s: node %s: %s = %s although every connection is gone; after %s" % (name, n, f, no[f], " ".join(sched)), {"cfg": name, "real": o})
                    hit = True
    return hit


def run(ctx):
    T = ctx.thorough
    w_tlc = max(2, hs.vf.NCPU // 4)
    mc_info = {}
    pool = ThreadPoolExecutor(max_workers=8)
    fbin = pool.submit(ctx.go_test_bin, hs.PKG, hs.HARNESS)

    def pure_run(item):
        name, expect, what = item
        r = hs.tlc(ctx, name, workers=w_tlc, timeout=1500)
        got = "ok" if r.status == "ok" else (r.violated or r.status)
        if any("Temporal propert" in e for e in r.errors):
            got = "Temporal"
        mc_info[name] = {"what": what, "expected": expect, "got": got, "distinct": r.distinct, "generated": r.generated, "wall_s": round(r.wall, 1)}
        ctx.log("TLC %s: %s (expected %s), %d distinct, %d generated, %.1fs" % (name, got, expect, r.distinct, r.generated, r.wall))
        if got != expect:
            ctx.infra("TLC on %s (%s): expected %s, got %s %s" % (name, what, expect, got, r.errors[:2]))

    QUICK = ["X03q1", "X03q2", "X03q3", "X03q4"]
    fedge = {n: pool.submit(hs.model_edges, ctx, n, None, None, 2400) for n in QUICK}
    if T:
        # two/three attempts with a fault, 7 attempts with two faults: random walks of the model (sized for a loaded box:
        # TLC exports ~10 transitions/s at load 100)
        fedge["X03t"] = pool.submit(hs.model_edges, ctx, "X03t", "num=120", 60, 1500)
        fedge["X03sim"] = pool.submit(hs.model_edges, ctx, "X03sim", "num=50", 70, 1500)
    fpure = [pool.submit(pure_run, it) for it in PURE_QUICK + (PURE_THOROUGH if T else [])]

    binary = fbin.result()
    budget = 200000 if T else 60000
    npaths = nsteps = 0
    per_action, results, covers = {}, set(), {}
    world = None
    scen_quick = []
    ftv = None
    batches = []
    qparts = [fedge.pop(n).result() for n in QUICK]
    if all(qparts):
        class _R:
            pass
        rq = _R()
        rq.distinct, rq.wall = sum(p[0].distinct for p in qparts), max(p[0].wall for p in qparts)
        batches.append(("X03q", (rq, [e for p in qparts for e in p[1]], [i0 for p in qparts for i0 in p[2]], hs.World(*[p[3] for p in qparts]))))
    for name in list(fedge):
        batches.append((name, fedge[name]))
    for name, mc in batches:
        if hasattr(mc, "result"):
            mc = mc.result()         # the quick scenarios are replayed while the thorough TLC runs are still going
        if not (mc and binary):
            continue
        r, edges, inits, w = mc
        world = w
        if name == "X03q":
            scen_quick = [(s0["allowed"], w.max_faults - s0["nf"]) for s0 in inits]
            # trace validation (schedules chosen by the harness on every quick scenario) runs beside the replay
            if T:
                ftv = pool.submit(trace_validation, ctx, binary, "q", w, scen_quick, 8, 70, "X03q")
            else:
                small = [sc for sc in scen_quick if set(sc[0]) <= set(hs.TV_CONNS) and set(w.used(sc[0])) <= set(hs.TV_NODES)]
                ftv = pool.submit(trace_validation, ctx, binary, "q", w, small, 4, 70, "X03tv")
        paths, ncov, nedges = hs.vf.fast_cover(edges, inits, max_len=60)
        if ncov < nedges or nedges == 0:
            ctx.infra("edge cover of %s incomplete: %d of %d" % (name, ncov, nedges))
        sel = hs.select_paths(ctx, paths, budget)
        nsel = hs.covered_edges(sel)
        covers[name] = {"distinct_states": r.distinct, "edges": nedges, "scenarios": len(inits), "paths_full_cover": len(paths),
                        "paths_replayed": len(sel), "edges_replayed": nsel, "tlc_wall_s": round(r.wall, 1)}
        obs = hs.replay(ctx, binary, w, sel, name, timeout=2400, procs=8 if T else 4)
        if obs is None:
            continue
        orc = hs.Oracle(ctx, w, name)
        for pi, p in enumerate(sel):
            orc.check_path(p, obs.get(pi, []), pi)
        npaths += len(sel)
        nsteps += orc.steps
        results |= orc.results
        for k, v in orc.per_action.items():
            per_action[k] = per_action.get(k, 0) + v
        ctx.log("replayed %s: %d edges -> %d paths / %d steps on real NetServers (%d of %d edges): %d property hits, %d drift" % (
            name, nedges, len(sel), orc.steps, nsel, nedges, orc.viol, orc.drift))
        if sel and len(ctx.samples) < 3:
            longest = max(sel, key=lambda p: len(p["steps"]))
            ctx.samples.append({"cfg": name, "scenario": longest["init"]["allowed"], "replayed_path": orc.sched(longest, 14)})
    ntraces = ftv.result() if ftv else 0
    for f in fpure:
        f.result()
    pool.shutdown()
    if binary and not ctx.violations and not ctx.infra_errors:
        missing = [a for a in hs.ALL_ACTIONS if per_action.get(a, 0) == 0] + [x for x in hs.ALL_RESULTS if x not in results]
        if missing:
            ctx.infra("replay never executed: %s" % missing)
    ctx.finish("model_checking", {
        "states": ctx.stats["states"], "transitions": ctx.stats["transitions"],
        "traces_validated_against_impl": npaths + ntraces,
        "replayed_paths": npaths, "replayed_steps": nsteps, "random_walks_trace_validated": ntraces,
        "replayed_per_action": per_action, "edge_covers": covers, "model_checking_runs": mc_info,
        "deviation_switches": {"CheckVersion": False, "LsnCounted": False},
        "exhaustive": True,
    }, ["the transport is an in-memory message-oriented net.Conn: a Write to a link whose other end is closed fails, queued data is "
        "delivered before EOF, a broken link fails every call; TCP would let one more Write succeed",
        "the handshake deadline fires as an action of the schedule (the parked Read fails with a timeout net.Error); real time never passes",
        "connection limits (MaxConnInBound/OutBound/PerIP) are never reached (covered by C36); reserved-peer filter allows all",
        "one step of the model = one goroutine from one net.Conn/Dialer call to the next; afterHandshakeCheck+savePeer+ReplacePeer are one step",
        "all nodes live in one process: the network magic of a foreign node is emulated by rewriting the magic field on the wire"])
