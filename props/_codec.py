"""Shared machinery for the Codec family (b-codecA): C18 ZeroCopy, C19 TxWire, C20 BlockWire, C21 Num, C22 Base58."""
import json
import os
import vf

HUGE = 1073741824


def hx(v):
    return "".join("%02x" % b for b in v)


def run_tlc(ctx, module, cfg, what, workers=1, timeout=1500, files=None, tags=("EDGE", "INIT", "ROW", "NOTE")):
    """TLC on a Codec spec.  Any failure of the specification alone is a modelling problem (exit 2)."""
    r = ctx.tlc(module, cfg=cfg, workers=workers, timeout=timeout, files=files, tags=tags)
    if r.status != "ok":
        ctx.infra("TLC did not verify %s/%s (%s): status=%s violated=%s %s" % (module, cfg, what, r.status, r.violated, r.errors[:2]))
        return None
    ctx.log("TLC %s: %d generated, %d distinct, depth %d, %d EDGE, %d ROW, %.1fs" % (
        cfg, r.generated, r.distinct, r.depth, len(r.prints.get("EDGE", [])), len(r.prints.get("ROW", [])), r.wall))
    return r


def run_harness(ctx, binary, test, inp, tag, timeout=1800):
    fin = os.path.join(ctx.scratch, "%s.in.json" % tag)
    fout = os.path.join(ctx.scratch, "%s.out.ndjson" % tag)
    vf.write_json(fin, inp)
    rc, out = ctx.run_bin(binary, test, env={"VERIF_IN": fin, "VERIF_OUT": fout}, timeout=timeout)
    if rc != 0 or not os.path.exists(fout):
        ctx.infra("harness %s failed rc=%s" % (test, rc))
        return None
    return vf.read_ndjson(fout)


def trace_check(ctx, module, trace_path, what, slim=lambda e: e):
    """TLC validates a recorded trace; a rejection at a property-level action is a violation observed on the code."""
    v = ctx.trace_validate(module, trace_path)
    r = v["result"]
    ev = vf.read_ndjson(trace_path)
    if r.status == "violation":
        k = max(0, min(v["matched"] - 1, len(ev) - 1))
        ctx.violation("trace:%s:%s" % (what, r.violated), {"matched": v["matched"], "event": slim(ev[k])},
                      {"trace_prefix": ev[max(0, k - 30): k + 1]})
    elif v["accepted"]:
        pass
    elif r.status == "timeout":
        ctx.infra("trace validation timed out")
    elif v["matched"] < 1 or (r.errors and "ostcondition" not in " ".join(r.errors) and "POSTCONDITION" not in " ".join(r.errors)):
        ctx.infra("trace validation failed to run: %s" % r.errors[:3])
    else:
        bad = ev[v["matched"]] if v["matched"] < len(ev) else None
        # find the start of the trace (last Reset) for the replay file
        k = v["matched"]
        s = k
        while s > 0 and ev[s].get("event") != "Reset":
            s -= 1
        ctx.violation("trace:%s:%s" % (what, bad.get("event") if bad else "?"),
                      {"unexplained_event_index": k + 1, "event": slim(bad) if bad else None},
                      {"trace_prefix": ev[s: k + 1]})
    return v


def write_ndjson(path, events):
    with open(path, "w") as f:
        for e in events:
            f.write(json.dumps(e) + "\n")


def apply_replay(ctx):
    """bin/check Cnn --replay <file>: re-run the check with the seed and tier inputs recorded in the replay file, so that the
    same generated case / trace is executed again (the file itself carries the minimal failing input for manual use)."""
    if getattr(ctx, "replay_in", None):
        import random
        try:
            with open(ctx.replay_in) as f:
                d = json.load(f)
            ctx.seed = int(d.get("seed", ctx.seed))
            ctx.rng = random.Random(ctx.seed)
            ctx.log("replay of %s: key=%s seed=%d" % (ctx.replay_in, d.get("key"), ctx.seed))
        except Exception as e:
            ctx.infra("cannot read replay file: %s" % e)
