"""C38 — wallet persists its accounts and only opens them with the current password (spec/Wallet.tla)."""
import random
import traceback
import threading
import _wallet as wl


def conc_model(ctx, edges, inits, dev, conc, job):
    """two client threads on one ClientImpl, model side: prepared wallets (reachable states of run B), the spec self-test
    (TLC must reject the model in which a check and its act are separate lock segments), TLC over every interleaving of
    the lock segments of two calls with edge export, and the choice of the pairs to run on the real wallet"""
    T = ctx.thorough
    rng = random.Random(ctx.seed)
    kwc = dict(import_ids=[1], new_ids=[2], labels=["", "x"], wscrypt="low", max_obj=3, schemes=["SHA256withECDSA"])
    seeds = wl.pick_seeds(ctx, edges, inits, 24 if T else 8, rng)
    conc["split_rejected"] = wl.split_selftest(ctx, seeds[:4], dev, kwc, ["Delete", "ChangePassword", "SetDefault"] if T else ["Delete"])
    mc = wl.tlc_conc(ctx, seeds, dev, kwc)
    if mc:
        cases, n_inter, n_comm, names = wl.conc_cases(ctx, seeds, mc[1], mc[2], 1200 if T else 180, rng)
        ctx.log("two threads: %d interfering + %d commuting ordered pairs in the model, %d chosen (%d operation-name pairs)"
                % (n_inter, n_comm, len(cases), len(names)))
        conc.update({"seeds": len(seeds), "model_interfering_pairs": n_inter, "model_commuting_pairs": n_comm})
        job.update(seeds=seeds, cases=cases, kw=kwc)


def conc_model_guarded(ctx, *a):
    try:
        conc_model(ctx, *a)
    except Exception:
        ctx.infra("two-thread model side crashed: %s" % traceback.format_exc()[-800:])


def run(ctx):
    binary = ctx.go_test_bin("account", harness="c38_wallet", hide_own_tests=True)
    dev = wl.probe(ctx, binary) if binary else None
    T = ctx.thorough
    # 1. the design satisfies the property (TLC, all deviation switches off)
    wl.tlc_design(ctx, "Wallet_design.cfg", import_ids=[1, 2], new_ids=[3], labels=["", "x", "y"] if T else ["", "x"],
                  wscrypt="low", max_obj=3, max_ops=6 if T else 5, acts=wl.ALL_ACTS + wl.FAULTS)
    npaths = nsteps = 0
    runs = []
    conc_thread = None
    conc, conc_job = {}, {}
    if dev is not None:
        ctx.log("deviations exhibited by the tree under test: %s" % dev)
        dup = dev["DupAddrImport"]
        # 2. code as found, wallet with its own (low) scrypt parameters: every edge replayed
        #    A: importable accounts, every operation except NewAccount (NewAccount costs a default-strength scrypt)
        runs.append(("A", dict(import_ids=[1, 2, 3] if T else [1, 2], new_ids=[], labels=["", "x"], wscrypt="low",
                               max_obj=(4 if T else 3) if dup else (3 if T else 2),
                               max_ops=4, acts=[a for a in wl.ALL_ACTS if a != "New"] + wl.FAULTS), None, True))
        #    B: NewAccount next to an imported account
        runs.append(("B", dict(import_ids=[1], new_ids=[2], labels=["", "x"], wscrypt="low", max_obj=3 if dup else 2,
                               max_ops=4 if T else 3, acts=[a for a in wl.ALL_ACTS if T or a not in ("ChangeScheme", "SetDefault")] + (wl.FAULTS if T else [])),
                     None, True))
        #    C: a wallet with the library's default parameters (every decryption costs a full scrypt)
        runs.append(("C", dict(import_ids=[1], new_ids=[2], labels=[""], wscrypt="def", max_obj=2,
                               max_ops=3 if T else 2, schemes=None if T else ["SHA256withECDSA"],
                               acts=["New", "Import", "ChangePassword", "Delete", "Reload"] if T else ["New", "Import", "ChangePassword", "Reload"]),
                     None, False))
        #    D: long random behaviours (TLC -simulate, seeded) over three labels
        runs.append(("D", dict(import_ids=[1, 2, 3], new_ids=[], labels=["", "x", "y"], wscrypt="low", max_obj=4 if dup else 3,
                               max_ops=1000, acts=[a for a in wl.ALL_ACTS if a != "New"] + wl.FAULTS),
                     ("num=%d" % (600 if T else 150), 40), True))
        for tag, kw, sim, opens_live in runs:
            mc = wl.tlc_asis(ctx, "Wallet_asis_%s.cfg" % tag, dev, simulate=sim[0] if sim else None, depth=sim[1] if sim else None, **kw)
            if not mc:
                continue
            r, edges, inits = mc
            if tag == "B" and not dev["DupAddrImport"] and not dev["NewIgnoresWalletScrypt"]:
                # the two-thread model is checked by TLC in the background while runs C and D are replayed
                conc_thread = threading.Thread(target=conc_model_guarded, args=(ctx, edges, inits, dev, conc, conc_job))
                conc_thread.start()
            paths, ncov = ctx.cover(edges, inits, max_len=60 if sim else 40)
            ctx.log("run %s: cover %d paths, %d steps, %d/%d edges" % (tag, len(paths), sum(len(p["steps"]) for p in paths), ncov, len(edges)))
            all_ids = sorted(kw["import_ids"] + kw["new_ids"])
            labels = sorted(set(kw["labels"]) | {l + "_1" for l in kw["labels"] if l})
            n = wl.replay(ctx, binary, paths, tag, kw["import_ids"], all_ids, labels, kw["wscrypt"], dev, opens_live=opens_live)
            npaths += len(paths)
            nsteps += n
            if paths and len(ctx.samples) < 4:
                ctx.samples.append({"run": tag, "replayed_path": [s["act"] for s in paths[0]["steps"][:6]]})
        # 3. two client threads on one ClientImpl (the model side was started after run B, see conc_model): the chosen
        #    pairs run on the real wallet from two goroutines (B issued while A is inside its first lock segment)
        if conc_thread:
            conc_thread.join()
            if "cases" not in conc_job and not ctx.infra_errors:
                ctx.infra("two-thread model side produced no pairs")
            if "cases" in conc_job:
                seeds, cases, kwc = conc_job["seeds"], conc_job["cases"], conc_job["kw"]
                conc.update(wl.replay_conc(ctx, binary, seeds, cases, kwc))
                ctx.log("two threads on the real wallet: %s" % conc)
                npaths += conc.get("attempts", 0)
                if cases:
                    c = cases[0]
                    ctx.samples.append({"run": "two-threads", "prefix": [x["name"] for x in seeds[c["seed"]]["prefix"]], "thread1": c["a"], "thread2": c["b"],
                                        "model_outcomes": [[ra, rb] for ra, rb, _ in c["allowed"].values()]})
    ctx.finish("model_checking", {
        "states": ctx.stats["states"], "transitions": ctx.stats["transitions"],
        "traces_validated_against_impl": npaths, "replayed_steps": nsteps,
        "deviations_probed": dev, "runs": [{"run": t, **{k: v for k, v in kw.items()}} for t, kw, _, _ in runs],
        "exhaustive": True, "two_threads": conc,
    }, ["two client threads: B is issued while A is inside its first lock segment (observed on sync.RWMutex's state words, window = one scrypt derivation N=2048,r=8); no hook, so an interleaving inside a segment without key derivation is only met by chance",
        "ECDSA P-256 accounts; scrypt N=16,r=1,p=1 stands for a wallet with its own (non-default) parameters; run C uses the library default",
        "save() failures are injected by making <wallet>~ a directory (SetFault/ClearFault); other I/O faults (torn writes, rename failure) are not",
        "imported accounts are encrypted under the wallet's scrypt parameters (what `account import` checks)"])
