"""C37 — the DHT routing table stays structurally valid (p2pserver/dht/kbucket: table.go, bucket.go, sorting.go).

MC  TLC on spec/KBucket.tla (6-bit ids sharing long prefixes with the local id, all Update/Remove histories up to
    MaxOps, NearestPeers for every target/count in every state): invariants Valid, NearestOK.
RP  every edge of that graph (Update / Remove / NearestPeers) is executed on a real RouteTable; the real bucket
    structure, call result and NearestPeers answer are compared with the model after every step, and the property
    predicates are evaluated (python) on the REAL structure / answers.
TV  long random histories over 160-bit ids (random and adversarially close to the local id, including the local
    id itself), bucket sizes 2, 3 and 20, validated by TLC against KBucket_Trace.
Verdicts: a property predicate false on a real table/answer => violation; real != model with all predicates true
=> model drift => infra.
"""
import json
import os
import random
import vf
import _chaincfg as cc   # parallel() / lock_staging() helpers

LOCAL6 = [1, 0, 1, 1, 0, 1]
IDS6 = [[0, 0, 0, 0, 0, 0], [1, 0, 1, 0, 0, 1], [1, 0, 1, 0, 1, 0], [1, 0, 0, 1, 0, 1], [1, 0, 1, 0, 0, 0],
        [1, 0, 1, 0, 1, 1], [1, 0, 1, 1, 1, 0], [1, 0, 1, 1, 0, 0], [1, 0, 1, 1, 0, 1], [1, 0, 1, 1, 1, 1]]
TAIL154 = [(i * 7 + (i // 3)) % 2 for i in range(154)]  # the low 154 bits shared by every model id and the local id


def bits_hex(bits):
    assert len(bits) == 160
    return "%040x" % int("".join(map(str, bits)), 2)


def cpl(a, b):
    for i, (x, y) in enumerate(zip(a, b)):
        if x != y:
            return i
    return len(a)


def dist(t, a):
    return [x ^ y for x, y in zip(t, a)]


# ---------------------------------------------------------------------------------------- predicates on REAL observations
def table_preds(buckets, bits, local, k):
    bad = []
    allp = [p for b in buckets for p in b]
    if len(set(allp)) != len(allp) or any(p < 1 for p in allp):
        bad.append("NoDup")
    if any(len(b) > k for b in buckets):
        bad.append("BucketLen")
    last = len(buckets) - 1
    for i, b in enumerate(buckets):
        for p in b:
            if p >= 1 and min(cpl(bits[p - 1], local), last) != i:
                bad.append("RightBucket")
                return bad
    return bad


def nearest_preds(out, t, n, buckets, bits):
    bad = []
    allp = {p for b in buckets for p in b}
    if len(set(out)) != len(out) or not set(out) <= allp:
        bad.append("Nearest-distinct")
        return bad
    ds = [dist(bits[t - 1], bits[p - 1]) for p in out]
    if any(ds[i] >= ds[i + 1] for i in range(len(ds) - 1)):
        bad.append("Nearest-sorted")
    return bad


# ---------------------------------------------------------------------------------------- harness
def run_paths(ctx, binary, local, bits, k, paths, tag):
    fin = os.path.join(ctx.scratch, "kb-%s.in.json" % tag)
    fout = os.path.join(ctx.scratch, "kb-%s.out.ndjson" % tag)
    vf.write_json(fin, {"local": bits_hex(local), "ids": [bits_hex(b) for b in bits], "k": k, "paths": paths})
    rc, _ = ctx.run_bin(binary, "TestVerifKBReplay", env={"VERIF_IN": fin, "VERIF_OUT": fout}, timeout=1800)
    if rc != 0:
        ctx.infra("kbucket harness failed rc=%s" % rc)
        return None
    obs = {}
    for o in vf.read_ndjson(fout):
        obs.setdefault(o["path"], []).append(o)
    return obs


def judge_step(ctx, what, st, o, bits, local, k, rp):
    """property predicates on one real observation; returns True if they all hold"""
    if o["res"] in ("panic", "err"):
        cc.viol(ctx, "%s:%s:%s" % (what, st["name"], o["res"]), {"err": o.get("err")}, rp)
        return False
    bad = table_preds(o["buckets"], bits, local, k)
    # Size = number of distinct peer ids in the table; a removed peer is not found any more
    distinct = len({p for b in o["buckets"] for p in b})
    if o.get("size", distinct) != distinct or o.get("listed", distinct) != distinct:
        bad.append("Size")
    if st["name"] == "Remove" and o.get("found"):
        bad.append("RemoveThenFind")
    for b in bad:
        cc.viol(ctx, "%s:%s:%s:k%d" % (what, st["name"], b, k), {"buckets": o["buckets"]}, rp)
    if st["name"] == "Nearest":
        nb = nearest_preds(o["out"], st["t"], st["n"], o["buckets"], bits)
        for b in nb:
            cc.viol(ctx, "%s:%s:k%d" % (what, b, k), {"target": st["t"], "count": st["n"], "out": o["out"], "buckets": o["buckets"]}, rp)
        bad += nb
    return not bad


def replay(ctx, binary, cfg, k, tag):
    r = ctx.tlc("KBucket_MC", cfg=cfg, workers=1, timeout=2400)
    if r.status != "ok":
        ctx.infra("TLC did not verify %s: status=%s violated=%s %s" % (cfg, r.status, r.violated, r.errors[:2]))
        return 0, 0, r
    edges, inits = r.prints.get("EDGE", []), r.prints.get("INIT", [])
    names = {e["act"]["name"] for e in edges}
    results = {e["to"]["res"] for e in edges}
    unfolded = max(len(e["to"]["buckets"]) for e in edges) if edges else 0
    if names != {"Update", "Remove", "Nearest"} or "nocap" not in results or unfolded < 4:
        ctx.infra("vacuous model run %s: actions %s results %s max buckets %d" % (cfg, sorted(names), sorted(results), unfolded))
    paths, ncov = ctx.cover(edges, inits, max_len=150)
    ctx.log("TLC %s: %d generated, %d distinct, %d edges, %.1fs; cover: %d paths, %d/%d edges, up to %d buckets" % (
        cfg, r.generated, r.distinct, len(edges), r.wall, len(paths), ncov, len(edges), unfolded))
    bits = [b + TAIL154 for b in IDS6]
    local = LOCAL6 + TAIL154
    gopaths = [[s["act"] for s in p["steps"]] for p in paths]
    obs = run_paths(ctx, binary, local, bits, k, gopaths, tag)
    if obs is None:
        return 0, 0, r
    nsteps = 0
    drift = 0
    for pi, p in enumerate(paths):
        os_ = obs.get(pi, [])
        if len(os_) != len(p["steps"]):
            ctx.infra("path %d: %d observations for %d steps" % (pi, len(os_), len(p["steps"])))
            continue
        for si, (s, o) in enumerate(zip(p["steps"], os_)):
            st = s["act"]
            rp = {"kind": "kbucket", "k": k, "local": bits_hex(local), "ids": [bits_hex(b) for b in bits], "path": gopaths[pi][:si + 1]}
            nsteps += 1
            if not judge_step(ctx, "replay", st, o, bits, local, k, rp):
                break
            same = o["buckets"] == s["to"]["buckets"] and (st["name"] == "Nearest" or o["res"] == s["to"]["res"]) \
                and (st["name"] != "Nearest" or o["out"] == st["out"]) and o["addr"][:len(s["to"]["addr"])] == s["to"]["addr"]
            if not same:
                drift += 1
                if drift <= 3:
                    ctx.infra("MODEL-DRIFT: real RouteTable differs from the specification after %s (predicates hold): real %s / model %s" % (
                        st, {"res": o["res"], "buckets": o["buckets"], "out": o.get("out")}, s["to"]))
                break
    if paths:
        ctx.samples.append({"replayed_path": gopaths[0][:6], "k": k})
    ctx.log("replay[%s]: %d paths, %d steps executed on the real RouteTable, %d drifts" % (tag, len(paths), nsteps, drift))
    return len(paths), nsteps, r


# ---------------------------------------------------------------------------------------- trace validation
def rand_ids(rng, n):
    local = [rng.randrange(2) for _ in range(160)]
    ids = [list(local)]  # the local id itself can be offered to Update
    seen = {tuple(local)}
    while len(ids) < n:
        mode = rng.randrange(4)
        if mode == 0:
            b = [rng.randrange(2) for _ in range(160)]
        else:
            # adversarially close: share a long prefix with the local id (or with another id already chosen)
            base = local if mode < 3 else ids[rng.randrange(len(ids))]
            c = rng.choice([rng.randrange(160), rng.randrange(12), 159, 158, rng.randrange(100, 160)])
            b = base[:c] + [1 - base[c]] + [rng.randrange(2) for _ in range(159 - c)]
        if tuple(b) not in seen:
            seen.add(tuple(b))
            ids.append(b)
    rng.shuffle(ids)
    return local, ids


def rand_path(rng, nids, nsteps, k):
    hot = rng.sample(range(1, nids + 1), min(nids, max(6, 3 * k)))
    path = []
    for _ in range(nsteps):
        x = rng.random()
        p = rng.choice(hot) if rng.random() < 0.7 else rng.randrange(1, nids + 1)
        if x < 0.6:
            # a peer mostly re-announces its address, sometimes another one (reconnect from another IP / port)
            path.append({"name": "Update", "p": p, "a": 1 if rng.random() < 0.7 else rng.choice([2, 3])})
        elif x < 0.8:
            path.append({"name": "Remove", "p": p})
        else:
            path.append({"name": "Nearest", "t": rng.randrange(1, nids + 1), "n": rng.choice([1, 2, 3, k, k + 1, 2 * k + 3, 100])})
    return path


def trace(ctx, binary, k, nids, ntraces, nsteps, tag):
    rng = random.Random(ctx.seed * 1000 + k)   # own generator: traces run in parallel threads
    local, bits = rand_ids(rng, nids)
    paths = [rand_path(rng, nids, nsteps, k) for _ in range(ntraces)]
    obs = run_paths(ctx, binary, local, bits, k, paths, tag)
    if obs is None:
        return None
    events = [{"event": "Config", "ids": bits, "local": local, "k": k}]
    good = True
    maxb = 0
    for pi, path in enumerate(paths):
        os_ = obs.get(pi, [])
        events.append({"event": "Reset"})
        for si, (st, o) in enumerate(zip(path, os_)):
            rp = {"kind": "kbucket", "k": k, "local": bits_hex(local), "ids": [bits_hex(b) for b in bits], "path": path[:si + 1]}
            if not judge_step(ctx, "trace", st, o, bits, local, k, rp):
                good = False
                break
            maxb = max(maxb, len(o["buckets"]))
            e = {"event": st["name"], "buckets": o["buckets"]}
            if st["name"] == "Nearest":
                e.update({"t": st["t"], "n": st["n"], "out": o["out"]})
            else:
                e.update({"p": st["p"], "res": o["res"], "addr": o["addr"], "a": st.get("a", 1), "found": bool(o.get("found"))})
            events.append(e)
        if len(os_) != len(path) and good:
            ctx.infra("trace %d: %d observations for %d steps" % (pi, len(os_), len(path)))
    path_ = os.path.join(ctx.scratch, "trace-%s.ndjson" % tag)
    with open(path_, "w") as f:
        for e in events:
            f.write(json.dumps(e) + "\n")
    v = ctx.trace_validate("KBucket_Trace", path_, timeout=2400)
    r = v["result"]
    if not v["accepted"]:
        errs = " ".join(r.errors).upper()
        k_ = min(v["matched"], len(events) - 1)
        if r.status == "violation":
            # the trace states equal the real table snapshots on which python already evaluated Valid: disagreement => triage
            ctx.infra("MODEL-DRIFT: TLC invariant %s false on recorded event #%d although the python predicates hold: %s" % (
                r.violated, k_ + 1, str(events[k_])[:400]))
        elif r.status == "timeout" or (r.errors and "POSTCONDITION" not in errs):
            ctx.infra("trace validation failed to run (%s): %s" % (r.status, r.errors[:3]))
        else:
            ctx.infra("MODEL-DRIFT: TLC cannot explain recorded event #%d (property predicates hold on it): %s" % (k_ + 1, str(events[k_])[:500]))
    ctx.log("trace validation[%s]: %d/%d events matched (k=%d, %d ids, %d histories x %d steps, up to %d buckets)" % (
        tag, v["matched"], v["total"], k, nids, ntraces, nsteps, maxb))
    return {"events": len(events), "traces": ntraces, "path": path_, "v": v, "maxb": maxb}


def self_test(ctx, path):
    ev = vf.read_ndjson(path)[:45]
    i = next((i for i, e in enumerate(ev) if e["event"] == "Update" and e["res"] == "ok" and sum(len(b) for b in e["buckets"]) >= 2), None)
    if i is None:
        ctx.infra("binding self-test: nothing to corrupt")
        return
    bad1 = [dict(e) for e in ev]
    flat = [(bi, pi) for bi, b in enumerate(bad1[i]["buckets"]) for pi in range(len(b))]
    bs = [list(b) for b in bad1[i]["buckets"]]
    (b0, p0), (b1, p1) = flat[0], flat[-1]
    bs[b0][p0], bs[b1][p1] = bs[b1][p1], bs[b0][p0]
    bad1[i]["buckets"] = bs
    bad2 = ev[:i] + ev[i + 1:]
    def one(name, t, want):
        p = os.path.join(ctx.scratch, "selftest-%s.ndjson" % name)
        with open(p, "w") as f:
            for e in t:
                f.write(json.dumps(e) + "\n")
        v = ctx.trace_validate("KBucket_Trace", p, timeout=1200)
        if v["accepted"] != want:
            ctx.infra("binding self-test: %s trace %s" % (name, "accepted" if v["accepted"] else "rejected"))
    cc.parallel([lambda a=a: one(*a) for a in (("corrupt", bad1, False), ("drop", bad2, False), ("intact", ev, True))])
    ctx.log("binding self-test: corrupted and dropped-event traces must be rejected (the two Postcondition errors above are expected), intact prefix accepted")


def run(ctx):
    binary = ctx.go_test_bin("p2pserver/dht/kbucket", harness="c37_kbucket")
    npaths = nsteps = ntr = nev = 0
    per = {}
    if binary and ctx.replay_in:
        rep = json.load(open(ctx.replay_in))["replay"]
        bits = [[int(c) for c in bin(int(h, 16))[2:].zfill(160)] for h in rep["ids"]]
        local = [int(c) for c in bin(int(rep["local"], 16))[2:].zfill(160)]
        obs = run_paths(ctx, binary, local, bits, rep["k"], [rep["path"]], "replay") or {}
        for st, o in zip(rep["path"], obs.get(0, [])):
            ctx.log("replayed %s -> %s" % (st, o))
            if not judge_step(ctx, "replay", st, o, bits, local, rep["k"], rep):
                break
        return ctx.finish("model_checking", {"states": 0, "transitions": 0, "traces_validated_against_impl": 1}, ["replay only"])
    if binary:
        cc.lock_staging(ctx)
        runs = [("KBucket_C37.cfg", 2, "k2")] + ([("KBucket_C37k3.cfg", 3, "k3")] if ctx.thorough else [])
        plans = [(2, 40, 5, 50), (20, 100, 2, 100)]
        if ctx.thorough:
            plans = [(2, 60, 20, 100), (3, 60, 15, 100), (20, 200, 6, 400), (1, 30, 6, 40)]
        jobs = [lambda a=a: replay(ctx, binary, *a) for a in runs]
        jobs += [lambda pl=pl: trace(ctx, binary, pl[0], pl[1], pl[2], pl[3], "k%d" % pl[0]) for pl in plans]

        def deep():
            # pure model checking with a deeper bound (no edge export, several workers)
            r = ctx.tlc("KBucket_MC", cfg="KBucket_C37t.cfg", timeout=2400)
            if r.status != "ok":
                ctx.infra("TLC did not verify KBucket_C37t.cfg: %s %s" % (r.status, r.errors[:2]))
            ctx.log("TLC KBucket_C37t.cfg: %d generated, %d distinct, depth %d, %.1fs" % (r.generated, r.distinct, r.depth, r.wall))
            return r
        if ctx.thorough:
            jobs.append(deep)
        res = cc.parallel(jobs)
        for (cfg, k, tag), (n, st, r) in zip(runs, res[:len(runs)]):
            npaths += n
            nsteps += st
            per[cfg] = {"generated": r.generated, "distinct": r.distinct, "paths": n, "steps": st}
        first = None
        for pl, t in zip(plans, res[len(runs):len(runs) + len(plans)]):
            if t:
                ntr += t["traces"]
                nev += t["events"]
                per["trace-k%d" % pl[0]] = {"events": t["events"], "matched": t["v"]["matched"], "max_buckets": t["maxb"]}
                first = first or t
        if ctx.thorough:
            r = res[-1]
            per["KBucket_C37t.cfg"] = {"generated": r.generated, "distinct": r.distinct, "depth": r.depth}
        if first:
            self_test(ctx, first["path"])
            ctx.samples.append({"trace_event": vf.read_ndjson(first["path"])[3]})
    ctx.finish("model_checking", {
        "states": ctx.stats["states"], "transitions": ctx.stats["transitions"],
        "traces_validated_against_impl": npaths + ntr,
        "replayed_steps": nsteps, "trace_events": nev, "per_run": per, "exhaustive": True,
    }, ["model ids are 6-bit strings mapped to 160-bit PeerIds with the same leading bits (all lower bits equal to the local id's)",
        "single-threaded use of the RouteTable (the property is about histories, not about concurrent calls)",
        "NearestOK is 'distinct and sorted by XOR distance' as the property states; it does not claim the answer is the globally nearest set"])
