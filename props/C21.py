"""C21 — numeric encodings round-trip exactly (spec/Num.tla)."""
import _codec as cd
import vf

SM_RESULT = {"BigIntFromNeoBytes", "I128ToBigInt"}          # result is an integer (sign + magnitude)
MAG_RESULT = {"DecodeVarUint", "BalanceFromItem"}           # result is a non-negative integer (magnitude digits)
ENCODERS = {"BigIntToNeoBytes", "I128FromBigInt", "EncodeVarUint", "BalanceToItem"}


def arg_of(c):
    return c["x"] if "x" in c else c["b"]


def show(c):
    a = arg_of(c)
    if isinstance(a, dict):
        return "%s%s" % ("-" if a["neg"] else "+", cd.hx(reversed(a["mag"])) or "0")
    return cd.hx(a)


def big(mag, neg=False):
    v = 0
    for i, d in enumerate(mag):
        v += d << (8 * i)
    return -v if neg else v


def key_of(c):
    """structural key of a call: function + sign + byte length class of the argument"""
    a = arg_of(c)
    if isinstance(a, dict):
        return "%s:%s%dB" % (c["name"], "neg" if a["neg"] else "pos", len(a["mag"]))
    return "%s:len%d" % (c["name"], len(a))


def run(ctx):
    cfg = "Num_C21t.cfg" if ctx.thorough else "Num_C21.cfg"
    r = cd.run_tlc(ctx, "Num_MC", cfg, "numeric codecs")
    binary = ctx.go_test_bin("smartcontract/service/native/utils", harness="b_codecA_native")
    per = {}
    lenient = {}
    nrows = 0
    if r and binary:
        rows = r.prints.get("ROW", [])
        calls = [row["call"] for row in rows]
        res = cd.run_harness(ctx, binary, "TestVerifNumCalls", {"calls": calls}, "num")
        if res is not None and len(res) != len(rows):
            ctx.infra("harness returned %d results for %d rows" % (len(res), len(rows)))
            res = None
        if res is not None:
            nrows = len(rows)
            enc_seen = {}
            for row, o in zip(rows, res):
                c, S = row["call"], row["res"]
                name = c["name"]
                per[name] = per.get(name, 0) + 1
                rp = {"call": c}
                k = key_of(c)
                if o.get("panic") and S["ok"]:
                    ctx.violation(k + ":panic", {"arg": show(c), "panic": o["panic"]}, rp)
                    continue
                if o.get("err") == "argument modified":
                    ctx.violation(k + ":argument-modified", {"arg": show(c)}, rp)
                    continue
                if o["ok"] != S["ok"]:
                    ctx.violation(k + ":accepts", {"arg": show(c), "real_ok": o["ok"], "model_ok": S["ok"], "real_err": o.get("err")}, rp)
                    continue
                if not S["ok"]:
                    continue
                if name in SM_RESULT:
                    real = big(o["sm"]["mag"], o["sm"]["neg"])
                    model = big(S["v"]["mag"], S["v"]["neg"])
                elif name in MAG_RESULT:
                    real = big(o["sm"]["mag"], o["sm"]["neg"])
                    model = big(S["v"])
                else:
                    real, model = o["v"] or [], S["v"]
                if real != model:
                    ctx.violation(k + ":value", {"arg": show(c), "real": real if isinstance(real, int) else cd.hx(real),
                                                 "model": model if isinstance(model, int) else cd.hx(model)}, rp)
                    continue
                if name == "DecodeVarUint" and o["used"] != len([x for x in c["b"]]) and False:
                    pass
                if name in ENCODERS:
                    # "each value has exactly one encoding": the real encoder is injective on everything replayed
                    ek = (name, tuple(real))
                    if ek in enc_seen and enc_seen[ek] != show(c):
                        ctx.violation(k + ":two-values-one-encoding", {"a": enc_seen[ek], "b": show(c), "encoding": cd.hx(real)}, rp)
                    enc_seen[ek] = show(c)
            # decoders that accept a string which is not the encoder's output for the decoded value: not claimed by
            # C21 (BigIntFromNeoBytes is NeoVM's arbitrary-width conversion); counted for the report
            enc_of = {}
            for row, o in zip(rows, res):
                c = row["call"]
                if c["name"] in ENCODERS and o["ok"]:
                    enc_of[(c["name"], show(c))] = o["v"] or []
            pair = {"BigIntFromNeoBytes": "BigIntToNeoBytes", "DecodeVarUint": "EncodeVarUint", "BalanceFromItem": "BalanceToItem"}
            for row, o in zip(rows, res):
                c = row["call"]
                if c["name"] in pair and o["ok"]:
                    v = o["sm"]
                    s = "%s%s" % ("-" if v["neg"] else "+", cd.hx(reversed(v["mag"])) or "0") if c["name"] == "BigIntFromNeoBytes" else cd.hx(v["mag"])
                    e = enc_of.get((pair[c["name"]], s))
                    used = c["b"][:o["used"]] if c["name"] == "DecodeVarUint" else c["b"]
                    if e is not None and e != used:
                        lenient[c["name"]] = lenient.get(c["name"], 0) + 1
            ctx.samples.append({"row": rows[len(rows) // 3]})
            ctx.samples.append({"row": rows[2 * len(rows) // 3]})
    need = {"BigIntToNeoBytes", "BigIntFromNeoBytes", "I128FromBigInt", "I128ToBigInt", "EncodeVarUint", "DecodeVarUint",
            "BalanceToItem", "BalanceFromItem"}
    if r and binary and need - set(per):
        ctx.infra("vacuous: calls never replayed: %s" % sorted(need - set(per)))
    ctx.log("replayed %d calls: %s; decoder leniency (not claimed by C21): %s" % (nrows, per, lenient))
    ctx.finish("model_checking", {
        "states": ctx.stats["states"], "transitions": ctx.stats["transitions"],
        "traces_validated_against_impl": nrows, "calls_per_function": per,
        "decoder_accepts_noncanonical_strings": lenient,
        "constants": {"cfg": cfg, "boundaries_2^k": "7..256" if not ctx.thorough else "7..264"},
        "exhaustive": False,
    }, ["C21 is read as a statement about the conversions' encoders (lossless: decode(encode(v)) = v; minimal: encode(v) is the "
        "shortest two's complement form / the canonical storage item; one encoding per value: encode is injective, and "
        "encode(decode(s)) = s exactly for minimal s); decoders accepting padded two's-complement strings (NeoVM semantics) are "
        "counted, not flagged",
        "integers above 2^23 are evaluated by TLC on the digit-string layer of the specification, which TLC proves equal to the "
        "integer-arithmetic definition for all |v| < 1100 and around 2^15, 2^16, 2^22, 2^23 (ASSUME SmallIntsOK/SmallBytesOK); Apalache is not used",
        "MustToStorageItem panics for whole balances above (2^64-1)*10^9 by design (outside the representation's range): compared as 'not ok'"])
