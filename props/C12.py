"""C12 — no transaction or pre-execution request can crash the node (NeoVM part: bytecode, syscalls, native arguments)."""
import json

import concurrent.futures

import _neovm as nv
import _neovm_interop as ni
import vf

DEAD = ("crash", "stack-overflow", "oom", "timeout")
SYSCALLS = ["System.Runtime.Serialize", "System.Runtime.Deserialize", "System.Runtime.Notify", "System.Runtime.Log",
            "System.Runtime.GetTime", "System.Runtime.CheckWitness", "Ontology.Native.Invoke", "System.Storage.GetContext",
            "System.Storage.Put", "System.Storage.Get", "System.Storage.Delete", "System.Runtime.GetTrigger",
            "System.ExecutionEngine.GetExecutingScriptHash", "System.ExecutionEngine.GetScriptContainer",
            "System.Blockchain.GetHeight", "System.Contract.Destroy", "Ontology.Runtime.VerifyMutiSig",
            "Ontology.Runtime.Base58ToAddress", "Ontology.Runtime.AddressToBase58", "Ontology.Wasm.InvokeWasm", "System.Transaction.GetHash"]
NATIVE_METHODS = ["init", "transfer", "transferV2", "approve", "transferFrom", "name", "symbol", "decimals", "totalSupply", "balanceOf",
                  "balanceOfV2", "allowance", "unboundOngToGovernance", "regIDWithPublicKey", "addKey", "removeKey", "addRecovery",
                  "getDDO", "getPublicKeys", "verifySignature", "regIDWithController", "revokeID", "addAttributes", "getGlobalParam",
                  "setGlobalParam", "acceptAdmin", "transferAdmin", "createSnapshot", "initContractAdmin", "assignFuncsToRole",
                  "assignOntIDsToRole", "delegate", "withdraw", "verifyToken", "registerCandidate", "authorizeForPeer", "unAuthorizeForPeer",
                  "withdrawOng", "commitDpos", "updateConfig", "quitNode", "getPeerPool", "syncGenesisHeader", "syncBlockHeader",
                  "createCrossChainTx", "processCrossChainTx", "bindProxyHash", "bindAssetHash", "lock", "unlock", "registerSideChain"]


def wrap(n, kind):
    """n nested containers around the integer 1, outermost on top of the stack"""
    if kind == "arr":
        return nv.push_int(1) + (nv.push_int(1) + nv.op("PACK")) * n
    code = nv.push_int(1)
    for _ in range(n):     # X -> struct[X]  (APPEND clones a struct item)
        code += nv.push_int(0) + nv.op("NEWSTRUCT", "DUP", "ROT", "APPEND")
    return code


def dag(w, d):
    code = nv.push_int(1) + nv.push_int(1) + nv.op("PACK")
    for _ in range(d):
        code += nv.op("DUP") * (w - 1) + nv.push_int(w) + nv.op("PACK")
    return code


def skeletons():
    P = []
    jmp0 = b"\x62\x00\x00"
    P.append(("loop:jmp-self", jmp0))
    P.append(("loop:stack-growth", nv.push_int(1) + nv.op("DUP") + b"\x62\xff\xff"))
    P.append(("loop:cat-doubling", nv.push_bytes(b"a" * 64) + nv.op("DUP", "CAT") + b"\x62\xfe\xff"))
    P.append(("loop:append-self", nv.push_int(0) + nv.op("NEWARRAY") + nv.op("DUP", "DUP", "APPEND") + b"\x62\xfd\xff"))
    P.append(("loop:pack-nesting", nv.push_int(1) + nv.push_int(1) + nv.op("PACK") + b"\x62\xfe\xff"))
    P.append(("loop:newmap-growth", nv.op("NEWMAP") + b"\x62\xff\xff"))
    P.append(("recursion:call-self", b"\x65\x00\x00"))
    P.append(("recursion:dcall-self", nv.push_int(0) + b"\x6e"))
    body = nv.op("DUP") + nv.syscall("System.Runtime.Serialize") + nv.op("DROP")
    P.append(("loop:serialize-growth", nv.push_int(1) + nv.push_int(1) + nv.op("PACK") + body + b"\x62" + (-len(body) & 0xFFFF).to_bytes(2, "little")))
    # exponential growth: every round doubles the size of a value (resource guards: MAX_CLONE_LENGTH for struct copies,
    # item size for byte strings, stack / array size limits); the model's statement: FAULT or HALT within the budget
    emptystruct = nv.push_int(0) + nv.op("NEWSTRUCT")
    dbl = nv.op("DUP", "DUP", "APPEND")                       # s.append(copy of s): APPEND stores a deep copy of a struct
    for n in (8, 12, 16, 24, 40):
        P.append(("growth:struct-self-append-leafless:%d" % n, emptystruct + dbl * n))
        P.append(("growth:struct-self-append-leaf:%d" % n, nv.push_int(1) + nv.op("NEWSTRUCT") + dbl * n))
        # s = struct[s, s] through SETITEM (clones the value twice per round)
        rnd = nv.push_int(2) + nv.op("NEWSTRUCT") + nv.op("DUP") + nv.push_int(0) + nv.push_int(3) + nv.op("PICK", "SETITEM") + \
            nv.op("DUP") + nv.push_int(1) + nv.push_int(3) + nv.op("PICK", "SETITEM") + nv.op("SWAP", "DROP")
        P.append(("growth:struct-pair-setitem:%d" % n, emptystruct + rnd * n))
        # the growing struct is also copied into an array element and a map value every round
        sink_copy = nv.op("DUP", "DUP", "APPEND") + nv.push_int(2) + nv.op("PICK") + nv.push_int(0) + nv.push_int(2) + nv.op("PICK", "SETITEM") + \
            nv.push_int(1) + nv.op("PICK") + nv.push_int(0) + nv.push_int(2) + nv.op("PICK", "SETITEM")
        P.append(("growth:struct-into-array-and-map:%d" % n, nv.op("NEWMAP") + nv.push_int(1) + nv.op("NEWARRAY") + emptystruct + sink_copy * n))
        P.append(("growth:array-self-append:%d" % n, nv.push_int(0) + nv.op("NEWARRAY") + dbl * n))
        P.append(("growth:cat-doubling:%d" % n, nv.push_bytes(b"ab") + nv.op("DUP", "CAT") * n))
        P.append(("growth:pack-unpack:%d" % n, nv.push_int(1) + nv.push_int(1) + nv.op("PACK") + (nv.op("DUP", "UNPACK", "DROP") + nv.op("DUP") + nv.push_int(3) + nv.op("PACK")) * n))
    P.append(("growth:struct-self-append-leafless:loop", emptystruct + dbl + b"\x62\xfd\xff"))
    P.append(("growth:cat-doubling:loop", nv.push_bytes(b"ab") + nv.op("DUP", "CAT") + b"\x62\xfe\xff"))
    for kind in ("arr", "str"):
        for n in (9, 10, 11, 12, 1023, 1024, 1025, 1100):
            for cons in ("ser", "native", "notify", "equal", "appendstruct", "unpack", "put"):
                P.append(("nest:%s:%d:%s" % (kind, n, cons), wrap(n, kind) + nv.CONSUMERS[cons]()))
    return P


def random_code(rng):
    ops = list(range(0x4F, 0x61)) + list(range(0x61, 0x6F)) + list(range(0x72, 0xAF)) + list(range(0xC0, 0xCE)) + [0xF0, 0xF1]
    out = b""
    for _ in range(rng.randint(3, 60)):
        m = rng.random()
        if m < 0.12:
            out += nv.push_bytes(bytes(rng.getrandbits(8) for _ in range(rng.choice([0, 1, 2, 8, 20, 33, 34, 76]))))
        elif m < 0.22:
            out += nv.push_int(rng.choice([0, 1, 2, 3, 16, -1, 1024, 1025, 2048, 2 ** 31, 2 ** 63, -2 ** 63, 2 ** 255]))
        elif m < 0.30:
            out += nv.syscall(rng.choice(SYSCALLS))
        elif m < 0.36:
            out += bytes([rng.choice([0x62, 0x63, 0x64, 0x65])]) + (rng.randint(-40, 40) & 0xFFFF).to_bytes(2, "little")
        elif m < 0.40:
            out += bytes([rng.getrandbits(8)])
        elif m < 0.55:
            out += bytes([rng.choice([0xC5, 0xC6, 0xC7, 0xC8, 0xC4, 0xC3, 0x76, 0x78, 0x79, 0x7B, 0x7C, 0xC1, 0xC2])])
        else:
            out += bytes([rng.choice(ops)])
    return out


def random_value(rng, depth=0):
    m = rng.random()
    if depth > 3 or m < 0.45:
        n = rng.choice([0, 1, 2, 8, 20, 21, 32, 33, 40, 100])
        b = bytes(rng.getrandbits(8) for _ in range(n))
        if rng.random() < 0.3 and n:
            b = bytes([rng.choice([0xFD, 0xFE, 0xFF, 0x00, 0x01, 0x14])]) + b[1:]
        return nv.push_bytes(b)
    if m < 0.6:
        return nv.push_int(rng.choice([0, 1, -1, 2 ** 31, 2 ** 63, -2 ** 63, 2 ** 64, 10 ** 18, 2 ** 255, -(2 ** 255)]))
    k = rng.randint(0, 4)
    code = b""
    for _ in range(k):
        code += random_value(rng, depth + 1)
    code += nv.push_int(k) + nv.op("PACK")
    if rng.random() < 0.5:      # as a struct: struct fields are marshalled without a length prefix
        code += nv.push_int(0) + nv.op("NEWSTRUCT", "SWAP") + b""  # [S, A]
        # move the array's elements into the struct one by one is costly; keep one level: struct[array]
        code += nv.op("OVER", "SWAP", "APPEND")
    return code


def native_call(rng):
    addr = bytes(19) + bytes([rng.choice([1, 2, 3, 4, 6, 7, 8, 9, 10, 11, 5, 0])])
    method = rng.choice(NATIVE_METHODS).encode()
    return random_value(rng) + nv.push_bytes(method) + nv.push_bytes(addr) + nv.push_int(rng.choice([0, 0, 0, 1, 255])) + nv.syscall("Ontology.Native.Invoke")


def run(ctx):
    # ---- interop handles (spec/NeoVMInterop.tla): its two TLC runs and its replay run beside the rest of the check
    pool = concurrent.futures.ThreadPoolExecutor(max_workers=2)
    fut_mc = pool.submit(ni.model_check, ctx)
    # ---- the model: totality of the consuming operations on every heap (design), and the as-coded predictions
    fams = [("nc2", "NeoVM_C14.cfg", {"WithMutations": "FALSE"}), ("chain", "NeoVM_C15.cfg", {"NC": "13" if ctx.thorough else "11", "HeapMode": '"chain"', "ChainLens": "{9, 10, 11, 12, 13}" if ctx.thorough else "{10, 11}"})]
    if ctx.thorough:
        fams.append(("nc3", "NeoVM_C15.cfg", {"NC": "3"}))
    rows = {}
    stats = {}
    for name, cfg, consts in fams:
        r, heaps, _ = nv.tlc_rows(ctx, cfg, consts, workers=None)
        if r.status != "ok":
            ctx.infra("TLC did not verify Total on the design model (%s): %s %s %s" % (name, r.status, r.violated, r.errors[:2]))
            continue
        stats[name] = {"distinct": r.distinct, "generated": r.generated, "heaps": len(heaps), "wall": round(r.wall, 1)}
        ctx.log("TLC design %s: %d states, %d heaps, Total holds (every consuming operation ends in ok/err) (%.0fs)" % (name, r.distinct, len(heaps), r.wall))
        for h in heaps:
            rows.setdefault(vf.canon(h["cells"]), h)
    binary = ctx.go_test_bin("smartcontract/test", harness="b_neovm_sc")
    if not rows or not binary:
        fut_mc.result()
        return finish(ctx, stats, 0, {})
    fut_interop = pool.submit(lambda: ni.check(ctx, binary, 1, fut_mc.result()))
    allrows = sorted(rows.values(), key=lambda r: vf.canon(r["cells"]))

    # ---- programs
    progs = []      # dict(fam, cls, hex, preexec, pred)

    def add(fam, cls, code, pred="fast", modes=(False, True), meta=None):
        for pre in modes:
            progs.append({"fam": fam, "cls": cls, "hex": code.hex(), "preexec": pre, "pred": pred, "meta": meta})
    if ctx.replay_in:
        rp = json.load(open(ctx.replay_in))["replay"]
        for p in rp.get("programs", []):
            progs.append({"fam": p.get("fam", "replay"), "cls": p.get("cls", "replay"), "hex": p["hex"], "preexec": p.get("preexec", False), "pred": "single", "meta": None})
    else:
        for r in allrows:
            cons = list(nv.CONSUMERS)
            if len(r["cells"]) > 3:       # long chains: the operations that walk or copy the whole value
                cons = ["ser", "serdeser", "native", "notify", "equal", "appendstruct", "put", "valuesser"]
            for c in cons:
                if c in ("keys", "values", "keysser", "valuesser") and r["cells"][0]["kind"] != "map":
                    continue
                pred = "fast"
                # SETITEM stores a CLONE of a struct value, so a heap whose struct cells are referenced from a slot is
                # not the heap the model describes: its marshalling outcome is not predicted -> sampled, one child each
                struct_ref = any(s != 0 and r["cells"][s - 1]["kind"] == "str" for cell in r["cells"] for s in cell["slots"])
                if c == "native" and struct_ref:
                    pred = "unpredicted"
                elif c == "native" and "diverge" in r["asis"]["nat"]:
                    pred = "fatal"
                elif c in ("ser", "serdeser", "keysser", "valuesser") and "errsize" in r["asis"]["ser"]:
                    pred = "slow"
                cls = nv.shape_class(r)
                if pred == "fatal":
                    cls = "cycle-at-non-first-element:" + nv.marshal_loop_kinds(r["cells"])
                elif pred == "unpredicted":
                    cls = "struct-clone-heap"
                modes = (False, True) if c in ("ser", "native", "notify", "serdeser") else (False,)
                add("heap:" + c, cls, nv.program(r["cells"], c), pred, modes=modes, meta=nv.heap_text(r))
        for name, code in skeletons():
            # the long growth programs run one per child (time / address-space caps): an unguarded doubling kills the process
            big_growth = name.startswith("growth:") and name.rsplit(":", 1)[1] in ("24", "40", "loop")
            add("skeleton", name, code, "single" if big_growth else "fast")
        for (w, d) in ((4, 4), (16, 3), (16, 4)):
            for c in ("native", "ser", "notify", "equal"):
                add("dag:" + c, "shared-subarray-dag:w%d-d%d" % (w, d), dag(w, d) + nv.CONSUMERS[c]())
        for (w, d) in ((64, 6), (1024, 3)):
            for c in ("ser", "notify", "equal"):
                add("dag:" + c, "shared-subarray-dag:w%d-d%d" % (w, d), dag(w, d) + nv.CONSUMERS[c](), "single", modes=(False, True) if ctx.thorough else (False,))
            add("dag:native", "shared-subarray-dag", dag(w, d) + nv.CONSUMERS["native"](), "single")
        # crafted byte strings for System.Runtime.Deserialize: element/length counts at the var-uint extremes
        counts = [bytes([0xFF]) + bytes(7) + b"\x80", b"\xff" * 9, bytes([0xFF]) + b"\xff" * 7 + b"\x7f", bytes([0xFF, 0, 0, 0, 0, 1, 0, 0, 0]),
                  b"\xfe\xff\xff\xff\x7f", b"\xfe\xff\xff\xff\xff", b"\xfe\x00\x00\x01\x00", b"\xfd\xff\xff", b"\xfd\x00\x04", b"\xfd\x01\x04", b"\xfc"]
        for tag in (0x80, 0x81, 0x82, 0x00, 0x02):
            for cnt in counts:
                for tail in (b"", b"\x02\x01\x01", b"\x02\x01\x01" * 4):
                    blob = bytes([tag]) + cnt + tail
                    add("deserialize-bytes", "tag%02x-count%s" % (tag, cnt[:2].hex()), nv.push_bytes(blob) + nv.syscall("System.Runtime.Deserialize"), "fast", modes=(False,))
                    add("deserialize-bytes", "nested-tag%02x-count%s" % (tag, cnt[:2].hex()), nv.push_bytes(b"\x80\x01" + blob) + nv.syscall("System.Runtime.Deserialize"), "fast", modes=(False,))
        n_rand = 4000 if ctx.thorough else 300
        for i in range(n_rand):
            add("random-bytecode", "random", random_code(ctx.rng), "fast", modes=(bool(i % 2),))
        for i in range(n_rand):
            add("random-native-call", "random", native_call(ctx.rng), "fast", modes=(False,))
    for i, p in enumerate(progs):
        p["id"] = i
    GAS = 200000

    def item(p):
        return {"id": p["id"], "hex": p["hex"], "preexec": p["preexec"], "gas": GAS, "reps": 1}
    fast = [item(p) for p in progs if p["pred"] == "fast"]
    nproc = min(vf.NCPU, 8)
    res, deaths = nv.run_children_parallel(ctx, binary, "TestVerifPrograms", fast, "fast", 180, nproc, defop="run")
    ctx.log("fast batch: %d programs, %d answered, %d child deaths" % (len(fast), len(res), deaths))
    # slow + fatal (as predicted by the as-coded model) and the big DAGs: sampled / one child each
    by = {}
    for p in progs:
        if p["pred"] in ("fatal", "slow", "unpredicted"):
            by.setdefault((p["pred"], p["cls"]), []).append(p)
    n_each = 6 if ctx.thorough else 2
    picked = []
    slow_all = [p for k in sorted(by) if k[0] == "slow" for p in by[k]]
    picked += ctx.rng.sample(slow_all, min(len(slow_all), 3 * n_each))
    for k in sorted(by):
        if k[0] != "slow":
            picked += ctx.rng.sample(by[k], min(len(by[k]), n_each if k[0] == "fatal" else 2 * n_each))
    singles = [p for p in progs if p["pred"] == "single"]
    res2 = []
    deaths2 = 0
    with concurrent.futures.ThreadPoolExecutor(max_workers=min(nproc, 6)) as ex:
        futs = [ex.submit(nv.run_child, ctx, binary, "TestVerifPrograms", [item(p)], "single%d" % p["id"], 150, 4, "items", None, "run") for p in picked + singles]
        for f in futs:
            r, d = f.result()
            res2 += r
            deaths2 += d
    ctx.log("predicted fatal/slow and large-DAG programs: %d run one per child (of %d held back), %d child deaths" % (len(picked) + len(singles), sum(len(v) for v in by.values()) + len(singles), deaths2))
    # (a death among the sampled programs means the remaining held-back ones would mostly die too: they stay held back)
    rest = []
    if deaths2 == 0:
        done = {p["id"] for p in picked}
        rest = [item(p) for p in progs if p["pred"] in ("fatal", "slow", "unpredicted") and p["id"] not in done]
        r4, d4 = nv.run_children_parallel(ctx, binary, "TestVerifPrograms", rest, "rest", 180, nproc, defop="run")
        res2 += r4
        ctx.log("held-back programs: %d run, %d child deaths" % (len(rest), d4))

    # ---- directed native scenario on real contract state (ontid: controller removes key index 0)
    scen, scen_deaths = [], 0
    if not ctx.replay_in:
        scen, scen_deaths = nv.run_child(ctx, binary, "TestVerifOntIdIndex0", [{"id": i} for i in range(4)], "ontid", 300, 4, "items", None, "run", 1)
        for o in scen:
            if o["out"] in DEAD:
                ctx.violation("NativeInvoke:ontid.removeKeyByController:key-index-0:process-death",
                              "ontid scenario step %d (regIDWithPublicKey, regIDWithController, removeKeyByController index 1, removeKeyByController index 0 "
                              "with a valid controller proof) -> %s: %s" % (o["id"], o["out"], (o.get("err") or "")[:240]), {"scenario": "TestVerifOntIdIndex0", "step": o["id"]})
        if len([o for o in scen if o["out"] == "ok"]) < 3:
            ctx.infra("ontid scenario did not reach the removeKeyByController step: %s" % [(o.get("step"), o.get("res"), o["out"]) for o in scen])
        elif any(o["out"] == "ok" and o.get("res") != "ok" for o in scen if o["id"] < 2):
            ctx.infra("ontid scenario set-up failed: %s" % [(o.get("step"), o.get("res")) for o in scen])
        ctx.log("ontid scenario: %s" % [(o.get("step", o["id"]), o.get("res", o["out"])[:40]) for o in scen])

    # ---- directed scenario: Contract.Create on a DESTROYED address, then Contract.GetScript / GetStorageContext
    cd_steps = 0
    if not ctx.replay_in:
        for variant, consumer in (("ctx", "GetStorageContext"), ("script", "GetScript")):
            cres, cdeaths = nv.run_child(ctx, binary, "TestVerifContractDestroyed", [{"id": i} for i in range(3)], "cdestroyed-" + variant, 300, 4,
                                         "items", {"VERIF_VARIANT": variant}, "run", 0)
            scen_deaths += cdeaths
            cd_steps += len(cres)
            for o in cres:
                if o["out"] in DEAD:
                    ctx.violation("ContractCreate:destroyed-address:nil-contract-interop:%s:process-death" % consumer,
                                  "deploy a contract, let it destroy itself, then `7 params; Ontology.Contract.Create; %s` (step %d) -> %s: %s"
                                  % (consumer, o["id"], o["out"], (o.get("err") or "")[:240]), {"scenario": "TestVerifContractDestroyed", "variant": variant})
            if [o.get("res") for o in cres if o["id"] < 2 and o["out"] == "ok"] != ["ok", "ok"]:
                ctx.infra("destroyed-contract scenario set-up failed: %s" % [(o.get("step"), o.get("res"), o["out"]) for o in cres])
            ctx.log("destroyed-contract scenario (%s): %s" % (consumer, [(o.get("step", o["id"]), o.get("res", o["out"])[:40]) for o in cres]))

    # ---- oracle: the process survives and every request ends
    viol = {}
    n_ok = n_fault = 0
    for o in res + res2:
        p = progs[o["id"]]
        if o["out"] in DEAD:
            outc = o["out"]
            if p["fam"] == "dag:native" and outc in ("timeout", "oom"):
                outc = "unbounded-expansion"
            elif p["fam"] == "heap:native" and p["pred"] in ("fatal", "unpredicted"):
                outc = "unbounded-recursion"     # stack overflow, or the time limit while the 1 GB stack grows on a loaded machine
            key = "%s:%s:%s" % (p["fam"].replace("heap:native", "NativeInvoke").replace("dag:native", "NativeInvoke"), p["cls"], outc)
            viol.setdefault(key, []).append((p, o))
        elif o["obs"][0]["ok"]:
            n_ok += 1
        else:
            n_fault += 1
    for key in sorted(viol):
        p, o = viol[key][0]
        ctx.violation(key, "program %s (%s, %s, %s mode, gas limit %d) -> %s: %s; %d program(s) of this class"
                      % (p["hex"][:120], p["fam"], p["meta"] or p["cls"], "pre-execution" if p["preexec"] else "transaction", GAS, o["out"], (o.get("err") or "")[:200], len(viol[key])),
                      {"programs": [{"hex": x[0]["hex"], "preexec": x[0]["preexec"], "fam": x[0]["fam"], "cls": x[0]["cls"]} for x in viol[key][:5]]})
    interop = fut_interop.result()
    answered = {o["id"] for o in res + res2}
    expected = {it["id"] for it in fast} | {p["id"] for p in picked + singles} | {it["id"] for it in rest}
    if expected - answered:
        ctx.infra("%d programs were not answered" % len(expected - answered))
    fam_counts = {}
    for p in progs:
        fam_counts[p["fam"].split(":")[0]] = fam_counts.get(p["fam"].split(":")[0], 0) + 1
    if progs:
        p = progs[len(progs) // 3]
        ctx.samples.append({"program": p["hex"][:200], "family": p["fam"], "class": p["cls"], "mode": "preexec" if p["preexec"] else "tx"})
    for key in list(viol)[:3]:
        p, o = viol[key][0]
        ctx.samples.append({"finding": key, "program": p["hex"][:300], "outcome": o["out"]})
    return finish(ctx, stats, len(answered) + interop.get("executed", 0), {
        "interop_handles": interop,
        "programs": len(progs), "programs_executed": len(answered), "families": fam_counts, "halt": n_ok, "fault": n_fault,
        "child_deaths": deaths + deaths2 + scen_deaths, "native_scenario_steps": len(scen) + cd_steps, "held_back_programs_run": len(rest), "gas_limit": GAS,
        "finding_classes": {k: len(v) for k, v in viol.items()},
    })


def finish(ctx, stats, n, extra):
    cov = {"states": ctx.stats["states"], "transitions": ctx.stats["transitions"], "traces_validated_against_impl": n, "tlc_runs": stats}
    cov.update(extra)
    ctx.finish("model_checking", cov, [
        "the specification is a value-graph / resource-guard model: it generates the adversarial heaps and states totality; it is not a model of all NeoVM semantics (DESIGN.md section 5)",
        "scope of this check: NeoVM bytecode through SmartContract.NewExecuteEngine().Invoke() in transaction mode (gas limit 200000) and pre-execution mode (step limit), "
        "syscalls into runtime/storage/native contracts on an empty in-memory ledger state; EVM bytecode and WASM are not exercised",
        "a program counts as hanging when one run produces no result for 150 s wall clock (180 s inside a batch) (the same programs need < 1 s when they fault properly)",
        "programs on which the as-coded model predicts a fatal run are sampled per structural class (each costs a process)",
        "interop handles (spec/NeoVMInterop.tla): one handle on the stack at a time; targets = one stored block / transaction / contract, one "
        "contract deployed and destroyed inside the script, absent heights / hashes / addresses; real ledger with genesis + 1 block; the legacy "
        "syscall table is reached by running with the main-network id below CONTRACT_DEPRECATE_API_HEIGHT; a Go panic is caught by the harness "
        "(outside the code under test) and counted as the death of the node, because nothing recovers on the node's execution paths",
    ])
