"""Shared machinery for the signature-checking properties C16, C17 (spec/SigTx.tla), C23 (spec/SigScript.tla),
C32, C33 (spec/SigHeader.tla).  Builder: b-sig.

Binding scheme (all five): TLC enumerates the bounded input space exhaustively and prints one self-contained ROW
per transition (input, action, model outcome, property-level facts computed by the specification).  The Go
harness executes every row's input on the real code with real keys and signatures.  Oracle:
  * real code accepts where the specification's PROPERTY predicate is false      -> ctx.violation (exit 1)
  * real code differs from the specification's model of the code otherwise       -> model drift, ctx.infra (exit 2)
A counterexample TLC finds in the specification alone is never a verdict."""
import json
import os
import vf

# key-type bindings for the abstract keys 1..3 (must be nondecreasing in keypair.SortPublicKeys order:
# ECDSA by curve label p224 < p256 < p384 < p521 < k1(secp256k1), then sm2, ed (Ed25519), eth (PK_ETHECDSA))
KT_FAST = ["p256", "p256", "p256"]
KT_MIX = [["p256", "k1", "ed"], ["p224", "p384", "sm2"], ["p256", "p521", "eth"], ["p256", "sm2", "eth"]]


def parallel(*thunks):
    """run independent steps (TLC runs, Go build) side by side; results in order.  Starts are staggered because
    ctx.tlc numbers its scratch directories with an unsynchronised counter."""
    import threading
    import time
    res = [None] * len(thunks)
    errs = []

    def wrap(i, f):
        try:
            res[i] = f()
        except BaseException as e:  # noqa
            errs.append(e)
    ths = []
    for i, f in enumerate(thunks):
        th = threading.Thread(target=wrap, args=(i, f))
        th.start()
        ths.append(th)
        time.sleep(0.7)
    for th in ths:
        th.join()
    if errs:
        raise errs[0]
    return res


def tx_from_tuple(t):
    kind, i, sets = t
    out = []
    for s in sets:
        form, keys, m, menc, n, nenc, sigs = s
        out.append({"form": form, "keys": [{"v": k[0], "enc": k[1], "push": k[2]} for k in keys], "m": m, "menc": menc,
                    "n": n, "nenc": nenc, "sigs": [{"kind": g[0], "by": g[1]} for g in sigs]})
    return {"payer": {"kind": kind, "i": i}, "sets": out}


def short_tx(tx):
    """compact human-readable form used in keys/details"""
    parts = []
    for s in tx["sets"]:
        ks = ",".join("%d%s%s" % (k["v"], "" if k["enc"] == "c" else ":" + k["enc"], "" if k["push"] == "direct" else ":" + k["push"])
                      for k in s["keys"])
        sg = ",".join(g["kind"] + (str(g["by"]) if g["by"] else "") for g in s["sigs"])
        if s["form"] == "single":
            parts.append("sig[%s](%s)" % (ks, sg))
        else:
            parts.append("%d%s-of-[%s]n=%d%s(%s)" % (s["m"], "" if s["menc"] == "op" else ":" + s["menc"], ks, s["n"],
                                                      "" if s["nenc"] == "op" else ":" + s["nenc"], sg))
    pre = "" if tx.get("pre", "fresh") == "fresh" else " [object history: %s]" % tx["pre"]
    return "payer=%s%s %s%s" % (tx["payer"]["kind"], tx["payer"]["i"] or "", " ".join(parts), pre)


def run_tlc_rows(ctx, module, cfg, workers=None, timeout=1500, files=None):
    """Run TLC with a ROW-exporting config.  Rows are self-contained, so several workers may print concurrently;
    every ROW line must still decode (a torn line is an infrastructure failure)."""
    w = workers if workers is not None else min(vf.NCPU, 8)
    r = ctx.tlc(module, cfg=cfg, workers=w, timeout=timeout, files=files)
    if r.status != "ok":
        ctx.infra("TLC did not verify %s: status=%s violated=%s %s" % (cfg, r.status, r.violated, r.errors[:2]))
        return None, []
    rows = r.prints.get("ROW", [])
    bad = [x for x in rows if not isinstance(x, list)]
    if bad:
        ctx.infra("%d ROW lines of %s did not decode (torn output?)" % (len(bad), cfg))
        return None, []
    ctx.log("TLC %s: %d generated, %d distinct, depth %d, %d rows, %.1fs" % (cfg, r.generated, r.distinct, r.depth, len(rows), r.wall))
    return r, rows


def run_tlc_plain(ctx, module, cfg, what, timeout=1500, files=None):
    """Pure model-checking run (no export) of the design variant: the property itself must be an invariant."""
    r = ctx.tlc(module, cfg=cfg, timeout=timeout, files=files)
    if r.status != "ok":
        ctx.infra("TLC did not verify %s (%s): status=%s violated=%s %s" % (cfg, what, r.status, r.violated, r.errors[:2]))
        return None
    ctx.log("TLC %s (%s): %d generated, %d distinct, %.1fs" % (cfg, what, r.generated, r.distinct, r.wall))
    return r


def go_rows(ctx, binary, test, inp, tag, timeout=1500):
    fin = os.path.join(ctx.scratch, "%s.in.json" % tag)
    fout = os.path.join(ctx.scratch, "%s.out.ndjson" % tag)
    vf.write_json(fin, inp)
    rc, out = ctx.run_bin(binary, test, env={"VERIF_IN": fin, "VERIF_OUT": fout}, timeout=timeout)
    if rc != 0:
        ctx.infra("harness %s (%s) failed rc=%s" % (test, tag, rc))
        return None
    res = vf.read_ndjson(fout)
    if not res or not res[-1].get("done"):
        ctx.infra("harness %s (%s) did not finish" % (test, tag))
        return None
    return res


# --------------------------------------------------------------------------------------------- SigTx (C16, C17)
def split_tx_rows(rows):
    V, X, M = [], [], []
    for r in rows:
        if r[0] == "V":
            tx = tx_from_tuple(r[1])
            tx["pre"] = r[7] if len(r) > 7 else "fresh"
            V.append({"tx": tx, "mut": r[2], "v": r[3], "ok": r[4], "dup": r[5], "exact": r[6], "pre": tx["pre"],
                      "malex": r[8] if len(r) > 8 else False})
        elif r[0] == "X":
            X.append({"tx": dict(tx_from_tuple(r[1]), pre="fresh"), "same": r[2], "nraw": r[3], "nsigned": r[4], "canon": r[5],
                      # the model's signer accounts (facts.accts) as realisable descriptors, and signed = accts in the model
                      "accts": [{"form": a[0], "keys": a[1], "m": a[2]} for a in r[6]] if len(r) > 6 else [],
                      "sacc": r[7] if len(r) > 7 else True})
        elif r[0] == "M":
            M.append({"tx": tx_from_tuple(r[1]), "name": r[2], "i": r[3], "j": r[4], "tx2": tx_from_tuple(r[5])})
    return V, X, M


MAL_KINDS = ("me", "mo", "mt", "ml", "mw")


def has_malformed(tx):
    """the abstract transaction holds a malformed signature blob (SigBase!Malformed)"""
    return any(g["kind"] in MAL_KINDS for s in tx["sets"] for g in s["sigs"])


def run_sigtx(ctx, binary, ktypes, txs, muts, tag, sample=4, malfull=False):
    res = go_rows(ctx, binary, "TestVerifSigTx", {"ktypes": ktypes, "txs": txs, "muts": muts, "sample": sample, "malfull": malfull}, tag)
    if res is None:
        return None, None
    meta = res[0]
    if meta.get("encBad"):
        ctx.infra("harness encoding table is wrong for %s: %s" % (ktypes, meta["encBad"]))
        return None, None
    obs = [o for o in res[1:] if "dec" in o]
    mobs = [o for o in res[1:] if "tried" in o]
    if len(obs) != len(txs) or len(mobs) != len(muts):
        ctx.infra("harness %s returned %d/%d observations, %d/%d mutation results" % (tag, len(obs), len(txs), len(mobs), len(muts)))
        return None, None
    return obs, mobs


def enc_classes(tx, ktypes):
    """structural description of what is non-canonical in a transaction's scripts (for finding keys)"""
    cls = set()
    for s in tx["sets"]:
        vals = [k["v"] for k in s["keys"]]
        if s["form"] == "single":
            if ktypes[vals[0] - 1] == "eth":
                cls.add("single:ethereum-type-key")
        else:
            if len(s["sigs"]) > s["m"]:
                cls.add("multi:surplus-signatures")
            if vals != sorted(vals):
                cls.add("multi:unsorted-keys")
            elif len(set(vals)) != len(vals):
                cls.add("multi:duplicate-key")      # sorted duplicates: the builders reproduce the same bytes
            if s["nenc"] != "op" and s["n"] <= 16:
                cls.add("multi:n-pushed-as-bytes")
        for k in s["keys"]:
            if k["enc"] != "c":
                cls.add("%s:pubkey-encoding-%s" % (s["form"], {"u": "uncompressed", "t": "typed-p256", "x": "trailing-bytes"}.get(k["enc"], k["enc"])))
            if k["push"] != "direct":
                cls.add("%s:pubkey-push-%s" % (s["form"], {"d1": "PUSHDATA1", "d2": "PUSHDATA2", "d4": "PUSHDATA4"}[k["push"]]))
    return sorted(cls)


# --------------------------------------------------------------------------------------------- SigHeader (C32, C33)
HDR_CFG = """SPECIFICATION Spec
CONSTANTS
  N = %(N)d
  PeerSetSizes = %(sizes)s
  C = %(C)d
  LedgerSigsVerified = %(sv)d
  LedgerMinDistinct = %(md)d
  SyncMinListLen = %(ml)d
  MaskByPosition = %(mask)s
  Which = "%(which)s"
  MaxBk = %(maxbk)d
  MaxSigs = %(maxsigs)d
  MaxOutsiders = %(outs)d
  SigSlack = %(slack)d
  AlignOpts = %(align)d
  SyncMinListTab = %(mltab)s
  SyncSigsTab = %(svtab)s
  QuorumPads = %(qpads)s
  QuorumBelow = %(qbelow)d
  QuorumShort = %(qshort)d
INVARIANTS %(inv)s
%(edge)s
CHECK_DEADLOCK FALSE
"""


def hdr_cfg(N, C, sv, md, ml, mask, which, maxbk, maxsigs, inv, edge, outs=1, slack=0, align=0,
            sizes=None, mltab=None, svtab=None, qpads=(), qbelow=1, qshort=1):
    """sizes: the peer-set sizes covered (default: just N).  mltab {size: shortest list taken} and svtab {(size, list
    length L): signatures verified m} as probed from header_sync (None/{} = ml for every size / the design: all L).
    qpads, qbelow, qshort: the quorum-mode enumeration of SigHeader (C33), off by default."""
    tlaset = lambda xs: "{" + ", ".join(xs) + "}"
    return HDR_CFG % dict(N=N, C=C, sv=sv, md=md, ml=ml, mask="TRUE" if mask else "FALSE", which=which, maxbk=maxbk,
                          maxsigs=maxsigs, inv=inv, edge="ACTION_CONSTRAINT Edge" if edge else "", outs=outs, slack=slack, align=align,
                          sizes=tlaset(str(x) for x in sorted(sizes or [N])),
                          mltab=tlaset(str(p_ * 100 + l) for p_, l in sorted((mltab or {}).items())),
                          svtab=tlaset(str(p_ * 10000 + L * 100 + m) for (p_, L), m in sorted((svtab or {}).items())),
                          qpads=tlaset('"%s"' % k for k in qpads), qbelow=qbelow, qshort=qshort)


def G(k):
    return ["g", k]


X = ["x", 0]


def first_accepted(obs, what, ctx):
    for j, o in enumerate(obs):
        if o["acc"]:
            return j
    ctx.infra("probe %s: the real code accepted none of the probe headers" % what)
    return None


def hdr_rows(rows):
    return [{"which": r[1], "bk": r[2], "sigs": r[3], "acc": r[4], "ok": r[5], "dup": r[6], "n": r[7] if len(r) > 7 else None}
            for r in rows if r[0] == "H"]


def hdr_str(h):
    return "bookkeepers=%s sigs=[%s]" % (h["bk"], ",".join(s[0] + (str(s[1]) if s[1] else "") for s in h["sigs"]))


# --------------------------------------------------------------------------------------------- SigEpoch (stateful C32/C33)
def epoch_phase(ctx, binary, which, cfg, test, inp_extra, design_cfg=None, asfound_cfg=None):
    """TLC enumerates all histories of MaxSteps header steps (spec/SigEpoch.tla); every maximal history is replayed on the
    real code.  Returns (histories, steps, unsound) or None."""
    jobs = [lambda: run_tlc_rows(ctx, "SigEpoch_MC", cfg)]
    if design_cfg:
        jobs.append(lambda: run_tlc_plain(ctx, "SigEpoch_MC", design_cfg, "design: EpochSound"))
    if asfound_cfg:
        # model self-test: with the named deviation of a repaired finding switched ON, TLC must find the counterexample
        jobs.append(lambda: ctx.tlc("SigEpoch_MC", cfg=asfound_cfg, timeout=900))
    res = parallel(*jobs)
    r, rows = res[0]
    if asfound_cfg:
        af = res[-1]
        if af.status != "violation" or af.violated != "EpochSound":
            ctx.infra("SigEpoch self-test: %s (deviation on) should violate EpochSound, got status=%s violated=%s" % (asfound_cfg, af.status, af.violated))
        else:
            ctx.log("TLC %s (as-found deviation on): counterexample to EpochSound found, as expected" % asfound_cfg)
    if not r:
        return None
    paths = [[{"op": s[0], "height": s[1], "signers": sorted(s[2]), "cfg": sorted(s[3]), "lastcfg": s[4], "acc": s[5], "ok": s[6],
               "stale": s[7]} for s in row] for row in rows]
    if not paths or not any(s["acc"] for p in paths for s in p) or not any(not s["acc"] for p in paths for s in p):
        ctx.infra("vacuous SigEpoch run (%s)" % which)
        return None
    inp = dict(inp_extra, paths=[[{k: s[k] for k in ("op", "height", "signers", "cfg", "lastcfg")} for s in p] for p in paths])
    out = go_rows(ctx, binary, test, inp, "epoch-" + which)
    if out is None:
        return None
    obs = [o for o in out[1:] if "p" in o]
    if len(obs) != len(paths):
        ctx.infra("epoch harness returned %d/%d histories" % (len(obs), len(paths)))
        return None
    drift = []
    nsteps = unsound = 0
    seen = set()
    for p, o in zip(paths, obs):
        stale_before = False
        for i, s in enumerate(p):
            nsteps += 1
            real = o["acc"][i]
            desc = " ; ".join("%s(h=%d signers=%s%s%s)->%s" % (q["op"], q["height"], q["signers"], " newpeers=%s" % q["cfg"] if q["cfg"] else "",
                                                            " lastcfg=%d" % q["lastcfg"] if which == "ledger" else "",
                                                            "acc" if o["acc"][j] else "rej") for j, q in enumerate(p[:i + 1]))
            if real and not s["ok"]:
                unsound += 1
                if which == "ledger":
                    key = ("%s:unsound-accept:superseded-configuration-via-LastConfigBlockNum" % s["op"]) if (s["stale"] or stale_before) \
                        else "%s:unsound-accept:peer-set-not-in-force" % s["op"]
                else:
                    key = "SyncBlockHeader:unsound-accept:peer-set-not-in-force"
                if (key, desc) not in seen:
                    seen.add((key, desc))
                    ctx.violation(key, {"history": desc, "model_accepts": s["acc"]}, {"which": which, "steps": p[:i + 1], "extra": inp_extra})
            if real != s["acc"]:
                if not (real and not s["ok"]):
                    drift.append((desc, "real=%s model=%s err=%s" % (real, s["acc"], o["err"][i])))
                break                      # the real state has left the model's history
            if real and s["stale"]:
                stale_before = True
    if drift:
        ctx.infra("MODEL-DRIFT (SigEpoch %s): %d histories, e.g. %s" % (which, len(drift), drift[:2]))
    ctx.log("SigEpoch %s: %d histories / %d steps replayed, %d unsound accepts" % (which, len(paths), nsteps, unsound))
    ctx.samples.append({"history": [(s["op"], s["height"], s["signers"], s["cfg"], s["acc"]) for s in paths[len(paths) // 2]]})
    return len(paths), nsteps, unsound
