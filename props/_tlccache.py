"""Development aid (mutation testing): with VERIF_TLC_CACHE=1 the result of a TLC run whose inputs (all spec files of the
module family, the generated cfg, simulation parameters, seed) are unchanged is taken from build/cache instead of
re-running TLC.  TLC never sees the Go tree, so this changes nothing for a mutant run.  Off by default: every normal
check run executes TLC."""
import glob
import hashlib
import json
import os
import types
import vf


def run(ctx, module, family, cfg_name, cfg_text=None, simulate=None, depth=None, workers=None, timeout=1700, tags_needed=True):
    use = os.environ.get("VERIF_TLC_CACHE") == "1"
    path = None
    if use:
        h = hashlib.sha256()
        for f in sorted(glob.glob(os.path.join(vf.VERIF, "spec", family + "*"))):
            h.update(open(f, "rb").read())
        h.update(repr((module, cfg_name, cfg_text, simulate, depth, ctx.seed if simulate else 0)).encode())
        os.makedirs(os.path.join(vf.VERIF, "build", "cache"), exist_ok=True)
        path = os.path.join(vf.VERIF, "build", "cache", h.hexdigest()[:24] + ".json")
        if os.path.exists(path):
            d = json.load(open(path))
            r = types.SimpleNamespace(**d)
            ctx.stats["states"] += r.distinct
            ctx.stats["transitions"] += r.generated
            ctx.log("(TLC result for %s taken from build/cache: VERIF_TLC_CACHE=1)" % cfg_name)
            return r
    files = {cfg_name: cfg_text} if cfg_text is not None else None
    r = ctx.tlc(module, cfg=cfg_name, files=files, workers=workers, timeout=timeout, simulate=simulate, depth=depth)
    if use and r.status in ("ok",) or (use and simulate and r.status == "error" and not r.errors):
        json.dump({"status": r.status, "violated": r.violated, "errors": r.errors, "prints": r.prints if tags_needed else {},
                   "generated": r.generated, "distinct": r.distinct, "depth": r.depth, "wall": r.wall}, open(path, "w"))
    return r
