"""C40 — chain queries agree with each other for every stored block."""
import _ledgerquery as lq


def run(ctx):
    if ctx.replay_in:
        lq.replay_mode(ctx)
    try:
        lq.standard(ctx, "C40", ("LedgerQuery_C40.cfg", "LedgerQuery_C40t.cfg"), ["Submit:ok", "Restart"], {"views", "history"},
                    tv=({"ntraces": 3, "nsteps": 40}, {"ntraces": 10, "nsteps": 80}), extra=long_chain,
                    assumptions=["queries compared: GetBlockHash, GetBlockByHeight, GetBlockByHash, GetHeaderByHash, GetHeaderByHeight, "
                                 "GetRawHeaderByHash, GetTransaction (+height), IsContainBlock/Transaction, byte equality with the committed block",
                                 "the model's header index window is 2 in the exhaustive run and the real 2000 in the validated traces"])
    finally:
        lq.cleanup(ctx)


def long_chain(ctx, binary, bits):
    """a chain longer than the 2000-entry header index window, with restarts around the window boundary
    (thorough tier only)"""
    if not ctx.thorough:
        return
    n = 2100
    restarts = [1990, 2005, 2050]
    tp = lq.trace_run(ctx, binary, "c40-long", ntraces=1, mode="long", longn=n, restarts=restarts)
    if tp:
        v = lq.trace_check(ctx, tp, "C40-long", timeout=2400)
        ctx.extra["long_chain_blocks"] = n
        ctx.extra["long_chain_events_matched"] = v["matched"]
        ctx.log("long chain (%d blocks): %d/%d events matched" % (n, v["matched"], v["total"]))
