"""C40 — chain queries agree with each other for every stored block."""
import os
import _ledgerquery as lq
import vf


def run(ctx):
    if ctx.replay_in:
        lq.replay_mode(ctx)
    try:
        lq.standard(ctx, "C40", ("LedgerQuery_C40.cfg", "LedgerQuery_C40t.cfg"), ["Submit:ok", "Restart"], {"views", "history"},
                    tv=({"ntraces": 2, "nsteps": 40}, {"ntraces": 10, "nsteps": 80}), extra=long_chain,
                    assumptions=["queries compared: GetBlockHash, GetBlockByHeight, GetBlockByHash, GetHeaderByHash, GetHeaderByHeight, "
                                 "GetRawHeaderByHash, GetTransaction (+height), IsContainBlock/Transaction, byte equality with the committed block",
                                 "the model's header index window is 2 in the exhaustive run and the real 2000 in the validated traces"])
    finally:
        lq.cleanup(ctx)


def long_chain(ctx, binary, bits):
    """a chain longer than the 2000-entry header index window, with restarts around the window boundary
    (thorough: every block observed; quick: bulk build, restart, last blocks observed)"""
    if ctx.thorough:
        n, restarts, mode = 2100, [1990, 2005, 2050], "long"
    else:
        # quick: 2002 empty blocks committed in bulk, then restart at 2003 and three more observed blocks: after the
        # restart the header index cache holds exactly the last 2000 heights and older ones must come from the store
        n, restarts, mode = 2006, [2003], "window"
    tp = lq.trace_run(ctx, binary, "c40-long", ntraces=1, mode=mode, longn=n, restarts=restarts)
    if not tp:
        return
    # every event of the long run: the (sampled) query views must name the committed chain.  Block ids are the sequences
    # of shape names, so the event at height h carries O(h) data and TLC validates only a prefix of this trace; the
    # window arithmetic itself is covered exhaustively by the model with W = 2 and by the replay above.
    ev = vf.read_ndjson(tp)
    names, nchk = [], 0
    for k, e in enumerate(ev[1:], 1):
        if e["event"] == "Bulk":
            names.extend(e["names"])
            continue
        if e["event"] == "Submit" and e["res"] == "ok":
            names.append(e["shape"]["name"])
        bad = None
        if e["res"] != "ok":
            bad = ("result", e.get("res"))
        elif e["problems"] or e["missed"]:
            bad = ("views-disagree", {"problems": e["problems"], "missed": e["missed"]})
        elif e["cur"] != len(names) or e["curId"] != names or e["hdrLast"] != len(names) or e["above"] != ["none"]:
            bad = ("current", {"cur": e["cur"], "expected": len(names), "hdrLast": e["hdrLast"], "above": e["above"]})
        else:
            for v in e["views"]:
                h = v["h"]
                if v["id"] != names[:h] or v["hdrHeight"] != h or any(x != h for x in v["txh"]) or \
                        (h > 0 and any(t[0] != names[:h] for t in v["body"])):
                    bad = ("view", {"h": h, "id_len": len(v["id"]), "hdrHeight": v["hdrHeight"], "txh": v["txh"]})
                    break
                nchk += 1
        if bad:
            ctx.violation("long-chain:%s:%s" % (e["event"], bad[0]), {"event_index": k, "height": e.get("cur"), "detail": bad[1]},
                          {"long_chain": {"n": n, "restarts": restarts}, "upto_event": k})
            break
    v = {"matched": 0}
    if mode == "long":
        prefix = os.path.join(ctx.scratch, "trace-c40-long-prefix.ndjson")
        with open(tp) as f, open(prefix, "w") as g:
            for i, line in enumerate(f):
                if i < 260:
                    g.write(line)
        v = lq.trace_check(ctx, prefix, "C40-long", timeout=1500)
    if nchk < 10 or len(names) < 2001:
        ctx.infra("long chain run is vacuous: %d blocks, %d views" % (len(names), nchk))
    ctx.extra["long_chain_blocks"] = len(names)
    ctx.extra["long_chain_views_checked"] = nchk
    ctx.extra["long_chain_events_validated_by_tlc"] = v["matched"]
    ctx.stats["traces"] += 1
    ctx.log("long chain: %d blocks, %d sampled views compared with the committed chain; TLC validated the first %d events" % (len(names), nchk, v["matched"]))
