"""C25 — cross-VM parameter codec round-trips and rejects malformed input (spec/CrossVM.tla)."""
import json
import os
import re
import threading
import vf

HARNESS = "b_codecB_crossvm"
PKG = "vm/crossvm_codec"
FN = {"Encode": "EncodeValue", "Decode": "DecodeValue", "Call": "DeserializeCallParam", "Notify": "DeserializeNotify"}


def run_cases(ctx, binary, cases, tag):
    fin = os.path.join(ctx.scratch, "cases-%s.in.json" % tag)
    fout = os.path.join(ctx.scratch, "cases-%s.out.ndjson" % tag)
    vf.write_json(fin, {"cases": cases})
    prog = os.path.join(ctx.scratch, "progress-%s" % tag)
    rc, out = ctx.run_bin(binary, "TestVerifCrossVMCases", env={"VERIF_IN": fin, "VERIF_OUT": fout, "VERIF_PROGRESS": prog}, timeout=900)
    if rc != 0:
        # panics are recovered in the harness: a dead process is a fatal error (out of memory, stack overflow) of the codec
        last = open(prog).read().strip() if os.path.exists(prog) else None
        if last is not None and ("out of memory" in out or "fatal error" in out or rc == -9):
            c = cases[int(last)]
            ctx.violation("%s:process-died:%s" % (FN[c["name"]], c["kind"]), {"rc": rc, "tail": out[-400:], "case": c}, {"case": c})
        else:
            ctx.infra("crossvm harness failed rc=%s" % rc)
        return None
    obs = vf.read_ndjson(fout)
    if len(obs) != len(cases):
        ctx.infra("harness reported %d of %d cases" % (len(obs), len(cases)))
        return None
    return obs


def judge(ctx, cases, obs):
    stats = {}
    for c, o in zip(cases, obs):
        fn = FN[c["name"]]
        k = (c["name"], c["kind"], c["res"])
        stats[k] = stats.get(k, 0) + 1
        real = o["res"]
        rp = {"case": c}
        slim = {x: c[x] for x in c if x not in ("back", "reenc")}
        if real.startswith("panic"):
            ctx.violation("%s:panic:%s" % (fn, c["kind"]), {"panic": real, "case": slim}, rp)
        elif c["name"] == "Encode":
            if real != "ok" or o.get("bad"):
                ctx.violation("%s:roundtrip:%s" % (fn, c["val"]["t"]), {"real": real, "diff": o.get("bad"), "case": slim}, rp)
        elif c["res"] == "ok" and real == "ok":
            if o.get("bad"):
                ctx.violation("%s:wrong-value:%s" % (fn, c["kind"]), {"diff": o["bad"], "case": slim}, rp)
        elif c["res"] == "ok":
            if c["kind"] in ("goodprefix", "trail"):
                ctx.violation("%s:valid-encoding-rejected:%s" % (fn, c["kind"]), {"real": real, "case": slim}, rp)
            else:
                ctx.infra("MODEL-DRIFT %s rejects (%s) an input the specification accepts: %s" % (fn, real, slim))
        elif real == "ok":
            if c["kind"] == "badprefix" and c["in"][:{"Call": 1, "Notify": 4}[c["name"]]] != {"Call": [0], "Notify": [101, 118, 116, 0]}[c["name"]]:
                ctx.violation("%s:wrong-prefix-accepted" % fn, {"case": slim}, rp)
            elif o.get("canon") is False or o.get("bad"):
                # accepted although malformed, and the decoded value does not encode back to the input
                ctx.violation("%s:malformed-accepted:%s" % (fn, c["kind"]), {"diff": o.get("bad"), "spec": c["res"], "case": slim}, rp)
            else:
                ctx.infra("MODEL-DRIFT %s accepts an input the specification rejects (%s): %s" % (fn, c["res"], slim))
        elif real != c["res"]:
            ctx.infra("MODEL-DRIFT %s returns error '%s', specification '%s': %s" % (fn, real, c["res"], slim))
    return stats


def deep(ctx, binary, depth, kind, entry, expect):
    """child process: nesting chain; death of the child is an observed outcome"""
    rc, out = ctx.run_bin(binary, "TestVerifCrossVMDeep", env={"VERIF_DEPTH": depth, "VERIF_KIND": kind, "VERIF_ENTRY": entry},
                          timeout=300, quiet=True)
    m = re.search(r"DEEP-RESULT (\{.*\})", out)
    key_fn = {"decode": "DecodeValue", "call": "DeserializeCallParam", "notify": "DeserializeNotify"}[entry]
    rp = {"deep": {"depth": depth, "kind": kind, "entry": entry}}
    if not m:
        what = "fatal-stack-overflow" if "stack overflow" in out else ("timeout" if rc == -9 else "process-died")
        ctx.violation("%s:%s:depth-%d" % (key_fn, what, depth),
                      {"outcome": what, "rc": rc, "input_bytes": depth * 5 + 2, "tail": out[-300:]}, rp)
        return {"depth": depth, "kind": kind, "entry": entry, "outcome": what}
    r = json.loads(m.group(1))
    if r["res"].startswith("panic"):
        ctx.violation("%s:panic:depth-%d" % (key_fn, depth), r, rp)
    elif r["res"] != expect or (expect == "ok" and entry != "notify" and r["nested"] != depth):
        if expect == "ok":
            ctx.violation("%s:valid-encoding-rejected:depth-%d" % (key_fn, depth), r, rp)
        else:
            ctx.violation("%s:malformed-accepted:depth-%d" % (key_fn, depth), r, rp)
    r.update({"kind": kind, "entry": entry, "outcome": r["res"]})
    return r


# ------------------------------------------------------------------------------------------- histories
HIST_ACTIONS = ("EncodeValue", "EncodeList", "EncodeBigInt", "EncodePar", "Decode", "Compare", "Release")


def parallel(ctx, jobs):
    """thunks in threads (TLC runs and the go build are subprocesses); ctx.tlc numbers its staging directories
    with a counter, so that part is serialized"""
    if not getattr(ctx, "_c25_locked", False):
        lock, orig = threading.Lock(), ctx.stage_specs

        def staged(extra_files=None):
            with lock:
                return orig(extra_files)
        ctx.stage_specs = staged
        ctx._c25_locked = True
    res, errs = [None] * len(jobs), []

    def w(i, f):
        try:
            res[i] = f()
        except Exception as e:  # noqa
            errs.append(e)
    ts = [threading.Thread(target=w, args=(i, f)) for i, f in enumerate(jobs)]
    for t in ts:
        t.start()
    for t in ts:
        t.join()
    if errs:
        raise errs[0]
    return res


def hist_paths(ctx, r, cfg):
    """behaviours of HistSpec (calls with retained results) covering every transition TLC generated"""
    if r.status != "ok":
        ctx.infra("TLC did not verify %s: status=%s violated=%s %s" % (cfg, r.status, r.violated, r.errors[:2]))
        return [], 0
    edges, inits = r.prints.get("EDGE", []), r.prints.get("INIT", [])
    names = {e["act"]["name"] for e in edges}
    missing = [a for a in HIST_ACTIONS if a not in names]
    if missing:
        ctx.infra("vacuous model run %s: actions never taken: %s" % (cfg, missing))
    paths, ncov = ctx.cover(edges, inits, max_len=40)
    ctx.log("TLC %s: %d states, %d transitions, covered %d by %d behaviours, %.1fs" % (cfg, r.distinct, len(edges), ncov, len(paths), r.wall))
    if ncov < len(edges):
        ctx.infra("history cover incomplete: %d of %d transitions" % (ncov, len(edges)))
    return paths, len(edges)


def run_hist(ctx, binary, paths, tag):
    fin = os.path.join(ctx.scratch, "hist-%s.in.json" % tag)
    fout = os.path.join(ctx.scratch, "hist-%s.out.ndjson" % tag)
    vf.write_json(fin, {"paths": paths})
    rc, out = ctx.run_bin(binary, "TestVerifCrossVMHist", env={"VERIF_IN": fin, "VERIF_OUT": fout}, timeout=900)
    if rc != 0:
        ctx.infra("crossvm history harness failed rc=%s %s" % (rc, out[-300:]))
        return None
    obs = vf.read_ndjson(fout)
    if len(obs) != len(paths):
        ctx.infra("history harness reported %d of %d behaviours" % (len(obs), len(paths)))
        return None
    return obs


def judge_hist(ctx, paths, obs):
    """every deviation was observed on the real codec while it was driven along a behaviour of the specification"""
    steps = 0
    for p, o in zip(paths, obs):
        steps += o.get("steps", 0)
        cut = {"init": p["init"], "steps": p["steps"][:o.get("steps", 0) + 1]}
        if o["res"].startswith("panic"):
            a = p["steps"][min(o.get("steps", 0), len(p["steps"]) - 1)]["act"]
            ctx.violation("%s:panic:history" % a["name"], {"panic": o["res"], "act": a}, {"hist": cut})
        elif o["res"] != "ok":
            ctx.infra("history harness: %s" % o["res"])
        for b in o.get("bad") or []:
            cut = {"init": p["init"], "steps": p["steps"][:b["step"] + 1]}
            calls = [s["act"]["name"] for s in cut["steps"]]
            key = "%s:%s:after-%s" % (b["api"], b["what"], b["act"])
            if len(ctx.violations) >= 30 and any(k == key for k, _, _ in ctx.violations):
                continue    # every violation writes a replay file; a broken tree fails on most behaviours
            ctx.violation(key,
                          {"retained_index": b["idx"], "returned_by_step": b["born"], "observed_after_step": b["step"],
                           "calls": calls, "detail": b["detail"]}, {"hist": cut})
    return steps


def run(ctx):
    if ctx.replay_in:
        binary = ctx.go_test_bin(PKG, harness=HARNESS)
    if ctx.replay_in and binary:
        rp = json.load(open(ctx.replay_in))["replay"]
        if "deep" in rp:
            d = rp["deep"]
            deep(ctx, binary, d["depth"], d["kind"], d["entry"], "ok" if d["kind"] == "closed" else "format")
        elif "hist" in rp:
            obs = run_hist(ctx, binary, [rp["hist"]], "rp")
            if obs:
                judge_hist(ctx, [rp["hist"]], obs)
        else:
            obs = run_cases(ctx, binary, [rp["case"]], "rp")
            if obs:
                judge(ctx, [rp["case"]], obs)
        ctx.finish("model_checking", {"states": 0, "transitions": 0, "traces_validated_against_impl": 1, "replay_of": ctx.replay_in})
    cfg = "CrossVM_C25t.cfg" if ctx.thorough else "CrossVM_C25.cfg"
    hcfg = "CrossVM_C25ht.cfg" if ctx.thorough else "CrossVM_C25h.cfg"
    # the single-call cases, the histories of calls with retained results, the negative control of the histories
    # (deviation SinkReuse: a recycled scratch sink must violate Stable) and the build of the harness, side by side
    binary, r, rh, rneg = parallel(ctx, [
        lambda: ctx.go_test_bin(PKG, harness=HARNESS),
        lambda: ctx.tlc("CrossVM_MC", cfg=cfg, workers=1, timeout=2400),
        lambda: ctx.tlc("CrossVM_MC", cfg=hcfg, workers=1, timeout=2400),
        lambda: ctx.tlc("CrossVM_MC", cfg="CrossVM_C25hneg.cfg", workers=2, timeout=1200)])
    cases, stats, deeps = [], {}, []
    neg_ok = rneg.status == "violation" and rneg.violated == "Stable"
    if not neg_ok:
        ctx.infra("negative control: the specification with a recycled scratch sink (SinkReuse) does not violate Stable: %s %s %s" %
                  (rneg.status, rneg.violated, rneg.errors[:2]))
    hpaths, hedges = hist_paths(ctx, rh, hcfg)
    hsteps = 0
    if binary and hpaths:
        hobs = run_hist(ctx, binary, hpaths, "c25h")
        if hobs:
            hsteps = judge_hist(ctx, hpaths, hobs)
            ctx.log("executed %d behaviours (%d calls with retained results) on the real codec" % (len(hobs), hsteps))
            if hsteps < hedges and not ctx.violations:
                ctx.infra("history replay stopped early: %d steps executed for %d transitions" % (hsteps, hedges))
            ctx.samples.append({"history": [s["act"]["name"] for s in hpaths[0]["steps"][:12]], "real": hobs[0]["res"]})
    if r.status != "ok":
        ctx.infra("TLC did not verify %s: status=%s violated=%s %s" % (cfg, r.status, r.violated, r.errors[:2]))
    else:
        cases = [e["act"] for e in r.prints.get("EDGE", [])]
        ctx.log("TLC %s: %d cases generated, %.1fs" % (cfg, r.generated, r.wall))
        names = {c["name"] for c in cases}
        kinds = {c["kind"] for c in cases}
        missing = [a for a in ("Encode", "Decode", "Call", "Notify") if a not in names] + \
                  [k for k in ("byte", "trunc", "count", "trail", "goodprefix", "badprefix") if k not in kinds]
        if missing:
            ctx.infra("vacuous model run: never generated: %s" % missing)
    if binary and cases:
        obs = run_cases(ctx, binary, cases, "c25")
        if obs:
            stats = judge(ctx, cases, obs)
            nok = sum(1 for o in obs if o["res"] == "ok")
            ctx.log("executed %d cases on the real codec: %d accepted, %d rejected" % (len(obs), nok, len(obs) - nok))
            if nok == 0 or nok == len(obs):
                ctx.infra("vacuous: the real decoder gives the same answer on every case")
            for i in (0, len(cases) // 3, 2 * len(cases) // 3):
                ctx.samples.append({"case": {x: cases[i][x] for x in cases[i] if x not in ("back", "reenc")}, "real": obs[i]["res"]})
    if binary:
        # excessive nesting, in a child process (the specification accepts the closed chain and rejects
        # the open one at every depth; TLC checks depths up to MaxNest)
        plan = [(10000, "closed", "decode"), (10000, "open", "decode"), (200000, "closed", "decode"), (200000, "open", "call"),
                (200000, "closed", "notify")]
        if ctx.thorough:
            plan += [(2000000, "closed", "decode"), (2000000, "open", "decode"), (2000000, "closed", "call"),
                     (6000000, "closed", "decode"), (6000000, "open", "decode")]
        for depth, kind, entry in plan:
            d = deep(ctx, binary, depth, kind, entry, "ok" if kind == "closed" else "format")
            deeps.append(d)
            ctx.log("nesting depth %d (%s, %s): %s" % (depth, kind, entry, d.get("outcome")))
    ctx.finish("model_checking", {
        "states": ctx.stats["states"], "transitions": ctx.stats["transitions"],
        "traces_validated_against_impl": len(cases) + len(deeps) + len(hpaths),
        "history_behaviours": len(hpaths), "history_transitions": hedges, "history_steps_executed": hsteps,
        "negative_control_violated": {"SinkReuse": neg_ok},
        "cases_by_kind": {"%s/%s/%s" % k: v for k, v in sorted(stats.items())},
        "deep_nesting_runs": deeps, "constants": {"cfg": cfg, "history_cfg": hcfg}, "exhaustive": True,
    }, ["bytes are modelled exactly (sequences of 0..255); u32 counts >= 2^30 are one abstract value HUGE (no enumerated input is that long)",
        "128-bit integers are compared as 16-byte two's-complement strings; the harness converts to/from big.Int with math/big only",
        "which of the two error values is returned is compared but is not part of the property (a difference is reported as model drift, exit 2)",
        "nesting beyond MaxNest is checked on the real code only (child process); the specification's answer for chains of singleton lists is extrapolated from the enumerated depths",
        "histories: at most MaxKept (3) encodings are held at a time, over 6 (thorough 9) values of different encoded lengths; the two goroutines of EncodePar are compared only after both have returned (race-free oracle); which goroutine runs first is not controlled",
        "callers bound the input: WASM memory is capped at 10 MiB (WASM_MEM_LIMITATION), notify payloads by MAX_NOTIFY_LENGTH"])
