"""C06 — native token operations conserve supply and respect authorization (spec/Token.tla).

MC: TLC on Token (invariants Conserved, NonNeg, TypeOK; action properties DebitAuthorized, AllowanceRespected,
    FailedCallIsNoOp, CrossToken), exhaustive within the bounds of the configs below, incl. one config with
    free accrued-ONG grants in both unbound phases.
RP: every TLC edge of the grant-free configs is replayed on the real ont/ong native contracts (NativeCall on a
    transaction cache over a block overlay of a real genesis ledger) and ALL balances/allowances are read back
    and compared with the model's post-state after every step.
TV: seeded random histories (both tokens, V1/V2 methods, multi-state transfers, random signer sets, block
    times crossing the unbound deadline) are validated by TLC against Token_Trace, which also evaluates the
    step forms of the properties on the recorded behaviour; binding self-test.
"""
import threading

import _token as tk


def run(ctx):
    users2, users3 = ["A", "B"], ["A", "B", "C"]
    sf, huge = 2, 99
    if ctx.thorough:
        cfgs = {"Token_C06ontT.cfg": users3, "Token_C06ongT.cfg": users3, "Token_C06ontD.cfg": users2,
                "Token_C06post.cfg": users2, "Token_C06multi.cfg": users2}
        ucfg = "Token_C06ut.cfg"
    else:
        cfgs = {"Token_C06ont.cfg": users2, "Token_C06ong.cfg": users2}
        ucfg = "Token_C06u.cfg"
    box = {}

    def do_build():
        box["bin"] = tk.build(ctx)

    def do_u():
        box["u"] = ctx.tlc("Token_MC", cfg=ucfg, workers=max(2, tk.vf.NCPU // 2), timeout=1500)

    tb = threading.Thread(target=do_build)
    tb.start()
    tu = threading.Thread(target=do_u)
    tu.start()
    mc = tk.model_check_many(ctx, list(cfgs))
    tb.join()
    tu.join()
    binary = box.get("bin")
    ru = box["u"]
    if ru.status != "ok":
        ctx.infra("TLC did not verify %s: status=%s violated=%s %s" % (ucfg, ru.status, ru.violated, ru.errors[:2]))
    else:
        ctx.log("TLC %s (free grants, both phases): %d generated, %d distinct, depth %d, %.1fs" % (ucfg, ru.generated, ru.distinct, ru.depth, ru.wall))
    npaths = nsteps = 0
    counts = {}
    sample = None
    if mc and binary:
        results = {}

        def do_replay(cfg, users):
            r, edges, inits = mc[cfg]
            paths, ncov = ctx.cover(edges, inits, max_len=80)
            nedges = len({(tk.vf.canon(e["from"]), tk.vf.canon(e["act"]), tk.vf.canon(e["to"])) for e in edges})
            if ncov != nedges:
                ctx.infra("%s: edge cover incomplete (%d of %d)" % (cfg, ncov, nedges))
            ctx.log("%s cover: %d paths, %d steps, %d edges" % (cfg, len(paths), sum(len(p["steps"]) for p in paths), ncov))
            obs = tk.replay(ctx, binary, paths, users, sf, huge, cfg[:-4])
            results[cfg] = (paths, obs)

        ths = [threading.Thread(target=do_replay, args=(c, u)) for c, u in cfgs.items()]
        for th in ths:
            th.start()
        for th in ths:
            th.join()
        for cfg, users in cfgs.items():
            if cfg not in results:
                ctx.infra("replay of %s did not complete" % cfg)
                continue
            paths, obs = results[cfg]
            n, cnt = tk.check_replay(ctx, paths, obs, users, sf, huge)
            nsteps += n
            npaths += len(paths)
            for k, v in cnt.items():
                kk = "%s.%s.%s" % (k[0], k[1], "ok" if k[2] else "fail")
                counts[kk] = counts.get(kk, 0) + v
            if paths and sample is None:
                sample = {"replayed_path": [s["act"] for s in paths[0]["steps"][:4]]}
        ctx.log("replayed %d steps on %d paths: %s" % (nsteps, npaths, counts))
    ntr = nev = 0
    if binary:
        ntr, nst = (80, 150) if ctx.thorough else (12, 100)
        tp = tk.trace_run(ctx, binary, users3, 100, 2000000000, ntr, nst, "c06")
        if tp:
            v = tk.trace_check(ctx, tp)
            if v:
                nev = v["total"]
                ctx.log("trace validation: %d/%d events matched" % (v["matched"], v["total"]))
                if v["accepted"]:
                    tk.self_test(ctx, tp)
            ctx.samples.append({"trace_event": tk.vf.read_ndjson(tp)[2]})
    ctx.samples.append(sample or "(none)")
    ctx.finish("model_checking", {
        "states": ctx.stats["states"], "transitions": ctx.stats["transitions"],
        "traces_validated_against_impl": npaths + ntr, "trace_events": nev,
        "replayed_steps": nsteps, "replayed_calls_by_kind": counts,
        "constants": {"cfgs": list(cfgs) + [ucfg], "SF_replay": sf, "SF_trace": 100, "trace_users": users3},
        "exhaustive": True,
    }, ["cryptographic witness = membership of the address in the transaction's signature address list (Transaction.SignedAddr, what CheckWitness reads)",
        "Polaris network id with a single-bookkeeper genesis (all height switches passed; unbound deadline present); in-process real ledger store",
        "the ONT contract's ONG balance (10^18 units) is represented by its deviation from the initial value; its exhaustion is only modelled in TLC",
        "amount quantum: 10^9/SF of the smallest unit; every amount used is a multiple, so the model's integers are exact"])
