"""C13 — NeoVM integer opcodes compute exact integer results within bounds."""
import json

import _neovm_int as ni
import vf

CORE = {"0", "1", "-1", "MinI64", "MaxI64", "MaxI64+1", "2^256-1", "-(2^256-1)", "2^256"}


def run(ctx):
    # ---- 1. model-check the oracle itself on a small VM
    laws = ctx.tlc("NeoVMInt_MC", cfg="NeoVMInt_Lawst.cfg" if ctx.thorough else "NeoVMInt_Laws.cfg", timeout=1500)
    if laws.status != "ok":
        ctx.infra("TLC did not verify the laws of NeoVMInt on the small VM: %s %s %s" % (laws.status, laws.violated, laws.errors[:2]))
    else:
        ctx.log("TLC laws: %d states, all laws hold (%.0fs)" % (laws.distinct, laws.wall))

    # ---- 2. rows
    if ctx.replay_in:
        rp = json.load(open(ctx.replay_in))["replay"]
        rows = [{"op": r["op"], "arg": [int(a) for a in r["arg"]], "cls": r.get("cls", []), "src": "replay"} for r in rp["rows"]]
    else:
        rows = ni.rows_from_tlc(ctx, "NeoVMInt_Rowst.cfg" if ctx.thorough else "NeoVMInt_Rows.cfg")
        n_tlc = len(rows)
        rows += ni.random_rows(ctx.rng, 5000 if ctx.thorough else 800)
    alias_rows = [r for r in rows if r.get("kind") == "alias"]
    rows = [r for r in rows if r.get("kind") != "alias"]
    for i, r in enumerate(rows):
        r["id"] = i
    for i, r in enumerate(alias_rows):
        r["id"] = i
    if not rows:
        ctx.infra("no rows")
        return finish(ctx, {}, 0)

    # ---- 3. real code
    be = ctx.go_test_bin("vm/neovm", harness="b_neovm_exec")
    bt = ctx.go_test_bin("vm/neovm/types", harness="b_neovm_types")
    if not be or not bt:
        return finish(ctx, {}, 0)
    obs = ni.run_go(ctx, be, "TestVerifIntOps", rows, "exec") + ni.run_go(ctx, bt, "TestVerifIntVal", rows, "types")

    aobs = ni.run_alias(ctx, be, alias_rows) if alias_rows else []

    # ---- 4. classify with the mirror (scheduling only)
    conform = {}   # tuple -> example (row, rep)
    suspects = {}  # key -> {tuple: (row, rep)}
    n_exec = 0
    noncanon = 0
    n_alias = 0
    for o in aobs:          # "operands are values" rows: result as usual, plus every kept reference unchanged
        if not o.get("built"):
            continue
        n_exec += 1
        n_alias += 1
        row = alias_rows[o["id"]]
        rep = "kept-" + row["keep"]
        if o.get("panic"):
            ctx.violation("%s:%s:%s:panic" % (row["op"], "/".join(ni.class_of(a) for a in row["arg"]), rep),
                          "Go panic %r on %s %s" % (o["panic"], row["op"], row["arg"]), {"rows": [strrow(row)], "rep": rep})
            continue
        gf = bool(o["fault"])
        gv = 0 if gf else int(o["val"])
        ef, ev = ni.mirror(row["op"], row["arg"])
        t = (row["op"], tuple(row["arg"]), gf, gv)
        if gf == ef and (gf or gv == ev):
            conform.setdefault(t, (row, rep))
        else:
            suspects.setdefault(ni.finding_key(row, rep, gf, gv, ef, ev), {}).setdefault(t, (row, rep))
        for i, k in enumerate(o.get("kept") or []):
            if int(k) != row["arg"][i]:
                suspects.setdefault("%s:operand-aliasing:%s:kept-reference-changed" % (row["op"], row["keep"]), {}) \
                    .setdefault(("KEPT", (row["arg"][i],), False, int(k)), (row, rep))
    for o in obs:
        if not o.get("built"):
            continue
        n_exec += 1
        row = rows[o["id"]]
        rep = o["rep"]
        if o.get("panic"):
            ctx.violation("%s:%s:%s:panic" % (row["op"], "/".join(ni.class_of(a) for a in row["arg"]), rep),
                          "Go panic %r on %s %s" % (o["panic"], row["op"], row["arg"]), {"rows": [strrow(row)], "rep": rep})
            continue
        gf = bool(o["fault"])
        if not gf and o.get("val", "") == "":
            ctx.violation("%s:%s:non-numeric-result" % (row["op"], rep), "no numeric result: %s" % o, {"rows": [strrow(row)], "rep": rep})
            continue
        gv = 0 if gf else int(o["val"])
        if rep == "normal" and not gf and not o.get("canon", True):
            noncanon += 1
        ef, ev = ni.mirror(row["op"], row["arg"])
        t = (row["op"], tuple(row["arg"]), gf, gv)
        if gf == ef and (gf or gv == ev):
            conform.setdefault(t, (row, rep))
        else:
            suspects.setdefault(ni.finding_key(row, rep, gf, gv, ef, ev), {}).setdefault(t, (row, rep))
    ctx.log("%d executions on the real code: %d distinct conforming outcomes, %d suspect outcomes in %d classes"
            % (n_exec, len(conform), sum(len(v) for v in suspects.values()), len(suspects)))

    # ---- 5. choose what Apalache evaluates
    conf_list = sorted(conform.keys(), key=lambda t: (t[0], [str(x) for x in t[1]], t[2], t[3]))
    if ctx.replay_in:
        chosen = conf_list
    else:
        budget = 4000 if ctx.thorough else 300
        core = [t for t in conf_list if set(conform[t][0]["cls"]) <= CORE and conform[t][0]["src"] == "tlc"]
        if len(core) > budget // 2:
            core = ctx.rng.sample(core, budget // 2)
        rest = [t for t in conf_list if t not in set(core)]
        # per-opcode balance among the remaining budget
        ctx.rng.shuffle(rest)
        chosen = core + rest[:max(0, budget - len(core))]
    susp_groups = []      # (keys, tuples, lookup): suspects of several classes share a module (<=100 rows)
    dev_groups = []
    flat = []
    for key, d in sorted(suspects.items()):
        ts = sorted(d.keys(), key=lambda t: (t[0], [str(x) for x in t[1]], t[2], t[3]))
        if len(ts) > 60 and not ctx.thorough:
            ts = ts[:20] + ctx.rng.sample(ts[20:], 40)
        flat += [(key, t, d[t]) for t in ts]
        if key in ni.DEVIATION_KEYS:
            dev_groups.append((key, ts[:100], d))
    for i in range(0, len(flat), 100):
        part = flat[i:i + 100]
        susp_groups.append((sorted({k for k, _, _ in part}), [t for _, t, _ in part], part))
    # ---- 6. TLC: digit-wise bitwise evaluation for every bitwise tuple that goes to Apalache
    bit_tuples = []
    for t in chosen + [t for (_, ts, _) in susp_groups for t in ts]:
        if t[0] in ni.BITOPS and ni.fits(t[1][0]) and ni.fits(t[1][1]):
            k = (t[0], t[1][0], t[1][1])
            if k not in bit_tuples:
                bit_tuples.append(k)
    limb_res, _ = ni.tlc_limb_rows(ctx, bit_tuples)
    if len(limb_res) != len(bit_tuples):
        return finish(ctx, {}, n_exec)
    limb_vals = sorted({v for (_, a, b) in bit_tuples for v in (a, b)})

    # ---- 7. Apalache
    jobs = []
    exprs = ni.limb_dict_exprs(limb_vals) + [ni.row_expr(t, limb_res) for t in chosen]
    chunks = [exprs[i:i + 100] for i in range(0, len(exprs), 100)]
    for i, ch in enumerate(chunks):
        jobs.append({"name": "NeoVMIntTab_T%03d" % i, "text": ni.apalache_module("NeoVMIntTab_T%03d" % i, ch), "kind": "conform"})
    for i, (keys, ts, part) in enumerate(susp_groups):
        nm = "NeoVMIntTab_S%03d" % i
        jobs.append({"name": nm, "text": ni.apalache_module(nm, [ni.row_expr(t, limb_res) for t in ts], negate=True), "kind": "suspect", "keys": keys, "part": part})
    for i, (key, ts, d) in enumerate(dev_groups):
        nm = "NeoVMIntTab_D%03d" % i
        jobs.append({"name": nm, "text": ni.apalache_module(nm, [ni.row_expr(t, limb_res) for t in ts], deviation=True), "kind": "deviation", "key": key, "ts": ts, "d": d})
    ctx.log("Apalache: %d modules (%d conformance rows in %d chunks, %d suspect groups)" % (len(jobs), len(exprs), len(chunks), len(susp_groups)))
    res = ni.run_apalache_jobs(ctx, jobs, min(vf.NCPU, 10))
    discharged = 0
    cmd = ""
    for j in jobs:
        st, wall, cmd = res[j["name"]]
        if j["kind"] == "conform":
            if st == "ok":
                discharged += 1
            elif st == "violation":
                ctx.infra("MODEL-DRIFT: the specification rejects a row of %s on which the Go result and the python mirror agree "
                          "(triage the spec / mirror; see build/run/%s-%s/apa/%s)" % (j["name"], ctx.pid, ctx.tier, j["name"]))
            else:
                ctx.infra("apalache %s on %s" % (st, j["name"]))
        elif j["kind"] == "suspect":
            if st == "ok":   # every row of the module is refuted by the specification -> genuine deviations of the real code
                discharged += 1
                for key in j["keys"]:
                    mine = [(t, rr) for (k, t, rr) in j["part"] if k == key]
                    t0, (row, rep) = mine[0]
                    ef, ev = ni.mirror(row["op"], row["arg"])
                    detail = "%s %s (%s, rep=%s): Go %s, specification %s; %d outcome(s) of this class refuted by Apalache" % (
                        row["op"], [str(a) for a in row["arg"]], "/".join(row["cls"]), rep,
                        "FAULT" if t0[2] else t0[3], "FAULT" if ef else ev, len(suspects[key]))
                    if t0[0] == "KEPT":
                        detail = "%s %s (%s): the second reference (%s) to operand %s reads %s after the opcode; %d case(s) refuted by Apalache (NeoVMInt!Kept)" % (
                            row["op"], [str(a) for a in row["arg"]], "/".join(row["cls"]), rep, t0[1][0], t0[3], len(suspects[key]))
                    ctx.violation(key, detail, {"rows": [strrow(rr[0]) for (_, rr) in mine[:20]], "rep": rep})
            elif st == "violation":
                ctx.infra("MODEL-DRIFT: python mirror disagrees with the specification on a row of %s (keys %s)" % (j["name"], j["keys"][:5]))
            else:
                ctx.infra("apalache %s on %s" % (st, j["name"]))
        else:  # the named-deviation variant of the specification must explain these outcomes exactly
            if st == "ok":
                discharged += 1
            elif st == "violation":
                row, rep = j["d"][j["ts"][0]]
                ctx.violation(j["key"] + ":inexact", "outcomes of class %s are not even explained by the named deviation (result not exact)" % j["key"],
                              {"rows": [strrow(j["d"][t][0]) for t in j["ts"][:20]], "rep": rep})
            else:
                ctx.infra("apalache %s on %s" % (st, j["name"]))
    if conf_list:
        row, rep = conform[conf_list[len(conf_list) // 3]]
        ctx.samples.append({"row": strrow(row), "rep": rep, "go": "conforms"})
    for key, d in list(suspects.items())[:3]:
        t = next(iter(d))
        ctx.samples.append({"suspect_key": key, "row": strrow(d[t][0]), "go_fault": t[2], "go_val": str(t[3])})
    return finish(ctx, {
        "rows_enumerated_by_tlc": sum(1 for r in rows if r["src"] == "tlc"), "rows_random": sum(1 for r in rows if r["src"] == "random"),
        "distinct_conforming_outcomes": len(conform), "suspect_classes": sorted(suspects.keys()),
        "apalache_modules": len(jobs), "apalache_modules_discharged": discharged, "apalache_rows": len(exprs) + len(flat),
        "bitwise_rows_evaluated_by_tlc": len(bit_tuples), "operands_are_values_rows": n_alias, "noncanonical_results": noncanon,
        "apalache_cmd": cmd, "laws_states": laws.distinct,
    }, n_exec)


def strrow(row):
    return {"op": row["op"], "arg": [str(a) for a in row["arg"]], "cls": row.get("cls", [])}


def finish(ctx, extra, n_exec):
    cov = {"states": ctx.stats["states"], "transitions": ctx.stats["transitions"], "traces_validated_against_impl": n_exec}
    cov.update(extra)
    ctx.finish("model_checking", cov, [
        "Bound = 2^256 on the magnitude (len(|v|.Bytes()) <= 32); SHL faults for a shift count > 256 (VM operand limit)",
        "Apalache evaluates the TLA+ result functions on every selected row; the python mirror only schedules (agreeing rows are "
        "sampled per seed, disagreeing rows are all evaluated); TLC checks the laws on a small VM (Bound 2^4 / 2^5) and the digit-wise bitwise rows",
        "operands as int64/big.Int values and as byte arrays at the Executor; normal and forced big.Int form at IntValue",
    ])
