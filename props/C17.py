"""C17 — a transaction authorizes the same accounts on every node (spec/SigTx.tla, action ExecFresh)."""
import _sigcheck as sc

PRIORITY = ["single:ethereum-type-key", "pubkey-encoding", "pubkey-push", "multi:unsorted-keys", "multi:n-pushed-as-bytes"]


def primary_class(tx, ktypes, first=()):
    cls = sc.enc_classes(tx, ktypes)
    for p in list(first) + PRIORITY:
        for c in cls:
            if p in c:
                return c
    return "canonical-script"


def run(ctx):
    if ctx.replay_in:
        return replay(ctx)
    # key 1 = P-256, key 2 = another EC key, key 3 = a key with a single encoding (Ethereum-type or Ed25519).
    # Deviation switches OFF (RawScriptFallback was repaired by 7a71c155): SameSigners itself is the invariant, one
    # TLC run serves every key-type binding (the rows do not depend on which keys are Ethereum-type any more)
    if ctx.thorough:
        kts = [["p256", "k1", "eth"], ["p256", "p384", "ed"], ["p256", "sm2", "eth"], ["p256", "p521", "ed"], ["p256", "p521", "eth"]]
    else:
        kts = [["p256", ["k1", "p384", "sm2"][ctx.seed % 3], "eth"], ["p256", "p384", "ed"]]
    binds = [("SigTx_C17.cfg", kt) for kt in kts]
    cfgs = ["SigTx_C17.cfg"]
    res = sc.parallel(
        lambda: ctx.go_test_bin("core/validation", harness="b_sig_validation"),
        lambda: sc.run_tlc_rows(ctx, "SigTx_MC", "SigTx_C17.cfg"),
        # model self-test: were the validator to derive the multi-signature account from the number of signatures
        # supplied, the input class "surplus signatures" must refute SignersAreScriptAccounts
        lambda: ctx.tlc("SigTx_MC", cfg="SigTx_C17_selftest.cfg", workers=2, timeout=900))
    d, binary = res[1][0], res[0]
    st = res[2]
    if st.status != "violation" or st.violated != "SignersAreScriptAccounts":
        ctx.infra("SigTx self-test: SigTx_C17_selftest.cfg (AddrBySigCount on) should violate SignersAreScriptAccounts, got status=%s violated=%s"
                  % (st.status, st.violated))
    else:
        ctx.log("TLC SigTx_C17_selftest.cfg (AddrBySigCount on): counterexample to SignersAreScriptAccounts found, as expected")
    rows_of = {"SigTx_C17.cfg": res[1]}
    nexec = nacc = ndiff = cand = nsurplus = 0
    per = {}
    classes = {}
    if binary and all(rows_of[c][0] for c in cfgs):
        for cfg, kt in binds:
            V, X, M = sc.split_tx_rows(rows_of[cfg][1])
            if not X or not all(x["same"] for x in X) or not any(not x["canon"] for x in X) or not all(x["sacc"] for x in X) \
                    or not any(surplus(x["tx"]) for x in X):
                ctx.infra("vacuous model run %s: %d ExecFresh rows" % (cfg, len(X)))
                continue
            xmap = {vf_canon(x["tx"]): x for x in X}
            cand = max(cand, sum(1 for x in X if not x["same"]))
            # every transaction carries the model's signer accounts (facts.accts) where the model accepts it
            txs = [dict(v["tx"], accts=xmap[vf_canon(v["tx"])]["accts"]) if vf_canon(v["tx"]) in xmap else v["tx"] for v in V]
            obs, _ = sc.run_sigtx(ctx, binary, kt, txs, [], "c17-" + "-".join(kt))
            if obs is None:
                continue
            drift = []
            acc = diff = 0
            for v, o in zip(V, obs):
                tx = v["tx"]
                if o.get("panic"):
                    ctx.infra("panic on %s: %s" % (sc.short_tx(tx), o["panic"]))
                    continue
                if o["acc"] != v["v"]:
                    if o["acc"] and not v["ok"]:
                        ctx.violation("VerifyTransaction:unsound-accept-in-C17-space", {"tx": sc.short_tx(tx), "ktypes": kt}, {"ktypes": kt, "tx": tx})
                    else:
                        drift.append((sc.short_tx(tx), "real accept=%s model=%s" % (o["acc"], v["v"])))
                    continue
                if not o["acc"]:
                    continue
                acc += 1
                x = xmap.get(vf_canon(tx))
                if x is None:
                    ctx.infra("no ExecFresh row for accepted %s" % sc.short_tx(tx))
                    continue
                signed, fresh, model = sorted(set(o["signed"])), sorted(set(o["raw"])), sorted(set(o["model"]))
                real_same = fresh == signed
                nsurplus += surplus(tx)
                # CheckWitness is the contract-visible face of the same sets
                cw_same = all(o["cwFresh"]) and all(o["cwVal"])
                if real_same != cw_same:
                    ctx.infra("CheckWitness disagrees with GetSignatureAddresses on %s" % sc.short_tx(tx))
                if not real_same:
                    diff += 1
                    # the model's signer accounts tell which of the two derivations left the script's accounts
                    if signed != model and fresh == model:
                        c = primary_class(tx, kt, first=["multi:surplus-signatures"])
                        key = "VerifyTransaction:validated-signers-differ-from-script-accounts:%s" % c
                    else:
                        c = primary_class(tx, kt)
                        key = "GetSignatureAddresses:differs-from-validated-signers:%s" % c
                    classes[c] = classes.get(c, 0) + 1
                    ctx.violation(key,
                                  {"tx": sc.short_tx(tx), "ktypes": kt, "validated": o["signed"], "fresh_decode": o["raw"],
                                   "model_signer_accounts": o["model"], "all_noncanonical_features": sc.enc_classes(tx, kt)},
                                  {"ktypes": kt, "tx": dict(tx, accts=x["accts"]), "model_same": x["same"]})
                    if x["same"]:
                        drift.append((sc.short_tx(tx), "signer sets differ on the real code but not in the model"))
                elif not x["same"]:
                    drift.append((sc.short_tx(tx), "signer sets differ in the model (RawScriptFallback) but not on the real code"))
                elif signed != model:
                    # both nodes agree with each other (C17 holds) but not with the accounts the scripts stand for
                    drift.append((sc.short_tx(tx), "validated = fresh-decode signers %s differ from the model's signer accounts %s" % (signed, model)))
            if drift:
                ctx.infra("MODEL-DRIFT (%s %s): %d rows, e.g. %s" % (cfg, kt, len(drift), drift[:3]))
            nexec += len(obs); nacc += acc; ndiff += diff
            per["/".join(kt)] = {"rows": len(obs), "accepted": acc, "signer_sets_differ": diff}
            ctx.log("%s %s: %d rows executed, %d accepted, %d with raw != validated signers" % (cfg, kt, len(obs), acc, diff))
            if X:
                ctx.samples.append({"row": sc.short_tx(X[len(X) // 3]["tx"]), "model_same_signers": X[len(X) // 3]["same"]})
    ctx.finish("model_checking", {
        "states": ctx.stats["states"], "transitions": ctx.stats["transitions"],
        "traces_validated_against_impl": nexec, "accepted_by_real_code": nacc, "signer_sets_differ_on_real_code": ndiff,
        "accepted_with_surplus_signatures": nsurplus, "model_self_test": "SigTx_C17_selftest.cfg (AddrBySigCount on) refutes SignersAreScriptAccounts",
        "tlc_candidates_against_property": cand, "classes_of_difference": classes, "per_key_types": per,
        "exhaustive": True, "deviation_switches": {"MaskByPosition": False, "RawScriptFallback": False},
    }, ["ideal cryptography", "fresh decode = types.TransactionFromRawBytes of the same bytes on a node that did not run VerifyTransaction (block sync path); validator = the object VerifyTransaction was called on",
        "public-key encodings enumerated: canonical, uncompressed, explicitly typed P-256, trailing byte; pushes PUSHBYTESn/PUSHDATA1/2/4; n as opcode or pushed bytes; every key order incl. duplicates",
        "surplus signatures: m-of-n scripts (n = 2..3, every key order) carrying m < sn <= n + 1 honest signatures, alone and next to a single-key set that covers the payer; three signer sets compared: validator (SignedAddr), fresh decode (GetSignatureAddresses), the model's signer accounts realised with the builder"])


def surplus(tx):
    return any(s["form"] == "multi" and len(s["sigs"]) > s["m"] for s in tx["sets"])


def vf_canon(x):
    import vf
    return vf.canon(x)


def replay(ctx):
    import json, sys
    rec = json.load(open(ctx.replay_in))["replay"]
    binary = ctx.go_test_bin("core/validation", harness="b_sig_validation")
    if not binary:
        sys.exit(2)
    obs, _ = sc.run_sigtx(ctx, binary, rec["ktypes"], [rec["tx"]], [], "replay")
    if obs is None:
        sys.exit(2)
    o = obs[0]
    bad = o["acc"] and sorted(set(o["raw"])) != sorted(set(o["signed"]))
    print("REPLAY property=C17 %s: validated=%s fresh_decode=%s" % ("VIOLATION reproduced" if bad else "not reproduced", o["signed"], o["raw"]))
    sys.exit(1 if bad else 0)
