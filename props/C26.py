"""C26 — block-root merkle tree gives verifiable inclusion and consistency proofs (spec/Merkle.tla, Part A)."""
import json
import _merkle as mk

INV = ["RootOK", "FileOK", "ProofGenOK", "CompleteOK"]
PROPS = ["InclSoundOK", "ConsSoundOK", "DeviationOK"]
ACTS = ["Append", "TornAppend", "Reload", "GenIncl", "GenCons", "VerifyIncl", "VerifyCons"]


def judge(ctx, paths, mism, verd):
    nv = {"VerifyIncl": 0, "VerifyCons": 0}
    muts = {}
    for (pi, si, act, r) in mism:
        ctx.violation("%s:%s" % (act["name"], r["what"]), {"real": r.get("real"), "expected": r.get("exp"), "act": act},
                      mk.minimal(paths, pi, si))
    for (pi, si, act, real) in verd:
        name = act["name"]
        nv[name] += 1
        muts[(name, act["mut"])] = muts.get((name, act["mut"]), 0) + 1
        fn = "VerifyLeafHashInclusion" if name == "VerifyIncl" else "VerifyConsistency"
        design = act["res"]
        if real == design:
            continue
        case = {k: act[k] for k in act if k not in ("name", "ref")}
        if isinstance(real, str):
            ctx.violation("%s:panic:%s" % (fn, act["mut"]), {"panic": real, "case": case}, mk.minimal(paths, pi, si))
        elif name == "VerifyCons" and real == act["resc"]:
            # the named deviations of the specification, reproduced on the real code
            dev = ("old-size-zero-shortcut" if act["m"] == 0 else
                   "equal-size-ignores-proof" if act["m"] == act["s"] else "equal-roots-shortcut")
            ctx.violation("%s:%s:altered-%s-accepted" % (fn, dev, act["mut"]),
                          {"case": case, "design": design, "real": real}, mk.minimal(paths, pi, si))
        elif real:
            ctx.violation("%s:altered-%s-accepted" % (fn, act["mut"]), {"case": case}, mk.minimal(paths, pi, si))
        elif act["mut"] == "none":
            ctx.violation("%s:valid-proof-rejected" % fn, {"case": case}, mk.minimal(paths, pi, si))
        else:
            # the real verifier is stricter than the model on an altered input: not against the property,
            # but the model no longer describes the code
            ctx.infra("MODEL-DRIFT %s rejects a shape-preserving altered %s that the specification accepts: %s" % (fn, act["mut"], case))
    return nv, muts


def big_run(ctx, binary, tag, n0, rng):
    """bigger trees, sampled: start from size n0 (built by the harness), two more appends, seeded pairs"""
    sizes = [n0, n0 + 1, n0 + 2]
    pairs = set()
    for s_ in sizes:
        ms = {0, s_ - 1, rng.randrange(s_), 1 << (s_.bit_length() - 1)}
        for m in list(ms)[:3] if s_ != n0 else ms:
            pairs.add((min(m, s_), s_))
    for _ in range(8):                       # proof generation for older sizes too
        s_ = rng.randrange(2, n0 + 1)
        pairs.add((rng.randrange(s_), s_))
    cfgname = "Merkle_C26_%s.cfg" % tag
    mc = mk.model_check(ctx, cfgname, mk.cfg_text("SpecBig", n0 + 2, 0, False, 1, ["RootOK", "FileOK", "ProofGenOKS"], PROPS, big=True),
                        ["Append", "Reload", "GenIncl", "GenCons", "VerifyIncl", "VerifyCons"], timeout=2400,
                        extra_files={"Merkle_Gen.tla": mk.gen_module([n0], pairs)})
    if not mc:
        return None
    r, edges, inits, names = mc
    paths, ncov = ctx.cover(edges, inits, max_len=8000)
    if ncov != len(edges):
        ctx.infra("cover reaches %d of %d edges (%s)" % (ncov, len(edges), tag))
    res = mk.replay(ctx, binary, "A", paths, tag)
    if not res:
        return None
    mism, verd, counts = res
    nv, muts = judge(ctx, paths, mism, verd)
    ctx.log("%s: start size %d, %d pairs, %d edges replayed in %d paths: %s, %d mismatches" % (tag, n0, len(pairs), len(edges), len(paths), counts, len(mism)))
    return {"start_size": n0, "pairs": len(pairs), "edges": len(edges), "paths": len(paths), "replayed_by_action": counts,
            "states_generated": r.generated}


def run(ctx):
    binary = ctx.go_test_bin("merkle", harness=mk.HARNESS)
    if ctx.replay_in:
        rp = json.load(open(ctx.replay_in))["replay"]
        paths = [rp]
        res = mk.replay(ctx, binary, "A", paths, "rp") if binary else None
        if res:
            judge(ctx, paths, res[0], res[1])
        ctx.finish("model_checking", {"states": 0, "transitions": 0, "traces_validated_against_impl": 1, "replay_of": ctx.replay_in})
    n_edge = 12 if ctx.thorough else 8
    cfgname = "Merkle_C26_gen.cfg"
    mc = mk.model_check(ctx, cfgname, mk.cfg_text("SpecA", n_edge, 0, True, 2, INV, PROPS), ACTS)
    big = None
    if ctx.thorough:
        # pure model checking on a bigger bound, all workers, no edge export
        r2 = ctx.tlc("Merkle_MC", cfg="Merkle_C26_big.cfg", timeout=2400,
                     files={"Merkle_C26_big.cfg": mk.cfg_text("SpecA", 16, 0, True, 1, INV, PROPS, edges=False)})
        if r2.status != "ok":
            ctx.infra("TLC did not verify the MaxN=16 configuration: %s %s %s" % (r2.status, r2.violated, r2.errors[:2]))
        else:
            big = {"MaxN": 16, "generated": r2.generated, "distinct": r2.distinct, "wall_s": round(r2.wall, 1)}
            ctx.log("TLC MaxN=16 (no edge export): %d generated, %d distinct, %.1fs" % (r2.generated, r2.distinct, r2.wall))
    # negative control: with the switches on, the code-as-found verifier is NOT sound in the spec
    neg = None
    if ctx.thorough:
        rn = mk.model_check(ctx, "Merkle_C26_neg.cfg",
                            mk.cfg_text("SpecA", 3, 0, False, 1, ["RootOK"], ["ConsSoundAsCoded"], edges=False), [], expect_violation=True)
        neg = rn.status == "violation" and rn.violated == "ConsSoundAsCoded"
        if not neg:
            ctx.notes.append("negative control: ConsSoundAsCoded was not violated (status %s) - the deviation switches have no effect" % rn.status)
    paths, nv, muts, counts = [], {}, {}, {}
    nsteps = 0
    if mc and binary:
        r, edges, inits, names = mc
        paths, ncov = ctx.cover(edges, inits, max_len=4000)
        nsteps = sum(len(p["steps"]) for p in paths)
        ctx.log("cover: %d paths, %d steps, %d/%d edges" % (len(paths), nsteps, ncov, len(edges)))
        if ncov != len(edges):
            ctx.infra("cover reaches %d of %d edges" % (ncov, len(edges)))
        res = mk.replay(ctx, binary, "A", paths, "c26")
        if res:
            mism, verd, counts = res
            nv, muts = judge(ctx, paths, mism, verd)
            ctx.log("replayed %d steps: %s; %d verdicts compared, %d state/proof mismatches" % (nsteps, counts, len(verd), len(mism)))
            missing = [a for a in ACTS if counts.get(a, 0) == 0]
            if missing:
                ctx.infra("harness never executed: %s" % missing)
            for p in paths[:1]:
                ctx.samples.append({"replayed_path_prefix": [s["act"] for s in p["steps"][:6]]})
            for (pi, si, act, real) in verd[:2000:700]:
                ctx.samples.append({"verdict_case": act, "real": real})
    bigs = []
    if ctx.thorough and binary:
        for tag, n0 in (("bigp", (1 << ctx.rng.choice([6, 7, 8])) - 1), ("bigr", ctx.rng.randrange(17, 298))):
            b = big_run(ctx, binary, tag, n0, ctx.rng)
            if b:
                bigs.append(b)
    ctx.finish("model_checking", {
        "states": ctx.stats["states"], "transitions": ctx.stats["transitions"],
        "traces_validated_against_impl": len(paths) + sum(b["paths"] for b in bigs), "replayed_steps": nsteps,
        "sampled_bigger_trees": bigs,
        "replayed_by_action": counts, "verdicts_compared": nv,
        "mutation_cases": {"%s/%s" % k: v for k, v in sorted(muts.items())},
        "constants": {"MaxN_with_replay": n_edge, "MutLevel": 2, "Tear": True}, "bigger_model": big,
        "negative_control_violated": neg, "exhaustive": True,
    }, ["hashes are free constructors in the specification (sha256 injective, no leaf/node collision); the harness evaluates the terms with crypto/sha256 independently of package merkle",
        "abstract leaf i is the 32-byte value sha256(be32(i)); AppendHash takes leaf hashes as given",
        "a tree size is bound to its root by the block header, not by the verifier: an altered size is required to be rejected unless it prescribes the same left/right decisions as the true size (no RFC 6962 verifier can tell those apart)",
        "consistency proofs are generated for 1 <= m <= n (RFC 6962); ConsistencyProof(0, n) is unspecified",
        "torn appends model a crash after the hash-file write and before the tree size is persisted; partial 32-byte records are not modelled"])
