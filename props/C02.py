"""C02 — every node derives the same state from the same blocks."""
import json
import os
import shutil
import threading
import vf

# key types and script encodings; multi<m><n>: every m in 1..n for n <= 3, keys sorted and (-rev) unsorted in the raw script
VARIANTS = ["p256", "p256-pd1", "p384", "sm2", "ed25519", "eth", "multi23-mixed"] + \
           ["multi%d%d%s" % (m, n, r) for n in (2, 3) for m in range(1, n + 1) for r in ("", "-rev")]
QUICK = ["p256", "p256-pd1", "multi12", "multi13-rev", "multi23", "multi23-rev"]


def tmpdir(ctx):
    for base in ("/dev/shm", "/tmp"):
        if os.path.isdir(base) and os.access(base, os.W_OK):
            d = os.path.join(base, "b-replica-%s-%s-%d" % (ctx.pid, ctx.tier, os.getpid()))
            os.makedirs(d, exist_ok=True)
            return d
    return os.path.join(ctx.scratch, "ledgers")


def launch(ctx, binary, role, inp, tag, tmp):
    fin = os.path.join(ctx.scratch, "%s.in.json" % tag)
    fout = os.path.join(ctx.scratch, "%s.out.ndjson" % tag)
    vf.write_json(fin, inp)
    rc, out = ctx.run_bin(binary, role, env={"VERIF_IN": fin, "VERIF_OUT": fout, "VERIF_LEDGER_TMP": tmp}, timeout=2400)
    if rc != 0:
        ctx.infra("harness %s (%s) failed rc=%s" % (role, tag, rc))
        return None
    return fout


def replay_mode(ctx, tmp):
    """bin/check C02 --replay <file>: the block / chain of the violation file on A and two B processes; exit 1 iff they differ"""
    import sys
    obj = json.load(open(ctx.replay_in))["replay"]
    binary = ctx.go_test_bin("core/validation", harness="b_replica")
    if not binary or obj.get("bootstrap"):
        print("REPLAY: re-run bin/check C02")
        sys.exit(2)
    inp = {"variants": VARIANTS, "blocks": [obj["block"]] if "block" in obj else [], "chains": [obj["chain"]] if "chain" in obj else []}
    fa = launch(ctx, binary, "TestVerifReplicaA", inp, "rA", tmp)
    if not fa:
        sys.exit(2)
    nphase = 1 + max([sum(1 for it in c if it.get("restart")) for c in inp["chains"]] or [0])
    B = []
    for ph in range(nphase):
        fb = launch(ctx, binary, "TestVerifReplicaB", dict(inp, afile=fa, name="R", phase=ph, honor=True), "rB%d" % ph, tmp)
        if not fb:
            sys.exit(2)
        B += [r for r in vf.read_ndjson(fb) if r["event"] != "Header"]
    A = vf.read_ndjson(fa)
    keyof = lambda r: (r["event"], r.get("i"), r.get("c"), r.get("b"))
    Bm = {keyof(r): r for r in B}
    bad = False
    for a, b in [(a, Bm.get(keyof(a), {})) for a in A[1:]]:
        same = a.get("digest") == b.get("digest") and not b.get("addErr") and a.get("err") == b.get("err")
        print("REPLAY %s A=%s B=%s %s" % ("same" if same else "DIFFERENT", json.dumps(a.get("digest"))[:500], json.dumps(b.get("digest"))[:500], b.get("addErr", "")))
        bad = bad or not same
    sys.exit(1 if bad else 0)


def run(ctx):
    tmp = tmpdir(ctx)
    try:
        if ctx.replay_in:
            replay_mode(ctx, tmp)
        _run(ctx, tmp)
    finally:
        shutil.rmtree(tmp, ignore_errors=True)


def expand(block):
    """one descriptor per real transaction (setparam is two administrator transactions)"""
    out = []
    for t in block:
        out += [dict(t, kind="setparam:set"), dict(t, kind="setparam:snapshot")] if t["kind"] == "setparam" else [t]
    return out


def shape_of(block):
    return "+".join("%s/%s" % (t["kind"], t["sv"]) for t in block)


def compare(ctx, what, block, a, bs, predicted_agree, replay_obj, stats):
    """a: record of node A, bs: records of the B processes"""
    if "skip" in a:
        stats["skipped"] += 1
        return
    da = a.get("digest")
    dbs = [b.get("digest") for b in bs]
    stats["executed"] += 1
    # two runs of the same replica (separate processes, different map seeds)
    if any(d != dbs[0] for d in dbs[1:]) or any(b.get("err") != bs[0].get("err") for b in bs[1:]):
        ctx.violation("nondeterministic:%s" % shape_of(block), {"runs": dbs}, replay_obj)
        return
    b = bs[0]
    if da is None or dbs[0] is None:
        if (da is None) != (dbs[0] is None) or a.get("err") != b.get("err"):
            ctx.violation("diverge:error:%s" % shape_of(block), {"A": a.get("err"), "B": b.get("err")}, replay_obj)
        return
    same = da == dbs[0] and not b.get("addErr") and a.get("stateRoot") == b.get("stateRoot")
    if same:
        stats["agree"] += 1
        if not predicted_agree:
            ctx.notes.append("predicted divergence not observed: %s" % shape_of(block))
        return
    stats["diverge"] += 1
    na, nb = da["notify"], dbs[0]["notify"]
    keyed = False
    for t, x, y in zip(expand(block), na, nb):
        if x != y:
            keyed = True
            ctx.violation("diverge:%s:%s" % (t["kind"], t["sv"]),
                          {"what": what, "block": shape_of(block), "A": x, "B": y, "rootA": da["root"], "rootB": dbs[0]["root"],
                           "B_addblock": b.get("addErr")}, replay_obj)
    if not keyed:
        ctx.violation("diverge:digest:%s" % shape_of(block), {"A": {k: da[k] for k in ("hash", "root", "nwrites", "writes")},
                                                               "B": {k: dbs[0][k] for k in ("hash", "root", "nwrites", "writes")},
                                                               "B_addblock": b.get("addErr")}, replay_obj)


def _run(ctx, tmp):
    binary = ctx.go_test_bin("core/validation", harness="b_replica")
    stats = {"executed": 0, "agree": 0, "diverge": 0, "skipped": 0}
    nblocks = nchains = 0
    probes = {}
    if binary:
        # 1. probe the real code: which signer variants does the validator accept, and for which does the lazily derived
        #    address (hash of the raw verification script) equal the validator's address
        fp = launch(ctx, binary, "TestVerifReplicaA", {"variants": VARIANTS, "blocks": [], "chains": []}, "probe", tmp)
        if fp:
            probes = vf.read_ndjson(fp)[0]["probes"]
    if probes:
        accepted = [v for v in VARIANTS if probes[v]["accepted"]]
        same = [v for v in accepted if probes[v]["same"]]
        quick = [v for v in QUICK if v in accepted]
        ctx.log("probe: accepted %s; raw-script hash = validator address for %s" % (accepted, same))
        ctx.extra["probe"] = {v: {k: probes[v].get(k) for k in ("accepted", "same", "verdict", "err")} for v in VARIANTS}
        if len(accepted) < 4 or not same:
            ctx.infra("probe is vacuous: %s" % probes)
        q = lambda xs: "{" + ", ".join('"%s"' % x for x in xs) + "}"
        files = {"ReplicaProbe.tla": "---- MODULE ReplicaProbe ----\n\\* generated by props/C02.py from harness/b_replica (TestVerifReplicaA probe)\n"
                 "ProbedVariants == %s\nProbedSameAddr == %s\nQuickVariants == %s\nChainVariants == %s\n====\n"
                 % (q(accepted), q(same), q(quick), q(quick if ctx.thorough else quick[:1]))}
        # 2. design intent: with addresses derived like the validator does, the two nodes always agree
        ri = ctx.tlc("Replica_MC", cfg="Replica_C02i.cfg", files=files, tags=(), timeout=900)
        if ri.status != "ok":
            ctx.infra("TLC did not verify Agreement for the design-intent configuration: %s %s" % (ri.status, ri.violated))
        # 3. the code as it is: all blocks of <= 2 transactions, and chains of 3 one-transaction blocks
        r1 = ctx.tlc("Replica_MC", cfg="Replica_C02.cfg" if ctx.thorough else "Replica_C02q.cfg", files=files, workers=1, timeout=1200)
        r2 = ctx.tlc("Replica_MC", cfg="Replica_C02c.cfg", files=files, workers=1, timeout=1200)
        # 3b. ingestion paths of node B (ExecuteBlock+SubmitBlock | AddBlock | AddHeaders then AddBlock, restarts in between) x
        #     transactions that publish what they read from the execution environment of their block
        r3 = ctx.tlc("Replica_MC", cfg="Replica_C02p.cfg", files=files, workers=1, timeout=1200)
        if ctx.thorough:  # negative control: with the named deviation EnvFromIndex the model itself loses Agreement
            rx = ctx.tlc("Replica_MC", cfg="Replica_C02x.cfg", files=files, tags=(), timeout=900)
            if rx.status != "violation":
                ctx.infra("negative control: Agreement not violated under EnvFromIndex: %s" % rx.status)
        if r1.status != "ok" or r2.status != "ok" or r3.status != "ok":
            ctx.infra("TLC failed on Replica: %s %s %s" % (r1.errors[:2], r2.errors[:2], r3.errors[:2]))
        else:
            e1 = r1.prints.get("EDGE", [])
            blocks = [e["act"]["block"] for e in e1]
            agree1 = [e["act"]["agree"] for e in e1]
            paths, ncov = ctx.cover(r2.prints.get("EDGE", []), r2.prints.get("INIT", []), max_len=10)
            paths3, _ = ctx.cover(r3.prints.get("EDGE", []), r3.prints.get("INIT", []), max_len=10)
            paths = [p for p in paths + paths3 if p["steps"]]
            chains = [[({"txs": s["act"]["block"], "path": s["act"]["path"]} if s["act"]["name"] == "Seal" else {"restart": True}) for s in p["steps"]] for p in paths]
            npath = {}
            for c in chains:
                for it in c:
                    for t in it.get("txs", []):
                        if t["kind"].startswith("env"):
                            npath[it["path"]] = npath.get(it["path"], 0) + 1
            ctx.extra["env_reading_blocks_per_ingestion_path"] = npath
            if len(npath) < 3:
                ctx.infra("vacuous enumeration of ingestion paths: %s" % npath)
            nrest = sum(1 for c in chains for it in c if it.get("restart"))
            nparam = sum(1 for c in chains for it in c for t in it.get("txs", []) if t["kind"] == "setparam")
            ctx.log("TLC: %d single blocks, %d chains (%d edges, %d restarts of node B2, %d parameter changes)" % (len(blocks), len(chains), len(r2.prints.get("EDGE", [])), nrest, nparam))
            if not blocks or not chains or not nrest or not nparam:
                ctx.infra("vacuous enumeration")
            inp = {"variants": VARIANTS, "blocks": blocks, "chains": chains}
            fa = launch(ctx, binary, "TestVerifReplicaA", inp, "A", tmp)
            if fa:
                outs = {"B1": [], "B2": []}
                nphase = 1 + max(sum(1 for it in c if it.get("restart")) for c in chains)

                def b_run(name):
                    # B1 never restarts; B2 exits at every restart marker and a NEW PROCESS continues from its data directories
                    for ph in range(nphase if name == "B2" else 1):
                        f = launch(ctx, binary, "TestVerifReplicaB", dict(inp, afile=fa, name=name, phase=ph, honor=(name == "B2")), "%s-p%d" % (name, ph), tmp)
                        if not f:
                            outs[name] = None
                            return
                        outs[name] += vf.read_ndjson(f)
                ths = [threading.Thread(target=b_run, args=(n,)) for n in ("B1", "B2")]
                for t in ths:
                    t.start()
                for t in ths:
                    t.join()
                if all(outs.get(n) for n in ("B1", "B2")):
                    A = vf.read_ndjson(fa)
                    keyof = lambda r: (r["event"], r.get("i"), r.get("c"), r.get("b"))
                    Bs = [{keyof(r): r for r in outs[n] if r["event"] != "Header"} for n in ("B1", "B2")]
                    heads = [r for n in ("B1", "B2") for r in outs[n] if r["event"] == "Header"]
                    if any("err" in h for h in heads):
                        ctx.violation("diverge:bootstrap", {"B": heads}, {"bootstrap": True})
                    elif not all(all(keyof(a) in b for a in A[1:]) for b in Bs):
                        ctx.infra("a replica did not report every block: %s" % [len(A) - 1] + [len(b) for b in Bs])
                    else:
                        for k in range(1, len(A)):
                            a, bs = A[k], [b[keyof(A[k])] for b in Bs]
                            if a["event"] == "Block":
                                blk = blocks[a["i"]]
                                compare(ctx, "single block on the bootstrapped state", blk, a, bs, agree1[a["i"]], {"block": blk}, stats)
                                nblocks += 1
                            else:
                                ch = chains[a["c"]]
                                st = paths[a["c"]]["steps"][a["b"]]["act"]
                                what = "chain (B2 restarted %d times before this block; A: ExecuteBlock+SubmitBlock, B ingests it via %s)" % (
                                sum(1 for it in ch[:a["b"]] if it.get("restart")), st.get("path"))
                                compare(ctx, what, ch[a["b"]]["txs"], a, bs, st["agree"], {"chain": ch[:a["b"] + 1]}, stats)
                                if a["b"] == 0:
                                    nchains += 1
                        ctx.log("replicas compared: %s" % stats)
                        if stats["executed"] < 0.8 * (len(blocks)) or stats["agree"] == 0:
                            ctx.infra("vacuous comparison: %s" % stats)
                        ctx.samples.append({"block": blocks[min(20, len(blocks) - 1)], "A": {k: A[min(21, len(A) - 1)].get(k) for k in ("digest", "verdicts")}})
                        ctx.samples.append({"chain": max(chains, key=len)})
    cov = {"states": ctx.stats["states"], "transitions": ctx.stats["transitions"],
           "traces_validated_against_impl": nblocks + nchains, "blocks_compared": stats, "processes": 3, "exhaustive": True}
    cov.update(ctx.extra)
    ctx.finish("model_checking", cov, [
        "node A validates every transaction (VerifyTransaction) before sealing; nodes B1, B2 (separate processes) only decode Block.ToArray() bytes; "
        "B2 additionally exits at the restart points chosen by TLC and a fresh process continues from its data directories",
        "chains contain governance parameter changes (global_params setGlobalParam + createSnapshot raising the native-call gas price) followed by "
        "fee-paying transfers",
        "ingestion paths: A always ExecuteBlock+SubmitBlock; B per block (chosen by TLC) ExecuteBlock+SubmitBlock | AddBlock | AddHeaders then AddBlock "
        "(header-first sync), with restarts of B2 between blocks; env-reading NeoVM scripts notify current block hash, time, height, tx hash, header hash "
        "(events only: no contract storage)",
        "compared: ExecuteResult.Hash, MerkleRoot, the whole write set, per-transaction notify (state, gas, events, created contract), committed state root",
        "single blocks are executed (not committed) on the common bootstrapped state; chains are committed block after block",
        "transaction kinds: native ONT transfer with a fee, NeoVM script requiring CheckWitness(payer), fee-less NeoVM deployment, EIP-155 transfer; "
        "WASM contracts are not executed (stub archive)",
    ])
