"""C14 — NeoVM value serialization round-trips and rejects cycles safely."""
import json

import _neovm as nv
import vf


def gather(ctx, thorough):
    """TLC: design model (invariants checked); every heap row also carries the outcomes of the as-coded detector
    (first element only), which are predictions used for scheduling the child processes.  Returns (rows dict canon(cells) -> row, mutation rows, stats)."""
    rows = {}
    muts = []
    stats = {}
    cfgs = [("nc2", "NeoVM_C14.cfg", {}),
            ("nc3", "NeoVM_C14.cfg", {"NC": "3", "HeapMode": '"all"' if thorough else '"arr"', "WithMutations": "FALSE"}),
            ("chain", "NeoVM_C14.cfg", {"NC": "13" if thorough else "11", "HeapMode": '"chain"', "WithMutations": "FALSE",
                                        "ChainLens": "{1, 2, 3, 9, 10, 11, 12, 13}" if thorough else "{10, 11}"})]
    for name, cfg, consts in cfgs:
        r, heaps, m = nv.tlc_rows(ctx, cfg, consts or None, workers=None, coverage=(thorough and name == "nc2"))
        if r.status == "ok" and thorough and name == "nc2":
            ctx.vacuous(r, ["Serialize", "Native", "NotifyOp", "Deserialize", "Mutate"])
        if r.status != "ok":
            ctx.infra("TLC did not verify the design model %s: %s %s %s" % (name, r.status, r.violated, r.errors[:2]))
            continue
        stats[name] = {"distinct": r.distinct, "generated": r.generated, "heaps": len(heaps), "mutations": len(m), "wall": round(r.wall, 1)}
        ctx.log("TLC design %s: %d states, %d heaps, %d mutated byte strings, invariants hold (%.0fs)" % (name, r.distinct, len(heaps), len(m), r.wall))
        for h in heaps:
            h["fam"] = name
            rows[vf.canon(h["cells"])] = h
        muts += m
    return rows, muts, stats


def run(ctx):
    rows, muts, stats = gather(ctx, ctx.thorough)
    # the named deviation must be a counterexample of the model (otherwise the switch describes nothing)
    dev = ctx.tlc("NeoVM_MC", cfg="NeoVM_C14dev.cfg", workers=1, timeout=600)
    if dev.status != "violation":
        ctx.infra("the as-coded model (CycleCheckFirstOnly) does not violate the C14 invariants: %s" % dev.status)
    else:
        ctx.log("TLC as-coded model: counterexample to %s (expected, named deviation)" % dev.violated)
    binary = ctx.go_test_bin("vm/neovm/types", harness="b_neovm_types")
    if not rows or not binary:
        return finish(ctx, stats, 0, {})
    if ctx.replay_in:
        rp = json.load(open(ctx.replay_in))["replay"]
        keep = {vf.canon(c) for c in rp.get("cells", [])}
        rows = {k: v for k, v in rows.items() if k in keep} or rows

    # ---- schedule
    allrows = sorted(rows.values(), key=lambda r: vf.canon(r["cells"]))
    for i, r in enumerate(allrows):
        r["id"] = i
    fast, slow_ser, crash_nat = [], [], []
    for r in allrows:
        a = r.get("asis", {"ser": r["ser"], "nat": r["nat"]})
        ops = ["detect"]
        if "errsize" in a["ser"]:
            slow_ser.append(r)
        else:
            ops.append("roundtrip")
        if "diverge" in a["nat"]:
            crash_nat.append(r)
        else:
            ops.append("native")
        fast.append(nv.heap_item(r["id"], r, ops))
    nproc = min(vf.NCPU, 8)
    res, deaths = nv.run_children_parallel(ctx, binary, "TestVerifShapes", fast, "fast", 300, nproc)
    ctx.log("fast batch: %d heaps, %d results, %d child deaths" % (len(fast), len(res), deaths))
    # predicted slow / fatal items: seeded sample, one small child each
    n_slow, n_crash = (200, 48) if ctx.thorough else (12, 6)
    by_class = {}
    for r in crash_nat:
        by_class.setdefault(nv.marshal_loop_kinds(r["cells"]), []).append(r)
    pick_crash = []
    for cls in sorted(by_class):          # every structural class is represented
        pick_crash += ctx.rng.sample(by_class[cls], min(len(by_class[cls]), max(2, n_crash // max(1, len(by_class)))))
    pick_slow = ctx.rng.sample(slow_ser, min(len(slow_ser), n_slow))
    items = [nv.heap_item(r["id"], r, ["native"]) for r in pick_crash]
    res2, deaths2 = nv.run_children_parallel(ctx, binary, "TestVerifShapes", items, "crash", 300, min(nproc, 6), max_deaths=1000)
    items = [nv.heap_item(r["id"], r, ["ser"]) for r in pick_slow]
    res3, deaths3 = nv.run_children_parallel(ctx, binary, "TestVerifShapes", items, "slow", 300, nproc, max_deaths=1000)
    ctx.log("predicted-fatal marshalling: %d of %d heaps run, %d child deaths; predicted-slow serialization: %d of %d run, %d deaths"
            % (len(pick_crash), len(crash_nat), deaths2, len(pick_slow), len(slow_ser), deaths3))
    rest = []
    if deaths2 == 0 and deaths3 == 0:
        # the code no longer behaves as the as-coded model predicts (repaired): run everything that was held back
        done_c = {r["id"] for r in pick_crash}
        done_s = {r["id"] for r in pick_slow}
        rest = [nv.heap_item(r["id"], r, ["native"]) for r in crash_nat if r["id"] not in done_c] + \
               [nv.heap_item(r["id"], r, ["roundtrip"]) for r in slow_ser if r["id"] not in done_s]
        r4, d4 = nv.run_children_parallel(ctx, binary, "TestVerifShapes", rest, "rest", 300, nproc)
        res2 += r4
        ctx.log("held-back heaps: %d run, %d child deaths" % (len(rest), d4))
    results = res + res2 + res3

    # ---- oracle (the property as stated, on the design model's classification)
    byid = {r["id"]: r for r in allrows}
    n_checked = 0
    viol = {}
    drift = []
    for o in results:
        r = byid[o["id"]]
        op, out = o["op"], o["out"]
        n_checked += 1
        cls = nv.shape_class(r)
        bad = None
        dead = out in ("crash", "stack-overflow", "oom", "timeout")
        if op in ("ser", "roundtrip"):
            if dead:
                bad = "Serialize:%s:%s" % (cls, out)
            elif r["cyc"] and out != "err":
                bad = "Serialize:%s:accepted" % cls
            elif r["cyc"] and o.get("wrote", 0) > 1048576:
                # the cycle was NOT recognised: the walk unrolled it (>10^5 nested calls, >100 MB of stack) until the output
                # passed the 1 MiB item limit; the design (NeoVM!Walk with DetAll) refuses a cyclic value before writing it
                bad = "Serialize:%s:cycle-unrolled-until-size-limit" % cls
            elif r["within"]:
                exp_hex = bytes(r["bytes"]).hex()
                if out == "err":
                    bad = "Serialize:acyclic-within-limits:rejected"
                elif out in ("deser-err", "reser-diff"):
                    bad = "RoundTrip:%s" % out
                elif op == "roundtrip" and o.get("tree") != nv.tree_dump(nv.unfold(r["cells"], 1)):
                    bad = "RoundTrip:unequal-value"
                elif o.get("hex") is not None and o.get("hex") != exp_hex and o.get("len", 0) <= 4096:
                    drift.append("serialized bytes of %s differ from Enc(): %s vs %s" % (nv.heap_text(r), o.get("hex"), exp_hex))
        elif op == "native":
            if dead:
                # stack overflow, or (on a loaded machine) the time limit while the stack grows: one label
                bad = "BuildParamToNative:cycle-at-non-first-element:%s:unbounded-recursion" % nv.marshal_loop_kinds(r["cells"]) \
                    if r["cyc"] and "non-first" in cls else "BuildParamToNative:%s:%s" % (cls, out)
            elif r["cyc"] and out != "err":
                bad = "BuildParamToNative:%s:accepted" % cls
            elif r["within"] and [out] != r["nat"]:
                drift.append("BuildParamToNative(%s) = %s, model %s" % (nv.heap_text(r), out, r["nat"]))
        elif op == "detect":
            if dead:
                bad = "CircularRefAndDepthDetection:%s:%s" % (cls, out)
        if bad:
            viol.setdefault(bad, []).append((r, o))
    for key in sorted(viol):
        r, o = viol[key][0]
        ctx.violation(key, "%s on heap {%s}: Go outcome %s %s; model (design): cyclic=%s within-limits=%s; %d heap(s) of this class"
                      % (o["op"], nv.heap_text(r), o["out"], (o.get("err") or "")[:160], r["cyc"], r["within"], len(viol[key])),
                      {"cells": [x[0]["cells"] for x in viol[key][:10]], "op": o["op"]})
    for d in drift[:5]:
        ctx.infra("MODEL-DRIFT: " + d)
    # vacuity: every kind of operation was really executed, on cyclic and on acyclic heaps, and the decoder saw mutations
    ops_seen = {(o["op"], byid[o["id"]]["cyc"]) for o in results}
    missing = [x for x in (("roundtrip", False), ("roundtrip", True), ("native", False), ("native", True), ("detect", True)) if x not in ops_seen]
    if missing and not ctx.replay_in:
        ctx.infra("vacuous run: no execution of %s" % missing)
    if not muts and not ctx.replay_in:
        ctx.infra("vacuous run: no mutated byte strings generated")

    # ---- byte strings (decoder)
    n_bytes = 0
    seen = set()
    bitems = []
    exp = {}
    for m in muts:
        hx = bytes(m["bytes"]).hex()
        if hx in seen:
            continue
        seen.add(hx)
        exp[len(bitems)] = m
        bitems.append({"id": len(bitems), "hex": hx})
    # deep nestings around the decoder's depth limit and a very deep one (python-generated family)
    deep = {}
    for n in (1023, 1024, 1025, 1026, 1027, 20000, 400000):
        deep[len(bitems)] = n
        bitems.append({"id": len(bitems), "hex": "8001" * (n - 1) + "8000"})
    bres, bdeaths = nv.run_children_parallel(ctx, binary, "TestVerifDeserialize", bitems, "bytes", 300, nproc, key="items")
    bdrift = 0
    for o in bres:
        n_bytes += 1
        if o["out"] in ("crash", "stack-overflow", "oom", "timeout"):
            kind = exp[o["id"]]["mut"] if o["id"] in exp else "deep-nesting-%d" % deep[o["id"]]
            ctx.violation("Deserialize:%s:%s" % (kind, o["out"]), "Deserialize(%s...) -> %s %s" % (bitems[o["id"]]["hex"][:80], o["out"], (o.get("err") or "")[:200]),
                          {"hex": bitems[o["id"]]["hex"][:4000]})
            continue
        if o["id"] in deep:
            want = "ok" if deep[o["id"]] <= 1025 else "err"
            if o["out"] != want:
                bdrift += 1
                ctx.infra("MODEL-DRIFT: decoder depth limit: %d nested arrays -> %s (model: %s)" % (deep[o["id"]], o["out"], want))
            continue
        m = exp[o["id"]]
        want = "ok" if m["ok"] else "err"
        if o["out"] != want or (m["ok"] and (o.get("tree") != nv.tree_dump(m["tree"]) or o.get("used") != m["used"])):
            bdrift += 1
            if bdrift <= 5:
                ctx.infra("MODEL-DRIFT: decoder: bytes %s (%s) -> Go %s %s used=%s, model %s %s used=%s" % (
                    bitems[o["id"]]["hex"], m["mut"], o["out"], o.get("tree"), o.get("used"), want, nv.tree_dump(m["tree"]) if m["ok"] else "", m["used"]))
    # ---- size limits (NeoVM!LimitRows): containers of MAX-1 / MAX / MAX+1 elements at several positions, byte arrays
    # and total sizes around the 1 MiB limit; what the model says can be built and serialized must round-trip
    lr = ctx.tlc("NeoVM_MC", cfg="NeoVM_Limits.cfg", workers=1, timeout=600)
    n_limits = 0
    if lr.status != "ok":
        ctx.infra("TLC limits run failed: %s %s %s" % (lr.status, lr.violated, lr.errors[:2]))
    else:
        lrows = []
        seenl = set()
        for o in lr.prints.get("ROW", []):
            if "limit" in o and vf.canon(o["limit"]) not in seenl:
                seenl.add(vf.canon(o["limit"]))
                lrows.append(o)
        litems = [dict(id=i, fam=o["limit"]["fam"], k=o["limit"]["k"], n=o["limit"]["n"], pos=o["limit"]["pos"]) for i, o in enumerate(lrows)]
        lres, ldeaths = nv.run_children_parallel(ctx, binary, "TestVerifLimits", litems, "limits", 300, min(nproc, 4), key="items", defop="limit")
        for o in lres:
            n_limits += 1
            row, ver = lrows[o["id"]]["limit"], lrows[o["id"]]["verdict"]
            rel = {1023: "MAX-1", 1024: "MAX", 1025: "MAX+1"}.get(row["n"], "n%d" % row["n"])
            name = "%s:%s:%s:pos%d" % (row["fam"], row["k"], rel, row["pos"])
            if o["out"] in ("crash", "stack-overflow", "oom", "timeout"):
                ctx.violation("SizeLimit:%s:%s" % (name, o["out"]), "limit row %s -> %s %s" % (row, o["out"], (o.get("err") or "")[:200]), {"limit": row})
            elif (o["out"] != "unbuildable") != ver["build"]:
                ctx.infra("MODEL-DRIFT: limit row %s: buildable in Go = %s, model = %s (%s)" % (row, o["out"] != "unbuildable", ver["build"], o.get("err")))
            elif ver["ser"]:
                if o["out"] == "ser-err":
                    ctx.violation("Serialize:at-size-limit:%s:rejected" % name, "value within all limits (%s, model length %d) refused by Serialize: %s" % (row, ver["len"], o.get("err")), {"limit": row})
                elif o["out"] in ("deser-err", "unequal"):
                    ctx.violation("RoundTrip:at-size-limit:%s:%s" % (name, o["out"]), "value within all limits (%s) serialized to %d bytes but Deserialize gives %s %s"
                                  % (row, o.get("len", 0), o["out"], o.get("err") or ""), {"limit": row})
                elif o.get("len") != ver["len"]:
                    ctx.infra("MODEL-DRIFT: limit row %s: serialized length %s, model %s" % (row, o.get("len"), ver["len"]))
            elif o["out"] == "ok" and row["fam"] == "blob":
                ctx.infra("MODEL-DRIFT: limit row %s serialized although the model's length %d exceeds the limit" % (row, ver["len"]))
        if len(lres) != len(litems):
            ctx.infra("limits harness answered %d of %d rows" % (len(lres), len(litems)))
        ctx.log("size limits: %d rows (containers at MAX-1/MAX/MAX+1 elements, byte arrays and totals around 1 MiB), %d child deaths" % (len(lres), ldeaths))
    if len(bres) != len(bitems):
        ctx.infra("decoder harness answered %d of %d byte strings" % (len(bres), len(bitems)))
    ctx.log("decoder: %d byte strings (%d mutations of valid encodings + depth family), %d child deaths, %d disagreements" % (len(bitems), len(exp), bdeaths, bdrift))
    if allrows:
        r = allrows[len(allrows) // 2]
        ctx.samples.append({"heap": nv.heap_text(r), "model": {k: r[k] for k in ("cyc", "within", "ser", "nat")}, "as_coded": r.get("asis")})
    for key in list(viol)[:3]:
        r, o = viol[key][0]
        ctx.samples.append({"finding": key, "heap": nv.heap_text(r), "go": o["out"]})
    return finish(ctx, stats, n_checked + n_bytes + n_limits, {
        "limit_rows_executed": n_limits,
        "heaps": len(allrows), "heaps_cyclic": sum(1 for r in allrows if r["cyc"]),
        "heap_ops_executed": n_checked, "byte_strings_executed": n_bytes,
        "predicted_fatal_marshal_heaps": len(crash_nat), "predicted_fatal_run": len(pick_crash),
        "predicted_slow_serialize_heaps": len(slow_ser), "predicted_slow_run": len(pick_slow), "held_back_run": len(rest),
        "child_deaths": deaths + deaths2 + deaths3 + bdeaths,
        "finding_classes": {k: len(v) for k, v in viol.items()},
    })


def finish(ctx, stats, n, extra):
    cov = {"states": ctx.stats["states"], "transitions": ctx.stats["transitions"], "traces_validated_against_impl": n, "tlc_runs": stats}
    cov.update(extra)
    ctx.finish("model_checking", cov, [
        "size-limit rows: one container of 0/1/MAX-1/MAX/MAX+1 leaves (array, struct, map; top level, first and second element of an outer array) and byte arrays / totals around the 1 MiB limit", "heaps of <=3 cells x <=2 slots (all kinds; quick: 3 cells of arrays only) plus chains of up to 13 nested containers; leaves are the integer 1, map keys 1..2",
        "a cyclic value must be refused as such (the design model writes nothing for it): a rejection that comes only from the 1 MiB output limit after unrolling the cycle (more than 1 MiB written for a heap of <= 13 cells) is reported as a violation", "depth limit: values with at most MAX_STRUCT_DEPTH nested containers must round-trip; deeper acyclic values may be accepted or refused (only crashes count)",
        "accept/reject and decoded value of mutated byte strings are compared with the model's decoder; a disagreement is reported as model drift (exit 2), only a crash/hang is a violation of the statement",
        "heaps on which the as-coded model predicts a fatal or slow run are sampled per seed (every structural class represented); all others are executed",
    ])
