"""C10 — the governance fee split never distributes more than it is splitting (spec/Governance.tla).

TLC: Governance with a scripted prefix (a candidate with holders, cost percentages in effect) and free exploration of
authorize / unauthorize / quit / black / commitDpos / fee income / withdrawFee; invariants Withdrawable, NoWrap,
action property SplitBounded.  Every edge is replayed on the real governance contract; SplitFeeAddress amounts, the
split-fee total, the governance ONG balance and withdrawFee results are read back and compared with the model's exact
amounts (executeSplit2 / splitNodeFee / executeAddressSplit / splitCurve transcribed with exact integer arithmetic);
seeded random histories from the real contract are validated by TLC.  Violations are reported only from what the real
contract did: credits of a settlement > income, a credit >= 2^63, credited total not covered by the ONG balance,
withdrawFee failing for / paying other than a credited amount.
"""
import _gov


def run(ctx):
    _gov.run_check(ctx, "C10")
