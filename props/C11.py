"""C11 — governance holds exactly the ONT that participants have staked (spec/Governance.tla).

TLC: exhaustive exploration of Governance (register / setMax / authorize / unauthorize / withdraw / quit / black / white /
commitDpos / addInitPos / reduceInitPos / transferPenalty ..., valid and invalid calls) with the invariants Backed,
NoOverWithdraw, TotalPosOK; every edge is replayed on the real governance contract (real ledger, real VBFT genesis) and
the whole bookkeeping read back from storage is compared with the model; seeded random histories recorded from the
real contract are validated by TLC (Governance_Trace).  Violations are reported only from what the real contract did:
ONT balanceOf(governance) != sum TotalStake + sum PenaltyStake, claims exceeding the recorded stake, a withdrawal
beyond the unfrozen pos, withdrawn > deposited.
"""
import _gov


def run(ctx):
    _gov.run_check(ctx, "C11")
