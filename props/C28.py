"""C28 -- BFT quorum thresholds always intersect in an honest peer.

1. the decision thresholds are EXTRACTED from the real code (least accepted number of distinct signers, probing the real
   getCommitConsensus / BlockPool.commitDone / endorseDone / CheckSubmitBlock / VerifyBlock / AddressFromBookkeepers /
   LedgerStoreImp.verifyHeader for every (N, C) of the tier's table);
2. TLC (Quorum_MC) evaluates Intersect / HonestWitness of spec/Quorum.tla on the extracted table and compares it with the
   closed forms;
3. Apalache proves the closed-form lemmas for unbounded N, C (any thresholds >= Q(N) intersect in > C peers, ...).
A violation is an extracted (N, C, function) whose threshold breaks Intersect / HonestWitness.
4. the thresholds speak about signer SETS, the pool's endorseDone / commitDone-fallback run COUNTERS over the entries of
   CandidateInfo.EndorseSigs: spec/QuorumDistinct.tla states (on the pool model shared with C31/C34) that the counters count
   DISTINCT peers whatever a peer re-sends (same / other proposer, empty or not, endorsements and commit messages in any
   order); QuorumDistinct_MC enumerates the re-sending behaviours, TLC checks the invariants, every edge is replayed on a
   real BlockPool and "done => at least <extracted threshold> distinct recorded signers" is evaluated on the real pool."""
import json
import os
import threading

import vf
import _vbft as vb

SAN = {"getCommitConsensus": "getCommitConsensus", "getCommitConsensus/spread": "getCommitConsensusSpread",
       "getCommitConsensus/empty": "getCommitConsensusEmpty", "getCommitConsensus/emptyThenClaims": "getCommitConsensusEmptyClaims",
       "commitDone/sigs": "commitDoneSigs", "commitDone/msgs": "commitDoneMsgs", "endorseDone": "endorseDone",
       "CheckSubmitBlock": "CheckSubmitBlock", "VerifyBlock": "VerifyBlock", "AddressFromBookkeepers": "AddressFromBookkeepers",
       "verifyHeader": "verifyHeader", "verifyHeaderListed": "verifyHeaderListed", "verifyHeaderDbft": "verifyHeaderDbft"}
FNS = list(SAN.values())
DECISION = ["getCommitConsensus", "getCommitConsensusSpread", "getCommitConsensusEmpty", "getCommitConsensusEmptyClaims", "commitDoneSigs", "commitDoneMsgs", "CheckSubmitBlock",
            "VerifyBlock", "AddressFromBookkeepers", "verifyHeader", "verifyHeaderDbft"]
WITNESS = ["endorseDone"]
FORMS = [("N-(N-1)/3", lambda n, c: n - (n - 1) // 3), ("N-6N/7", lambda n, c: n - 6 * n // 7), ("C+1", lambda n, c: c + 1),
         ("max(N-6N/7,C+1)", lambda n, c: max(n - 6 * n // 7, c + 1)), ("N-(N-1)/3-1", lambda n, c: n - (n - 1) // 3 - 1),
         ("2C+1", lambda n, c: 2 * c + 1)]


def pairs_for(ctx):
    ps = []
    if ctx.thorough:
        nmax = 300
        for n in range(1, nmax + 1):
            cmax = (n - 1) // 3
            if n <= 40:
                cs = range(0, cmax + 1)
            else:
                cs = sorted({0, 1, cmax, max(0, cmax - 1), cmax // 2, ctx.rng.randint(0, cmax), ctx.rng.randint(0, cmax)})
            ps += [[n, c] for c in cs]
        return ps, 100
    for n in range(1, 41):
        ps += [[n, c] for c in range(0, (n - 1) // 3 + 1)]
    return ps, 40


def fit(table, fn):
    rows = [(n, c, r[fn]) for (n, c), r in table.items() if r.get(fn, -2) not in (-2, -1)]
    if not rows:
        return "unprobed"
    for name, f in FORMS:
        if all(k == f(n, c) for n, c, k in rows):
            return name
    return "unfit"


# ------------------------------------------------------------------------------------ part 4: the counters count peers
# (label, N, bounds record of QuorumDistinct_MC, minimal number of re-sending patterns the replayed paths must contain)
DISTINCT_QUICK = [("n4-rep", 4, "KN4"), ("n4-long", 4, "KN4long"), ("n4-com", 4, "KN4com"), ("n7-rep", 7, "KN7")]
DISTINCT_THOROUGH = [("n4-two", 4, "KN4two"), ("n7-two", 7, "KN7two"), ("n6-rep", 6, "KN7"), ("n8-rep", 8, "KN7")]
DISTINCT_INVS = ["TypeOK", "Inv_OneEntryPerPair", "Inv_CountersCountPeers", "Inv_EndorseDistinct", "Inv_FallbackDistinct",
                 "Inv_CommitQuorumIntersects", "Inv_EndorseHasHonestWitness"]


def distinct_cfg(n, c, kname):
    return "\n".join(["SPECIFICATION Spec", "CONSTANTS", "  N = %d" % n, "  C = %d" % c, "  EndorserSet <- EndorserSet%d" % n,
                      "  QM <- QM%d" % n, "  QS <- QS%d" % n, "  TE <- TE%d" % n,
                      "  SW_Verify = FALSE", "  SW_PerBlock = FALSE", "  SW_Proposer = FALSE", "  K <- %s" % kname,
                      "VIEW view", "INVARIANTS " + " ".join(DISTINCT_INVS), "CHECK_DEADLOCK FALSE",
                      "CONSTRAINT InitOut", "ACTION_CONSTRAINT Edge"]) + "\n"


def resend_patterns(acts):
    """re-sending circumstances contained in one replayed path: a peer that endorses (non-empty) p, then q # p, then p again
    ('flip'), the same endorsement twice in a row ('dup'), an entry claimed for / committed by a peer that has endorsed
    before ('commit-after-endorse'), a second commit message of one committer ('recommit')."""
    per, com, found = {}, set(), set()
    for a in acts:
        if a["name"] == "FeedEndorse":
            h = per.setdefault(a["i"], [])
            if not a["e"]:
                ne = [x for x in h if not x[1]]
                if ne and ne[-1][0] == a["p"]:
                    found.add("dup")
                if len(ne) >= 2 and ne[-1][0] != a["p"] and any(x[0] == a["p"] for x in ne[:-1]):
                    found.add("flip")
            h.append((a["p"], a["e"]))
        elif a["name"] == "FeedCommit":
            if a["c"] in com:
                found.add("recommit")
            com.add(a["c"])
            for i in [a["c"]] + [x["i"] for x in a["es"]]:
                if per.get(i):
                    found.add("commit-after-endorse")
                per.setdefault(i, []).append((a["p"], a["e"]))
    return found


def distinct_oracle(te, qs, o):
    """Looks ONLY at the real pool (its entries and its own decisions).  Returns a list of (key, detail)."""
    out = []
    esigs = o["esigs"]

    def signers(p, empty):
        if empty:
            return sorted(i + 1 for i, l in enumerate(esigs) if any(x["e"] for x in l))
        return sorted(i + 1 for i, l in enumerate(esigs) if any(x["p"] == p and not x["e"] for x in l))

    def counted(p, empty):
        return sum(1 for l in esigs for x in l if (x["e"] if empty else (x["p"] == p and not x["e"])))

    def judge(fn, p, empty, thr):
        sg, cn = signers(p, empty), counted(p, empty)
        if len(sg) >= thr:
            return len(sg) == thr
        why = "one-peer-counted-several-times" if cn > len(sg) else "fewer-signers-than-extracted-threshold"
        out.append(("Distinct:%s:%s" % (fn, why),
                    {"declared": {"proposer": p, "empty": empty}, "distinct_signers": sg, "entries_counted": cn,
                     "threshold_extracted": thr, "entries": esigs}))
        return False

    tight_e = tight_c = False
    if o["ed"]:
        tight_e = judge("endorseDone", o["edp"], o["ede"], te)
    if o["cd"] and not o["viaMsgs"]:
        tight_c = judge("commitDone/sigs", o["cdp"], False, qs)
    return out, tight_e, tight_c


def distinct_constants(ctx, binary, ns):
    """module VBFTConst for the configurations ns: thresholds (least accepted number of distinct signers) and participant
    roles of the REAL code -- what _vbft.extract_constants does, restricted to ns and with the harness runs in parallel."""
    out = {}

    def thr():
        fin, fout = os.path.join(ctx.scratch, "dconst.in.json"), os.path.join(ctx.scratch, "dconst.out.ndjson")
        vf.write_json(fin, {"pairs": [[n, dict(vb.CONFIGS)[n]] for n in ns], "cryptoMaxN": 0})
        rc, _ = ctx.run_bin(binary, "TestVerifVBThresholds", env={"VERIF_IN": fin, "VERIF_OUT": fout}, timeout=900)
        out["thr"] = {(r["n"], r["fn"]): r for r in vf.read_ndjson(fout)} if rc == 0 else None

    def roles(n):
        fin, fout = os.path.join(ctx.scratch, "droles%d.in.json" % n), os.path.join(ctx.scratch, "droles%d.out.ndjson" % n)
        vf.write_json(fin, {"n": n, "c": dict(vb.CONFIGS)[n], "self": n, "byz": 1, "paths": []})
        rc, _ = ctx.run_bin(binary, "TestVerifVBPoolReplay", env={"VERIF_IN": fin, "VERIF_OUT": fout}, timeout=900)
        out[n] = vf.read_ndjson(fout)[0]["roles"] if rc == 0 else None

    th = [threading.Thread(target=thr)] + [threading.Thread(target=roles, args=(n,)) for n in ns]
    [t.start() for t in th]
    [t.join() for t in th]
    if not out.get("thr") or any(not out.get(n) for n in ns):
        return None, None
    consts = {}
    lines = ["---- MODULE VBFTConst ----", "\\* GENERATED from the real code (thresholds: least accepted k; roles: calcParticipantPeers)"]
    for n in ns:
        t = lambda fn: out["thr"][(n, fn)]
        k = {"QM": t("getCommitConsensus")["k"], "QS": t("commitDone/sigs")["k"], "TE": t("endorseDone")["k"], "endorsers": out[n][1]}
        if min(k["QM"], k["QS"], k["TE"]) < 0 or any(t(fn)["up"] != 1 for fn in ("getCommitConsensus", "commitDone/sigs", "endorseDone")):
            return None, None
        consts[n] = k
        lines += ["QM%d == %d" % (n, k["QM"]), "QS%d == %d" % (n, k["QS"]), "TE%d == %d" % (n, k["TE"]),
                  "EndorserSet%d == {%s}" % (n, ", ".join(str(x) for x in sorted(set(out[n][1]))))]
    lines.append("====")
    ctx.log("distinct signers: extracted model constants %s" % json.dumps(consts))
    return "\n".join(lines) + "\n", consts


def distinct_part(ctx, binary, res):
    """res: dict filled with 'infra' (list), 'viol' {key: (detail, replay, count)}, 'cov' (coverage numbers)."""
    res.update({"infra": [], "viol": {}, "cov": {}})
    cfgs = DISTINCT_QUICK + (DISTINCT_THOROUGH if ctx.thorough else [])
    mod, consts = distinct_constants(ctx, binary, sorted({n for _, n, _ in cfgs}))
    if not consts:
        res["infra"].append("distinct-signer part: constants of the pool model could not be extracted (or thresholds not monotone)")
        return
    runs = {}

    def job(label, n, kname):
        # TLC -> edge cover -> replay on the real BlockPool, one thread per configuration
        c = dict(vb.CONFIGS)[n]
        j = runs[label] = {"infra": []}
        r = j["r"] = ctx.tlc("QuorumDistinct_MC", cfg="QuorumDistinct_gen.cfg", workers=1, timeout=2400,
                             files={"VBFTConst.tla": mod, "QuorumDistinct_gen.cfg": distinct_cfg(n, c, kname)})
        if r.status != "ok":
            return
        edges, inits = r.prints.get("EDGE", []), r.prints.get("INIT", [])
        paths, ncov = ctx.cover(edges, inits, max_len=16)
        if ncov < len({(vf.canon(e["from"]), vf.canon(e["act"]), vf.canon(e["to"])) for e in edges}) or not paths:
            j["infra"].append("%s: cover misses edges" % label)
        j["edges"] = len(edges)
        j["acts"] = [[s["act"] for s in p["steps"]] for p in paths]
        j["states"] = [[s["to"] for s in p["steps"]] for p in paths]
        j["obs"] = vb.replay_pool(ctx, binary, n, c, j["acts"], "distinct-" + label)

    th = [threading.Thread(target=job, args=j) for j in cfgs]
    [t.start() for t in th]
    [t.join() for t in th]
    stats = {"steps": 0, "drift": 0, "done": 0, "unsound": 0}
    cov = {"paths": 0, "steps": 0, "states": 0, "edges": 0, "patterns": {}, "endorse_done_states": 0, "fallback_done_states": 0,
           "tight_endorse": 0, "tight_fallback": 0, "per_config": {}}
    for label, n, kname in cfgs:
        j = runs.get(label, {})
        r = j.get("r")
        res["infra"] += j.get("infra", [])
        if r is None or r.status != "ok":
            res["infra"].append("TLC QuorumDistinct_MC %s: status=%s violated=%s %s (the invariants are about the SPEC: modelling problem)" % (
                label, getattr(r, "status", None), getattr(r, "violated", None), getattr(r, "errors", [])[:2]))
            continue
        acts, states, obs, nedges = j.get("acts"), j.get("states"), j.get("obs"), j.get("edges", 0)
        if acts is None:
            res["infra"].append("%s: edge cover / replay job died" % label)
            continue
        pats = {}
        for a in acts:
            for k in resend_patterns(a):
                pats[k] = pats.get(k, 0) + 1
        want = {"KN4": ["flip", "dup"], "KN4long": ["flip", "dup"], "KN7": ["flip", "dup"], "KN4two": ["flip", "dup"],
                "KN4com": ["commit-after-endorse", "recommit", "dup"], "KN7two": ["flip", "commit-after-endorse"]}[kname]
        if any(pats.get(k, 0) == 0 for k in want):
            res["infra"].append("vacuous model run %s: re-sending patterns %s not all generated (%s)" % (label, want, pats))
        if obs is None:
            res["infra"].append("%s: replay on the real BlockPool failed" % label)
            continue
        te, qs = consts[n]["TE"], consts[n]["QS"]
        nv = 0
        for a_l, o_l in zip(acts, obs):
            for si, o in enumerate(o_l):
                found, t_e, t_c = distinct_oracle(te, qs, o)
                cov["endorse_done_states"] += 1 if o["ed"] else 0
                cov["fallback_done_states"] += 1 if (o["cd"] and not o["viaMsgs"]) else 0
                cov["tight_endorse"] += 1 if t_e else 0
                cov["tight_fallback"] += 1 if t_c else 0
                for key, detail in found:
                    nv += 1
                    replay = {"n": n, "c": dict(vb.CONFIGS)[n], "config": label, "steps": [vb.act_to_feed(x) for x in a_l[:si + 1]]}
                    detail.update({"N": n, "C": dict(vb.CONFIGS)[n]})
                    old = res["viol"].get(key)
                    if old is None:
                        res["viol"][key] = [detail, replay, 1]
                    else:
                        old[2] += 1
                        if len(replay["steps"]) < len(old[1]["steps"]):
                            old[0], old[1] = detail, replay
        # conformance of the real pool with the model pool (content, decisions) on every step
        vb.check_pool_paths(ctx, n, acts, states, obs, stats)
        for k, v in pats.items():
            cov["patterns"][k] = cov["patterns"].get(k, 0) + v
        cov["paths"] += len(acts)
        cov["steps"] += sum(len(a) for a in acts)
        cov["states"] += r.distinct
        cov["edges"] += nedges
        cov["per_config"][label] = {"N": n, "bounds": kname, "distinct": r.distinct, "edges": nedges, "paths": len(acts),
                                    "patterns": pats, "distinctness_violations_on_real_pool": nv}
        ctx.log("distinct signers %s: TLC %d distinct / %d edges (%.0fs), %d paths replayed, patterns %s, violations %d" % (
            label, r.distinct, nedges, r.wall, len(acts), pats, nv))
    cov["model_drift"] = stats["drift"]
    if cov["paths"] and not (cov["tight_endorse"] and cov["tight_fallback"]):
        res["infra"].append("vacuous: the real pool never decided with exactly the threshold number of distinct signers (endorse %d, fallback %d)" % (
            cov["tight_endorse"], cov["tight_fallback"]))
    res["cov"] = cov


FIXED_OBLIGATIONS = [("InvQQ", "ok"), ("InvWitness", "ok"), ("InvQForm", "ok"), ("InvQTight", "ok"), ("InvQLive", "ok")]


def run(ctx):
    pairs, crypto_max = pairs_for(ctx)
    bins = {}
    # ---- Apalache (unbounded N, C): the closed-form lemmas do not depend on the code; they run concurrently with everything else.
    # parallel Apalache / TLC runs: spec staging is serialized (ctx.stage_specs numbers its scratch dirs)
    res = {}

    def apa(inv):
        res[inv] = ctx.apalache("Quorum_Apa.tla", inv=inv, length=0, timeout=900)

    lock = threading.Lock()
    orig_stage = ctx.stage_specs

    def locked_stage(extra_files=None):
        with lock:
            return orig_stage(extra_files)

    ctx.stage_specs = locked_stage
    apa_threads = [threading.Thread(target=apa, args=(inv,)) for inv, _ in FIXED_OBLIGATIONS]
    [t.start() for t in apa_threads]

    def build(key, pkg, harness, hide):
        bins[key] = ctx.go_test_bin(pkg, harness=harness, hide_own_tests=hide)

    th = [threading.Thread(target=build, args=("vbft", "consensus/vbft", "vbft_bvbft", False)),
          threading.Thread(target=build, args=("ls", "core/store/ledgerstore", "ledgerstore_bvbft", True))]
    [t.start() for t in th]
    [t.join() for t in th]
    table = {}
    nonmono = []
    nrows = 0
    dres = {}
    td = None
    if bins.get("vbft"):
        # part 4 runs concurrently with the threshold extraction and the proofs
        td = threading.Thread(target=distinct_part, args=(ctx, bins["vbft"], dres))
        td.start()
    if bins.get("vbft") and bins.get("ls"):
        fin = os.path.join(ctx.scratch, "thr.in.json")
        vf.write_json(fin, {"pairs": pairs, "cryptoMaxN": crypto_max})
        outs = {}

        def probe(key, test):
            fo = os.path.join(ctx.scratch, "thr-%s.ndjson" % key)
            rc, _ = ctx.run_bin(bins[key], test, env={"VERIF_IN": fin, "VERIF_OUT": fo}, timeout=1500, quiet=False)
            outs[key] = (rc, fo)

        th = [threading.Thread(target=probe, args=("vbft", "TestVerifVBThresholds")),
              threading.Thread(target=probe, args=("ls", "TestVerifVHThresholds"))]
        [t.start() for t in th]
        [t.join() for t in th]
        for key, (rc, fo) in outs.items():
            if rc != 0:
                ctx.infra("threshold extraction harness %s failed rc=%s" % (key, rc))
                continue
            for r in vf.read_ndjson(fo):
                nrows += 1
                if r["fn"] == "verifyHeaderDbft":
                    # the non-vbft branch does not depend on C: the row holds for every admissible C of this N
                    for cc in range(0, (r["n"] - 1) // 3 + 1):
                        table.setdefault((r["n"], cc), {})["verifyHeaderDbft"] = r["k"]
                    if r["up"] != 1:
                        nonmono.append((r["fn"], r["n"], r["c"]))
                    continue
                rec = table.setdefault((r["n"], r["c"]), {})
                if r["fn"] == "verifyHeader":
                    rec["verifyHeader"] = r["v"]        # valid signatures really needed
                    rec["verifyHeaderListed"] = r["k"]  # distinct member bookkeepers that must be listed
                else:
                    rec[SAN[r["fn"]]] = r["k"]
                if r["up"] != 1 and r["fn"] != "AddressFromBookkeepers":
                    nonmono.append((r["fn"], r["n"], r["c"]))
        ctx.log("extracted %d threshold rows for %d (N,C) pairs" % (nrows, len(table)))
    if nonmono:
        ctx.infra("non-monotone acceptance (least-k abstraction not applicable): %s" % nonmono[:5])
    missing = [p for p in pairs if tuple(p) not in table]
    if missing or not table:
        ctx.infra("extraction incomplete: %d pairs missing" % len(missing))
    forms = {fn: fit(table, fn) for fn in FNS}
    ctx.log("fitted closed forms: %s" % forms)

    # ---- TLC on the extracted table
    rows = []
    if table:
        keys = sorted(table)
        mod = ["---- MODULE QuorumTable ----", "EXTENDS Integers", "Pairs == <<" + ", ".join("<<%d, %d>>" % k for k in keys) + ">>", "Thr == <<"]
        recs = []
        for k in keys:
            recs.append("[" + ", ".join("%s |-> %d" % (fn, table[k].get(fn, -2)) for fn in FNS) + "]")
        mod.append(",\n".join(recs) + ">>")
        mod.append("====")
        r = ctx.tlc("Quorum_MC", cfg="Quorum_C28.cfg", workers=1, files={"QuorumTable.tla": "\n".join(mod) + "\n"}, timeout=900)
        if r.status != "ok":
            ctx.infra("TLC on the extracted table: status=%s violated=%s %s" % (r.status, r.violated, r.errors[:2]))
        rows = r.prints.get("ROW", [])
        if len(rows) != len(keys):
            ctx.infra("TLC evaluated %d rows, expected %d" % (len(rows), len(keys)))
        ctx.log("TLC evaluated %d table rows (%d states)" % (len(rows), r.distinct))

    # ---- oracle: Intersect / HonestWitness on the extracted thresholds
    bad = {}
    npairs_checked = 0
    for row in rows:
        n, c = row["n"], row["c"]
        rec = table[(n, c)]
        for f, ok in row["witness"].items():
            if not ok:
                bad.setdefault("HonestWitness:%s[%s]" % (f, forms[f]), []).append((n, c, rec[f]))
        for f, gs in row["inter"].items():
            for g, ok in gs.items():
                npairs_checked += 1
                if not ok:
                    # Intersect(Q,Q) holds and is monotone: a failing pair contains a threshold below Q(N)
                    blamed = [h for h in (f, g) if not row["atleastQ"][h]]
                    for h in blamed or [f, g]:
                        bad.setdefault("Intersect:%s[%s]" % (h, forms[h]), []).append((n, c, rec[h], f, g))
    for key, lst in sorted(bad.items()):
        first = min([x for x in lst if x[1] >= 1] or lst)
        ctx.violation(key, {"instances": len(lst), "first": {"N": first[0], "C": first[1], "extracted_threshold": first[2],
                                                              "pair": list(first[3:])}},
                      {"table_row": {"n": first[0], "c": first[1], "thresholds": table[(first[0], first[1])]}})
    exact = {fn: all(row["exact"].get(fn, True) or table[(row["n"], row["c"])].get(fn) == -1 for row in rows) for fn in FNS}
    covered_by_proof = [fn for fn in DECISION if rows and all(row["atleastQ"].get(fn, True) for row in rows)]
    ctx.log("closed form exact: %s" % exact)
    ctx.log("thresholds dominated by Q(N) on the whole table (Apalache lemma O1 applies): %s" % covered_by_proof)

    # ---- Apalache: unbounded N, C
    obligations = list(FIXED_OBLIGATIONS)
    if forms.get("verifyHeader") == "N-6N/7":
        obligations.append(("InvHdrWouldIntersect", "violation"))  # documents the finding: expected counterexample
    elif forms.get("verifyHeader") == "max(N-6N/7,C+1)":
        obligations.append(("InvHdrWitnessWouldIntersect", "violation"))  # a witness threshold (C+1) is not a quorum
    # the five closed-form lemmas were started at the beginning of the run; only the form-dependent obligation starts here
    th = apa_threads + [threading.Thread(target=apa, args=(inv,)) for inv, _ in obligations[len(FIXED_OBLIGATIONS):]]
    [t.start() for t in th[len(apa_threads):]]
    [t.join() for t in th]
    ctx.stage_specs = orig_stage
    discharged = 0
    cmd = ""
    for inv, want in obligations:
        a = res.get(inv, {"status": "error", "out": ""})
        cmd = a.get("cmd", cmd)
        ctx.log("apalache %s: %s (%.1fs)" % (inv, a["status"], a.get("wall", 0)))
        if a["status"] == want:
            discharged += 1
        else:
            ctx.infra("Apalache obligation %s: expected %s, got %s\n%s" % (inv, want, a["status"], a.get("out", "")[-800:]))
    # ---- part 4: the counters behind the thresholds count distinct peers (real BlockPool)
    if td is not None:
        td.join()
        for m in dres.get("infra", []):
            ctx.infra(m)
        for key, (detail, replay, cnt) in sorted(dres.get("viol", {}).items()):
            detail["instances"] = cnt
            ctx.violation(key, detail, replay)
        if dres.get("viol"):
            ctx.samples.append({"distinctness_violation": sorted(dres["viol"])[0], "replay": dres["viol"][sorted(dres["viol"])[0]][1]})
    dcov = dres.get("cov", {})
    ctx.samples.append({"table_row": {"N": 7, "C": 2, "thresholds": table.get((7, 2))}})
    ctx.samples.append({"fitted_forms": forms})
    ctx.finish("proof", {
        "obligations": len(obligations), "discharged": discharged, "checker_cmd": cmd,
        "trusted_base": ["Apalache 0.58 + Z3 (integer division by constants)", "TLC (table evaluation)", "Go harness probing (least accepted k, monotonicity sampled)"],
        "extracted_rows": nrows, "table_pairs": len(table), "intersect_pairs_checked": npairs_checked,
        "fitted_forms": forms, "closed_form_exact": exact, "proof_applies_to": covered_by_proof,
        "states": ctx.stats["states"], "transitions": ctx.stats["transitions"],
        "N_max": max([p[0] for p in pairs]), "crypto_N_max": crypto_max,
        "distinct_signers": dcov, "traces_validated_against_impl": dcov.get("paths", 0),
    }, ["the counters of endorseDone / commitDone(fallback) are checked to count distinct peers for re-sending behaviours of one or two "
        "peers within the bounds of QuorumDistinct_MC (all signatures valid; the commit-message path getCommitConsensus counts a set "
        "per proposer, its '+1 for the proposer' is C31's finding)",
        "thresholds are extracted as 'least number of distinct signers accepted' on canonical evidence shapes (proposer distinct from "
        "committers/endorsers); adversarial shapes (double counting, unverified claims) are the subject of C31",
        "VerifyBlock is probed without a ledger: only its multi-signature stage is executed",
        "verifyHeader is probed on a LedgerStoreImp skeleton (header cache + vbftPeerInfoMap), VBFT branch"])
