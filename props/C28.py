"""C28 -- BFT quorum thresholds always intersect in an honest peer.

1. the decision thresholds are EXTRACTED from the real code (least accepted number of distinct signers, probing the real
   getCommitConsensus / BlockPool.commitDone / endorseDone / CheckSubmitBlock / VerifyBlock / AddressFromBookkeepers /
   LedgerStoreImp.verifyHeader for every (N, C) of the tier's table);
2. TLC (Quorum_MC) evaluates Intersect / HonestWitness of spec/Quorum.tla on the extracted table and compares it with the
   closed forms;
3. Apalache proves the closed-form lemmas for unbounded N, C (any thresholds >= Q(N) intersect in > C peers, ...).
A violation is an extracted (N, C, function) whose threshold breaks Intersect / HonestWitness."""
import os
import threading

import vf

SAN = {"getCommitConsensus": "getCommitConsensus", "getCommitConsensus/spread": "getCommitConsensusSpread",
       "getCommitConsensus/empty": "getCommitConsensusEmpty", "getCommitConsensus/emptyThenClaims": "getCommitConsensusEmptyClaims",
       "commitDone/sigs": "commitDoneSigs", "commitDone/msgs": "commitDoneMsgs", "endorseDone": "endorseDone",
       "CheckSubmitBlock": "CheckSubmitBlock", "VerifyBlock": "VerifyBlock", "AddressFromBookkeepers": "AddressFromBookkeepers",
       "verifyHeader": "verifyHeader", "verifyHeaderListed": "verifyHeaderListed", "verifyHeaderDbft": "verifyHeaderDbft"}
FNS = list(SAN.values())
DECISION = ["getCommitConsensus", "getCommitConsensusSpread", "getCommitConsensusEmpty", "getCommitConsensusEmptyClaims", "commitDoneSigs", "commitDoneMsgs", "CheckSubmitBlock",
            "VerifyBlock", "AddressFromBookkeepers", "verifyHeader", "verifyHeaderDbft"]
WITNESS = ["endorseDone"]
FORMS = [("N-(N-1)/3", lambda n, c: n - (n - 1) // 3), ("N-6N/7", lambda n, c: n - 6 * n // 7), ("C+1", lambda n, c: c + 1),
         ("max(N-6N/7,C+1)", lambda n, c: max(n - 6 * n // 7, c + 1)), ("N-(N-1)/3-1", lambda n, c: n - (n - 1) // 3 - 1),
         ("2C+1", lambda n, c: 2 * c + 1)]


def pairs_for(ctx):
    ps = []
    if ctx.thorough:
        nmax = 300
        for n in range(1, nmax + 1):
            cmax = (n - 1) // 3
            if n <= 40:
                cs = range(0, cmax + 1)
            else:
                cs = sorted({0, 1, cmax, max(0, cmax - 1), cmax // 2, ctx.rng.randint(0, cmax), ctx.rng.randint(0, cmax)})
            ps += [[n, c] for c in cs]
        return ps, 100
    for n in range(1, 41):
        ps += [[n, c] for c in range(0, (n - 1) // 3 + 1)]
    return ps, 40


def fit(table, fn):
    rows = [(n, c, r[fn]) for (n, c), r in table.items() if r.get(fn, -2) not in (-2, -1)]
    if not rows:
        return "unprobed"
    for name, f in FORMS:
        if all(k == f(n, c) for n, c, k in rows):
            return name
    return "unfit"


def run(ctx):
    pairs, crypto_max = pairs_for(ctx)
    bins = {}

    def build(key, pkg, harness, hide):
        bins[key] = ctx.go_test_bin(pkg, harness=harness, hide_own_tests=hide)

    th = [threading.Thread(target=build, args=("vbft", "consensus/vbft", "vbft_bvbft", False)),
          threading.Thread(target=build, args=("ls", "core/store/ledgerstore", "ledgerstore_bvbft", True))]
    [t.start() for t in th]
    [t.join() for t in th]
    table = {}
    nonmono = []
    nrows = 0
    if bins.get("vbft") and bins.get("ls"):
        fin = os.path.join(ctx.scratch, "thr.in.json")
        vf.write_json(fin, {"pairs": pairs, "cryptoMaxN": crypto_max})
        outs = {}

        def probe(key, test):
            fo = os.path.join(ctx.scratch, "thr-%s.ndjson" % key)
            rc, _ = ctx.run_bin(bins[key], test, env={"VERIF_IN": fin, "VERIF_OUT": fo}, timeout=1500, quiet=False)
            outs[key] = (rc, fo)

        th = [threading.Thread(target=probe, args=("vbft", "TestVerifVBThresholds")),
              threading.Thread(target=probe, args=("ls", "TestVerifVHThresholds"))]
        [t.start() for t in th]
        [t.join() for t in th]
        for key, (rc, fo) in outs.items():
            if rc != 0:
                ctx.infra("threshold extraction harness %s failed rc=%s" % (key, rc))
                continue
            for r in vf.read_ndjson(fo):
                nrows += 1
                if r["fn"] == "verifyHeaderDbft":
                    # the non-vbft branch does not depend on C: the row holds for every admissible C of this N
                    for cc in range(0, (r["n"] - 1) // 3 + 1):
                        table.setdefault((r["n"], cc), {})["verifyHeaderDbft"] = r["k"]
                    if r["up"] != 1:
                        nonmono.append((r["fn"], r["n"], r["c"]))
                    continue
                rec = table.setdefault((r["n"], r["c"]), {})
                if r["fn"] == "verifyHeader":
                    rec["verifyHeader"] = r["v"]        # valid signatures really needed
                    rec["verifyHeaderListed"] = r["k"]  # distinct member bookkeepers that must be listed
                else:
                    rec[SAN[r["fn"]]] = r["k"]
                if r["up"] != 1 and r["fn"] != "AddressFromBookkeepers":
                    nonmono.append((r["fn"], r["n"], r["c"]))
        ctx.log("extracted %d threshold rows for %d (N,C) pairs" % (nrows, len(table)))
    if nonmono:
        ctx.infra("non-monotone acceptance (least-k abstraction not applicable): %s" % nonmono[:5])
    missing = [p for p in pairs if tuple(p) not in table]
    if missing or not table:
        ctx.infra("extraction incomplete: %d pairs missing" % len(missing))
    forms = {fn: fit(table, fn) for fn in FNS}
    ctx.log("fitted closed forms: %s" % forms)

    # ---- TLC on the extracted table
    rows = []
    if table:
        keys = sorted(table)
        mod = ["---- MODULE QuorumTable ----", "EXTENDS Integers", "Pairs == <<" + ", ".join("<<%d, %d>>" % k for k in keys) + ">>", "Thr == <<"]
        recs = []
        for k in keys:
            recs.append("[" + ", ".join("%s |-> %d" % (fn, table[k].get(fn, -2)) for fn in FNS) + "]")
        mod.append(",\n".join(recs) + ">>")
        mod.append("====")
        r = ctx.tlc("Quorum_MC", cfg="Quorum_C28.cfg", workers=1, files={"QuorumTable.tla": "\n".join(mod) + "\n"}, timeout=900)
        if r.status != "ok":
            ctx.infra("TLC on the extracted table: status=%s violated=%s %s" % (r.status, r.violated, r.errors[:2]))
        rows = r.prints.get("ROW", [])
        if len(rows) != len(keys):
            ctx.infra("TLC evaluated %d rows, expected %d" % (len(rows), len(keys)))
        ctx.log("TLC evaluated %d table rows (%d states)" % (len(rows), r.distinct))

    # ---- oracle: Intersect / HonestWitness on the extracted thresholds
    bad = {}
    npairs_checked = 0
    for row in rows:
        n, c = row["n"], row["c"]
        rec = table[(n, c)]
        for f, ok in row["witness"].items():
            if not ok:
                bad.setdefault("HonestWitness:%s[%s]" % (f, forms[f]), []).append((n, c, rec[f]))
        for f, gs in row["inter"].items():
            for g, ok in gs.items():
                npairs_checked += 1
                if not ok:
                    # Intersect(Q,Q) holds and is monotone: a failing pair contains a threshold below Q(N)
                    blamed = [h for h in (f, g) if not row["atleastQ"][h]]
                    for h in blamed or [f, g]:
                        bad.setdefault("Intersect:%s[%s]" % (h, forms[h]), []).append((n, c, rec[h], f, g))
    for key, lst in sorted(bad.items()):
        first = min([x for x in lst if x[1] >= 1] or lst)
        ctx.violation(key, {"instances": len(lst), "first": {"N": first[0], "C": first[1], "extracted_threshold": first[2],
                                                              "pair": list(first[3:])}},
                      {"table_row": {"n": first[0], "c": first[1], "thresholds": table[(first[0], first[1])]}})
    exact = {fn: all(row["exact"].get(fn, True) or table[(row["n"], row["c"])].get(fn) == -1 for row in rows) for fn in FNS}
    covered_by_proof = [fn for fn in DECISION if rows and all(row["atleastQ"].get(fn, True) for row in rows)]
    ctx.log("closed form exact: %s" % exact)
    ctx.log("thresholds dominated by Q(N) on the whole table (Apalache lemma O1 applies): %s" % covered_by_proof)

    # ---- Apalache: unbounded N, C
    obligations = [("InvQQ", "ok"), ("InvWitness", "ok"), ("InvQForm", "ok"), ("InvQTight", "ok"), ("InvQLive", "ok")]
    if forms.get("verifyHeader") == "N-6N/7":
        obligations.append(("InvHdrWouldIntersect", "violation"))  # documents the finding: expected counterexample
    elif forms.get("verifyHeader") == "max(N-6N/7,C+1)":
        obligations.append(("InvHdrWitnessWouldIntersect", "violation"))  # a witness threshold (C+1) is not a quorum
    res = {}

    def apa(inv):
        res[inv] = ctx.apalache("Quorum_Apa.tla", inv=inv, length=0, timeout=600)

    # parallel Apalache runs: spec staging is serialized (ctx.stage_specs numbers its scratch dirs)
    lock = threading.Lock()
    orig_stage = ctx.stage_specs

    def locked_stage(extra_files=None):
        with lock:
            return orig_stage(extra_files)

    ctx.stage_specs = locked_stage
    th = [threading.Thread(target=apa, args=(inv,)) for inv, _ in obligations]
    [t.start() for t in th]
    [t.join() for t in th]
    ctx.stage_specs = orig_stage
    discharged = 0
    cmd = ""
    for inv, want in obligations:
        a = res.get(inv, {"status": "error", "out": ""})
        cmd = a.get("cmd", cmd)
        ctx.log("apalache %s: %s (%.1fs)" % (inv, a["status"], a.get("wall", 0)))
        if a["status"] == want:
            discharged += 1
        else:
            ctx.infra("Apalache obligation %s: expected %s, got %s\n%s" % (inv, want, a["status"], a.get("out", "")[-800:]))
    ctx.samples.append({"table_row": {"N": 7, "C": 2, "thresholds": table.get((7, 2))}})
    ctx.samples.append({"fitted_forms": forms})
    ctx.finish("proof", {
        "obligations": len(obligations), "discharged": discharged, "checker_cmd": cmd,
        "trusted_base": ["Apalache 0.58 + Z3 (integer division by constants)", "TLC (table evaluation)", "Go harness probing (least accepted k, monotonicity sampled)"],
        "extracted_rows": nrows, "table_pairs": len(table), "intersect_pairs_checked": npairs_checked,
        "fitted_forms": forms, "closed_form_exact": exact, "proof_applies_to": covered_by_proof,
        "states": ctx.stats["states"], "transitions": ctx.stats["transitions"],
        "N_max": max([p[0] for p in pairs]), "crypto_N_max": crypto_max,
    }, ["thresholds are extracted as 'least number of distinct signers accepted' on canonical evidence shapes (proposer distinct from "
        "committers/endorsers); adversarial shapes (double counting, unverified claims) are the subject of C31",
        "VerifyBlock is probed without a ledger: only its multi-signature stage is executed",
        "verifyHeader is probed on a LedgerStoreImp skeleton (header cache + vbftPeerInfoMap), VBFT branch"])
