"""Shared machinery of the system specification X02 (spec/TxPipe.tla): the transaction pool SERVER PIPELINE
(txnpool/proc/*.go + txnpool/common/transaction_pool.go)."""
import json
import os
import re
import subprocess
import time

import vf

PKG = "txnpool/proc"
HARNESS = "x02_txpipe"
CONSTS_FILE = "txnpool/common/txnpool_common.go"


def build(ctx, cap_, lim, name="x02"):
    """Test binary of /repo/txnpool/proc with the harness injected (as ctx.go_test_bin does) AND with the two
    compile-time limits of txnpool/common (MAX_CAPACITY, MAX_LIMITATION: Go constants) set to the model's small
    values through the same -overlay mechanism: the overlaid file is generated from the checked tree's own
    txnpool_common.go by rewriting the two literals only (nothing in /repo is edited)."""
    repo = vf.REPO
    bdir = os.path.join(ctx.scratch, "bin")
    os.makedirs(bdir, exist_ok=True)
    stub = os.path.join(vf.VERIF, "build", "stub", "libwasmjit_stub.a")
    if not os.path.exists(stub):
        subprocess.run([os.path.join(vf.VERIF, "bin", "setup")], check=True, stdout=subprocess.DEVNULL)
    ov = {}
    pkgdir = os.path.join(repo, PKG)
    for fn in os.listdir(pkgdir):
        if fn.endswith("_test.go"):
            ov[os.path.join(pkgdir, fn)] = ""      # the package's own TestMain opens ./Chain
    hdir = os.path.join(vf.VERIF, "harness", HARNESS)
    for fn in sorted(os.listdir(hdir)):
        if fn.endswith(".go"):
            ov[os.path.join(pkgdir, "zz_verif_" + fn)] = os.path.join(hdir, fn)
    cdir = os.path.join(vf.VERIF, "harness", "_common")
    for fn in sorted(os.listdir(cdir)):
        if fn.endswith(".go.tmpl"):
            gen = os.path.join(bdir, "%s_common_%s_test.go" % (name, fn[:-8]))
            with open(gen, "w") as f:
                f.write(open(os.path.join(cdir, fn)).read().replace("PKGNAME", "proc"))
            ov[os.path.join(pkgdir, "zz_verif_common_" + fn[:-8] + "_test.go")] = gen
    src = open(os.path.join(repo, CONSTS_FILE)).read()
    new, n1 = re.subn(r"(\bMAX_CAPACITY\s*=\s*)\d+", r"\g<1>%d" % cap_, src, count=1)
    new, n2 = re.subn(r"(\bMAX_LIMITATION\s*=\s*)\d+", r"\g<1>%d" % lim, new, count=1)
    if n1 != 1 or n2 != 1:
        ctx.infra("cannot find the MAX_CAPACITY / MAX_LIMITATION constants in %s" % CONSTS_FILE)
        return None
    gen = os.path.join(bdir, "%s_txnpool_common.go" % name)
    with open(gen, "w") as f:
        f.write(new)
    ov[os.path.join(repo, CONSTS_FILE)] = gen
    ovp = os.path.join(bdir, name + ".overlay.json")
    with open(ovp, "w") as f:
        json.dump({"Replace": ov}, f)
    out = os.path.join(bdir, name + ".test")
    cmd = ["go", "test", "-c", "-vet=off", "-overlay", ovp, "-o", out, "./" + PKG]
    t = time.time()
    p = subprocess.run(cmd, cwd=repo, env=ctx.go_env(), stdout=subprocess.PIPE, stderr=subprocess.STDOUT, text=True)
    if p.returncode != 0 or not os.path.exists(out):
        ctx.infra("go build of harness %s failed:\n%s" % (name, p.stdout[-3000:]))
        return None
    ctx.log("built %s (MAX_CAPACITY=%d MAX_LIMITATION=%d) in %.1fs" % (name, cap_, lim, time.time() - t))
    return out


# ------------------------------------------------------------------------------------------------ model
TXALL = ["t1", "t1b", "t2", "t3", "t4", "t5", "t6"]
HASHOF = {t: ("t1" if t == "t1b" else t) for t in TXALL}
BADSIG = {"t1b", "t4"}
LOWGAS = {"t5"}
ACTIONS = ["Submit", "DeliverSL", "DeliverSF", "GetTxPool", "VerifyBlock", "LedgerSave", "BlockSaved"]
CODED = dict(InvertedExpiry=True, CheckThenActCap=True, SlotOverReturn=True, SlotLostOnDup=True)
DESIGN = dict(InvertedExpiry=False, CheckThenActCap=False, SlotOverReturn=False, SlotLostOnDup=False)

SIZES = {
    # tiny: payer A's pair (t2 becomes unpayable once t1 is on chain); complete graph, every edge is replayed (quick tier)
    "S": dict(submit="SubmitS", stale="NoStale", kinds="KindsH", blocks="BlocksS", vlists="VListsS", bycounts="ByCountT", QuietVerify=True,
              Cap=1, Lim=2, MaxTx=1, H0=1, MaxHeight=2, MaxLag=1, MaxFly=3, MaxPerTx=1),
    # mini: t1 and its bad-signature twin, stale admission; used with pre-execution disabled (BlockSaved without Remain)
    "N": dict(submit="SubmitN", stale="StaleQ", kinds="KindsH", blocks="BlocksN", vlists="VListsN", bycounts="ByCountT", QuietVerify=True,
              Cap=1, Lim=2, MaxTx=1, H0=1, MaxHeight=2, MaxLag=1, MaxFly=3, MaxPerTx=1),
    # small: both together, block with t2 (thorough, every edge replayed)
    "M": dict(submit="SubmitM", stale="StaleQ", kinds="KindsH", blocks="BlocksM", vlists="VListsM", bycounts="ByCountTF", QuietVerify=True,
              Cap=1, Lim=2, MaxTx=1, H0=1, MaxHeight=2, MaxLag=1, MaxFly=3, MaxPerTx=1),
    # + an independent payer, pool capacity 2 (thorough: exhaustive check, no replay)
    "Q": dict(submit="SubmitQ", stale="StaleQ", kinds="KindsH", blocks="BlocksQ", vlists="VListsQ", bycounts="ByCountTF", QuietVerify=False,
              Cap=2, Lim=2, MaxTx=1, H0=1, MaxHeight=2, MaxLag=1, MaxFly=3, MaxPerTx=1),
    # witness of the pending-limit deviation (BFS to the first violation only)
    "W": dict(submit="SubmitW", stale="NoStale", kinds="KindsH", blocks="BlocksW", vlists="VListsW", bycounts="ByCountT", QuietVerify=True,
              Cap=1, Lim=2, MaxTx=1, H0=1, MaxHeight=2, MaxLag=1, MaxFly=7, MaxPerTx=1),
    # thorough: two blocks, lag 2, both sender kinds, more tasks in flight (random walks)
    "T": dict(submit="SubmitT", stale="StaleT", kinds="KindsHN", blocks="BlocksT", vlists="VListsT", bycounts="ByCountTF", QuietVerify=False,
              Cap=2, Lim=2, MaxTx=2, H0=1, MaxHeight=3, MaxLag=2, MaxFly=5, MaxPerTx=2),
}


def tla_bool(b):
    return "TRUE" if b else "FALSE"


def cfg_text(size, switches, preexec=True, export="edge", invariants=None, properties=None, **over):
    k = dict(SIZES[size])
    k.update(over)
    inv = invariants if invariants is not None else ["TypeOK", "PoolSound", "Unique", "NoOrphan", "LimitsCoded"]
    props = properties if properties is not None else ["GetTxPoolOK", "DupAnswered", "BlockSavedOK", "ReplyOnce", "VerifyBlockCoded"]
    lines = ["SPECIFICATION Spec", "CONSTANTS",
             "  Txs <- TxAll", "  HashOf <- HashAll", "  BadSig <- BadSigAll", "  LowGas <- LowGasAll",
             "  Price <- PriceAll", "  Drains <- DrainsAll",
             "  SubmitTxs <- %s" % k["submit"], "  StaleTxs <- %s" % k["stale"], "  Kinds <- %s" % k["kinds"],
             "  Blocks <- %s" % k["blocks"], "  VLists <- %s" % k["vlists"], "  ByCounts <- %s" % k["bycounts"],
             "  QuietVerify = %s" % tla_bool(k["QuietVerify"])]
    for c in ("Cap", "Lim", "MaxTx", "H0", "MaxHeight", "MaxLag", "MaxFly", "MaxPerTx"):
        lines.append("  %s = %d" % (c, k[c]))
    lines.append("  PreExec = %s" % tla_bool(preexec))
    for s, v in switches.items():
        lines.append("  %s = %s" % (s, tla_bool(v)))
    lines.append("VIEW view")
    if inv:
        lines.append("INVARIANTS " + " ".join(inv))
    if props:
        lines.append("PROPERTIES " + " ".join(props))
    if export == "edge":
        lines += ["CONSTRAINT InitOut", "ACTION_CONSTRAINT Edge"]
    if export == "alias":
        lines += ["ALIAS Alias"]
    lines.append("CHECK_DEADLOCK FALSE")
    return "\n".join(lines) + "\n", k


def norm_state(s):
    """sets come as arrays in TLC's order: sort them (chain is a sequence and stays as it is)"""
    for f in ("pool", "pend", "fly"):
        s[f] = vf.norm_set(s[f])
    return s


def init_state(k):
    return {"chain": [], "pnext": k["H0"] + 1, "pool": [], "pend": [], "fly": [], "sheight": 0, "slots": k["Lim"]}


def collect(r):
    edges = r.prints.get("EDGE", [])
    for e in edges:
        norm_state(e["from"])
        norm_state(e["to"])
    inits = [norm_state(s) for s in r.prints.get("INIT", [])]
    return edges, inits


# ------------------------------------------------------------------------------------------------ replay
def go_act(a):
    n = a["name"]
    if n == "Submit":
        return {"name": n, "tx": a["tx"], "kind": a["kind"], "stale": a["stale"]}
    if n == "DeliverSL":
        return {"name": n, "tx": a["tx"]}
    if n == "DeliverSF":
        return {"name": n, "tx": a["tx"], "h": a["h"]}
    if n == "GetTxPool":
        return {"name": n, "bycount": a["bycount"], "h": a["h"]}
    if n == "VerifyBlock":
        return {"name": n, "list": a["list"], "h": a["h"]}
    if n == "LedgerSave":
        return {"name": n, "block": a["block"]}
    if n == "BlockSaved":
        return {"name": n, "h": a["h"]}
    raise ValueError(n)


def replay(ctx, binary, k, preexec, paths, tag, timeout=1500, procs=4):
    """Runs the paths on the real server: `procs` harness processes side by side (each with its own ledger), the
    paths dealt out so that every process gets about the same number of steps.  Returns {path index: [observations]}."""
    from concurrent.futures import ThreadPoolExecutor
    procs = max(1, min(procs, len(paths)))
    order = sorted(range(len(paths)), key=lambda i: -len(paths[i]["steps"]))
    chunks = [[] for _ in range(procs)]
    load = [0] * procs
    for i in order:
        j = load.index(min(load))
        chunks[j].append(i)
        load[j] += len(paths[i]["steps"]) + 8
    t = time.time()

    def one(ci):
        idx = chunks[ci]
        inp = {"cap": k["Cap"], "lim": k["Lim"], "maxtx": k["MaxTx"], "preexec": preexec, "h0": k["H0"],
               "paths": [{"steps": [go_act(s["act"]) for s in paths[i]["steps"]]} for i in idx]}
        fin = os.path.join(ctx.scratch, "replay-%s-%d.in.json" % (tag, ci))
        fout = os.path.join(ctx.scratch, "replay-%s-%d.out.ndjson" % (tag, ci))
        vf.write_json(fin, inp)
        rc, out = ctx.run_bin(binary, "TestVerifTxPipeReplay", env={"VERIF_IN": fin, "VERIF_OUT": fout}, timeout=timeout,
                              cwd=os.path.join(ctx.scratch, "wd-%s-%d" % (tag, ci)))
        if rc != 0:
            return None
        res = {}
        for o in vf.read_ndjson(fout):
            res.setdefault(idx[o["path"]], []).append(o)
        return res

    obs = {}
    with ThreadPoolExecutor(procs) as ex:
        for ci, res in enumerate(ex.map(one, range(procs))):
            if res is None:
                ctx.infra("replay harness %s (process %d) failed" % (tag, ci))
                return None
            obs.update(res)
    ctx.log("replay %s: %d paths, %d observations, %d processes, %.1fs" % (tag, len(paths), sum(len(v) for v in obs.values()), procs, time.time() - t))
    return obs


def model_view(s, k):
    """the projection of a model state that the harness observes"""
    flysl, flysf = {}, {}
    for f in s["fly"]:
        if f["ty"] == "SL":
            flysl[f["tx"]] = flysl.get(f["tx"], 0) + f["n"]
        else:
            flysf[HASHOF[f["tx"]]] = flysf.get(HASHOF[f["tx"]], 0) + f["n"]
    return {
        "pool": {HASHOF[e["tx"]]: {"tx": e["tx"], "vh": e["vh"]} for e in s["pool"]},
        "pend": {HASHOF[e["tx"]]: {"tx": e["tx"], "src": e["src"], "ch": e["ch"], "sl": e["sl"], "sf": e["sf"], "chk": e["chk"]}
                 for e in s["pend"]},
        "slots": s["slots"], "sheight": s["sheight"], "height": k["H0"] + len(s["chain"]),
        "flysl": flysl, "flysf": flysf,
    }


def real_view(o):
    return {f: o[f] for f in ("pool", "pend", "slots", "sheight", "height", "flysl", "flysf")}


class Oracle:
    """Ground truth of ONE replayed path, kept independently of the model state: what is on the ledger, which validator
    results were handed to the server, which submissions are open.  The properties (a)-(f) are evaluated on the
    observations of the real server against it."""

    def __init__(self, k):
        self.k = k
        self.h0 = k["H0"]
        self.blocks = []            # list of lists of hashes
        self.sl_ok = set()          # hashes for which a passing stateless response was delivered
        self.sf_ok = {}             # hash -> set of heights h: a passing stateful response computed at h was delivered
        self.open = {}              # hash -> number of submissions without an answer
        self.prev = None            # previous observation

    def onchain_at(self, h):
        s = set()
        for b in self.blocks[:max(0, h - self.h0)]:
            s.update(b)
        return s

    def height(self):
        return self.h0 + len(self.blocks)

    def check(self, act, o):
        """returns list of (key, detail) for what the REAL observation o (after act) does that contradicts (a)-(f)"""
        bad = []
        k = self.k
        n = act["name"]
        prev = self.prev
        if n == "LedgerSave":
            self.blocks.append([HASHOF[t] for t in act["block"]])
        if n == "DeliverSL" and act["tx"] not in BADSIG:
            self.sl_ok.add(HASHOF[act["tx"]])
        if n == "DeliverSF" and HASHOF[act["tx"]] not in self.onchain_at(act["h"]):
            self.sf_ok.setdefault(HASHOF[act["tx"]], set()).add(act["h"])
        # (e) replies
        for t in o.get("double", []) or []:
            bad.append(("Reply:double-answer", {"tx": t}))
        if n == "Submit":
            x = HASHOF[act["tx"]]
            self.open[x] = self.open.get(x, 0) + 1
        for r in o["replies"]:
            x = HASHOF[r["tx"]]
            self.open[x] = self.open.get(x, 0) - 1
        for x, cnt in self.open.items():
            has = x in o["pend"] and o["pend"][x]["ch"]
            if cnt > (1 if has else 0):
                bad.append(("Reply:lost", {"hash": x, "unanswered": cnt, "pending_with_channel": has}))
            elif cnt < (1 if has else 0):
                bad.append(("Reply:entry-without-submission", {"hash": x}))
        # (b) duplicate submissions
        if n == "Submit" and prev is not None:
            x = HASHOF[act["tx"]]
            if x in prev["pend"] or x in prev["pool"]:
                if not o["replies"] or o["replies"][0]["err"] == "ok":
                    bad.append(("Submit:duplicate-not-refused", {"tx": act["tx"], "replies": o["replies"]}))
                elif o["replies"][0]["err"] not in ("dupinput", "full", "unknown"):
                    bad.append(("Submit:duplicate-wrong-error", {"tx": act["tx"], "replies": o["replies"]}))
                if o["pool"] != prev["pool"] or o["pend"] != prev["pend"] or o["flysl"] != prev["flysl"] or o["flysf"] != prev["flysf"]:
                    bad.append(("Submit:duplicate-disturbs-first", {"tx": act["tx"]}))
        for x in o["pool"]:
            if x in o["pend"]:
                bad.append(("Unique:hash-in-pool-and-pending", {"hash": x}))
        # (a) what is in the pool
        for x, e in o["pool"].items():
            if prev is not None and prev["pool"].get(x) == e:
                continue
            if e["tx"] in BADSIG:
                bad.append(("Pool:bad-signature-admitted", {"tx": e["tx"]}))
            if x not in self.sl_ok:
                bad.append(("Pool:admitted-without-stateless-result", {"tx": e["tx"]}))
            if e["vh"] not in self.sf_ok.get(x, ()):
                bad.append(("Pool:admitted-without-stateful-result-at-its-height", {"tx": e["tx"], "vh": e["vh"],
                                                                                     "passed_at": sorted(self.sf_ok.get(x, ()))}))
            if x in self.onchain_at(e["vh"]):
                bad.append(("Pool:on-chain-at-verified-height", {"tx": e["tx"], "vh": e["vh"]}))
        # (a)/(d) GetTxPool answers
        if n == "GetTxPool" and "ans" in o or n == "GetTxPool":
            ans = o.get("ans") or []
            seen = set()
            for e in ans:
                x = HASHOF.get(e["tx"], e["tx"])
                if x in seen:
                    bad.append(("GetTxPool:hash-twice", {"tx": e["tx"]}))
                seen.add(x)
                if e["vh"] < act["h"]:
                    bad.append(("GetTxPool:verified-below-requested-height", {"tx": e["tx"], "vh": e["vh"], "h": act["h"]}))
                if x in self.onchain_at(act["h"]):
                    bad.append(("GetTxPool:on-chain-tx-handed-out", {"tx": e["tx"], "h": act["h"]}))
                if e["tx"] in BADSIG:
                    bad.append(("GetTxPool:bad-signature-handed-out", {"tx": e["tx"]}))
                if prev is not None and prev["pool"].get(x) != {"tx": e["tx"], "vh": e["vh"]}:
                    bad.append(("GetTxPool:entry-not-in-pool", {"tx": e["tx"]}))
            if act["bycount"] and k["MaxTx"] > 0 and len(ans) > k["MaxTx"]:
                bad.append(("GetTxPool:more-than-MaxTxInBlock", {"n": len(ans)}))
        # (c) limits
        if len(o["pool"]) > k["Cap"]:
            bad.append(("Limit:pool-exceeds-MAX_CAPACITY:check-then-act", {"pool": len(o["pool"]), "cap": k["Cap"]}))
        users = [x for x, e in o["pend"].items() if e["src"] != "rev"]
        if len(users) > k["Lim"]:
            bad.append(("Limit:pending-exceeds-MAX_LIMITATION:slot-over-return", {"pending_from_users": len(users), "lim": k["Lim"]}))
        # (d) the saved block's transactions are gone from the pool
        if n == "BlockSaved":
            blk = self.blocks[act["h"] - self.h0 - 1]
            for x in blk:
                if x in o["pool"]:
                    bad.append(("BlockSaved:block-tx-left-in-pool", {"hash": x, "h": act["h"]}))
        # (f) VerifyBlock
        if n == "VerifyBlock" and o.get("valid") is not None:
            hs = [HASHOF[t] for t in act["list"]]
            dup = len(set(hs)) != len(hs)
            on_h = [x for x in hs if x in self.onchain_at(act["h"])]
            on_now = [x for x in hs if x in self.onchain_at(self.height())]
            good = not dup and not on_now and not any(t in BADSIG or t in LOWGAS for t in act["list"])
            if o["valid"] and dup:
                bad.append(("VerifyBlock:duplicate-in-list-accepted", {"list": act["list"]}))
            if o["valid"] and on_h:
                x = on_h[0]
                pe = prev["pool"].get(x) if prev is not None else None
                why = "expired-pool-entry" if pe is not None and pe["vh"] < act["h"] else ("fresh-pool-entry" if pe is not None else "unverified")
                bad.append(("VerifyBlock:on-chain-tx-accepted:" + why, {"list": act["list"], "h": act["h"], "hash": x, "pool_entry": pe}))
            if good and not o["valid"]:
                bad.append(("VerifyBlock:valid-list-rejected", {"list": act["list"], "h": act["h"], "errs": o.get("errs")}))
        self.prev = o
        return bad


def compare(act, to, o, k):
    """differences between the model's successor state / outputs and the real observation (None: equal)"""
    if o.get("err"):
        return {"harness": o["err"]}
    if o.get("blocked"):
        return {"blocked": "the real handleTransaction blocks on the slots channel"}
    mv, rv = model_view(to, k), real_view(o)
    diff = {f: {"model": mv[f], "real": rv[f]} for f in mv if mv[f] != rv[f]}
    mr = sorted(([r["tx"], r["err"]] for r in act.get("replies", [])))
    rr = sorted(([r["tx"], r["err"]] for r in o["replies"]))
    if mr != rr:
        diff["replies"] = {"model": mr, "real": rr}
    if act["name"] == "GetTxPool":
        ma = [[e["tx"], e["vh"]] for e in act["ans"]]
        ra = [[e["tx"], e["vh"]] for e in (o.get("ans") or [])]
        if ma != ra:
            diff["ans"] = {"model": ma, "real": ra}
    if act["name"] == "VerifyBlock":
        merr = act["err"]
        rerr = "ok" if o.get("valid") else ",".join(o.get("errs") or ["?"])
        if merr != rerr:
            diff["verify"] = {"model": merr, "real": rerr}
    if o.get("notes"):
        diff["notes"] = o["notes"]
    return diff or None


def judge(ctx, paths, obs, k, tag, stats):
    """property oracles on every real observation; a difference from the model that is not explained by a property
    violation is MODEL DRIFT (infra).  Returns number of steps compared."""
    nsteps = 0
    ndrift = 0
    for pi, p in enumerate(paths):
        ob = obs.get(pi, [])
        if len(ob) < 1:
            ctx.infra("%s: path %d produced no observation" % (tag, pi))
            continue
        orc = Oracle(k)
        orc.prev = real_view(ob[0])
        orc.prev["replies"] = []
        d0 = compare({"name": "Init", "replies": []}, p["init"], ob[0], k)
        if d0:
            ctx.infra("%s: initial state differs: %s" % (tag, d0))
            continue
        for si, s in enumerate(p["steps"]):
            if si + 1 >= len(ob):
                ctx.infra("%s: path %d stops after %d of %d steps" % (tag, pi, len(ob) - 1, len(p["steps"])))
                break
            o = ob[si + 1]
            act = s["act"]
            nsteps += 1
            stats[act["name"]] = stats.get(act["name"], 0) + 1
            rp = {"config": tag, "constants": k, "steps": [go_act(x["act"]) for x in p["steps"][:si + 1]]}
            # a harness-level failure or a call that blocks (no step of the model does) is drift, not an observation
            bad = [] if (o.get("err") or o.get("blocked")) else orc.check(act, o)
            for key, detail in bad:
                ctx.violation(key, detail, rp)
            d = compare(act, s["to"], o, k)
            if d:
                # a property violation explains the divergence (the model is the property's model); otherwise drift
                if not [b for b in bad if b[0] not in ctx.known_keys()]:
                    ndrift += 1
                    if ndrift <= 5:
                        ctx.infra("MODEL-DRIFT %s path %d step %d %s: %s" % (tag, pi, si + 1, json.dumps(go_act(act)), json.dumps(d)[:1500]))
                        ctx.log("  drift replay: %s" % json.dumps(rp["steps"]))
                break
    if ndrift > 5:
        ctx.infra("MODEL-DRIFT %s: %d paths diverged" % (tag, ndrift))
    return nsteps


# ------------------------------------------------------------------------------------------------ cover
def cover(edges, inits, max_len=400, bfs_limit=400):
    """Transition cover with long paths: from the BFS-tree prefix of a state with uncovered out-edges, follow uncovered
    edges greedily; when the current state has none left, walk (bounded BFS) to the nearest state that has.
    Same path format as vf.Ctx.cover; every edge reachable from an initial state is on some path."""
    sid, states = {}, []

    def ident(s):
        c = vf.canon(s)
        i = sid.get(c)
        if i is None:
            i = sid[c] = len(states)
            states.append(s)
        return i

    seen, E, adj = set(), [], {}
    for e in edges:
        a, b = ident(e["from"]), ident(e["to"])
        key = (a, vf.canon(e["act"]), b)
        if key in seen:
            continue
        seen.add(key)
        adj.setdefault(a, []).append(len(E))
        E.append((a, e["act"], b))
    roots = [ident(s) for s in inits]
    parent = {r: None for r in roots}
    root_of = {r: r for r in roots}
    order = list(roots)
    qi = 0
    while qi < len(order):
        u = order[qi]
        qi += 1
        for ei in adj.get(u, ()):
            v = E[ei][2]
            if v not in parent:
                parent[v] = ei
                root_of[v] = root_of[u]
                order.append(v)
    covered = [False] * len(E)
    nxt = {u: 0 for u in adj}
    ncov = 0

    def uncovered_edge(u):
        lst = adj.get(u)
        if not lst:
            return None
        i = nxt[u]
        while i < len(lst) and covered[lst[i]]:
            i += 1
        nxt[u] = i
        return lst[i] if i < len(lst) else None

    def walk_to_uncovered(start):
        prev = {start: None}
        q = [start]
        i = 0
        while i < len(q) and len(q) < bfs_limit:
            u = q[i]
            i += 1
            for ei in adj.get(u, ()):
                v = E[ei][2]
                if v in prev:
                    continue
                prev[v] = ei
                if uncovered_edge(v) is not None:
                    path = []
                    while prev[v] is not None:
                        path.append(prev[v])
                        v = E[prev[v]][0]
                    path.reverse()
                    return path
                q.append(v)
        return None

    paths = []
    for u in order:
        while uncovered_edge(u) is not None:
            pre = []
            x = u
            while parent[x] is not None:
                pre.append(parent[x])
                x = E[parent[x]][0]
            pre.reverse()
            chain = list(pre)
            cur = u
            while len(chain) < max(max_len, len(pre) + 1):
                ei = uncovered_edge(cur)
                if ei is None:
                    hop = walk_to_uncovered(cur)
                    if hop is None or len(chain) + len(hop) >= max_len:
                        break
                    chain.extend(hop)
                    cur = E[hop[-1]][2]
                    continue
                chain.append(ei)
                covered[ei] = True
                ncov += 1
                cur = E[ei][2]
            for ei in chain:
                if not covered[ei]:
                    covered[ei] = True
                    ncov += 1
            paths.append({"init": states[root_of[u]], "steps": [{"act": E[ei][1], "to": states[E[ei][2]]} for ei in chain]})
    return paths, ncov, len(E)


# ------------------------------------------------------------------------------------------------ witnesses
# named deviation of the code  ->  (finding key, configuration, strict property the as-coded model violates)
DEVIATIONS = {
    "CheckThenActCap": ("Limit:pool-exceeds-MAX_CAPACITY:check-then-act", "S", "inv", "PoolCapStrict"),
    "SlotOverReturn": ("Limit:pending-exceeds-MAX_LIMITATION:slot-over-return", "W", "inv", "PendLimStrict"),
    "InvertedExpiry": ("VerifyBlock:on-chain-tx-accepted:expired-pool-entry", "S", "prop", "VerifyBlockOK"),
}


def switches(ctx):
    """the as-coded switches; a deviation whose finding is marked fixed is switched off (the check then replays the
    design model on the code and reports the defect as a violation should it come back)"""
    sw = dict(CODED)
    fixed = {f.get("key") for f in ctx._findings if f.get("property") == ctx.pid and f.get("status") == "fixed"}
    for name, (key, _, _, _) in DEVIATIONS.items():
        if key in fixed:
            sw[name] = False
    return sw


def witness(ctx, name, sw, preexec=True):
    """TLC (breadth first) on the as-coded model with the STRICT property: the shortest behaviour that violates it,
    as a path for the replay.  None (+ infra) when TLC finds none: the switch would be decorative."""
    key, size, kind, prop = DEVIATIONS[name]
    cfg = "TxPipe_wit_%s.cfg" % name
    text, k = cfg_text(size, sw, preexec=preexec, export="alias", invariants=[prop] if kind == "inv" else [],
                       properties=[prop] if kind == "prop" else [])
    r = ctx.tlc("TxPipe_MC", cfg=cfg, workers=1, files={cfg: text}, timeout=1200, tags=())
    if r.status != "violation" or r.violated != prop:
        ctx.infra("witness %s: the as-coded model does not violate %s (status %s %s %s)" % (name, prop, r.status, r.violated, r.errors[:2]))
        return None, k, r
    states = []
    for line in r.trace_text.split("\n"):
        m = re.match(r'^/\\ j = (".*")\s*$', line.strip()) or re.match(r'^j = (".*")\s*$', line.strip())
        if m:
            states.append(json.loads(json.loads(m.group(1))))
    if len(states) < 2:
        ctx.infra("witness %s: cannot read TLC's error trace (%d states)" % (name, len(states)))
        return None, k, r
    for st in states:
        norm_state(st["st"])
    path = {"init": states[0]["st"], "steps": [{"act": st["act"], "to": st["st"]} for st in states[1:]]}
    return path, k, r


# ------------------------------------------------------------------------------------------------ trace validation
def trace_run(ctx, binary, k, sw, ntraces, nsub, nper, nops, tag, maxh=3, preexec=True):
    inp = {"cap": k["Cap"], "lim": k["Lim"], "maxtx": k["MaxTx"], "preexec": preexec, "h0": k["H0"], "maxh": maxh,
           "ntraces": ntraces, "nsub": nsub, "nper": nper, "nops": nops}
    fin = os.path.join(ctx.scratch, "trace-%s.in.json" % tag)
    fraw = os.path.join(ctx.scratch, "trace-%s.raw.ndjson" % tag)
    fout = os.path.join(ctx.scratch, "trace-%s.ndjson" % tag)
    vf.write_json(fin, inp)
    rc, out = ctx.run_bin(binary, "TestVerifTxPipeTrace", env={"VERIF_IN": fin, "VERIF_OUT": fraw}, timeout=900,
                          cwd=os.path.join(ctx.scratch, "wd-trace-%s" % tag))
    if rc != 0:
        ctx.infra("trace driver failed rc=%s" % rc)
        return None, None
    ev = vf.read_ndjson(fraw)
    if not ev or ev[0].get("e") != "Header":
        ctx.infra("trace driver wrote no header")
        return None, None
    ev[0].update({"inverted": sw["InvertedExpiry"], "checkthenact": sw["CheckThenActCap"],
                  "slotoverreturn": sw["SlotOverReturn"], "slotlostondup": sw["SlotLostOnDup"]})
    write_ndjson(fout, ev)
    return fout, ev


def write_ndjson(path, ev):
    with open(path, "w") as f:
        for e in ev:
            f.write(json.dumps(e) + "\n")


def trace_oracle(ctx, ev, k, sw):
    """(a)-(f) on the log itself (no model): exactly one answer per submission, GetTxPool answers, VerifyBlock answers."""
    h0 = k["H0"]
    nsub = nget = nver = 0
    tr = -1
    chain, calls, answered = [], {}, {}

    def onchain_at(h):
        s = set()
        for b in chain[:max(0, h - h0)]:
            s.update(b)
        return s

    for i, e in enumerate(ev):
        n = e.get("e")
        rp = {"trace_prefix": ev[max(0, i - 40):i + 1]}
        if n == "Reset":
            for sid, c in calls.items():
                if c["e"] == "SubCall" and answered.get(sid, 0) == 0:
                    ctx.violation("Reply:lost", {"trace": tr, "submission": c}, rp)
            tr += 1
            chain, calls, answered = [], {}, {}
        elif n == "Abort" or n == "SubTimeout":
            ctx.infra("trace driver: %s %s" % (n, e.get("tx")))
        elif n == "SubCall":
            calls[e["id"]] = e
            nsub += 1
        elif n == "SubRet":
            answered[e["id"]] = answered.get(e["id"], 0) + 1
            if answered[e["id"]] > 1:
                ctx.violation("Reply:double-answer", {"trace": tr, "tx": e["tx"]}, rp)
        elif n == "SaveCall":
            chain.append([HASHOF[t] for t in e["block"]])
        elif n == "GetCall":
            calls[e["id"]] = e
            nget += 1
        elif n == "GetRet":
            c = calls[e["id"]]
            seen = set()
            for a in e["ans"]:
                x = HASHOF.get(a["tx"], a["tx"])
                if x in seen:
                    ctx.violation("GetTxPool:hash-twice", {"trace": tr, "tx": a["tx"]}, rp)
                seen.add(x)
                if a["vh"] < c["h"]:
                    ctx.violation("GetTxPool:verified-below-requested-height", {"trace": tr, "tx": a["tx"], "vh": a["vh"], "h": c["h"]}, rp)
                if x in onchain_at(c["h"]):
                    ctx.violation("GetTxPool:on-chain-tx-handed-out", {"trace": tr, "tx": a["tx"], "h": c["h"]}, rp)
                if a["tx"] in BADSIG:
                    ctx.violation("GetTxPool:bad-signature-handed-out", {"trace": tr, "tx": a["tx"]}, rp)
            if c["bc"] and k["MaxTx"] > 0 and len(e["ans"]) > k["MaxTx"]:
                ctx.violation("GetTxPool:more-than-MaxTxInBlock", {"trace": tr, "n": len(e["ans"])}, rp)
        elif n == "VerCall":
            calls[e["id"]] = e
            nver += 1
        elif n == "VerRet":
            c = calls[e["id"]]
            hs = [HASHOF[t] for t in c["list"]]
            if e["err"] == "ok" and len(set(hs)) != len(hs):
                ctx.violation("VerifyBlock:duplicate-in-list-accepted", {"trace": tr, "list": c["list"]}, rp)
            if e["err"] == "ok" and not sw["InvertedExpiry"] and [x for x in hs if x in onchain_at(c["h"])]:
                ctx.violation("VerifyBlock:on-chain-tx-accepted:trace", {"trace": tr, "list": c["list"], "h": c["h"]}, rp)
            if e["err"] == "noanswer":
                ctx.violation("VerifyBlock:no-answer", {"trace": tr, "list": c["list"]}, rp)
    for sid, c in calls.items():
        if c["e"] == "SubCall" and answered.get(sid, 0) == 0:
            ctx.violation("Reply:lost", {"trace": tr, "submission": c}, {"trace_prefix": ev[-40:]})
    return {"traces": tr + 1, "submissions": nsub, "gettxpool": nget, "verifyblock": nver, "events": len(ev) - 1}


def trace_check(ctx, path, ev, what="concurrent"):
    """TLC explains the log as a behaviour of TxPipe, or the model has drifted from the code (infra, never a verdict:
    the verdicts on the log are trace_oracle's)."""
    v = ctx.trace_validate("TxPipe_Trace", path, timeout=1200)
    r = v["result"]
    if not v["accepted"]:
        k = min(v["matched"], len(ev) - 1)
        if not ctx.violations:
            ctx.infra("MODEL-DRIFT trace %s: TLC explains %d of %d events (status %s %s); first unexplained: %s; preceding: %s" % (
                what, v["matched"], v["total"], r.status, r.violated or r.errors[:1], json.dumps(ev[k])[:300],
                json.dumps(ev[max(1, k - 12):k])[:1500]))
    return v


def trace_self_test(ctx, path, ev, full=True):
    """binding self-test: a changed answer and a dropped answer must both be rejected"""
    idx = [i for i, e in enumerate(ev) if e.get("e") == "SubRet" and e["err"] == "ok"]
    gidx = [i for i, e in enumerate(ev) if e.get("e") == "GetRet" and e["ans"]]
    tests = []
    if idx:
        i = idx[len(idx) // 2]
        bad = [dict(e) for e in ev]
        bad[i]["err"] = "badsig"
        tests.append(("changed-answer", bad))
    if gidx and full:
        # a transaction below the gas price threshold can never be handed to the consensus
        i = gidx[len(gidx) // 2]
        bad = [dict(e) for e in ev]
        bad[i]["ans"] = [dict(bad[i]["ans"][0], tx="t5")] + bad[i]["ans"][1:]
        tests.append(("changed-gettxpool-answer", bad))
    if not tests:
        ctx.infra("trace self-test: the log has no accepted submission / non-empty GetTxPool answer to corrupt")
    for name, t in tests:
        p = os.path.join(ctx.scratch, "selftest-%s.ndjson" % name)
        write_ndjson(p, t)
        v = ctx.trace_validate("TxPipe_Trace", p, timeout=1200)
        if v["accepted"]:
            ctx.infra("binding self-test: the %s log was accepted" % name)
    return len(tests)
