"""Shared machinery of the system specification X02 (spec/TxPipe.tla): the transaction pool SERVER PIPELINE
(txnpool/proc/*.go + txnpool/common/transaction_pool.go)."""
import json
import os
import re
import subprocess
import time

import vf

PKG = "txnpool/proc"
HARNESS = "x02_txpipe"
CONSTS_FILE = "txnpool/common/txnpool_common.go"


def build(ctx, cap_, lim, name="x02"):
    """Test binary of /repo/txnpool/proc with the harness injected (as ctx.go_test_bin does) AND with the two
    compile-time limits of txnpool/common (MAX_CAPACITY, MAX_LIMITATION: Go constants) set to the model's small
    values through the same -overlay mechanism: the overlaid file is generated from the checked tree's own
    txnpool_common.go by rewriting the two literals only (nothing in /repo is edited)."""
    repo = vf.REPO
    bdir = os.path.join(ctx.scratch, "bin")
    os.makedirs(bdir, exist_ok=True)
    stub = os.path.join(vf.VERIF, "build", "stub", "libwasmjit_stub.a")
    if not os.path.exists(stub):
        subprocess.run([os.path.join(vf.VERIF, "bin", "setup")], check=True, stdout=subprocess.DEVNULL)
    ov = {}
    pkgdir = os.path.join(repo, PKG)
    for fn in os.listdir(pkgdir):
        if fn.endswith("_test.go"):
            ov[os.path.join(pkgdir, fn)] = ""      # the package's own TestMain opens ./Chain
    hdir = os.path.join(vf.VERIF, "harness", HARNESS)
    for fn in sorted(os.listdir(hdir)):
        if fn.endswith(".go"):
            ov[os.path.join(pkgdir, "zz_verif_" + fn)] = os.path.join(hdir, fn)
    cdir = os.path.join(vf.VERIF, "harness", "_common")
    for fn in sorted(os.listdir(cdir)):
        if fn.endswith(".go.tmpl"):
            gen = os.path.join(bdir, "%s_common_%s_test.go" % (name, fn[:-8]))
            with open(gen, "w") as f:
                f.write(open(os.path.join(cdir, fn)).read().replace("PKGNAME", "proc"))
            ov[os.path.join(pkgdir, "zz_verif_common_" + fn[:-8] + "_test.go")] = gen
    src = open(os.path.join(repo, CONSTS_FILE)).read()
    new, n1 = re.subn(r"(\bMAX_CAPACITY\s*=\s*)\d+", r"\g<1>%d" % cap_, src, count=1)
    new, n2 = re.subn(r"(\bMAX_LIMITATION\s*=\s*)\d+", r"\g<1>%d" % lim, new, count=1)
    if n1 != 1 or n2 != 1:
        ctx.infra("cannot find the MAX_CAPACITY / MAX_LIMITATION constants in %s" % CONSTS_FILE)
        return None
    gen = os.path.join(bdir, "%s_txnpool_common.go" % name)
    with open(gen, "w") as f:
        f.write(new)
    ov[os.path.join(repo, CONSTS_FILE)] = gen
    ovp = os.path.join(bdir, name + ".overlay.json")
    with open(ovp, "w") as f:
        json.dump({"Replace": ov}, f)
    out = os.path.join(bdir, name + ".test")
    cmd = ["go", "test", "-c", "-vet=off", "-overlay", ovp, "-o", out, "./" + PKG]
    t = time.time()
    p = subprocess.run(cmd, cwd=repo, env=ctx.go_env(), stdout=subprocess.PIPE, stderr=subprocess.STDOUT, text=True)
    if p.returncode != 0 or not os.path.exists(out):
        ctx.infra("go build of harness %s failed:\n%s" % (name, p.stdout[-3000:]))
        return None
    ctx.log("built %s (MAX_CAPACITY=%d MAX_LIMITATION=%d) in %.1fs" % (name, cap_, lim, time.time() - t))
    return out


# ------------------------------------------------------------------------------------------------ model
TXALL = ["t1", "t1b", "t2", "t3", "t4", "t5", "t6"]
HASHOF = {t: ("t1" if t == "t1b" else t) for t in TXALL}
BADSIG = {"t1b", "t4"}
LOWGAS = {"t5"}
ACTIONS = ["Submit", "DeliverSL", "DeliverSF", "GetTxPool", "VerifyBlock", "LedgerSave", "BlockSaved"]
CODED = dict(InvertedExpiry=True, CheckThenActCap=True, SlotOverReturn=True, SlotLostOnDup=True)
DESIGN = dict(InvertedExpiry=False, CheckThenActCap=False, SlotOverReturn=False, SlotLostOnDup=False)

SIZES = {
    # tiny: payer A's pair + the bad-signature twin; complete graph, every edge is replayed (quick tier)
    "S": dict(submit="SubmitS", stale="StaleQ", kinds="KindsH", blocks="BlocksS", vlists="VListsS",
              Cap=1, Lim=2, MaxTx=1, H0=1, MaxHeight=2, MaxLag=1, MaxFly=3, MaxPerTx=1),
    # small: + an independent payer, pool capacity 2, two transactions per proposal
    "Q": dict(submit="SubmitQ", stale="StaleQ", kinds="KindsH", blocks="BlocksQ", vlists="VListsQ",
              Cap=2, Lim=2, MaxTx=1, H0=1, MaxHeight=2, MaxLag=1, MaxFly=3, MaxPerTx=1),
    # thorough: two blocks, lag 2, both sender kinds, more tasks in flight (random walks)
    "T": dict(submit="SubmitT", stale="StaleT", kinds="KindsHN", blocks="BlocksT", vlists="VListsT",
              Cap=2, Lim=2, MaxTx=2, H0=1, MaxHeight=3, MaxLag=2, MaxFly=5, MaxPerTx=2),
}


def tla_bool(b):
    return "TRUE" if b else "FALSE"


def cfg_text(size, switches, preexec=True, export="edge", invariants=None, properties=None, **over):
    k = dict(SIZES[size])
    k.update(over)
    inv = invariants if invariants is not None else ["TypeOK", "PoolSound", "Unique", "NoOrphan", "LimitsCoded"]
    props = properties if properties is not None else ["GetTxPoolOK", "DupAnswered", "BlockSavedOK", "ReplyOnce", "VerifyBlockCoded"]
    lines = ["SPECIFICATION Spec", "CONSTANTS",
             "  Txs <- TxAll", "  HashOf <- HashAll", "  BadSig <- BadSigAll", "  LowGas <- LowGasAll",
             "  Price <- PriceAll", "  Drains <- DrainsAll",
             "  SubmitTxs <- %s" % k["submit"], "  StaleTxs <- %s" % k["stale"], "  Kinds <- %s" % k["kinds"],
             "  Blocks <- %s" % k["blocks"], "  VLists <- %s" % k["vlists"]]
    for c in ("Cap", "Lim", "MaxTx", "H0", "MaxHeight", "MaxLag", "MaxFly", "MaxPerTx"):
        lines.append("  %s = %d" % (c, k[c]))
    lines.append("  PreExec = %s" % tla_bool(preexec))
    for s, v in switches.items():
        lines.append("  %s = %s" % (s, tla_bool(v)))
    lines.append("VIEW view")
    if inv:
        lines.append("INVARIANTS " + " ".join(inv))
    if props:
        lines.append("PROPERTIES " + " ".join(props))
    if export == "edge":
        lines += ["CONSTRAINT InitOut", "ACTION_CONSTRAINT Edge"]
    lines.append("CHECK_DEADLOCK FALSE")
    return "\n".join(lines) + "\n", k


def norm_state(s):
    """sets come as arrays in TLC's order: sort them (chain is a sequence and stays as it is)"""
    for f in ("pool", "pend", "fly"):
        s[f] = vf.norm_set(s[f])
    return s


def collect(r):
    edges = r.prints.get("EDGE", [])
    for e in edges:
        norm_state(e["from"])
        norm_state(e["to"])
    inits = [norm_state(s) for s in r.prints.get("INIT", [])]
    return edges, inits


# ------------------------------------------------------------------------------------------------ replay
def go_act(a):
    n = a["name"]
    if n == "Submit":
        return {"name": n, "tx": a["tx"], "kind": a["kind"], "stale": a["stale"]}
    if n == "DeliverSL":
        return {"name": n, "tx": a["tx"]}
    if n == "DeliverSF":
        return {"name": n, "tx": a["tx"], "h": a["h"]}
    if n == "GetTxPool":
        return {"name": n, "bycount": a["bycount"], "h": a["h"]}
    if n == "VerifyBlock":
        return {"name": n, "list": a["list"], "h": a["h"]}
    if n == "LedgerSave":
        return {"name": n, "block": a["block"]}
    if n == "BlockSaved":
        return {"name": n, "h": a["h"]}
    raise ValueError(n)


def replay(ctx, binary, k, preexec, paths, tag, timeout=1500):
    inp = {"cap": k["Cap"], "lim": k["Lim"], "maxtx": k["MaxTx"], "preexec": preexec, "h0": k["H0"],
           "paths": [{"steps": [go_act(s["act"]) for s in p["steps"]]} for p in paths]}
    fin = os.path.join(ctx.scratch, "replay-%s.in.json" % tag)
    fout = os.path.join(ctx.scratch, "replay-%s.out.ndjson" % tag)
    vf.write_json(fin, inp)
    t = time.time()
    rc, out = ctx.run_bin(binary, "TestVerifTxPipeReplay", env={"VERIF_IN": fin, "VERIF_OUT": fout}, timeout=timeout)
    if rc != 0:
        ctx.infra("replay harness %s failed rc=%s" % (tag, rc))
        return None
    obs = {}
    for o in vf.read_ndjson(fout):
        obs.setdefault(o["path"], []).append(o)
    ctx.log("replay %s: %d paths, %d observations, %.1fs" % (tag, len(paths), sum(len(v) for v in obs.values()), time.time() - t))
    return obs


def model_view(s, k):
    """the projection of a model state that the harness observes"""
    flysl, flysf = {}, {}
    for f in s["fly"]:
        if f["ty"] == "SL":
            flysl[f["tx"]] = flysl.get(f["tx"], 0) + f["n"]
        else:
            flysf[HASHOF[f["tx"]]] = flysf.get(HASHOF[f["tx"]], 0) + f["n"]
    return {
        "pool": {HASHOF[e["tx"]]: {"tx": e["tx"], "vh": e["vh"]} for e in s["pool"]},
        "pend": {HASHOF[e["tx"]]: {"tx": e["tx"], "src": e["src"], "ch": e["ch"], "sl": e["sl"], "sf": e["sf"], "chk": e["chk"]}
                 for e in s["pend"]},
        "slots": s["slots"], "sheight": s["sheight"], "height": k["H0"] + len(s["chain"]),
        "flysl": flysl, "flysf": flysf,
    }


def real_view(o):
    return {f: o[f] for f in ("pool", "pend", "slots", "sheight", "height", "flysl", "flysf")}


class Oracle:
    """Ground truth of ONE replayed path, kept independently of the model state: what is on the ledger, which validator
    results were handed to the server, which submissions are open.  The properties (a)-(f) are evaluated on the
    observations of the real server against it."""

    def __init__(self, k):
        self.k = k
        self.h0 = k["H0"]
        self.blocks = []            # list of lists of hashes
        self.sl_ok = set()          # hashes for which a passing stateless response was delivered
        self.sf_ok = {}             # hash -> set of heights h: a passing stateful response computed at h was delivered
        self.open = {}              # hash -> number of submissions without an answer
        self.prev = None            # previous observation

    def onchain_at(self, h):
        s = set()
        for b in self.blocks[:max(0, h - self.h0)]:
            s.update(b)
        return s

    def height(self):
        return self.h0 + len(self.blocks)

    def check(self, act, o):
        """returns list of (key, detail) for what the REAL observation o (after act) does that contradicts (a)-(f)"""
        bad = []
        k = self.k
        n = act["name"]
        prev = self.prev
        if n == "LedgerSave":
            self.blocks.append([HASHOF[t] for t in act["block"]])
        if n == "DeliverSL" and act["tx"] not in BADSIG:
            self.sl_ok.add(HASHOF[act["tx"]])
        if n == "DeliverSF" and HASHOF[act["tx"]] not in self.onchain_at(act["h"]):
            self.sf_ok.setdefault(HASHOF[act["tx"]], set()).add(act["h"])
        # (e) replies
        for t in o.get("double", []) or []:
            bad.append(("Reply:double-answer", {"tx": t}))
        if n == "Submit":
            x = HASHOF[act["tx"]]
            self.open[x] = self.open.get(x, 0) + 1
        for r in o["replies"]:
            x = HASHOF[r["tx"]]
            self.open[x] = self.open.get(x, 0) - 1
        for x, cnt in self.open.items():
            has = x in o["pend"] and o["pend"][x]["ch"]
            if cnt > (1 if has else 0):
                bad.append(("Reply:lost", {"hash": x, "unanswered": cnt, "pending_with_channel": has}))
            elif cnt < (1 if has else 0):
                bad.append(("Reply:entry-without-submission", {"hash": x}))
        # (b) duplicate submissions
        if n == "Submit" and prev is not None:
            x = HASHOF[act["tx"]]
            if x in prev["pend"] or x in prev["pool"]:
                if not o["replies"] or o["replies"][0]["err"] == "ok":
                    bad.append(("Submit:duplicate-not-refused", {"tx": act["tx"], "replies": o["replies"]}))
                elif o["replies"][0]["err"] not in ("dupinput", "full", "unknown"):
                    bad.append(("Submit:duplicate-wrong-error", {"tx": act["tx"], "replies": o["replies"]}))
                if o["pool"] != prev["pool"] or o["pend"] != prev["pend"] or o["flysl"] != prev["flysl"] or o["flysf"] != prev["flysf"]:
                    bad.append(("Submit:duplicate-disturbs-first", {"tx": act["tx"]}))
        for x in o["pool"]:
            if x in o["pend"]:
                bad.append(("Unique:hash-in-pool-and-pending", {"hash": x}))
        # (a) what is in the pool
        for x, e in o["pool"].items():
            if prev is not None and prev["pool"].get(x) == e:
                continue
            if e["tx"] in BADSIG:
                bad.append(("Pool:bad-signature-admitted", {"tx": e["tx"]}))
            if x not in self.sl_ok:
                bad.append(("Pool:admitted-without-stateless-result", {"tx": e["tx"]}))
            if e["vh"] not in self.sf_ok.get(x, ()):
                bad.append(("Pool:admitted-without-stateful-result-at-its-height", {"tx": e["tx"], "vh": e["vh"],
                                                                                     "passed_at": sorted(self.sf_ok.get(x, ()))}))
            if x in self.onchain_at(e["vh"]):
                bad.append(("Pool:on-chain-at-verified-height", {"tx": e["tx"], "vh": e["vh"]}))
        # (a)/(d) GetTxPool answers
        if n == "GetTxPool" and "ans" in o or n == "GetTxPool":
            ans = o.get("ans") or []
            seen = set()
            for e in ans:
                x = HASHOF.get(e["tx"], e["tx"])
                if x in seen:
                    bad.append(("GetTxPool:hash-twice", {"tx": e["tx"]}))
                seen.add(x)
                if e["vh"] < act["h"]:
                    bad.append(("GetTxPool:verified-below-requested-height", {"tx": e["tx"], "vh": e["vh"], "h": act["h"]}))
                if x in self.onchain_at(act["h"]):
                    bad.append(("GetTxPool:on-chain-tx-handed-out", {"tx": e["tx"], "h": act["h"]}))
                if e["tx"] in BADSIG:
                    bad.append(("GetTxPool:bad-signature-handed-out", {"tx": e["tx"]}))
                if prev is not None and prev["pool"].get(x) != {"tx": e["tx"], "vh": e["vh"]}:
                    bad.append(("GetTxPool:entry-not-in-pool", {"tx": e["tx"]}))
            if act["bycount"] and k["MaxTx"] > 0 and len(ans) > k["MaxTx"]:
                bad.append(("GetTxPool:more-than-MaxTxInBlock", {"n": len(ans)}))
        # (c) limits
        if len(o["pool"]) > k["Cap"]:
            bad.append(("Limit:pool-exceeds-MAX_CAPACITY:check-then-act", {"pool": len(o["pool"]), "cap": k["Cap"]}))
        users = [x for x, e in o["pend"].items() if e["src"] != "rev"]
        if len(users) > k["Lim"]:
            bad.append(("Limit:pending-exceeds-MAX_LIMITATION:slot-over-return", {"pending_from_users": len(users), "lim": k["Lim"]}))
        # (d) the saved block's transactions are gone from the pool
        if n == "BlockSaved":
            blk = self.blocks[act["h"] - self.h0 - 1]
            for x in blk:
                if x in o["pool"]:
                    bad.append(("BlockSaved:block-tx-left-in-pool", {"hash": x, "h": act["h"]}))
        # (f) VerifyBlock
        if n == "VerifyBlock" and o.get("valid") is not None:
            hs = [HASHOF[t] for t in act["list"]]
            dup = len(set(hs)) != len(hs)
            on_h = [x for x in hs if x in self.onchain_at(act["h"])]
            on_now = [x for x in hs if x in self.onchain_at(self.height())]
            good = not dup and not on_now and not any(t in BADSIG or t in LOWGAS for t in act["list"])
            if o["valid"] and dup:
                bad.append(("VerifyBlock:duplicate-in-list-accepted", {"list": act["list"]}))
            if o["valid"] and on_h:
                x = on_h[0]
                pe = prev["pool"].get(x) if prev is not None else None
                why = "expired-pool-entry" if pe is not None and pe["vh"] < act["h"] else ("fresh-pool-entry" if pe is not None else "unverified")
                bad.append(("VerifyBlock:on-chain-tx-accepted:" + why, {"list": act["list"], "h": act["h"], "hash": x, "pool_entry": pe}))
            if good and not o["valid"]:
                bad.append(("VerifyBlock:valid-list-rejected", {"list": act["list"], "h": act["h"], "errs": o.get("errs")}))
        self.prev = o
        return bad


def compare(act, to, o, k):
    """differences between the model's successor state / outputs and the real observation (None: equal)"""
    if o.get("err"):
        return {"harness": o["err"]}
    if o.get("blocked"):
        return {"blocked": "the real handleTransaction blocks on the slots channel"}
    mv, rv = model_view(to, k), real_view(o)
    diff = {f: {"model": mv[f], "real": rv[f]} for f in mv if mv[f] != rv[f]}
    mr = sorted(([r["tx"], r["err"]] for r in act.get("replies", [])))
    rr = sorted(([r["tx"], r["err"]] for r in o["replies"]))
    if mr != rr:
        diff["replies"] = {"model": mr, "real": rr}
    if act["name"] == "GetTxPool":
        ma = [[e["tx"], e["vh"]] for e in act["ans"]]
        ra = [[e["tx"], e["vh"]] for e in (o.get("ans") or [])]
        if ma != ra:
            diff["ans"] = {"model": ma, "real": ra}
    if act["name"] == "VerifyBlock":
        merr = act["err"]
        rerr = "ok" if o.get("valid") else ",".join(o.get("errs") or ["?"])
        if merr != rerr:
            diff["verify"] = {"model": merr, "real": rerr}
    if o.get("notes"):
        diff["notes"] = o["notes"]
    return diff or None


def judge(ctx, paths, obs, k, tag, stats):
    """property oracles on every real observation; a difference from the model that is not explained by a property
    violation is MODEL DRIFT (infra).  Returns number of steps compared."""
    nsteps = 0
    ndrift = 0
    for pi, p in enumerate(paths):
        ob = obs.get(pi, [])
        if len(ob) < 1:
            ctx.infra("%s: path %d produced no observation" % (tag, pi))
            continue
        orc = Oracle(k)
        orc.prev = real_view(ob[0])
        orc.prev["replies"] = []
        d0 = compare({"name": "Init", "replies": []}, p["init"], ob[0], k)
        if d0:
            ctx.infra("%s: initial state differs: %s" % (tag, d0))
            continue
        for si, s in enumerate(p["steps"]):
            if si + 1 >= len(ob):
                ctx.infra("%s: path %d stops after %d of %d steps" % (tag, pi, len(ob) - 1, len(p["steps"])))
                break
            o = ob[si + 1]
            act = s["act"]
            nsteps += 1
            stats[act["name"]] = stats.get(act["name"], 0) + 1
            rp = {"config": tag, "constants": k, "steps": [go_act(x["act"]) for x in p["steps"][:si + 1]]}
            bad = orc.check(act, o)
            for key, detail in bad:
                ctx.violation(key, detail, rp)
            d = compare(act, s["to"], o, k)
            if d:
                # a property violation explains the divergence (the model is the property's model); otherwise drift
                if not [b for b in bad if b[0] not in ctx.known_keys()]:
                    ndrift += 1
                    if ndrift <= 5:
                        ctx.infra("MODEL-DRIFT %s path %d step %d %s: %s" % (tag, pi, si + 1, json.dumps(go_act(act)), json.dumps(d)[:1500]))
                        ctx.log("  drift replay: %s" % json.dumps(rp["steps"]))
                break
    if ndrift > 5:
        ctx.infra("MODEL-DRIFT %s: %d paths diverged" % (tag, ndrift))
    return nsteps
