"""C35 — proposed EVM transactions have consecutive nonces and no duplicates; replacement only with a higher gas price.

spec/TxPool.tla: TXPool (AddTxList / RemoveTxsBelowGasPrice / CleanCompletedTransactionList / GetTxPool), the ledger,
IncrementValidator (AddBlock / Clean / Verify with one nonceCtx) and the proposer's validHeight logic; the two block
subscribers (validator, pool) are told about a saved block asynchronously.
 * MC: TLC checks ProposalOK and ReplaceOnlyHigher (action properties), exhaustively to a bounded depth on a small universe
       and by random deep behaviours (-simulate) on larger ones.
 * RP: every exported transition (exhaustive run: all of them; simulation: the behaviours and all their one-step
       deviations) is replayed, as part of a path from the initial state, on the real TXPool + IncrementValidator with
       real signed EIP-155 transactions; the pool contents, the validator window, every AddTxList result and every
       proposal are compared with the model.
 * Oracle: the property evaluated on the REAL proposal against the ledger (duplicate hash / on chain / nonce run) and on
       every REAL replacement (gas price not higher).  Any other difference from the model is MODEL-DRIFT (exit 2).
"""
import _txpool as tp
from _bp2p_cover import fast_cover

ACTIONS = ["Submit", "RemoveBelowGas", "LedgerCommit", "ValAddBlock", "PoolClean", "ValReset", "Propose"]


def run(ctx):
    binary = ctx.go_test_bin("txnpool/common", harness="b_p2p_txpool", hide_own_tests=True)
    stats = {"steps": 0, "submits": {}, "proposals": 0, "proposed_txs": 0}
    runs = []
    if ctx.thorough:
        runs.append(("exh5", dict(evm="EvmS", ont="OntQ", max_ops=5), None))
        runs.append(("fullD", dict(evm="EvmD", ont="OntQ", max_ops=20, max_block_txs=1), None))   # complete graph, depth 10
        runs.append(("fullH", dict(evm="EvmH", ont="OntNone", max_ops=20, max_block_txs=1), None))  # complete graph, depth 10
        # complete graph with 3 committed blocks and a 2-block validator window: the window slides, competing nonce-1 txs
        runs.append(("fullW", dict(evm="EvmD", ont="OntNone", max_ops=40, max_block_txs=1, max_height=4), None))
        runs.append(("simT", dict(evm="EvmT", ont="OntT", max_ops=16, max_height=4), ("num=1500", 16)))
        runs.append(("simQ", dict(evm="EvmQ", ont="OntQ", max_ops=14, max_height=4, max_blocks=1, max_tx=2), ("num=1000", 14)))
    else:
        runs.append(("fullD", dict(evm="EvmD", ont="OntQ", max_ops=20, max_block_txs=1), None))   # complete graph, depth 10
        runs.append(("fullH", dict(evm="EvmH", ont="OntNone", max_ops=20, max_block_txs=1), None))  # complete graph, depth 10
        # complete graph with 3 committed blocks and a 2-block validator window: the window slides, competing nonce-1 txs
        runs.append(("fullW", dict(evm="EvmD", ont="OntNone", max_ops=40, max_block_txs=1, max_height=4), None))
        runs.append(("simQ", dict(evm="EvmQ", ont="OntQ", max_ops=14, max_height=4), ("num=400", 14)))
    npaths = nedges = 0
    names, results = set(), set()
    vh_cases, vh_maxblocks = {}, {}
    for tag, kw, sim in runs:
        cfg = "TxPool_gen_%s.cfg" % tag
        r = ctx.tlc("TxPool_MC", cfg=cfg, workers=1, files={cfg: tp.cfg_text(export=True, **kw)}, timeout=2400,
                    simulate=sim[0] if sim else None, depth=sim[1] if sim else None)
        ctx.log("TLC %s %s: %s, %d generated, %d distinct, depth %d, %.1fs" % (tag, kw, r.status if not r.violated else "violated " + r.violated,
                                                                             r.generated, r.distinct, r.depth, r.wall))
        if sim:
            m = tp.re.search(r"The number of states generated: (\d+)", open(r.out_path, errors="replace").read())
            if m:
                ctx.stats["transitions"] += int(m.group(1))
        if r.status != "ok":
            # a counterexample in the specification alone is a modelling problem, never a verdict on the code
            ctx.infra("TLC did not verify %s: status=%s violated=%s %s" % (tag, r.status, r.violated, r.errors[:2]))
            continue
        edges, inits = tp.collect(r)
        vh_maxblocks[tag] = kw.get("max_blocks", 2)
        for e in edges:
            if e["act"]["name"] == "Propose":
                f, t = e["from"], e["to"]
                vh_cases[(f["vbase"], f["vlen"], 1 + len(f["blocks"]), tag)] = (e["act"]["valid"], t["vbase"], t["vlen"])
        names |= {e["act"]["name"] for e in edges}
        results |= {e["act"].get("res") for e in edges if e["act"]["name"] == "Submit"}
        if not binary or not edges:
            if not edges:
                ctx.infra("no edges exported by %s" % tag)
            continue
        paths, ncov, nuniq = fast_cover(edges, inits, max_len=max(kw["max_ops"], 24))
        if ncov != nuniq:
            ctx.infra("cover incomplete (%s): %d of %d edges" % (tag, ncov, nuniq))
        ctx.log("%s: %d edges, %d paths, %d steps" % (tag, nuniq, len(paths), sum(len(p["steps"]) for p in paths)))
        obs = tp.replay(ctx, binary, paths, tag, max_tx=kw.get("max_tx", 3), max_blocks=kw.get("max_blocks", 2))
        if obs is None:
            continue
        tp.judge(ctx, paths, obs, stats)
        npaths += len(paths)
        nedges += nuniq
        if len(ctx.samples) < 4 and paths:
            longest = max(paths, key=lambda p: len(p["steps"]))
            ctx.samples.append({"run": tag, "replayed_path": tp.path_text(longest, 14)})
    # thorough only (an extra link of the consensus/vbft test binary): the proposer's validHeight logic vs the real vbft method
    nvh = tp.check_valid_height(ctx, vh_cases, vh_maxblocks) if (vh_cases and ctx.thorough) else 0
    if ctx.thorough:
        ctx.log("vbft Server.validHeight agrees with the model on %d (window, height) cases" % nvh)
    if ctx.thorough:
        # pure model checking (no export, all workers) of the COMPLETE reachable graph of the deep universe with one more
        # ledger height; no depth bound is active (MaxOps is larger than the depth of the graph), so the run is exact
        cfg = "TxPool_gen_mc.cfg"
        r = ctx.tlc("TxPool_MC", cfg=cfg, files={cfg: tp.cfg_text(evm="EvmD", ont="OntQ", max_ops=40, export=False,
                                                                 max_height=4, max_block_txs=1)}, timeout=1500)
        ctx.log("TLC mc EvmD height 4 (complete graph): %s, %d generated, %d distinct, depth %d, %.1fs" % (
            r.status, r.generated, r.distinct, r.depth, r.wall))
        if r.status != "ok":
            ctx.infra("TLC did not verify the MaxHeight=4 universe: %s %s %s" % (r.status, r.violated, r.errors[:2]))
        elif r.depth >= 40:
            ctx.infra("MaxHeight=4 run hit the MaxOps bound (depth %d): not the complete graph" % r.depth)
    missing = [a for a in ACTIONS if a not in names] + [x for x in ("added", "replaced", "same-nonce", "duplicate") if x not in results]
    if missing:
        ctx.infra("vacuous model runs: never taken: %s" % missing)
    if binary and (stats["proposals"] == 0 or stats["proposed_txs"] == 0):
        ctx.infra("vacuous replay: no non-empty proposal was produced by the real code")
    ctx.log("replayed %d steps: %d proposals with %d transactions, AddTxList results %s" % (
        stats["steps"], stats["proposals"], stats["proposed_txs"], stats["submits"]))
    ctx.finish("model_checking", {
        "states": ctx.stats["states"], "transitions": ctx.stats["transitions"],
        "traces_validated_against_impl": npaths,
        "replayed_steps": stats["steps"], "replay_edges": nedges,
        "validHeight_cases_checked_on_vbft": nvh,
        "real_proposals": stats["proposals"], "real_proposed_txs": stats["proposed_txs"], "real_AddTxList_results": stats["submits"],
        "runs": [{"tag": t, "constants": k, "simulate": s} for t, k, s in runs],
        "exhaustive": True,
    }, ["every committed EVM transaction advances the account nonce of its sender by one (C07); blocks saved in the ledger are "
        "valid (no transaction twice on chain, per sender consecutive nonces)",
        "a VerifiedTx reaches the pool with the height and account nonce at which the stateful validator admitted it, at most "
        "MaxStale blocks late; the validator and the pool learn of a saved block at most MaxLag blocks late",
        "the proposer loop is consensus/solo makeBlock = vbft makeProposal for blkNum = ledger height + 1, replicated in the harness "
        "around the real BlockRange/Clean/GetTxPool/Verify calls; its validHeight part is cross-checked against the real vbft "
        "Server.validHeight on every (window, height) of the model",
        "EIPTX_NONCE_MAX_GAP (1000) and CleanStaledEIPTx (pool > 10000 entries) are outside the bounded universe"])
