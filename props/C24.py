"""C24 — P2P message decoding never panics and round-trips every message (spec/P2PWire.tla)."""
import json
import os
import vf

HARNESS = "b_codecB_p2pwire"
PKG = "p2pserver/message/types"
MAX_PAYLOAD_LEN = 30 * 1024 * 1024 - 24
REJECT = ("magic", "toolong", "checksum", "eof", "err")
KINDS = ("base", "trunc", "byte", "count", "trail", "magic", "length", "checksum", "header", "random", "randomtrail", "wrap", "pair")


def run_cases(ctx, binary, cases, tag):
    fin = os.path.join(ctx.scratch, "cases-%s.in.json" % tag)
    fout = os.path.join(ctx.scratch, "cases-%s.out.ndjson" % tag)
    prog = os.path.join(ctx.scratch, "progress-%s" % tag)
    vf.write_json(fin, {"cases": cases})
    rc, out = ctx.run_bin(binary, "TestVerifP2PWireCases", env={"VERIF_IN": fin, "VERIF_OUT": fout, "VERIF_PROGRESS": prog}, timeout=1500)
    if rc != 0:
        # the harness recovers panics; a dead process is a fatal error (out of memory, stack overflow) of the code under test
        last = open(prog).read().strip() if os.path.exists(prog) else None
        if last is not None and ("out of memory" in out or "fatal error" in out or rc == -9):
            c = cases[int(last)]
            ctx.violation("%s:process-died:%s" % (c["frame"]["cmd"], c["kind"]), {"rc": rc, "tail": out[-400:], "case": c}, {"case": c})
        else:
            ctx.infra("p2pwire harness failed rc=%s" % rc)
        return None
    obs = vf.read_ndjson(fout)
    if len(obs) != len(cases):
        ctx.infra("harness reported %d of %d cases" % (len(obs), len(cases)))
        return None
    return obs


CMDS = ["ping", "pong", "verack", "version", "addr", "getaddr", "getheaders", "headers", "inv", "getdata", "block", "tx", "consensus",
        "notfound", "getblocks", "findnode", "findnodeack", "updatekadid", "getmembers", "members", "offline", "mystery"]
SPECIAL = [0, 0, 1, 2, 0x40, 0x7F, 0x80, 0xFC, 0xFD, 0xFE, 0xFF, 0xFF]
GOODKEY = [3, 107, 23, 209, 242, 225, 44, 66, 71, 248, 188, 230, 229, 99, 164, 64, 242, 119, 3, 125, 129, 45, 235, 51, 160,
           244, 161, 57, 69, 216, 152, 194, 150]


def rnd_bytes(rng, n):
    return [rng.choice(SPECIAL) if rng.random() < 0.5 else rng.randrange(256) for _ in range(n)]


def rnd_varbytes(rng, maxlen=6):
    n = rng.randrange(maxlen)
    body = rnd_bytes(rng, n)
    pre = [n] if rng.random() < 0.8 else rng.choice([[0xFD, n, 0], [0xFE, n, 0, 0, 0], [0xFD, n, 1]])
    return pre + body


def rnd_payload(rng, cmd):
    """random byte strings, half of them with the gross structure of the message so that deep branches are reached"""
    if rng.random() < 0.5:
        return rnd_bytes(rng, rng.randrange(0, 130))
    u32 = lambda v: [v & 255, (v >> 8) & 255, 0, 0]
    if cmd == "addr":
        k = rng.randrange(0, 4)
        cnt = rng.choice([k, k, k, k + 1, max(k - 1, 0)])
        return [cnt, 0, 0, 0, 0, 0, 0, rng.choice([0, 0, 0, 0x80, 0x7F])] + rnd_bytes(rng, 44 * k + rng.choice([0, 0, 3]))
    if cmd == "inv":
        k = rng.randrange(0, 4)
        return [rng.randrange(3)] + u32(rng.choice([k, k, k + 1])) + rnd_bytes(rng, 32 * k + rng.choice([0, 0, 5]))
    if cmd == "members":
        k = rng.randrange(0, 4)
        out = u32(rng.choice([k, k, k + 1]))
        for _ in range(2 * k):
            out += rnd_varbytes(rng)
        return out
    if cmd == "findnodeack":
        k = rng.randrange(0, 3)
        out = rnd_bytes(rng, 20) + [rng.choice([0, 1, 2])] + rnd_varbytes(rng) + u32(rng.choice([k, k, k + 1]))
        for _ in range(k):
            out += rnd_bytes(rng, 20) + rnd_varbytes(rng)
        return out + rnd_bytes(rng, rng.choice([0, 0, 2]))
    if cmd == "version":
        return rnd_bytes(rng, 75) + [rng.choice([0, 1, 1, 2])] + rnd_varbytes(rng, 12)
    if cmd == "consensus":
        key = list(GOODKEY) if rng.random() < 0.8 else rnd_bytes(rng, 33)
        return rnd_bytes(rng, 46) + rnd_varbytes(rng) + [33] + key + rnd_varbytes(rng, 70)
    if cmd == "getmembers":
        return rnd_bytes(rng, 40) + rng.choice([[0, 0, 0, 0], [1, 0, 0, 0], rnd_bytes(rng, 4)]) + rnd_bytes(rng, rng.choice([0, 0, 40]))
    return rnd_bytes(rng, rng.choice([0, 1, 8, 20, 32, 33, 65, 66]))


def extra_module(rng, per_cmd):
    rows = []
    for c in CMDS:
        ps = {tuple(rnd_payload(rng, c)) for _ in range(per_cmd)}
        rows.append('c = "%s" -> {%s}' % (c, ", ".join("<<%s>>" % ", ".join(str(x) for x in p) for p in sorted(ps))))
    return ("---------------------------- MODULE P2PWire_Extra ----------------------------\n"
            "ExtraGen == [c \\in {%s} |->\n   CASE %s]\n"
            "=============================================================================\n"
            % (", ".join('"%s"' % c for c in CMDS), "\n     [] ".join(rows)))


def slim(c):
    f = dict(c["frame"])
    if len(f["payload"]) > 80:
        f["payload"] = f["payload"][:80] + ["...(%d)" % len(c["frame"]["payload"])]
    return {"kind": c["kind"], "frame": f, "spec": c["res"]}


def judge(ctx, cases, obs):
    stats, worst_alloc = {}, 0
    for c, o in zip(cases, obs):
        f = c["frame"]
        cmd, kind, spec, real = f["cmd"], c["kind"], c["res"], o["res"]
        k = "%s/%s" % (kind, spec)
        stats[k] = stats.get(k, 0) + 1
        rp = {"case": c}
        # --- never panics
        if real.startswith("panic") or real.startswith("write-panic"):
            if spec == "panic":
                # the named deviation AddrNegCountPanic, reproduced on the real code
                ctx.violation("Addr.Deserialization:panic:count>=2^63", {"panic": real, "case": slim(c)}, rp)
            else:
                ctx.violation("%s:%s:%s" % (cmd, "panic" if real.startswith("panic") else "write-panic", kind), {"panic": real, "case": slim(c)}, rp)
            continue
        # --- never asks the network for more than header + max payload, and for nothing after a bad header
        if o["asked"] > 24 + MAX_PAYLOAD_LEN:
            ctx.violation("ReadMessage:requests-beyond-max-payload:%s" % kind, {"asked": o["asked"], "case": slim(c)}, rp)
        if f["hdr"] == 24 and (f["magic"] != "good" or f["lenf"] in ("maxplus1", "huge")) and o["asked"] > 24:
            ctx.violation("ReadMessage:reads-payload-before-header-checks:%s" % kind, {"asked": o["asked"], "case": slim(c)}, rp)
        # --- allocation: the read buffer (<= max payload) plus a bounded multiple of the bytes actually offered
        buf = o["decl"] if 0 <= o["decl"] <= MAX_PAYLOAD_LEN and f["hdr"] == 24 and f["magic"] == "good" else 0
        bound = buf + 64 * o["stream"] + (1 << 20)
        worst_alloc = max(worst_alloc, o["alloc"] - buf)
        if o["alloc"] > bound:
            ctx.violation("%s:allocation-beyond-bound:%s" % (cmd, kind), {"alloc": o["alloc"], "bound": bound, "stream_bytes": o["stream"], "case": slim(c)}, rp)
        # --- accept / reject and round trip
        if o.get("later"):
            ctx.violation("%s:message-changed-by-later-read:%s" % (cmd, kind), {"diff": o.get("bad"), "case": slim(c)}, rp)
            continue
        if spec in ("magic", "toolong", "checksum") and real == "ok":
            ctx.violation("ReadMessage:accepts-bad-%s" % {"magic": "magic", "toolong": "length", "checksum": "checksum"}[spec], {"case": slim(c)}, rp)
        elif spec == "any":
            if real == "ok" and o.get("bad"):
                ctx.violation("%s:roundtrip:%s" % (cmd, kind), {"diff": o["bad"], "case": slim(c)}, rp)
        elif spec == "ok" and real == "ok":
            if o.get("bad"):
                ctx.violation("%s:roundtrip:%s" % (cmd, kind), {"diff": o["bad"], "case": slim(c)}, rp)
        elif spec != "ok" and c.get("dres") == "ok" and real != "ok":
            # named deviation OfflineSigSkipped reproduced: a frame WriteMessage produces is never accepted
            if kind == "base":
                ctx.violation("%s:valid-frame-rejected" % cmd, {"error": o.get("err"), "case": slim(c)}, rp)
        elif spec == "ok":
            if kind == "base" and c["out"] == f["payload"]:
                ctx.violation("%s:valid-frame-rejected" % cmd, {"error": o.get("err"), "case": slim(c)}, rp)
            else:
                ctx.infra("MODEL-DRIFT %s: real code rejects (%s) a frame the specification accepts: %s" % (cmd, o.get("err"), slim(c)))
        elif spec == "panic":
            if real == "ok":
                ctx.infra("MODEL-DRIFT %s accepted where the specification (design) rejects: %s" % (cmd, slim(c)))
        elif real == "ok":
            if not o["same"] or o.get("bad"):
                ctx.violation("%s:malformed-accepted:%s" % (cmd, kind), {"spec": spec, "diff": o.get("bad"), "case": slim(c)}, rp)
            else:
                ctx.infra("MODEL-DRIFT %s accepts a frame the specification rejects (%s): %s" % (cmd, spec, slim(c)))
    return stats, worst_alloc


def run(ctx):
    binary = ctx.go_test_bin(PKG, harness=HARNESS)
    if ctx.replay_in and binary:
        rp = json.load(open(ctx.replay_in))["replay"]
        obs = run_cases(ctx, binary, [rp["case"]], "rp")
        if obs:
            judge(ctx, [rp["case"]], obs)
        ctx.finish("model_checking", {"states": 0, "transitions": 0, "traces_validated_against_impl": 1, "replay_of": ctx.replay_in})
    cfg = "P2PWire_C24t.cfg" if ctx.thorough else "P2PWire_C24.cfg"
    per_cmd = 250 if ctx.thorough else 40
    r = ctx.tlc("P2PWire_MC", cfg=cfg, workers=1, timeout=2400, files={"P2PWire_Extra.tla": extra_module(ctx.rng, per_cmd)})
    cases, stats, worst = [], {}, 0
    if r.status != "ok":
        ctx.infra("TLC did not verify %s: status=%s violated=%s %s" % (cfg, r.status, r.violated, r.errors[:2]))
    else:
        cases = [e["act"] for e in r.prints.get("EDGE", [])]
        ctx.log("TLC %s: %d frames generated, %.1fs" % (cfg, r.generated, r.wall))
        kinds = {c["kind"] for c in cases}
        cmds = {c["frame"]["cmd"] for c in cases}
        missing = [k for k in KINDS if k not in kinds]
        if missing or len(cmds) < 22:
            ctx.infra("vacuous model run: kinds never generated %s, %d message types" % (missing, len(cmds)))
    # design / negative controls (thorough): with both deviations off no decoder panics and every type
    # round-trips; with one of them on TLC finds the panic / the type that never round-trips
    neg = None
    if ctx.thorough:
        rd = ctx.tlc("P2PWire_MC", cfg="P2PWire_C24design.cfg", timeout=1200)
        if rd.status != "ok":
            ctx.infra("TLC did not verify the design configuration: %s %s %s" % (rd.status, rd.violated, rd.errors[:2]))
        rn = ctx.tlc("P2PWire_MC", cfg="P2PWire_C24neg.cfg", timeout=1200)
        rn2 = ctx.tlc("P2PWire_MC", cfg="P2PWire_C24neg2.cfg", timeout=1200)
        neg = {"AddrNegCountPanic": rn.status == "violation" and rn.violated == "NoPanic",
               "OfflineSigSkipped": rn2.status in ("violation", "error") and "EveryTypeRoundTrips" in " ".join(rn2.errors)}
        if not all(neg.values()):
            ctx.notes.append("negative control not violated: %s" % neg)
    nok = 0
    if binary and cases:
        obs = run_cases(ctx, binary, cases, "c24")
        if obs:
            stats, worst = judge(ctx, cases, obs)
            nok = sum(1 for o in obs if o["res"] == "ok")
            ctx.log("executed %d frames on the real ReadMessage/WriteMessage: %d accepted; worst allocation beyond the read buffer %d bytes" %
                    (len(obs), nok, worst))
            if nok == 0 or nok == len(obs):
                ctx.infra("vacuous: the real decoder gives the same answer on every frame")
            accepted_cmds = {c["frame"]["cmd"] for c, o in zip(cases, obs) if o["res"] == "ok" and c["kind"] == "base"}
            spec_accepted = {c["frame"]["cmd"] for c in cases if c["res"] == "ok" and c["kind"] == "base"}
            if accepted_cmds < spec_accepted:
                ctx.infra("message types whose valid frame was not accepted by the real code although the specification accepts it: %s" % sorted(spec_accepted - accepted_cmds))
            if len(spec_accepted) < 21:
                ctx.infra("vacuous: only %d message types have an accepted base frame in the model" % len(spec_accepted))
            for i in (0, len(cases) // 2, len(cases) - 1):
                ctx.samples.append({"frame": slim(cases[i]), "real": obs[i]["res"]})
    ctx.finish("model_checking", {
        "states": ctx.stats["states"], "transitions": ctx.stats["transitions"],
        "traces_validated_against_impl": len(cases), "frames_accepted_by_real_code": nok,
        "cases_by_kind_and_spec_result": stats, "worst_allocation_beyond_read_buffer": worst,
        "negative_control_violated": neg, "constants": {"cfg": cfg, "random_payloads_per_type": per_cmd}, "exhaustive": True,
    }, ["payload bytes are modelled exactly; numbers >= 2^24 are one abstract value BIG (u64 >= 2^63: NEG)",
        "block headers, blocks, transactions, cross-chain messages, signed subnet requests, offline witnesses and kad ids are opaque tokens in the specification; the harness substitutes real valid encodings built with the repository's types and real keys; a token with its last byte cut off is assumed to be rejected by the nested decoder",
        "'re-serialization reproduces the payload' is required for frames WriteMessage can produce; the decoders' deliberate leniencies (trailing bytes ignored, addr/inv lists clamped to 64, malformed version string -> \"\", legacy block tail, irregular flags/length prefixes in findnodeack) are modelled as such and their output is compared with the specification, not counted as violations",
        "allocation bound checked: read buffer <= MAX_PAYLOAD_LEN, nothing requested after a bad magic/length, total allocation <= buffer + 64 x bytes offered + 1 MiB",
        "the kad-id difficulty is lowered to 8 bits in the harness to keep key generation short"])
