"""Shared machinery for the Merkle properties C26 (block-root tree) and C27 (cross-chain paths); spec/Merkle.tla."""
import os
import vf

HARNESS = "b_codecB_merkle"


def cfg_text(spec, max_n, max_k, tear, mut_level, invariants, properties, edges=True, big=False):
    lines = ["SPECIFICATION %s" % spec, "CONSTANTS",
             "  MaxN = %d" % max_n, "  MaxK = %d" % max_k,
             "  EqRootShortcut = FALSE", "  EqSizeIgnoresProof = TRUE", "  ZeroOldShortcut = TRUE",
             "  Tear = %s" % ("TRUE" if tear else "FALSE"), "  MutLevel = %d" % mut_level,
             "  BigInit <- GenBig", "  Pairs <- GenPairs",
             "VIEW view", "INVARIANTS " + " ".join(invariants), "PROPERTIES " + " ".join(properties)]
    if edges:
        lines += ["CONSTRAINT InitOutBig", "ACTION_CONSTRAINT EdgeBig"] if big else ["CONSTRAINT InitOutA", "ACTION_CONSTRAINT EdgeA"]
    lines.append("CHECK_DEADLOCK FALSE")
    return "\n".join(lines) + "\n"


def gen_module(sizes, pairs):
    return ("----------------------------- MODULE Merkle_Gen -----------------------------\n"
            "GenBig == {%s}\nGenPairs == {%s}\n"
            "=============================================================================\n"
            % (", ".join(str(x) for x in sorted(sizes)), ", ".join("<<%d, %d>>" % p for p in sorted(pairs))))


def model_check(ctx, cfg_name, cfg, required, workers=1, timeout=1500, expect_violation=None, extra_files=None):
    files = {cfg_name: cfg}
    files.update(extra_files or {})
    r = ctx.tlc("Merkle_MC", cfg=cfg_name, workers=workers, timeout=timeout, files=files)
    if expect_violation:
        return r
    if r.status != "ok":
        # a counterexample in the specification alone is a modelling problem, never a verdict on the code
        ctx.infra("TLC did not verify %s: status=%s violated=%s %s" % (cfg_name, r.status, r.violated, r.errors[:2]))
        return None
    edges = r.prints.get("EDGE", [])
    inits = r.prints.get("INIT", [])
    names = {}
    for e in edges:
        names[e["act"]["name"]] = names.get(e["act"]["name"], 0) + 1
    missing = [a for a in required if a not in names]
    if missing and workers == 1:
        ctx.infra("vacuous model run: actions never taken: %s" % missing)
    ctx.log("TLC %s: %d generated, %d distinct, depth %d, %d edges %s, %.1fs" %
            (cfg_name, r.generated, r.distinct, r.depth, len(edges), names, r.wall))
    return r, edges, inits, names


def replay(ctx, binary, mode, paths, tag):
    """Runs the cover paths on the real code.  Returns (mismatches, verdicts) where verdicts is a list of
    (path index, step index, act, real)."""
    fin = os.path.join(ctx.scratch, "replay-%s.in.json" % tag)
    fout = os.path.join(ctx.scratch, "replay-%s.out.ndjson" % tag)
    vf.write_json(fin, {"mode": mode, "paths": [{"init": p.get("init"), "steps": p["steps"]} for p in paths]})
    rc, out = ctx.run_bin(binary, "TestVerifMerkleReplay", env={"VERIF_IN": fin, "VERIF_OUT": fout}, timeout=1800)
    if rc != 0:
        ctx.infra("merkle replay harness failed rc=%s" % rc)
        return None
    recs = vf.read_ndjson(fout)
    done = [r for r in recs if r.get("done")]
    expected = sum(len(p["steps"]) for p in paths)
    if not done or done[0]["steps"] != expected:
        ctx.infra("replay executed %s steps, expected %d" % (done[0]["steps"] if done else None, expected))
        return None
    mism, verd = [], []
    for r in recs:
        if r.get("done"):
            continue
        act = paths[r["path"]]["steps"][r["step"]]["act"] if r["step"] >= 0 else {"name": "InitBuild"}
        if r.get("what"):
            mism.append((r["path"], r["step"], act, r))
        else:
            verd.append((r["path"], r["step"], act, r.get("real")))
    return mism, verd, done[0]["counts"]


STATEFUL = ("Append", "TornAppend", "Reload", "Grow")


def minimal(paths, pi, si):
    """smallest replayable path: the state-changing steps before step si, then step si"""
    st = paths[pi]["steps"]
    if si < 0:
        return {"init": paths[pi].get("init"), "steps": []}
    return {"init": paths[pi].get("init"), "steps": [s for s in st[:si] if s["act"]["name"] in STATEFUL] + [st[si]]}
