"""X01 — P2P block synchronisation (BlockSyncMgr) against spec/BlockSync.tla.

Not one of the 45 listed properties: additional system-level coverage (see spec/BlockSync.README.md).
 (a) the ledger only receives block cur+1, every height is committed once
 (b) committed / cached heights are not requested again, flights stay bounded
 (c) a response that is not on flight from that peer changes neither ledger nor cache
 (d) a block the ledger rejects leaves the cache and is requested again; no wedge
 (e) flights of a deleted peer are re-attributed (or dropped) by checkTimeout
 (f) liveness with an honest connected peer (fair model only)
"""
from concurrent.futures import ThreadPoolExecutor

import _blocksync as bs


def run(ctx):
    T = ctx.thorough
    # pure model-checking runs (no edge export), run beside the edge export / the Go build
    pure = [("BlockSync_X01strict.cfg", "ok", "intended behaviour (D1, D2 off), all three locks: (a)-(e) incl. (c)"),
            ("BlockSync_X01live.cfg", "ok", "fair model (LiveSpec), N=2: liveness (f)"),
            ("BlockSync_X01devc.cfg", "UnsolicitedIgnored", "as coded: (c) must fail (that is what D1/D2 mean)")]
    if T:
        pure += [("BlockSync_X01bound.cfg", "ok", "MaxFlightBlk=3, unrestricted schedule: flight bound (b)"),
                 ("BlockSync_X01livex.cfg", "Temporal", "no fairness: (f) must fail (the property is not vacuous)"),
                 ("BlockSync_X01strictt.cfg", "ok", "intended behaviour, N=3"),
                 ("BlockSync_X01boundt.cfg", "ok", "flight bound, N=3"),
                 ("BlockSync_X01livet.cfg", "ok", "liveness, N=3")]
    w = max(2, bs.vf.NCPU // 4)
    mc_info = {}

    def pure_run(item):
        cfg, expect, what = item
        r = ctx.tlc("BlockSync_MC", cfg=cfg, workers=w, timeout=1500)
        got = "ok" if r.status == "ok" else (r.violated or r.status)
        if any("Temporal propert" in e for e in r.errors):
            got = "Temporal"
        mc_info[cfg] = {"what": what, "expected": expect, "got": got, "distinct": r.distinct, "generated": r.generated,
                        "wall_s": round(r.wall, 1)}
        ctx.log("TLC %s: %s (expected %s), %d distinct, %d generated, %.1fs" % (cfg, got, expect, r.distinct, r.generated, r.wall))
        if got != expect:
            ctx.infra("TLC on %s (%s): expected %s, got %s %s" % (cfg, what, expect, got, r.errors[:2]))

    pool = ThreadPoolExecutor(max_workers=3)
    futs = [pool.submit(pure_run, it) for it in pure]
    fbin = pool.submit(ctx.go_test_bin, bs.PKG, bs.HARNESS)

    # the as-coded model with edge export: every transition is replayed on the real manager
    # (cfg, world, (max paths, max steps)): quick replays the long in-layer walks + a seed-dependent sample of the
    # layer-crossing edges; thorough replays the complete edge cover of the N=2 model and a big sample of N=3
    procs = 8 if T else 4
    runs = [("BlockSync_X01.cfg", "w2", (100000, 10 ** 9) if T else (60, 20000))]
    if T:
        runs.append(("BlockSync_X01t.cfg", "w3", (600, 300000)))
    npaths = nsteps = 0
    per_action = {}
    covers = {}
    binary = None
    for cfg, world, budget in runs:
        mc = bs.model_check(ctx, cfg, workers=4, timeout=2400, required=[a for a in bs.ALL_ACTIONS if a != "NetDrop"])
        binary = binary or fbin.result()
        if not (mc and binary):
            continue
        _, edges, inits = mc
        allp, ncov, nedges = bs.class_cover(edges, inits, max_len=2000)
        if ncov < nedges:
            ctx.infra("edge cover of %s incomplete: %d of %d" % (cfg, ncov, nedges))
        paths = bs.select_paths(ctx, allp, budget[0], budget[1])
        nsel = bs.covered_edges(paths)
        ctx.log("cover %s: %d distinct edges need %d paths (fresh real ledger each); replaying %d paths, %d steps, %d edges (%.0f%%)" %
                (cfg, nedges, len(allp), len(paths), sum(len(p["steps"]) for p in paths), nsel, 100.0 * nsel / max(1, nedges)))
        covers[cfg] = {"edges": nedges, "paths_full_cover": len(allp), "paths_replayed": len(paths), "edges_replayed": nsel}
        obs = bs.replay(ctx, binary, world, paths, world, timeout=2400, procs=procs)
        if obs is None:
            continue
        orc = bs.Oracle(ctx, world)
        for pi, p in enumerate(paths):
            orc.check_path(p, obs.get(pi, []), world, pi)
        npaths += len(paths)
        nsteps += orc.steps
        for k, v in orc.per_action.items():
            per_action[k] = per_action.get(k, 0) + v
        ctx.log("replayed %d paths / %d steps of %s on the real manager: %d property hits, %d drift" %
                (len(paths), orc.steps, cfg, orc.viol, orc.drift))
        if paths and len(ctx.samples) < 2:
            ctx.samples.append({"cfg": cfg, "replayed_path": [s["act"]["name"] for s in paths[0]["steps"][:12]]})
    # thorough: random walks of a bigger world (4 blocks, 3 peers, two-step disconnect, all locks may be held)
    if T and binary:
        sim = bs.model_check(ctx, "BlockSync_X01sim.cfg", workers=1, timeout=900, simulate="num=300", depth=50, required=[])
        if sim:
            _, e2, i2 = sim
            p2all, n2, _ = bs.class_cover(e2, i2)
            p2 = bs.select_paths(ctx, p2all, 400, 200000)
            ctx.log("simulation: %d edges -> %d paths" % (len(e2), len(p2)))
            obs2 = bs.replay(ctx, binary, "w4", p2, "sim", timeout=2400, procs=procs)
            if obs2 is not None:
                orc2 = bs.Oracle(ctx, "w4")
                for pi, p in enumerate(p2):
                    orc2.check_path(p, obs2.get(pi, []), "w4", pi)
                npaths += len(p2)
                nsteps += orc2.steps
                covers["BlockSync_X01sim.cfg"] = {"edges": len(e2), "paths": len(p2)}
                ctx.log("replayed %d simulated paths / %d steps: %d property hits, %d drift" % (len(p2), orc2.steps, orc2.viol, orc2.drift))
    for f in futs:
        f.result()
    pool.shutdown()
    missing = [a for a in bs.ALL_ACTIONS if per_action.get(a, 0) == 0 and a != "NetDrop"]
    if missing and binary and not ctx.violations:
        ctx.infra("replay never executed actions %s" % missing)
    ctx.finish("model_checking", {
        "states": ctx.stats["states"], "transitions": ctx.stats["transitions"],
        "traces_validated_against_impl": npaths,
        "replayed_steps": nsteps, "replayed_per_action": per_action, "edge_covers": covers,
        "model_checking_runs": mc_info,
        "constants": {"worlds": bs.WORLDS},
        "exhaustive": True,
    }, ["peer preference (weights from wall-clock time and transfer speed) is an input of the model; the harness forces it",
        "timeouts are fired by setting the flights' start times, never by waiting",
        "responses come from one canonical source chain; a bad block has the canonical header and a tampered body",
        "Send never fails; peer heights are constant; cross-chain messages are nil"])
