"""C09 — ONG issuance is interval-additive and totals exactly the ONG supply.

spec/Unbind.tla (functions Holder/Gov as coded, parametric in the tables and the network) is
  * proved by Apalache for all 32-bit offsets (additivity, total = supply, never above supply, no uint64 wrap,
    saturation), instantiated with the constants read from the current Go tree, per network;
  * tabulated by TLC on a boundary grid (closed form = literal loop transcription) and compared point by point
    with what CalcUnbindOng / CalcGovernanceUnbindOng return;
  * every Apalache counterexample is executed on the Go functions.
Violations are only reported for additivity / total failing on values returned by the real functions.
"""
import _unbind as ub


def split_class(k, b):
    T = k["T"]
    if b == k["GD"]:
        return "at-gov-deadline"
    if b == k["D"]:
        return "at-holder-deadline"
    if b % T == 0:
        return "at-interval-boundary"
    if b > k["GD"]:
        return "after-gov-deadline"
    return "interior"


def add_key(fn, net, k, b):
    if fn == "gov" and b == k["GD"]:
        return "GovUnbind:split-at-deadline:%s" % net
    return "%sUnbind:additivity:%s:split-%s" % ("Gov" if fn == "gov" else "Holder", net, split_class(k, b))


def run(ctx):
    assumptions = ["Apalache 0.58 / Z3 decide the obligations (linear integer arithmetic with constant tables)",
                   "the obligations are instantiated with the tables, interval, supplies and holder deadlines read from the current tree",
                   "networks: ids 1 (mainnet), 2 (polaris), 3 (stands for every other id: GetOntHolderUnboundDeadline's default branch)"]
    cov = {"obligations": 0, "discharged": 0, "checker_cmd": "", "trusted_base": [
        "apalache-mc 0.58.0 + Z3", "TLC 2 (grid tabulation, loop = closed form)", "Go toolchain",
        "closed-form transcription in spec/Unbind.tla, cross-checked against the Go functions on the grid"]}
    binary = ctx.go_test_bin(ub.PKG, harness=ub.HARNESS)
    if not binary:
        ctx.finish("proof", cov, assumptions)
    recs = ub.run_harness(ctx, binary, {"mode": "consts", "nets": ub.NETS}, "consts")
    if recs is None:
        ctx.finish("proof", cov, assumptions)
    K = {}
    for r in recs:
        net = r["net"]
        if r.get("panic"):
            # GetGovUnboundDeadline panics ("incompatible constants setting"): nothing can be issued on this network
            ctx.violation("Config:panic:%s" % net, {"panic": r["panic"], "consts": r}, {"mode": "consts", "net": net})
            continue
        K[net] = r
        if r["rate"] != r["rate_utils"] or r["newrate"] != r["newrate_utils"] or r["T"] != r["T_utils"]:
            ctx.notes.append("%s: utils copies of the tables differ from common/constants" % net)
        ref = ub.REFERENCE
        if (r["T"], r["rate"], r["newrate"], r["ont_supply"], r["ong_supply"], r["D"]) != \
                (ref["T"], ref["rate"], ref["newrate"], ref["ont_supply"], ref["ong_supply"], ref["D"][net]):
            ctx.notes.append("%s: constants of the tree differ from the reference transcription in spec/Unbind_K.tla; "
                             "the specification is instantiated with the tree's values" % net)
            ctx.log("NOTE constants of the tree differ from the reference transcription (%s)" % net)
        if len(r["rate"]) != 18 or len(r["newrate"]) != 18:
            ctx.infra("table length %d: spec/Unbind.tla unrolls its sums for 18 intervals" % len(r["rate"]))
    if ctx.infra_errors or not K:
        ctx.finish("proof", cov, assumptions)

    # ------------------------------------------------------------------ Go grid
    nrand = 250 if ctx.thorough else 60
    grids = {}
    nets_in = []
    for n in ub.NETS:
        if n["name"] in K:
            small, big = ub.grid(ctx, K[n["name"]], nrand)
            grids[n["name"]] = (small, big)
            nets_in.append({"name": n["name"], "id": n["id"], "points": small + big})
    ends = lambda k: sorted({k["GD"] - 1, k["GD"], k["GD"] + 1, k["GD"] + 2, 18 * k["T"], min(ub.U32, 108 * k["T"]), ub.U32, k["D"], 1})
    rows = []
    for ni in nets_in:  # one harness run per network (the list of total end points depends on the network)
        k = K[ni["name"]]
        r = ub.run_harness(ctx, binary, {"mode": "grid", "nets": [ni], "balances": [0, 1, 2, k["ont_supply"] - 1, k["ont_supply"]],
                                         "ends": ends(k)}, "grid-" + ni["name"])
        if r is None:
            ctx.finish("proof", cov, assumptions)
        rows += r
    GoH, GoG = {}, {}
    variant = {}
    stats = {"go_pairs": 0, "go_triples": 0, "tlc_pairs_compared": 0, "big_pairs_compared": 0, "mul_compared": 0,
             "totals_checked": 0, "additivity_failures_on_go": 0, "cex_executed_on_go": 0}
    fails = {}
    for r in rows:
        net = r["net"]
        k = K[net]
        kind = r["kind"]
        if kind == "row":
            GoH.setdefault(net, {})[r["i"]] = r["h"]
            GoG.setdefault(net, {})[r["i"]] = r["g"]
            stats["go_pairs"] += len(r["h"])
        elif kind == "panic":
            ctx.violation("%sUnbind:panic:%s" % ("Gov" if r["fn"] == "gov" else "Holder", net), r,
                          {"mode": "probe", "net": net, "a": r["a"], "b": r["b"]})
        elif kind == "rev":
            if r["h"] != 0 or r["g"] != 0 or r["panic"]:
                # start > end is outside the property's quantifier (a <= b <= c); the spec says 0 as the code does
                ctx.infra("MODEL-DRIFT %s: start>end returned %s" % (net, r))
        elif kind == "total":
            stats["totals_checked"] += 1
            tot = r["h"] + r["g"]
            if r["panic"]:
                ctx.violation("Total:panic:%s" % net, r, {"mode": "probe", "net": net, "c": r["end"]})
            elif r["end"] > k["GD"] and tot != k["ong_supply"]:
                ctx.violation("Total:%s:not-supply" % net, {"end": r["end"], "holders": r["h"], "governance": r["g"], "sum": tot,
                                                           "ong_supply": k["ong_supply"], "diff": tot - k["ong_supply"]},
                              {"mode": "probe", "net": net, "a": 0, "b": 0, "c": r["end"]})
            elif tot > k["ong_supply"]:
                ctx.violation("Total:%s:above-supply" % net, {"end": r["end"], "sum": tot, "ong_supply": k["ong_supply"]},
                              {"mode": "probe", "net": net, "a": 0, "b": 0, "c": r["end"]})
        elif kind == "addfail":
            stats["additivity_failures_on_go"] += 1
            key = add_key(r["fn"], net, k, r["b"])
            f = fails.setdefault(key, {"count": 0, "first": r, "min": r})
            f["count"] += 1
            if r["c"] - r["a"] < f["min"]["c"] - f["min"]["a"]:
                f["min"] = r
        elif kind == "addsum":
            stats["go_triples"] += r["triples"]
            if r["holder_fails"] + r["gov_fails"] > 200000:
                ctx.log("more than 200000 additivity failures on %s (list truncated)" % net)
    for key, f in sorted(fails.items()):
        m = f["min"]
        ctx.violation(key, {"failing_triples_on_grid": f["count"], "a": m["a"], "b": m["b"], "c": m["c"], "whole": m["whole"],
                            "left": m["left"], "right": m["right"], "lost": m["whole"] - m["left"] - m["right"]},
                      {"mode": "probe", "net": m["net"], "a": m["a"], "b": m["b"], "c": m["c"]})
    for net, k in K.items():
        small, big = grids[net]
        pts = small + big
        i, j = pts.index(k["GD"]), pts.index(k["GD"] + 1)
        v = GoG[net][i][j - i]
        variant[net] = "coded" if v == 0 else ("fixed" if v == k["gap"] * k["ont_supply"] else "unknown")
        if variant[net] == "unknown":
            ctx.infra("MODEL-DRIFT %s: Gov(GD, GD+1) = %d is neither 0 (code as transcribed) nor gap*supply" % (net, v))
            variant[net] = "coded"
    ctx.log("go grid: %d pairs, %d triples, %d additivity failures; variant %s" % (
        stats["go_pairs"], stats["go_triples"], stats["additivity_failures_on_go"], variant))

    # ------------------------------------------------------------------ Apalache obligations
    jobs = []
    must = {}
    refute = []
    nets = list(K)
    for net in nets:
        k = K[net]
        fixed = variant[net] == "fixed"
        files = {"Unbind_K.tla": ub.k_module(net, k, fixed)}
        # ObGovLossIsGap implies ObGovAdditiveOffDeadline; the weaker one is only re-proved in the thorough tier
        obs = ub.OBLIGATIONS_COMMON + ["ObSaturation"] + (ub.OBLIGATIONS_FIXED if fixed else
                                                          (ub.OBLIGATIONS_CODED if ctx.thorough else ["ObGovLossIsGap"]))
        jobs.append((net, files, obs))
        must[net] = obs
    # the code as it is: the unrestricted governance obligation is expected to be refuted; the counterexample is
    # executed on the Go functions (thorough: every network; quick: one network chosen by the seed)
    coded = [n for n in nets if variant[n] == "coded"]
    if coded:
        for net in (coded if ctx.thorough else [coded[ctx.seed % len(coded)]]):
            jobs.append((net + ":asCoded", {"Unbind_K.tla": ub.k_module(net, K[net], False)}, ["ObGovAdditive"]))
            refute.append(net + ":asCoded")
    if ub.os.environ.get("VERIF_C09_SKIP_APALACHE"):  # development only: can never pass
        ctx.infra("apalache skipped")
        jobs = []
    prover = ub.Prover(ctx, jobs, workers=max(1, min(len(jobs), max(2, ub.vf.NCPU // 3))))  # runs in the background
    # ------------------------------------------------------------------ TLC tabulation and comparison
    tlc_rows = 0
    for net, k in K.items():
        small, big = grids[net]
        files = {"Unbind_K.tla": ub.k_module(net, k, variant[net] == "fixed"), "Unbind_G.tla": ub.g_module(small)}
        r = ctx.tlc("Unbind_MC", cfg="Unbind_MC.cfg", workers=1, files=files, timeout=1500, tags=("ROW", "NOTE"))
        if r.status != "ok":
            ctx.infra("TLC could not tabulate Unbind for %s: %s %s" % (net, r.status, r.errors[:2]))
            continue
        note = r.prints.get("NOTE", [{}])[0]
        if not note.get("sane"):
            ctx.infra("Unbind!Sane is false for %s: %s" % (net, note))
        if (note.get("GD"), note.get("gap")) != (k["GD"], k["gap"]) or (note.get("lGD"), note.get("lgap")) != (k["GD"], k["gap"]):
            ctx.infra("MODEL-DRIFT %s: GetGovUnboundDeadline returned (%s,%s), spec (%s,%s)" % (net, k["GD"], k["gap"], note.get("GD"), note.get("gap")))
        trows = r.prints.get("ROW", [])
        tlc_rows += len(trows)
        if len(trows) != len(small):
            ctx.infra("TLC printed %d rows, expected %d" % (len(trows), len(small)))
            continue
        ns = len(small)
        i18 = small.index(18 * k["T"])
        bad = None
        for tr in trows:
            i = tr["i"]
            if not tr["loopok"]:
                ctx.infra("spec: loop transcription and closed form differ in row a=%d (%s)" % (tr["a"], net))
            gh, gg = GoH[net][i], GoG[net][i]
            for d in range(ns - i):
                stats["tlc_pairs_compared"] += 1
                if gh[d] != tr["h"][d] or gg[d] != tr["g"][d] * k["ont_supply"]:
                    bad = bad or (net, small[i], small[i + d], gh[d], tr["h"][d], gg[d], tr["g"][d] * k["ont_supply"])
            # offsets >= 2^31 (not representable in TLC): by the proved Saturation lemma the spec value for an end
            # point c >= 18T is the value at 18T
            if i <= i18:
                for jb in range(ns, ns + len(big)):
                    stats["big_pairs_compared"] += 1
                    if gh[jb - i] != tr["h"][i18 - i] or gg[jb - i] != tr["g"][i18 - i] * k["ont_supply"]:
                        bad = bad or (net, small[i], big[jb - ns], gh[jb - i], tr["h"][i18 - i], gg[jb - i], tr["g"][i18 - i] * k["ont_supply"])
        for ib in range(ns, ns + len(big)):
            for d in range(len(GoH[net][ib])):
                stats["big_pairs_compared"] += 1
                if GoH[net][ib][d] != 0 or GoG[net][ib][d] != 0:
                    bad = bad or (net, big[ib - ns], big[ib - ns + d], GoH[net][ib][d], 0, GoG[net][ib][d], 0)
        # the final multiplication by the balance
        hmap = {(small[tr["i"]], small[tr["i"] + d]): tr["h"][d] for tr in trows for d in range(0, ns - tr["i"])}
        for m in rows:
            if m["kind"] == "mul" and m["net"] == net and (m["a"], m["b"]) in hmap:
                stats["mul_compared"] += 1
                exp = hmap[(m["a"], m["b"])] * m["bal"]
                if m["panic"] or m["h"] != exp or exp > ub.U64:
                    bad = bad or (net, m["a"], m["b"], m["h"], exp, "balance", m["bal"])
        if bad:
            # not a verdict: additivity and the total are decided on the Go values above; this says the model is not the code
            ctx.infra("MODEL-DRIFT %s: Go and spec differ at (a=%s, b=%s): go holder=%s spec holder=%s go gov=%s spec gov=%s" % bad)
        if not ctx.samples:
            ctx.samples.append({"grid_row": {"net": net, "a": small[5], "b": small[5:9], "spec_holder": trows[5]["h"][:4],
                                             "go_holder": GoH[net][5][:4], "spec_gov_times_supply": [x * k["ont_supply"] for x in trows[5]["g"][:4]],
                                             "go_gov": GoG[net][5][:4]}})
    ctx.log("TLC: %d rows; %d pairs compared with Go, %d pairs with offsets >= 2^31, %d balance products" % (
        tlc_rows, stats["tlc_pairs_compared"], stats["big_pairs_compared"], stats["mul_compared"]))

    if ub.os.environ.get("VERIF_C09_SKIP_APALACHE"):
        ctx.finish("proof", cov, assumptions)
    res = prover.wait()
    probes = []
    obligations = discharged = 0
    oblist = []
    for net in nets:
        r = res[net]
        cov["checker_cmd"] = cov["checker_cmd"] or r["cmd"]
        for ob in must[net]:
            obligations += 1
            if r["status"] == "refuted-batch":
                oblist.append({"net": net, "obligation": ob, "status": "in refuted batch (not attributed: the Go grid already reported a violation)"})
                continue
            rr = r if r["status"] != "split" else res[net + ":" + ob]
            oblist.append({"net": net, "obligation": ob, "status": rr["status"]})
            if rr["status"] == "ok":
                discharged += 1
            elif rr["status"] == "violation" and rr["cex"]:
                probes.append({"id": "%s:%s" % (net, ob), "net": net, "ob": ob, **rr["cex"]})
            else:
                ctx.infra("apalache %s %s: %s %s" % (net, ob, rr["status"], rr.get("tail", "")[-400:]))
    for tag in refute:
        r = res[tag]
        net = tag.split(":")[0]
        if r["status"] == "violation" and r["cex"]:
            probes.append({"id": tag, "net": net, "ob": "ObGovAdditive", "expected": True, **r["cex"]})
        elif r["status"] == "ok":
            ctx.infra("MODEL-DRIFT %s: Go loses the gap at the deadline but the as-coded specification is additive" % net)
        else:
            ctx.infra("apalache %s: %s" % (tag, r["status"]))
    cov["obligations"], cov["discharged"] = obligations, discharged
    cov["obligation_list"] = oblist
    if probes:
        inp = {"mode": "probe", "nets": [{"name": n["name"], "id": n["id"], "points": []} for n in ub.NETS],
               "probes": [{"id": p["id"], "net": p["net"], "a": p["a"], "b": p["b"], "c": p["c"]} for p in probes]}
        out = ub.run_harness(ctx, binary, inp, "probe") or []
        got = {o["id"]: o for o in out}
        for p in probes:
            o = got.get(p["id"])
            if not o:
                ctx.infra("probe %s not executed" % p["id"])
                continue
            stats["cex_executed_on_go"] += 1
            k = K[p["net"]]
            rep = {"mode": "probe", "net": p["net"], "a": p["a"], "b": p["b"], "c": p["c"]}
            ob = p["ob"]
            reproduced = None
            if ob in ("ObGovAdditive", "ObGovAdditiveOffDeadline", "ObGovLossIsGap"):
                if not (p["a"] <= p["b"] <= p["c"]):
                    reproduced = False
                elif o["g_ac"] != o["g_ab"] + o["g_bc"]:
                    reproduced = True
                    lost = o["g_ac"] - o["g_ab"] - o["g_bc"]
                    ctx.violation(add_key("gov", p["net"], k, p["b"]),
                                  {"apalache_counterexample": rep, "whole": o["g_ac"], "left": o["g_ab"], "right": o["g_bc"], "lost": lost}, rep)
                    ctx.samples.append({"apalache_counterexample_executed_on_go": {**rep, "Gov(a,c)": o["g_ac"], "Gov(a,b)": o["g_ab"], "Gov(b,c)": o["g_bc"]}})
                else:
                    reproduced = False
            elif ob == "ObHolderAdditive":
                if p["a"] <= p["b"] <= p["c"] and o["h_ac"] != o["h_ab"] + o["h_bc"]:
                    reproduced = True
                    ctx.violation(add_key("holder", p["net"], k, p["b"]),
                                  {"apalache_counterexample": rep, "whole": o["h_ac"], "left": o["h_ab"], "right": o["h_bc"]}, rep)
                else:
                    reproduced = False
            elif ob in ("ObTotalIsSupply", "ObNeverAboveSupply"):
                tot = o["hs_0c"] + o["g_0c"]
                if (ob == "ObTotalIsSupply" and p["c"] > k["GD"] and tot != k["ong_supply"]) or tot > k["ong_supply"]:
                    reproduced = True
                    ctx.violation("Total:%s:%s" % (p["net"], "not-supply" if ob == "ObTotalIsSupply" else "above-supply"),
                                  {"apalache_counterexample": rep, "sum": tot, "ong_supply": k["ong_supply"]}, rep)
                else:
                    reproduced = False
            if not reproduced:
                ctx.infra("MODEL-DRIFT: apalache refuted %s at %s but the Go functions do not reproduce it" % (p["id"], rep))
    ctx.log("apalache: %d/%d obligations discharged; %d counterexamples executed on Go" % (discharged, obligations, stats["cex_executed_on_go"]))
    cov.update(stats)
    cov["variant_per_network"] = variant
    cov["refuted_as_coded"] = [t for t in refute if res[t]["status"] == "violation"]
    cov["constants_from_tree"] = {n: {x: K[n][x] for x in ("T", "D", "GD", "gap", "rate", "newrate", "ont_supply", "ong_supply")} for n in K}
    cov["grid_points"] = {n: len(grids[n][0]) + len(grids[n][1]) for n in grids}
    cov["tlc_rows"] = tlc_rows
    ctx.samples.append({"obligation": "ObHolderAdditive == (a <= b /\\ b <= c) => HolderAmt(a,c) = HolderAmt(a,b) + HolderAmt(b,c), a,b,c in 0..2^32-1"})
    ctx.finish("proof", cov, assumptions)
