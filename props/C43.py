"""C43 — block log blooms never miss a log of the block; the section index agrees with the per-block blooms."""
import json
import os
import _ledgerquery as lq
import vf


def run(ctx):
    if ctx.replay_in:
        lq.replay_mode(ctx)
    try:
        lq.standard(ctx, "C43", ("LedgerQuery_C43.cfg", "LedgerQuery_C43t.cfg"), ["Submit:ok", "Restart"], {"views", "bloom", "history"},
                    tv=({"ntraces": 2, "nsteps": 40}, {"ntraces": 10, "nsteps": 80}), extra=section,
                    assumptions=["logs are emitted by three deployed EVM contracts (LOG1 per call-data word) with three topics; every block "
                                 "additionally carries the ONG fee-transfer logs of its EVM transactions, which are checked against the stored "
                                 "bloom from the event store records",
                                 "the model's section size is 2 in the exhaustive run; IndexAgrees on the real section size 4096 is evaluated by "
                                 "TLC on the data of one real section (LedgerQuery_Section)"])
    finally:
        lq.cleanup(ctx)


def section(ctx, binary, bits):
    """one real 4096-block section with logs at its edges and restarts inside it"""
    S = 4096
    rng = ctx.rng
    if ctx.thorough:
        n = 2 * S + 3
        restarts = sorted({rng.randrange(100, S - 200), S - 6, S - 1, S + rng.randrange(10, S - 10), 2 * S - 2})
    else:
        n = S + 4
        restarts = sorted({rng.randrange(100, S - 200), S - 6})
    items_a, items_t = ["a1", "a2", "a3"], ["t1", "t2", "t3"]

    def logs(k):
        out = []
        while len(out) < k:
            l = [rng.choice(items_a), rng.choice(items_t)]
            if l not in out:
                out.append(l)
        return out
    at = {3: logs(1), 4: logs(2), S - 2: logs(2), S - 1: logs(3), S: logs(1), S + 1: logs(2)}
    for r in restarts:
        at.setdefault(r, logs(1))
        at.setdefault(r + 1, logs(2))
    for _ in range(6):
        at.setdefault(rng.randrange(5, n), logs(rng.randrange(1, 4)))
    if ctx.thorough:
        at.update({2 * S - 1: logs(2), 2 * S: logs(1)})
    at = {h: l for h, l in at.items() if 3 <= h <= n}
    inp = {"n": n, "logsAt": {str(h): l for h, l in at.items()}, "restarts": restarts, "nkeepers": 4}
    fout = lq.run_harness(ctx, binary, "TestVerifLQSection", inp, "section", timeout=2400)
    if not fout:
        return
    ev = vf.read_ndjson(fout)
    for e in ev:
        if e["event"] in ("IndexMissing", "IndexCorrupt", "RestartFailed"):
            ctx.violation("section:%s" % e["event"], e, inp)
            return
    if not ev or ev[-1]["event"] != "End":
        ctx.infra("section run produced no End record")
        return
    p = os.path.join(ctx.scratch, "section.ndjson")
    with open(p, "w") as f:
        f.write(json.dumps({"event": "Header", "bits": bits, "minSections": n // S and (n + 1) // S, "minLogBlocks": len(at)}) + "\n")
        for e in ev:
            if e["event"] == "Bloom" and e.get("logs") is None:
                e["logs"] = []
            f.write(json.dumps(e) + "\n")
    r = ctx.tlc("LedgerQuery_Section", workers=1, files={"section.ndjson": p}, timeout=1200)
    note = next((x for x in r.prints.get("NOTE", []) if isinstance(x, dict) and "indexAgrees" in x), None)
    if r.status != "ok" or note is None:
        ctx.infra("TLC evaluation of the section data failed: %s %s" % (r.status, r.errors[:2]))
        return
    ctx.extra["section"] = {"blocks": n, "restarts": restarts, "log_blocks": note["logBlocks"], "used_bits": note["usedBits"],
                            "sections": ev[-1]["sections"]}
    ctx.stats["traces"] += 1
    ctx.log("section run: %d blocks, %d sections, restarts %s -> %s" % (n, ev[-1]["sections"], restarts, note))
    if not note["logsPresent"] or not note["indexComplete"]:
        if not note["indexComplete"]:
            ctx.violation("section:index-incomplete", {"sections": ev[-1]["sections"], "cur": ev[-1]["cur"]}, inp)
        else:
            ctx.infra("section run is vacuous: logs did not reach the blooms' blocks")
    if not note["noMiss"]:
        ctx.violation("section:bloom-miss", {"blooms": [e for e in ev if e["event"] == "Bloom"][:12]}, inp)
    if not note["indexAgrees"]:
        ctx.violation("section:index-disagrees", {"index": [e for e in ev if e["event"] == "Index"][:6]}, inp)
