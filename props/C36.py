"""C36 — peer connection limits hold under concurrent connection attempts.

spec/ConnCtrl.tla models every mutex-protected read / insert of the ConnectController as its own step.
 * MC: the intended design (Save re-tests the limits) satisfies Limits for all interleavings (fine-grained steps);
       the model of the code as it is (CheckThenAct) is explored exhaustively, Limits as a candidate generator.
 * RP: every transition of the as-coded model at harness granularity (Check / Save / HandshakeFail / Close) is forced,
       as part of a schedule from the initial state, on the real ConnectController (real AcceptConnect / Connect
       goroutines, real handshake code on both ends, gating net.Conn / Dialer); after every step the real counts are read.
 * Address forms: the textual form of the remote addresses (IPv4 "a.b.c.d:port", IPv6 "[h]:port" loopback / global /
       zoned, hosts and ports that are textual prefixes of each other, both families mixed) is a model dimension (variable
       plan of ConnCtrl.tla, one initial state per address plan); the universe ConnsF (three concurrent attempts from one
       IP on three ports + one from a second IP) is model-checked and replayed over every non-IPv4 plan: the harness
       net.Conn objects / dial addresses carry exactly the texts the model computed.
 * Oracle: a REAL count above its limit (the controller's counters, the recorded addresses split with net.SplitHostPort
       and the harness's own count of live connections per IP).  An overshoot that exists only in the model is never a verdict.
"""
import os
import _connctrl as cc
from _bp2p_cover import fast_cover

ACTIONS = ["Check", "Save", "HandshakeFail", "Close"]
RESULTS = ["checked", "rej-addr", "rej-full", "rej-ip", "rej-connecting", "rej-kid", "saved", "failed", "closed"]


def run(ctx):
    # VERIF_C36_FIXED=1 selects the intended-design model (used to validate a candidate patch in a worktree)
    fixed = (any(f.get("property") == "C36" and f.get("status") == "fixed" for f in ctx._findings)
             or os.environ.get("VERIF_C36_FIXED") == "1")
    as_coded = not fixed   # named deviation switch CheckThenAct: on while the code inserts without re-testing the limits
    # (universe, (MaxIn, MaxPerIp, MaxOut), also model-check the fine-grained design / as-coded variants)
    # + the address plans the run ranges over (ConnCtrl_MC.tla Plans*)
    configs = [("ConnsQ", (2, 1, 1), True, "PlansBase"), ("ConnsQ2", (2, 1, 1), False, "PlansBase"),
               ("ConnsQ3", (2, 2, 1), False, "PlansBase"), ("ConnsF", (3, 2, 1), False, "PlansForms")]
    if ctx.thorough:
        configs += [("ConnsQ", (2, 2, 1), False, "PlansBase"), ("ConnsT", (2, 1, 1), True, "PlansBase"),
                    ("ConnsT2", (3, 2, 1), False, "PlansBase"), ("ConnsF", (2, 1, 1), True, "PlansAll"),
                    ("ConnsF2", (3, 2, 1), False, "PlansForms"), ("ConnsQ2", (2, 1, 1), False, "PlansV6")]
    seen_names, seen_results, seen_plans = set(), set(), set()

    def parts(conns, lim, full, plans):
        tag = "%s-%d%d%d" % (conns, lim[0], lim[1], lim[2]) + ("" if plans == "PlansBase" else "-" + plans)
        # two dials to one address can both be established in the fine-grained models (stale hasBoundAddr), so the
        # bookkeeping invariant is claimed for the fine-grained runs only where remote addresses are pairwise distinct
        book = (["Book"] if conns in ("ConnsQ", "ConnsF") else []) + ["LiveCounted"]
        return tag, book

    # all TLC runs are started ahead (they overlap with the go build and with the replays of the earlier configurations)
    pf = cc.Prefetch(ctx, 4)
    for (conns, lim, full, plans) in configs:
        tag, book = parts(conns, lim, full, plans)
        # the ghost snapshots multiply the graph; the quick run over the address forms stays at plain state identity
        # (the thorough tier refines the small universe ConnsF only)
        snap = False if (plans != "PlansBase" and not (ctx.thorough and conns == "ConnsF")) else None
        # -- MC 3 + edge export at the granularity the harness can force
        inv = ["TypeOK", "Book", "LiveCounted"] + ([] if as_coded else ["Limits"])
        pf.submit(tag + "-replay", conns, lim, as_coded, False, inv, True, snap=snap, plans=plans)
        if full:
            # -- MC 1: intended design, every critical section its own step: Limits must be an invariant
            pf.submit(tag + "-design", conns, lim, False, True, ["TypeOK", "Limits"] + book, False, plans=plans)
            # -- MC 2: the code as it is, fine-grained: candidate counterexample (never a verdict by itself); in the quick
            #    tier it is skipped once the deviation is fixed (the design model above is then the model of the code)
            if not (fixed and not ctx.thorough):
                pf.submit(tag + "-coded-fine", conns, lim, True, True, ["TypeOK", "Limits"] + book, False, workers=1, plans=plans)
            if ctx.thorough and conns == "ConnsQ":
                pf.submit(tag + "-coded-fine-full", conns, lim, True, True, ["TypeOK"] + book, False, plans=plans)
    binary = ctx.go_test_bin("p2pserver/connect_controller", harness="b_p2p_connctrl", hide_own_tests=True)
    stats = {"steps": 0, "overshoots": {}, "fatal_logs": 0, "paths_by_plan": {}}
    npaths = nedges = 0
    model_notes = []
    for (conns, lim, full, plans) in configs:
        tag, book = parts(conns, lim, full, plans)
        if full:
            r = pf.get(tag + "-design")
            if r.status != "ok":
                ctx.infra("design model (Save re-tests the limits) does not satisfy its invariants: %s %s" % (r.violated, r.errors[:2]))
            r = None if (fixed and not ctx.thorough) else pf.get(tag + "-coded-fine")
            if r is None:
                pass
            elif r.status == "violation" and r.violated == "Limits":
                model_notes.append("%s: TLC finds a Limits counterexample in the as-coded model (%d states explored before it)" % (tag, r.distinct))
            elif r.status == "ok":
                model_notes.append("%s: as-coded model satisfies Limits" % tag)
            else:
                ctx.infra("as-coded fine-grained model: %s %s" % (r.status, r.errors[:2]))
            if ctx.thorough and conns == "ConnsQ":
                r = pf.get(tag + "-coded-fine-full")
                if r.status != "ok":
                    ctx.infra("as-coded fine-grained model (full exploration): %s %s" % (r.status, r.errors[:2]))
        r = pf.get(tag + "-replay")
        if r.status != "ok":
            ctx.infra("replay model: %s %s %s" % (r.status, r.violated, r.errors[:2]))
            continue
        edges, inits = r.prints.get("EDGE", []), r.prints.get("INIT", [])
        for e in edges:
            e["from"], e["to"] = cc.norm_state(e["from"]), cc.norm_state(e["to"])
        inits = [cc.norm_state(s) for s in inits]
        tabs = cc.plan_tables(r.prints.get("NOTE", []), cc.UNIVERSE[conns])
        if sorted(tabs) != sorted(cc.PLANSETS[plans]) or sorted(s["plan"] for s in inits) != sorted(cc.PLANSETS[plans]):
            ctx.infra("replay model %s: initial states / address tables for plans %s, expected %s" % (tag, sorted(tabs), cc.PLANSETS[plans]))
            continue
        seen_plans |= set(tabs)
        if not as_coded:
            # vacuity per address form: the in-lock re-test must have something to refuse under every plan
            for pl in tabs:
                if not any(e["act"]["res"] == "rej-limit" and e["from"]["plan"] == pl for e in edges):
                    ctx.infra("vacuous: %s has no Save refused by the in-lock re-test under address plan %s" % (tag, pl))
        seen_names |= {e["act"]["name"] for e in edges}
        seen_results |= {e["act"]["res"] for e in edges}
        if not binary:
            continue
        wit = cc.shortest_witnesses(edges, inits, lim)
        paths, ncov, nuniq = fast_cover(edges, inits, max_len=40)
        if ncov != nuniq or nuniq == 0:
            ctx.infra("cover incomplete: %d of %d edges covered" % (ncov, nuniq))
        # shortest overshooting schedules first: they become the minimal repro of a finding
        allpaths = sorted(wit.values(), key=lambda w: len(w["steps"])) + paths
        ctx.log("%s: %d edges, %d schedules (%d steps), model overshoot kinds reachable: %s" % (
            tag, len(edges), len(allpaths), sum(len(p["steps"]) for p in allpaths), sorted(wit)))
        obs = cc.replay(ctx, binary, cc.UNIVERSE[conns], lim, allpaths, tag, tabs)
        if obs is None:
            continue
        cc.judge(ctx, allpaths, obs, lim, cc.UNIVERSE[conns], stats, tabs)
        npaths += len(allpaths)
        nedges += len(edges)
        if as_coded:
            # every overshoot kind the as-coded model reaches must have been reproduced by the real controller,
            # otherwise the model misdescribes the code
            seen = {k for k in stats["overshoots"]}
            for kind in wit:
                if not any(k.startswith(cc.KIND_KEY[kind] + ":") for k in seen):
                    ctx.infra("MODEL-DRIFT: the as-coded model exceeds the %s limit but the real controller never did "
                              "(if savePeer now re-tests the limits, mark the C36 findings as fixed in known_findings.d)" % kind)
        if len(ctx.samples) < 3 and allpaths:
            ctx.samples.append({"config": tag, "schedule": cc.sched_text(allpaths[0], len(allpaths[0]["steps"]))})
    missing = [a for a in ACTIONS if a not in seen_names] + [x for x in RESULTS if x not in seen_results]
    missing += ["plan " + p for p in cc.PLANSETS["PlansAll"] if binary and stats["paths_by_plan"].get(p, 0) == 0]
    if missing:
        ctx.infra("vacuous model runs: never taken: %s" % missing)
    ctx.log("replayed %d steps; real overshoots by key: %s" % (stats["steps"], stats["overshoots"]))
    ctx.finish("model_checking", {
        "states": ctx.stats["states"], "transitions": ctx.stats["transitions"],
        "traces_validated_against_impl": npaths,
        "replayed_steps": stats["steps"], "replay_edges": nedges,
        "real_overshoot_observations": stats["overshoots"],
        "schedules_by_address_plan": stats["paths_by_plan"],
        "model_notes": model_notes,
        "deviation_switch": {"CheckThenAct": as_coded},
        "constants": [{"conns": cc.UNIVERSE[c], "maxIn": l[0], "maxPerIp": l[1], "maxOut": l[2], "plans": cc.PLANSETS[pl]} for c, l, _, pl in configs],
        "exhaustive": True,
    }, ["schedules are forced at the granularity at which the harness can hold a goroutine (before the call, inside the "
        "handshake, after the return): beforeHandshakeCheck(+tryAddConnecting) and afterHandshakeCheck+savePeer are each one step; "
        "the finer interleavings are model-checked only",
        "remote addresses of distinct connections are distinct (TCP)",
        "net.SplitHostPort / net.JoinHostPort are modelled by their contract (inverse of each other on the texts of the plan), "
        "the address texts are those of harness net.Conn objects, not of kernel sockets",
        "data races on unlocked fields are not observable by schedule replay (no -race build)"])
