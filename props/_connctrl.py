"""Shared machinery for C36 (spec/ConnCtrl.tla): TLC runs, schedule replay on the real ConnectController, oracle."""
import os
import vf

# the abstract constants of spec/ConnCtrl_MC.tla (kept in one place).  The TEXTS of the addresses are not repeated here: the
# model computes them per address plan (ConnCtrl.tla AddrTab / LsnTab) and prints them with every initial state (NOTE).
ALL = ("i1", "i2", "i3", "i4", "i5", "i6", "i7", "o1", "o2", "o3", "o4")
DIR = {c: ("out" if c.startswith("o") else "in") for c in ALL}
IP = {"i6": "A", "i1": "A", "i2": "A", "i7": "A", "i3": "B", "i4": "B", "i5": "C", "o1": "D", "o2": "E", "o3": "D", "o4": "A"}
KID = {"i6": "k1", "i1": "k1", "i2": "k2", "i7": "k7", "i3": "k3", "i4": "k3", "i5": "k1", "o1": "k4", "o2": "k5", "o3": "k4", "o4": "k1"}
UNIVERSE = {"ConnsQ3": ["i1", "i6", "i2", "i3"], "ConnsQ": ["i1", "i2", "i3", "o1", "o2"], "ConnsQ2": ["i1", "i5", "o1", "o3", "o4"],
            "ConnsF": ["i1", "i2", "i7", "i3"], "ConnsF2": ["i1", "i2", "i7", "i3", "o4"],
            "ConnsT": ["i1", "i2", "i3", "i4", "o1", "o2", "o3"], "ConnsT2": ["i1", "i2", "i5", "o1", "o3", "o4"]}
PLANSETS = {"PlansBase": ["v4"], "PlansForms": ["v6", "v4prefix", "v6prefix", "mixed"], "PlansV6": ["v6"],
            "PlansAll": ["v4", "v6", "v4prefix", "v6prefix", "mixed"]}
BASE_PLAN = "v4"


def plan_suffix(plan):
    """violation keys of the base plan (plain IPv4) carry no suffix (the keys of known_findings.d/C36-check-then-act.json);
    an overshoot observed with another textual form of the remote addresses names that form"""
    return "" if plan == BASE_PLAN else "@" + plan


# violation keys: <entry point>:<limit>:<cause>
KIND_KEY = {"in": "AcceptConnect:inbound-limit", "ip": "AcceptConnect:per-ip-limit", "out": "Connect:outbound-limit"}
RACE_KEYS = [k + ":stale-check" for k in KIND_KEY.values()]


def cfg_text(conns, max_in, max_ip, max_out, check_then_act, split, invariants, export, snap=True, plans="PlansBase"):
    t = """SPECIFICATION Spec
CONSTANTS
  Conns <- %s
  Dir <- DirM
  IpOf <- IpM
  PortOf <- PortM
  LPortOf <- LPortM
  KidOf <- KidM
  Plans <- %s
  PlanTab <- PlanM
  ListenAsCoded = TRUE
  MaxIn = %d
  MaxPerIp = %d
  MaxOut = %d
  CheckThenAct = %s
  SplitCheck = %s
  TrackSnap = %s
VIEW view
CHECK_DEADLOCK FALSE
INVARIANTS %s
""" % (conns, plans, max_in, max_ip, max_out, "TRUE" if check_then_act else "FALSE", "TRUE" if split else "FALSE",
       "TRUE" if snap else "FALSE", " ".join(invariants))
    if export:
        t += "CONSTRAINT InitOut\nACTION_CONSTRAINT Edge\n"
    return t


def tlc(ctx, name, conns, lim, check_then_act, split, invariants, export, workers=None, timeout=1500, snap=None, plans="PlansBase"):
    if snap is None:
        # ghost snapshots refine the replayed (coarse) graphs; the 7-connection universe stays at plain state identity
        snap = export and conns != "ConnsT"
    cfg = "ConnCtrl_gen_%s.cfg" % name
    r = ctx.tlc("ConnCtrl_MC", cfg=cfg, workers=1 if export else workers, timeout=timeout,
                files={cfg: cfg_text(conns, lim[0], lim[1], lim[2], check_then_act, split, invariants, export, snap, plans)})
    ctx.log("TLC %s (%s %s in=%d ip=%d out=%d cta=%s split=%s): %s, %d generated, %d distinct, depth %d, %.1fs" % (
        name, conns, plans, lim[0], lim[1], lim[2], check_then_act, split, r.status if not r.violated else "violated " + r.violated,
        r.generated, r.distinct, r.depth, r.wall))
    return r


class Prefetch:
    """the TLC runs of a check are independent of each other and of the go build: they are started ahead in a small
    thread pool (each is a JVM subprocess) and consumed in order"""

    def __init__(self, ctx, max_workers):
        from concurrent.futures import ThreadPoolExecutor
        self.ctx = ctx
        self.pool = ThreadPoolExecutor(max_workers=max_workers)
        self.futs = {}

    def submit(self, name, *args, **kw):
        self.futs[name] = self.pool.submit(tlc, self.ctx, name, *args, **kw)

    def get(self, name):
        return self.futs.pop(name).result()


def norm_state(s):
    return {"plan": s.get("plan", BASE_PLAN), "pc": s["pc"], "inb": sorted(s["inb"]), "outb": sorted(s["outb"]), "lsn": sorted(s["lsn"]),
            "cing": sorted(s["cing"]), "peers": s["peers"], "snap": s.get("snap", {})}


def limits_of_model_state(s, lim):
    """which limits the established connections of a model state exceed"""
    est = [c for c, p in s["pc"].items() if p == "saved"]
    bad = []
    if sum(1 for c in est if DIR[c] == "in") > lim[0]:
        bad.append("in")
    for ip in set(IP.values()):
        if sum(1 for c in est if DIR[c] == "in" and IP[c] == ip) > lim[1]:
            bad.append("ip")
            break
    if sum(1 for c in est if DIR[c] == "out") > lim[2]:
        bad.append("out")
    return bad


def shortest_witnesses(edges, inits, lim):
    """BFS over the exported graph: for each limit kind the shortest schedule that reaches an overshoot in the model."""
    adj = {}
    for e in edges:
        adj.setdefault(vf.canon(e["from"]), []).append(e)
    prev = {}
    q = []
    root = {}
    for s0 in inits:     # one initial state per address plan
        k = vf.canon(s0)
        prev[k] = None
        root[k] = s0
        q.append(k)
    found = {}
    qi = 0
    while qi < len(q):
        u = q[qi]
        qi += 1
        for e in adj.get(u, ()):
            v = vf.canon(e["to"])
            if v in prev:
                continue
            prev[v] = (u, e)
            for kind in limits_of_model_state(e["to"], lim):
                if kind not in found:
                    steps = []
                    x = v
                    while prev[x] is not None:
                        x, ee = prev[x]
                        steps.append({"act": ee["act"], "to": ee["to"]})
                    steps.reverse()
                    found[kind] = {"init": root[x], "steps": steps}
            q.append(v)
    return found


def plan_tables(notes, conns):
    """the texts the model computed for every connection attempt, per address plan (NOTE prints of the initial states)"""
    tabs = {}
    for n in notes:
        if isinstance(n, dict) and "plan" in n and "conns" in n:
            tabs[n["plan"]] = {c: dict(n["conns"][c], dir=DIR[c], kid=KID[c]) for c in conns}
    return tabs


def path_plan(p):
    return p["init"].get("plan", BASE_PLAN)


def replay(ctx, binary, conns, lim, paths, tag, tabs):
    # every attempt gets the remote address text / dial address / announced listen port of the path's address plan
    inp = {"plans": tabs, "pathPlan": [path_plan(p) for p in paths],
           "maxIn": lim[0], "maxPerIp": lim[1], "maxOut": lim[2],
           "paths": [[{"name": s["act"]["name"], "c": s["act"]["c"], "res": s["act"]["res"]} for s in p["steps"]] for p in paths]}
    fin = os.path.join(ctx.scratch, "replay-%s.in.json" % tag)
    fout = os.path.join(ctx.scratch, "replay-%s.out.ndjson" % tag)
    vf.write_json(fin, inp)
    rc, out = ctx.run_bin(binary, "TestVerifConnReplay", env={"VERIF_IN": fin, "VERIF_OUT": fout}, timeout=3000)
    if rc != 0:
        ctx.infra("replay harness failed rc=%s" % rc)
        return None
    return vf.read_ndjson(fout)


def schedule(path, upto):
    return [{"name": s["act"]["name"], "c": s["act"]["c"]} for s in path["steps"][:upto]]


def sched_text(path, upto):
    return " ".join("%s(%s)" % (s["act"]["name"], s["act"]["c"]) for s in path["steps"][:upto])


def classify(path, si, kind, probe_conn=None):
    """cause of an overshoot observed after step si (1-based) of the path: 'stale-check' iff the connection saved by
    this step passed its check before another connection of the same class was inserted (check-then-act)."""
    steps = path["steps"]
    if probe_conn is not None:
        return "check-admits-beyond-limit"
    a = steps[si - 1]["act"]
    if a["name"] != "Save":
        return "no-insert:" + a["name"]
    c = a["c"]
    j = None
    for k in range(si - 1):
        b = steps[k]["act"]
        if b["c"] == c and b["name"] in ("Check",):
            j = k
    if j is None:
        return "no-check"
    for k in range(j + 1, si - 1):
        b = steps[k]["act"]
        if b["name"] == "Save" and b["res"] == "saved" and DIR[b["c"]] == DIR[c] and (kind != "ip" or IP[b["c"]] == IP[c]):
            return "stale-check"
    return "check-admits-beyond-limit"


def judge(ctx, paths, obs, lim, conns, stats, tabs):
    """property oracle on the REAL counts + conformance with the model after every step"""
    by_path = {}
    for o in obs:
        by_path.setdefault(o["path"], []).append(o)
    drift = 0
    for pi, p in enumerate(paths):
        rec = by_path.get(pi, [])
        plan = path_plan(p)
        tab = tabs[plan]
        stats["paths_by_plan"][plan] = stats["paths_by_plan"].get(plan, 0) + 1
        if not rec:
            ctx.infra("path %d was not executed" % pi)
            continue
        done_steps = 0
        diverged = False
        prevc = {}
        extra = []
        for o in rec:
            if diverged and not o.get("probe"):
                break
            if o.get("infra"):
                ctx.infra("harness: path %d step %d: %s [%s]" % (pi, o["step"], o["infra"], sched_text(p, max(o["step"], 0))))
                break
            si = o["step"]
            stats["steps"] += 1
            # ---- the property, on what the real controller reports (reported at the step that raises a count above its limit)
            over = []
            cur = {"in": max(o["inCount"], o["openIn"]), "out": max(o["outCount"], o["openOut"])}
            for ip, n in o["perIp"].items():
                cur["ip:" + ip] = n
            for k, n in cur.items():
                limit = lim[0] if k == "in" else lim[2] if k == "out" else lim[1]
                if n > limit and n > prevc.get(k, 0):
                    if k == "in":
                        over.append(("in", {"inbound_count": o["inCount"], "accepted_open": o["openIn"], "limit": limit}))
                    elif k == "out":
                        over.append(("out", {"outbound_count": o["outCount"], "connected_open": o["openOut"], "limit": limit}))
                    else:
                        over.append(("ip", {"ip": k[3:], "inbound_from_ip": n, "limit": limit}))
            prevc = cur
            if o.get("probe"):
                extra.append(o["tail"] if o.get("tail") else "Save(%s)" % p["steps"][si - 1]["act"]["c"])
            for kind, d in over:
                cause = classify(p, si, kind, probe_conn=p["steps"][si - 1]["act"]["c"] if o.get("probe") else None)
                if o.get("tail"):
                    # live connections above the limit after the real controller admitted an attempt the model refuses
                    # (e.g. a reconnect from a still recorded remote address: the record then under-counts)
                    cause = "after-admitting-%s-attempt" % p["steps"][si - 1]["act"]["res"]
                key = KIND_KEY[kind] + ":" + cause + plan_suffix(plan)
                d["address_plan"] = plan
                d["schedule"] = sched_text(p, si) + "".join(" +" + x for x in extra)
                stats["overshoots"][key] = stats["overshoots"].get(key, 0) + 1
                sch = schedule(p, si)
                for x in extra:
                    sch.append({"name": x.split("(")[0], "c": x.split("(")[1].rstrip(")")})
                ctx.violation(key, d, {"limits": {"maxIn": lim[0], "maxPerIp": lim[1], "maxOut": lim[2]}, "address_plan": plan,
                                       "conns": {c: {"dir": DIR[c], "ip": tab[c]["ip"], "addr": tab[c]["addr"], "kid": KID[c]} for c in conns},
                                       "schedule": sch})
            if o.get("probe"):
                continue
            if si == 0:
                continue
            done_steps = si
            st = p["steps"][si - 1]
            # ---- conformance (a difference that is not an overshoot is model drift, never a verdict)
            to = norm_state(st["to"])
            real = {"inb": sorted(o["inb"]), "outb": sorted(o["outb"]), "lsn": sorted(o["lsn"]), "cing": sorted(o["cing"])}
            diff = None
            res = o["res"]
            if st["act"]["res"] == "rej-limit" and st["act"]["name"] == "Save" and res in ("rej-full", "rej-ip"):
                res = "rej-limit"   # intended design: Save re-tests the limits; any of the two limit errors is that refusal
            if res != st["act"]["res"]:
                diff = ("result", o["res"], st["act"]["res"])
            else:
                for f in ("inb", "outb", "lsn", "cing"):
                    if real[f] != to[f]:
                        diff = (f, real[f], to[f])
                        break
                if diff is None:
                    mp = {k: (tab[c]["addr"] if c != "none" else None) for k, c in to["peers"].items()}
                    rp = {k: o["peers"].get(k) for k in mp}
                    if mp != rp:
                        diff = ("peers", rp, mp)
            if diff:
                drift += 1
                if drift <= 5:
                    ctx.infra("MODEL-DRIFT: after %s the real controller has %s=%s, the model %s  (%s)" % (
                        sched_text(p, si), diff[0], diff[1], diff[2], o.get("err", "")))
                diverged = True
                continue
            if o.get("fatal"):
                stats["fatal_logs"] += 1
        else:
            if not diverged and done_steps != len(p["steps"]):
                ctx.infra("path %d: %d of %d steps executed" % (pi, done_steps, len(p["steps"])))
    if drift > 5:
        ctx.infra("MODEL-DRIFT: %d paths diverged from the model" % drift)
    return drift
