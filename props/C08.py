"""C08 — EVM snapshot revert restores exactly the observable state (spec/EvmStateDB.tla)."""
import json
import os
import vf

OBS_KEYS = ["slot", "nonce", "code", "bal", "suicided", "exist", "empty", "logs", "refund"]
ACTS = ["SetState", "SetNonce", "SetCode", "AddBalance", "SubBalance", "AddLog", "AddRefund", "SubRefund",
        "Suicide", "Snapshot", "Revert", "Discard", "Commit"]


def run(ctx):
    cfg = "EvmStateDB_C08t.cfg" if ctx.thorough else "EvmStateDB_C08.cfg"
    r = ctx.tlc("EvmStateDB_MC", cfg=cfg, workers=1, timeout=2400)
    binary = ctx.go_test_bin("smartcontract/service/native/ong", harness="c08_statedb")
    paths, nsteps, ntr, nev, nrevert = [], 0, 0, 0, 0
    if r.status != "ok":
        ctx.infra("TLC did not verify %s: %s %s" % (cfg, r.status, r.errors[:2]))
    elif binary:
        edges, inits = r.prints.get("EDGE", []), r.prints.get("INIT", [])
        names = {e["act"]["name"] for e in edges}
        miss = [a for a in ACTS if a not in names]
        if miss:
            ctx.infra("vacuous model run: actions never taken: %s" % miss)
        ctx.log("TLC: %d generated, %d distinct, depth %d, %d edges, %.1fs" % (r.generated, r.distinct, r.depth, len(edges), r.wall))
        paths, ncov = ctx.cover(edges, inits, max_len=60)
        ctx.log("cover: %d paths, %d steps, %d/%d edges" % (len(paths), sum(len(p["steps"]) for p in paths), ncov, len(edges)))
        inp = {"addrs": sorted(inits[0]["obs"]["nonce"].keys()), "slots": sorted(next(iter(inits[0]["obs"]["slot"].values())).keys()),
               "codes": ["c1", "c2"],
               "paths": [{"base": p["init"]["base"], "steps": [s["act"] for s in p["steps"]]} for p in paths]}
        fin, fout = os.path.join(ctx.scratch, "replay.in.json"), os.path.join(ctx.scratch, "replay.out.ndjson")
        vf.write_json(fin, inp)
        rc, out = ctx.run_bin(binary, "TestVerifSdReplay", env={"VERIF_IN": fin, "VERIF_OUT": fout}, timeout=2400)
        if rc != 0:
            ctx.infra("replay harness failed rc=%s" % rc)
        else:
            for o in vf.read_ndjson(fout):
                p = paths[o["path"]]
                if o["step"] == 0:
                    act, to = {"name": "Init"}, p["init"]
                else:
                    act, to = p["steps"][o["step"] - 1]["act"], p["steps"][o["step"] - 1]["to"]
                nsteps += 1
                rp = {"base": p["init"]["base"], "steps": [s["act"] for s in p["steps"][:o["step"]]]}
                if o["res"] == "panic" or o.get("err"):
                    ctx.violation("%s:panic-or-dberr" % act["name"], {"res": o["res"], "err": o.get("err")}, rp)
                    continue
                if act["name"] == "Revert":
                    nrevert += 1
                for k in OBS_KEYS:
                    if o[k] != to["obs"][k]:
                        ctx.violation("%s:getter-%s" % (act["name"], k), {"real": o[k], "model": to["obs"][k]}, rp)
                        break
        # code -> spec
        ntr, nst = (80, 400) if ctx.thorough else (15, 200)
        tin = {"addrs": ["a1", "a2", "a3"], "slots": ["s1", "s2", "s3"], "codes": ["c1", "c2", "c3"], "paths": [],
               "ntraces": ntr, "nsteps": nst, "maxval": 300, "maxbal": 40}
        fin, tp = os.path.join(ctx.scratch, "trace.in.json"), os.path.join(ctx.scratch, "trace.ndjson")
        vf.write_json(fin, tin)
        rc, out = ctx.run_bin(binary, "TestVerifSdTrace", env={"VERIF_IN": fin, "VERIF_OUT": tp}, timeout=1800)
        if rc != 0:
            ctx.infra("trace driver failed rc=%s" % rc)
        else:
            v = ctx.trace_validate("EvmStateDB_Trace", tp, timeout=1800)
            nev = v["total"]
            ctx.log("trace validation: %d/%d events matched (%s)" % (v["matched"], v["total"], v["result"].status))
            evs = vf.read_ndjson(tp)
            counts = {}
            for e in evs:
                counts[e["event"]] = counts.get(e["event"], 0) + 1
            ctx.extra["counts"] = counts
            if not v["accepted"]:
                rr = v["result"]
                if rr.status == "violation":
                    ctx.violation("trace:property-%s" % rr.violated, {"matched": v["matched"]}, {"trace_prefix": evs[: v["matched"] + 1][-40:]})
                elif v["matched"] >= 2 and v["matched"] < len(evs):
                    bad = evs[v["matched"]]
                    ctx.violation("trace:%s" % bad["event"], {"unexplained_event_index": v["matched"] + 1, "event": bad},
                                  {"trace_prefix": evs[: v["matched"] + 1][-60:]})
                else:
                    ctx.infra("trace validation failed to run: %s" % rr.errors[:3])
            else:
                # binding self-test: corrupt one getter value after a Revert / drop a Snapshot event
                idx = next(i for i, e in enumerate(evs) if e["event"] == "Revert" and i > 5)
                bad1 = json.loads(json.dumps(evs))
                bad1[idx]["obs"]["refund"] += 1
                idx2 = next(i for i, e in enumerate(evs) if e["event"] == "Snapshot" and i > 5)
                bad2 = evs[:idx2] + evs[idx2 + 1:]
                for name, t in (("corrupt", bad1), ("drop", bad2)):
                    pth = os.path.join(ctx.scratch, "selftest-%s.ndjson" % name)
                    with open(pth, "w") as f:
                        for e in t:
                            f.write(json.dumps(e) + "\n")
                    if ctx.trace_validate("EvmStateDB_Trace", pth, timeout=1800)["accepted"]:
                        ctx.infra("binding self-test: %s trace accepted" % name)
            ctx.samples.append({"trace_event": {k: evs[6][k] for k in evs[6] if k != "obs"}})
    if paths:
        ctx.samples.append({"replayed_path": [s["act"] for s in paths[len(paths) // 3]["steps"][:10]]})
    ctx.finish("model_checking", {
        "states": ctx.stats["states"], "transitions": ctx.stats["transitions"],
        "traces_validated_against_impl": len(paths) + ntr, "replayed_steps": nsteps, "replayed_reverts": nrevert,
        "trace_events": nev, "trace_event_counts": ctx.extra.get("counts"), "exhaustive": True,
    }, ["real OngBalanceHandle over an in-memory LevelDB", "SubBalance is only driven within the balance (the EVM checks CanTransfer first)"])
