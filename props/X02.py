"""X02 — system specification of the transaction pool SERVER PIPELINE (spec/TxPipe.tla; additional coverage, not one of
the 45 listed properties).

 * MC: TLC checks on spec/TxPipe.tla  (a) PoolSound / GetTxPoolOK, (b) Unique / DupAnswered, (c) LimitsCoded (PoolCapStrict,
       PendLimStrict, SlotsExact on the design variant), (d) BlockSavedOK, (e) ReplyOnce / NoOrphan, (f) VerifyBlockCoded
       (VerifyBlockOK on the design variant).  The as-coded variant has the named deviations of the code switched on; for
       every deviation TLC must find a behaviour of the as-coded model that violates the strict property (witness).
 * RP: every transition of the complete graph of the small configurations, the witnesses and (thorough) random walks over
       a larger configuration are replayed as behaviours from the initial state on the REAL TXPoolServer (real solo ledger,
       real signed ONG transfers, real validator pools; the harness stands for the server's response loop so that the
       delivery order is the model's); projected state, replies and answers are compared after each action.
 * TV: concurrent random submissions against the RUNNING server; the recorded events are validated against TxPipe_Trace.
 * Oracle: (a)-(f) evaluated on the REAL observations against the path's own ground truth (props/_txpipe.Oracle); any
       other difference from the model is MODEL-DRIFT (exit 2).
"""
from concurrent.futures import ThreadPoolExecutor

import _txpipe as tp
import vf


def run(ctx):
    stats = {}
    counts = {"paths": 0, "steps": 0}
    sizes = {}
    sw = tp.switches(ctx)
    coded = [n for n in tp.DEVIATIONS if sw[n]]
    ctx.log("deviation switches: %s" % sw)
    runs = [("S", True), ("N", False)]
    if ctx.thorough:
        runs += [("M", True)]
    ex = ThreadPoolExecutor(7)
    keys = {(tp.SIZES[z]["Cap"], tp.SIZES[z]["Lim"]) for z, _ in runs} | {(tp.SIZES[tp.DEVIATIONS[n][1]]["Cap"], tp.SIZES[tp.DEVIATIONS[n][1]]["Lim"]) for n in coded}
    if ctx.thorough:
        keys.add((tp.SIZES["T"]["Cap"], tp.SIZES["T"]["Lim"]))
    builds = {key: ex.submit(tp.build, ctx, key[0], key[1], "x02_%d_%d" % key) for key in sorted(keys)}

    def mc(size, preexec):
        tag = "%s-%s" % (size, "preexec" if preexec else "nopreexec")
        cfg = "TxPipe_gen_%s.cfg" % tag
        text, k = tp.cfg_text(size, sw, preexec=preexec)
        r = ctx.tlc("TxPipe_MC", cfg=cfg, workers=1, files={cfg: text}, timeout=2400)
        return tag, k, r

    def design(size):
        cfg = "TxPipe_design_%s.cfg" % size
        text, k = tp.cfg_text(size, tp.DESIGN, preexec=True, export=None,
                              invariants=["TypeOK", "PoolSound", "Unique", "NoOrphan", "PoolCapStrict", "PendLimStrict", "SlotsExact"],
                              properties=["GetTxPoolOK", "DupAnswered", "BlockSavedOK", "ReplyOnce", "VerifyBlockOK"])
        return ctx.tlc("TxPipe_MC", cfg=cfg, workers=4 if ctx.thorough else 2, files={cfg: text}, timeout=2400)

    jobs = [ex.submit(mc, z, pe) for z, pe in runs]
    wjobs = {n: ex.submit(tp.witness, ctx, n, sw) for n in coded}
    # the design variant (all deviations off): TLC proves the strict properties; S in the quick tier, Q in the thorough one
    dsize = "Q" if ctx.thorough else "S"
    djob = ex.submit(design, dsize)

    import threading
    jlock = threading.Lock()

    def replay_and_judge(tag, k, preexec, paths, procs):
        binary = builds[(k["Cap"], k["Lim"])].result()
        if not binary or not paths:
            return
        obs = tp.replay(ctx, binary, k, preexec, paths, tag, procs=procs)
        if obs is None:
            return
        with jlock:
            counts["steps"] += tp.judge(ctx, paths, obs, k, tag, stats)
            counts["paths"] += len(paths)

    def cover_run(size, preexec, job):
        tag, k, r = job.result()
        ctx.log("TLC %s: %s, %d generated, %d distinct, depth %d, %.1fs" % (tag, r.status if not r.violated else "violated " + r.violated,
                                                                          r.generated, r.distinct, r.depth, r.wall))
        if r.status != "ok":
            ctx.infra("TLC did not verify %s: status=%s violated=%s %s" % (tag, r.status, r.violated, r.errors[:2]))
            return
        edges, inits = tp.collect(r)
        names = {e["act"]["name"] for e in edges}
        missing = [a for a in tp.ACTIONS if a not in names]
        if missing:
            ctx.infra("vacuous model run %s: actions never taken: %s" % (tag, missing))
        paths, ncov, ne = tp.cover(edges, inits, max_len=200)
        ctx.log("cover %s: %d edges, %d covered, %d paths, %d steps" % (tag, ne, ncov, len(paths), sum(len(p["steps"]) for p in paths)))
        if ncov != ne:
            ctx.infra("cover %s: %d of %d edges are not reachable from the initial state" % (tag, ne - ncov, ne))
        sizes[tag] = {"states": r.distinct, "transitions": r.generated, "edges": ncov, "paths": len(paths)}
        replay_and_judge(tag, k, preexec, paths, 5 if len(paths) > 800 else 3)
        if paths:
            ctx.samples.append({"config": tag, "replayed_path": [tp.go_act(s["act"]) for s in paths[len(paths) // 2]["steps"][:10]]})

    # the deviations: the as-coded model violates the strict property (TLC), and the REAL code follows that behaviour
    def witness_run(n):
        path, k, r = wjobs[n].result()
        if path is None:
            return
        ctx.log("witness %s: as-coded model violates %s after %d steps (%d states, %.1fs)" % (n, tp.DEVIATIONS[n][3], len(path["steps"]), r.distinct, r.wall))
        nv = len(ctx.violations)
        replay_and_judge("witness-" + n, k, True, [path], 1)
        ctx.samples.append({"witness": n, "strict_property": tp.DEVIATIONS[n][3], "behaviour": [tp.go_act(s["act"]) for s in path["steps"]]})
        if len(ctx.violations) == nv and not ctx.infra_errors and tp.DEVIATIONS[n][0] not in [kk for kk, _ in ctx.known_hits]:
            ctx.infra("witness %s: the real code followed the as-coded behaviour but the oracle saw no %s" % (n, tp.DEVIATIONS[n][0]))

    # thorough: random walks (and all their one-step deviations) over the larger configuration T, replayed as well;
    # the complete graph of the middle configuration Q is model-checked (not replayed)
    def sim_run():
        cfg = "TxPipe_sim_T.cfg"
        text, k = tp.cfg_text("T", sw, preexec=True)
        num, depth = 60, 30
        r = ctx.tlc("TxPipe_MC", cfg=cfg, workers=1, files={cfg: text}, timeout=1500, simulate="num=%d" % num, depth=depth)
        if r.status != "ok":
            ctx.infra("TLC simulation T: status=%s violated=%s %s" % (r.status, r.violated, r.errors[:2]))
            return
        edges, inits = tp.collect(r)
        if not inits:
            inits = [tp.init_state(k)]
        paths, ncov, ne = tp.cover(edges, inits, max_len=200)
        ctx.log("simulation T: %d walks of depth <= %d, %d distinct edges (walks + one-step deviations), %d covered, %d paths, %d steps, %.1fs" % (
            num, depth, ne, ncov, len(paths), sum(len(p["steps"]) for p in paths), r.wall))
        if ncov != ne:
            ctx.infra("simulation T: %d of %d exported edges are not reachable from the initial state" % (ne - ncov, ne))
        ctx.stats["transitions"] += ne
        sizes["sim-T"] = {"walks": num, "depth": depth, "edges": ne, "paths": len(paths)}
        replay_and_judge("sim-T", k, True, paths, 5)

    def full_run(size):
        cfg = "TxPipe_full_%s.cfg" % size
        text, k = tp.cfg_text(size, sw, preexec=True, export=None)
        r = ctx.tlc("TxPipe_MC", cfg=cfg, workers=6, files={cfg: text}, timeout=2400)
        ctx.log("TLC %s as coded, complete graph (not replayed): %s, %d generated, %d distinct, depth %d, %.1fs" % (
            size, r.status if not r.violated else "violated " + r.violated, r.generated, r.distinct, r.depth, r.wall))
        if r.status != "ok":
            ctx.infra("TLC did not verify the complete %s graph: status=%s violated=%s %s" % (size, r.status, r.violated, r.errors[:2]))
        sizes["full-" + size] = {"states": r.distinct, "transitions": r.generated}

    # TV: concurrent submissions against the running server, the log validated against TxPipe_Trace
    tv = {}

    def trace_job():
        k = dict(tp.SIZES["S"])
        binary = builds[(k["Cap"], k["Lim"])].result()
        if not binary:
            return
        ntr = 24 if ctx.thorough else 6
        path, ev = tp.trace_run(ctx, binary, k, sw, ntr, 3, 3, 10, "conc")
        if path is None:
            return
        with jlock:
            tv.update(tp.trace_oracle(ctx, ev, k, sw))
        # binding self-test on the first traces only (each TLC start costs as much as a small log)
        resets = [i for i, e in enumerate(ev) if e.get("e") == "Reset"]
        cut = resets[3] if len(resets) > 3 else len(ev)
        st = ex.submit(tp.trace_self_test, ctx, path, ev[:cut], ctx.thorough)
        v = tp.trace_check(ctx, path, ev)
        r = v["result"]
        ctx.log("trace validation: %d traces, %d events, %d explained, TLC %s (%d states, %.1fs)" % (
            tv.get("traces", 0), v["total"], v["matched"], r.status, r.distinct, r.wall))
        tv["explained"] = v["matched"]
        tv["self_tests_rejected"] = st.result()
        if ev:
            ctx.samples.append({"trace_events": [{a: b for a, b in e.items() if b not in ([], "", False, 0) or a == "e"} for e in ev[2:14]]})

    ex2 = ThreadPoolExecutor(8)
    later = [ex2.submit(cover_run, z, pe, job) for (z, pe), job in zip(runs, jobs)] + [ex2.submit(witness_run, n) for n in coded]
    later.append(ex2.submit(trace_job))
    for f in later:
        f.result()
    if ctx.thorough:
        for f in [ex2.submit(sim_run), ex2.submit(full_run, "Q")]:
            f.result()
    r = djob.result()
    ctx.log("TLC design variant %s (all deviations off, strict properties): %s, %d generated, %d distinct, %.1fs" % (
        dsize, r.status if not r.violated else "violated " + r.violated, r.generated, r.distinct, r.wall))
    if r.status != "ok":
        ctx.infra("design variant: TLC status=%s violated=%s %s" % (r.status, r.violated, r.errors[:2]))
    sizes["design-" + dsize] = {"states": r.distinct, "transitions": r.generated}

    ctx.finish("model_checking", {
        "states": ctx.stats["states"], "transitions": ctx.stats["transitions"],
        "traces_validated_against_impl": counts["paths"] + tv.get("traces", 0),
        "concurrent_traces": tv,
        "replayed_steps": counts["steps"], "steps_per_action": stats, "configs": sizes,
        "deviation_switches": sw,
    }, ["MAX_CAPACITY / MAX_LIMITATION are compile-time constants: the harness binary is built with the model's small values (go -overlay of a generated copy of txnpool_common.go)",
        "EIP-155 transactions, gas price update every 100 blocks and broadcast are not modelled"])
