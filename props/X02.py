"""X02 — system specification of the transaction pool SERVER PIPELINE (spec/TxPipe.tla; additional coverage, not one of
the 45 listed properties).

 * MC: TLC checks on spec/TxPipe.tla  (a) PoolSound / GetTxPoolOK, (b) Unique / DupAnswered, (c) LimitsCoded (and
       LimitsStrict on the design variant), (d) BlockSavedOK, (e) ReplyOnce / NoOrphan, (f) VerifyBlockCoded (VerifyBlockOK on
       the design variant); the as-coded variant switches the named deviations of the code on.
 * RP: every transition of the complete graph of the small configurations (and, thorough, of random walks over a larger
       one) is replayed as part of a behaviour from the initial state on the REAL TXPoolServer (real solo ledger, real signed
       ONG transfers, real validator pools; the harness stands for the server's response loop so that the delivery order
       is the model's) and the projected state / replies / answers are compared after each action.
 * TV: concurrent random submissions against the RUNNING server; the recorded events are validated against TxPipe_Trace.
 * Oracle: (a)-(f) evaluated on the REAL observations against the path's own ground truth (props/_txpipe.Oracle); any
       other difference from the model is MODEL-DRIFT (exit 2).
"""
import _txpipe as tp
import vf


def run(ctx):
    stats = {}
    npaths = nsteps = 0
    sizes = {}
    binaries = {}
    runs = [("S", True), ("S", False)]
    if ctx.thorough:
        runs += [("Q", True)]
    for size, preexec in runs:
        tag = "%s-%s" % (size, "preexec" if preexec else "nopreexec")
        cfg = "TxPipe_gen_%s.cfg" % tag
        text, k = tp.cfg_text(size, tp.CODED, preexec=preexec)
        r = ctx.tlc("TxPipe_MC", cfg=cfg, workers=1, files={cfg: text}, timeout=2400)
        ctx.log("TLC %s: %s, %d generated, %d distinct, depth %d, %.1fs" % (tag, r.status if not r.violated else "violated " + r.violated,
                                                                          r.generated, r.distinct, r.depth, r.wall))
        if r.status != "ok":
            ctx.infra("TLC did not verify %s: status=%s violated=%s %s" % (tag, r.status, r.violated, r.errors[:2]))
            continue
        edges, inits = tp.collect(r)
        names = {e["act"]["name"] for e in edges}
        missing = [a for a in tp.ACTIONS if a not in names]
        if missing:
            ctx.infra("vacuous model run %s: actions never taken: %s" % (tag, missing))
        paths, ncov, reach = vf.fast_cover(edges, inits, max_len=60)
        ctx.log("cover %s: %d edges, %d covered, %d paths, %d steps" % (tag, len(edges), ncov, len(paths), sum(len(p["steps"]) for p in paths)))
        sizes[tag] = {"states": r.distinct, "transitions": r.generated, "edges": ncov, "paths": len(paths)}
        key = (k["Cap"], k["Lim"])
        if key not in binaries:
            binaries[key] = tp.build(ctx, k["Cap"], k["Lim"], name="x02_%d_%d" % key)
        if not binaries[key]:
            continue
        obs = tp.replay(ctx, binaries[key], k, preexec, paths, tag)
        if obs is None:
            continue
        nsteps += tp.judge(ctx, paths, obs, k, tag, stats)
        npaths += len(paths)
        if paths:
            ctx.samples.append({"config": tag, "replayed_path": [tp.go_act(s["act"]) for s in paths[len(paths) // 2]["steps"][:10]]})
    ctx.finish("model_checking", {
        "states": ctx.stats["states"], "transitions": ctx.stats["transitions"],
        "traces_validated_against_impl": npaths,
        "replayed_steps": nsteps, "steps_per_action": stats, "configs": sizes,
    }, ["MAX_CAPACITY / MAX_LIMITATION are compile-time constants: the harness binary is built with the model's small values (go -overlay of a generated copy of txnpool_common.go)",
        "EIP-155 transactions, gas price update every 100 blocks and broadcast are not modelled"])
