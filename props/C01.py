"""C01 — the ledger recovers from a crash at any commit point to a state identical to an uncrashed run
(spec/LedgerCommit.tla; real LedgerStoreImp with the `verif` build-tag hook)."""
import os
import vf

PROJ = [("blk", "blk"), ("evt", "evt"), ("stcur", ("st", "cur")), ("sttree", ("st", "tree")),
        ("memcur", ("mem", "cur")), ("memtree", ("mem", "tree"))]


def model_applied(to, maxh):
    cnt = [0] * maxh
    for b in to["st"]["applied"]:
        if b >= 1:
            cnt[b - 1] += 1
    return cnt


def key_for(act, field):
    # structural key: which model step, at which crash point, which field disagrees
    return "%s:%s" % (act["name"], field)


def run(ctx):
    maxh, cfg = (5, "LedgerCommit_C01t.cfg") if ctx.thorough else (3, "LedgerCommit_C01.cfg")
    r = ctx.tlc("LedgerCommit_MC", cfg=cfg, workers=1, coverage=ctx.thorough)
    paths, nsteps, ncrash, nfinal = [], 0, 0, 0
    if r.status != "ok":
        ctx.infra("TLC did not verify %s: %s %s %s" % (cfg, r.status, r.violated, r.errors[:2]))
    else:
        edges, inits = r.prints.get("EDGE", []), r.prints.get("INIT", [])
        names = {e["act"]["name"] for e in edges}
        need = ["SubmitBegin", "CommitBlk", "CommitEvt", "CommitSt", "SetCurrent", "Crash", "Reopen", "RecStage", "RecEvt", "RecSt", "RecDone"]
        miss = [a for a in need if a not in names]
        if miss:
            ctx.infra("vacuous model run: actions never taken: %s" % miss)
        crash_points = sorted({e["act"]["at"] for e in edges if e["act"]["name"] == "Crash"})
        ctx.log("TLC %s: %d generated, %d distinct, depth %d, %d edges; crash points %s" % (cfg, r.generated, r.distinct, r.depth, len(edges), crash_points))
        # the deviation switch documents the defect class the replay would reproduce
        rd = ctx.tlc("LedgerCommit_MC", cfg="LedgerCommit_C01dev.cfg", workers=1)
        if rd.status != "violation":
            ctx.infra("deviation model (RecoverOff=1) unexpectedly satisfies the properties: spec properties are too weak")
        paths, ncov = ctx.cover(edges, inits, max_len=80)
        ctx.log("cover: %d paths, %d steps, %d/%d edges" % (len(paths), sum(len(p["steps"]) for p in paths), ncov, len(edges)))
        binary = ctx.go_test_bin("core/store/ledgerstore", harness="c01_ledger", tags=("verif",), hide_own_tests=True)
        if binary:
            fin, fout = os.path.join(ctx.scratch, "replay.in.json"), os.path.join(ctx.scratch, "replay.out.ndjson")
            vf.write_json(fin, {"maxh": maxh, "paths": [[s["act"] for s in p["steps"]] for p in paths]})
            rc, out = ctx.run_bin(binary, "TestVerifLcReplay", env={"VERIF_IN": fin, "VERIF_OUT": fout}, timeout=3000)
            if rc != 0:
                ctx.infra("replay harness failed rc=%s" % rc)
            else:
                finals = set()
                for o in vf.read_ndjson(fout):
                    p = paths[o["path"]]
                    steps = p["steps"]
                    rp = {"maxh": maxh, "path": [s["act"] for s in steps[:max(o["step"], 1)]] if o["name"] != "Final" else [s["act"] for s in steps]}
                    crashes = [s["act"]["at"] for s in steps[:o["step"]] if s["act"]["name"] == "Crash"]
                    ctxkey = "crash@" + "+".join(crashes) if crashes else "nocrash"
                    if o["name"] == "Init":
                        continue
                    if o["name"] == "Final":
                        nfinal += 1
                        finals.add(o["path"])
                        if not o["ok"]:
                            ctx.violation("Final:%s" % ctxkey, o.get("err"), rp)
                        continue
                    if o["name"] in ("ReopenError", "AddBlockResult"):
                        ctx.violation("%s:%s" % (o["name"], ctxkey), o.get("err"), rp)
                        continue
                    act, to = steps[o["step"] - 1]["act"], steps[o["step"] - 1]["to"]
                    nsteps += 1
                    if act["name"] == "Crash":
                        ncrash += 1
                        continue
                    if o.get("err"):
                        ctx.violation("%s:error:%s" % (act["name"], ctxkey), o["err"], rp)
                        continue
                    if act["name"] == "Reopen":
                        if o["ok"] != act["ok"]:
                            ctx.violation("Reopen:outcome:%s" % ctxkey, {"real_ok": o["ok"], "model_ok": act["ok"]}, rp)
                        continue
                    bad = None
                    for f, path in PROJ:
                        mv = to[path] if isinstance(path, str) else to[path[0]][path[1]]
                        if o[f] != mv:
                            bad = (f, {"real": o[f], "model": mv})
                            break
                    if bad is None and o["applied"] != model_applied(to, maxh):
                        bad = ("applied", {"real": o["applied"], "model": model_applied(to, maxh)})
                    if bad:
                        ctx.violation("%s:%s:%s" % (act["name"], bad[0], ctxkey), bad[1], rp)
                if len(finals) != len(paths):
                    ctx.infra("harness produced final checks for %d of %d paths" % (len(finals), len(paths)))
    if paths:
        longest = max(paths, key=lambda p: len(p["steps"]))
        ctx.samples.append({"replayed_path": [("%s@%s" % (s["act"]["name"], s["act"].get("at", s["act"].get("h", "")))) for s in longest["steps"][:30]]})
    ctx.finish("model_checking", {
        "states": ctx.stats["states"], "transitions": ctx.stats["transitions"],
        "traces_validated_against_impl": len(paths), "replayed_steps": nsteps, "crash_images_taken": ncrash,
        "final_equivalence_checks": nfinal, "constants": {"MaxH": maxh, "cfg": cfg}, "exhaustive": True,
    }, ["a crash is the on-disk image copied at a verifPoint hook: goleveldb batches are atomic and a process crash loses exactly the un-issued writes (power loss / torn LevelDB journals not modelled)",
        "blocks carry one native ONT transfer each; solo (single bookkeeper, DBFT header rule) test network"])
