"""C01 — the ledger recovers from a crash at any commit point to a state identical to an uncrashed run
(spec/LedgerCommit.tla; real LedgerStoreImp with the `verif` build-tag hook)."""
import os
import vf

PROJ = [("blk", "blk"), ("evt", "evt"), ("stcur", ("st", "cur")), ("sttree", ("st", "tree")),
        ("memcur", ("mem", "cur")), ("memtree", ("mem", "tree"))]


def model_applied(to, maxh):
    cnt = [0] * maxh
    for b in to["st"]["applied"]:
        if b >= 1:
            cnt[b - 1] += 1
    return cnt


def key_for(act, field):
    # structural key: which model step, at which crash point, which field disagrees
    return "%s:%s" % (act["name"], field)


def run(ctx):
    maxh, cfg = (5, "LedgerCommit_C01t.cfg") if ctx.thorough else (3, "LedgerCommit_C01.cfg")
    r = ctx.tlc("LedgerCommit_MC", cfg=cfg, workers=1, coverage=ctx.thorough)
    paths, nsteps, ncrash, nfinal, nruns = [], 0, 0, 0, 0
    drift = []
    if r.status != "ok":
        ctx.infra("TLC did not verify %s: %s %s %s" % (cfg, r.status, r.violated, r.errors[:2]))
    else:
        edges, inits = r.prints.get("EDGE", []), r.prints.get("INIT", [])
        names = {e["act"]["name"] for e in edges}
        need = ["SubmitBegin", "CommitBlk", "CommitEvt", "CommitSt", "SetCurrent", "Crash", "Reopen", "RecStage", "RecEvt", "RecSt", "RecDone"]
        miss = [a for a in need if a not in names]
        if miss:
            ctx.infra("vacuous model run: actions never taken: %s" % miss)
        crash_points = sorted({e["act"]["at"] for e in edges if e["act"]["name"] == "Crash"})
        ctx.log("TLC %s: %d generated, %d distinct, depth %d, %d edges; crash points %s" % (cfg, r.generated, r.distinct, r.depth, len(edges), crash_points))
        # the deviation switch documents the defect class the replay would reproduce
        rd = ctx.tlc("LedgerCommit_MC", cfg="LedgerCommit_C01dev.cfg", workers=1)
        if rd.status != "violation":
            ctx.infra("deviation model (RecoverOff=1) unexpectedly satisfies the properties: spec properties are too weak")
        paths, ncov = ctx.cover(edges, inits, max_len=80)
        ctx.log("cover: %d paths, %d steps, %d/%d edges" % (len(paths), sum(len(p["steps"]) for p in paths), ncov, len(edges)))
        binary = ctx.go_test_bin("core/store/ledgerstore", harness="c01_ledger", tags=("verif",), hide_own_tests=True)
        # block contents: every block a successful transfer; and mixes with empty blocks and blocks whose only
        # transaction fails (empty write set) rotated by the seed.  Thorough: more mixes.
        base = ["empty", "fail", "xfer"]
        rot = ctx.seed % 3
        mixes = [["xfer"] * maxh, [base[(i + rot) % 3] for i in range(maxh)]]
        if ctx.thorough:
            mixes += [[base[(i + rot + 1) % 3] for i in range(maxh)], [base[(i + rot + 2) % 3] for i in range(maxh)],
                      ["fail"] * maxh, ["empty"] * maxh]
        for mi, shapes in enumerate(mixes if binary else []):
            fin, fout = os.path.join(ctx.scratch, "replay%d.in.json" % mi), os.path.join(ctx.scratch, "replay%d.out.ndjson" % mi)
            vf.write_json(fin, {"maxh": maxh, "shapes": shapes, "paths": [[s["act"] for s in p["steps"]] for p in paths]})
            rc, out = ctx.run_bin(binary, "TestVerifLcReplay", env={"VERIF_IN": fin, "VERIF_OUT": fout}, timeout=3000)
            if rc != 0:
                ctx.infra("replay harness failed rc=%s (shapes %s)" % (rc, shapes))
                continue
            nruns += 1
            finals = set()
            for o in vf.read_ndjson(fout):
                p = paths[o["path"]]
                steps = p["steps"]
                rp = {"maxh": maxh, "shapes": shapes, "path": [s["act"] for s in steps[:max(o["step"], 1)]] if o["name"] != "Final" else [s["act"] for s in steps]}
                crashes = [s["act"]["at"] for s in steps[:o["step"]] if s["act"]["name"] == "Crash"]
                ctxkey = "crash@" + "+".join(crashes) if crashes else "nocrash"
                if o["name"] == "Init":
                    continue
                if o["name"] == "Final":
                    nfinal += 1
                    finals.add(o["path"])
                    if not o["ok"]:
                        ctx.violation("Final:%s" % ctxkey, {"shapes": shapes, "err": o.get("err")}, rp)
                    continue
                if o["name"] in ("ReopenError", "AddBlockResult"):
                    ctx.violation("%s:%s" % (o["name"], ctxkey), {"shapes": shapes, "err": o.get("err")}, rp)
                    continue
                act, to = steps[o["step"] - 1]["act"], steps[o["step"] - 1]["to"]
                nsteps += 1
                if act["name"] == "Crash":
                    ncrash += 1
                    continue
                if o.get("err"):
                    if "hook" in o["err"] and "AddBlock:" not in o["err"]:
                        # the commit steps of the real code no longer line up with the model's actions: that is a
                        # binding problem (exit 2) unless the final equivalence check of the path fails as well
                        drift.append("%s %s %s" % (act["name"], ctxkey, o["err"]))
                    else:
                        ctx.violation("%s:error:%s" % (act["name"], ctxkey), {"shapes": shapes, "err": o["err"]}, rp)
                    continue
                if act["name"] == "Reopen":
                    if o["ok"] != act["ok"]:
                        ctx.violation("Reopen:outcome:%s" % ctxkey, {"real_ok": o["ok"], "model_ok": act["ok"], "shapes": shapes}, rp)
                    continue
                bad = None
                for f, path in PROJ:
                    mv = to[path] if isinstance(path, str) else to[path[0]][path[1]]
                    if o[f] != mv:
                        bad = (f, {"real": o[f], "model": mv, "shapes": shapes})
                        break
                if bad is None:
                    ma = model_applied(to, maxh)
                    ma = [(-1 if shapes[i] != "xfer" else ma[i]) for i in range(maxh)]
                    if o["applied"] != ma:
                        bad = ("applied", {"real": o["applied"], "model": ma, "shapes": shapes})
                if bad:
                    ctx.violation("%s:%s:%s" % (act["name"], bad[0], ctxkey), bad[1], rp)
            if len(finals) != len(paths):
                ctx.infra("harness produced final checks for %d of %d paths" % (len(finals), len(paths)))
        ctx.extra["shape_mixes"] = mixes
    if drift and not ctx.violations:
        ctx.infra("MODEL-DRIFT: %d steps where the hook events of the real code do not match the model's actions, e.g. %s" % (len(drift), drift[0]))
    if paths:
        longest = max(paths, key=lambda p: len(p["steps"]))
        ctx.samples.append({"replayed_path": [("%s@%s" % (s["act"]["name"], s["act"].get("at", s["act"].get("h", "")))) for s in longest["steps"][:30]]})
    ctx.finish("model_checking", {
        "states": ctx.stats["states"], "transitions": ctx.stats["transitions"],
        "traces_validated_against_impl": len(paths) * nruns, "block_shape_mixes": ctx.extra.get("shape_mixes"), "replayed_steps": nsteps, "crash_images_taken": ncrash,
        "final_equivalence_checks": nfinal, "constants": {"MaxH": maxh, "cfg": cfg}, "exhaustive": True,
    }, ["a crash is the on-disk image copied at a verifPoint hook: goleveldb batches are atomic and a process crash loses exactly the un-issued writes (power loss / torn LevelDB journals not modelled)",
        "blocks carry one native ONT transfer each; solo (single bookkeeper, DBFT header rule) test network"])
