"""C42 — pre-execution never changes persisted state."""
import _ledgerquery as lq


def run(ctx):
    if ctx.replay_in:
        lq.replay_mode(ctx)
    try:
        lq.standard(ctx, "C42", ("LedgerQuery_C42.cfg", "LedgerQuery_C42t.cfg"), ["Submit:ok", "PreExec", "Restart"],
                    {"unchanged", "views", "history"},
                    tv=({"ntraces": 2, "nsteps": 40}, {"ntraces": 10, "nsteps": 80}), tags=("verif",), reference=True,
                    assumptions=["pre-execution interfaces driven: PreExecuteContract (native transfer signed by its owner, failing transfer, "
                                 "NeoVM deploy, NeoVM contract writing storage, malformed script, EIP-155 transfer/create/call emitting a log and "
                                 "writing storage), PreExecuteContractBatch (atomic and not), PreExecuteEip155Tx (call, create)",
                                 "non-atomic pre-executions are also run INSIDE submitBlock at its commit points (verif build tag, VerifHook: staged, "
                                 "blk, evt, st, cur) while a valid block is being committed; the committed result must equal the model's commit and "
                                 "the digests of every other visit of the same chain",
                                 "'unchanged' = sha256 over the full key/value content of the block, state, event and cross-chain LevelDB stores "
                                 "and of merkle_tree.db, current heights of the three stores, every query view; in-memory effects are caught by "
                                 "committing blocks afterwards and comparing with other visits of the same chain"])
    finally:
        lq.cleanup(ctx)
