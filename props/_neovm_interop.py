"""C12, interop handles: spec/NeoVMInterop.tla (typed producer / consumer state machine) -> scripts -> real ledger.

TLC enumerates every transition of the machine (handle kinds x present/absent/destroyed targets x consumers x
{transaction, pre-execution} x {current, legacy syscall table}); ctx.cover stitches them into behaviours; one
behaviour = one NeoVM script, executed by harness/b_neovm_sc/interop_test.go on a real ledger in child processes.
Oracle (C12): the process survives every script.  The halt/fault class of every script is compared with the model
(MODEL-DRIFT = the specification does not describe the code; not a violation of C12)."""
import _neovm as nv

# contracts of the fixture: both destroy themselves when called (K is deployed in block 1, D only by scripts)
KCODE = b"\x61" + nv.syscall("System.Contract.Destroy")
DCODE = b"\x61\x61" + nv.syscall("System.Contract.Destroy")
PH_BLOCKHASH = b"\xAA" * 31 + b"\x01"
PH_TXHASH = b"\xAA" * 31 + b"\x02"
PH_KADDR = b"\xBB" * 19 + b"\x01"
PH_DADDR = b"\xBB" * 19 + b"\x02"
NEVER_ADDR = bytes(range(0x40, 0x54))
ABSENT_HASH = bytes(range(0x60, 0x80))
CUR_HEIGHT, STORED_HEIGHT, ABSENT_HEIGHT = 2, 1, 7

HEADER_FIELD = {"Hash": "System.Header.GetHash", "Index": "System.Header.GetIndex", "Timestamp": "System.Header.GetTimestamp",
                "Version": "Ontology.Header.GetVersion", "PrevHash": "System.Header.GetPrevHash", "MerkleRoot": "Ontology.Header.GetMerkleRoot",
                "ConsensusData": "Ontology.Header.GetConsensusData", "NextConsensus": "Ontology.Header.GetNextConsensus"}
NOT, SHA256 = b"\x91", b"\xA8"


def ledger_target(t, hash_ph):
    return {"cur": nv.push_int(CUR_HEIGHT), "hpresent": nv.push_int(STORED_HEIGHT), "habsent": nv.push_int(ABSENT_HEIGHT),
            "xpresent": nv.push_bytes(hash_ph), "xabsent": nv.push_bytes(ABSENT_HASH), "bad": nv.push_bytes(b"\x01" * 10)}[t]


def contract_addr(c):
    return {"K": PH_KADDR, "D": PH_DADDR, "never": NEVER_ADDR, "bad": NEVER_ADDR[:19]}[c]


def deploy_params(c):
    code = KCODE if c == "K" else DCODE
    out = b""
    for s in (b"d", b"e", b"a", b"1", b"n"):        # desc email author version name
        out += nv.push_bytes(s)
    return out + nv.push_int(1) + nv.push_bytes(code)    # vmType = NEOVM_TYPE, code on top


def step_code(act):
    """bytecode of one model action; invariant: before and after every step the evaluation stack holds at most the
    model's `top` item"""
    n, a = act["name"], act["arg"]
    sc = nv.syscall
    if n == "GetHeader":
        return ledger_target(a, PH_BLOCKHASH) + sc("System.Blockchain.GetHeader")
    if n == "GetBlock":
        return ledger_target(a, PH_BLOCKHASH) + sc("System.Blockchain.GetBlock")
    if n == "GetTransaction":
        return ledger_target(a, PH_TXHASH) + sc("System.Blockchain.GetTransaction")
    if n == "GetTransactionHeight":
        return ledger_target(a, PH_TXHASH) + sc("System.Blockchain.GetTransactionHeight")
    if n == "GetContract":
        return nv.push_bytes(contract_addr(a)) + sc("System.Blockchain.GetContract")
    if n == "GetScriptContainer":
        return sc("System.ExecutionEngine.GetScriptContainer")
    if n == "GetContext":
        return sc("System.Storage.GetReadOnlyContext" if a == "ro" else "System.Storage.GetContext")
    if n == "Create":
        return deploy_params(a) + sc("Ontology.Contract.Create")
    if n == "Migrate":
        return deploy_params(a) + sc("Ontology.Contract.Migrate")
    if n == "AppCall":
        return b"\x67" + contract_addr(a)
    if n == "HeaderGet":
        return sc(HEADER_FIELD[a])
    if n == "BlockGetTransactionCount":
        return sc("System.Block.GetTransactionCount")
    if n == "BlockGetTransactions":
        return sc("System.Block.GetTransactions")
    if n == "BlockGetTransaction":
        return nv.push_int(0 if a == "in" else 5) + nv.op("SWAP") + sc("System.Block.GetTransaction")
    if n == "TxGet":
        return sc("System.Transaction.GetHash" if a == "Hash" else "Ontology.Transaction.GetType")
    if n == "TxGetAttributes":
        return sc("Ontology.Transaction.GetAttributes") + nv.op("ARRAYSIZE")
    if n == "AttrGet":
        return sc("Ontology.Attribute.Get" + a)
    if n == "ContractGetScript":
        return sc("Ontology.Contract.GetScript")
    if n == "ContractGetStorageContext":
        return sc("System.Contract.GetStorageContext")
    if n == "StoragePut":
        return nv.push_bytes(b"v") + nv.push_bytes(b"k") + nv.op("ROT") + sc("System.Storage.Put")
    if n == "StorageDelete":
        return nv.push_bytes(b"k") + nv.op("SWAP") + sc("System.Storage.Delete")
    if n == "StorageGet":
        return nv.push_bytes(b"k") + nv.op("SWAP") + sc("System.Storage.Get")
    if n == "AsReadOnly":
        return sc("System.StorageContext.AsReadOnly")
    if n == "Notify":
        return sc("System.Runtime.Notify")
    if n == "Log":
        return sc("System.Runtime.Log")
    if n == "Serialize":
        return sc("System.Runtime.Serialize")
    if n == "EqualSelf":
        return nv.op("DUP", "EQUAL")
    if n == "EqualCtx":
        return sc("System.Storage.GetContext") + nv.op("EQUAL")
    if n == "Pack":
        return nv.push_int(1) + nv.op("PACK")
    if n == "Pick0":
        return nv.push_int(0) + nv.op("PICKITEM")
    if n == "Sha256":
        return SHA256
    if n == "ArraySize":
        return nv.op("ARRAYSIZE")
    if n == "Not":
        return NOT
    if n == "NativeArg":
        return nv.CONSUMERS["native"]()
    if n == "CheckWitness":
        return sc("System.Runtime.CheckWitness")
    if n == "Drop":
        return nv.op("DROP")
    if n == "End":
        return b"\x61"          # NOP (an empty script is not executable)
    raise ValueError("no bytecode for model action %r" % (act,))


def act_text(act):
    return act["name"] + ("(%s)" % act["arg"] if act["arg"] != "-" else "")


def top_text(top):
    if top["t"] in ("empty", "plain"):
        return top["t"]
    s = top["kind"] + (":" + top["ref"] if top["ref"] != "-" else "")
    return ("[%s]" % s) if top["t"] == "arr" else s


def model_check(ctx):
    """(1) TLC verifies the design model (no producer hands out a handle to nothing): Total, NoNilHandle.
    (2) TLC enumerates the WHAT-IF model (every producer with an absent target hands out such a handle): its
    behaviours are the adversarial scripts, and the crash states TLC reaches in it show that the specification
    expresses the failure class.  Returns (design result, what-if result, edges, inits)."""
    r = ctx.tlc("NeoVMInterop_MC", cfg="NeoVMInterop_C12t.cfg" if ctx.thorough else "NeoVMInterop_C12.cfg", workers=None, timeout=900, tags=())
    if r.status != "ok":
        ctx.infra("TLC did not verify Total / NoNilHandle on spec/NeoVMInterop.tla: %s %s %s" % (r.status, r.violated, r.errors[:2]))
        return r, None, [], []
    x = ctx.tlc("NeoVMInterop_MC", cfg="NeoVMInterop_C12xt.cfg" if ctx.thorough else "NeoVMInterop_C12x.cfg", workers=1, timeout=1200)
    if x.status != "ok":
        ctx.infra("TLC on the what-if model of spec/NeoVMInterop.tla: %s %s %s" % (x.status, x.violated, x.errors[:2]))
        return r, x, [], []
    edges, inits = x.prints.get("EDGE", []), x.prints.get("INIT", [])
    names = {e["act"]["name"] for e in edges}
    expected = {"GetHeader", "GetBlock", "GetTransaction", "GetTransactionHeight", "GetContract", "GetScriptContainer", "GetContext", "Create",
                "Migrate", "AppCall", "HeaderGet", "BlockGetTransactionCount", "BlockGetTransactions", "BlockGetTransaction", "TxGet",
                "TxGetAttributes", "AttrGet", "ContractGetScript", "ContractGetStorageContext", "StoragePut", "StorageDelete", "StorageGet",
                "AsReadOnly", "Notify", "Log", "Serialize", "EqualSelf", "EqualCtx", "Pack", "Pick0", "Sha256", "ArraySize", "Not", "NativeArg",
                "CheckWitness", "Drop", "End"}
    if names != expected:
        ctx.infra("NeoVMInterop: actions without an exported edge (vacuous): %s / unknown: %s" % (sorted(expected - names), sorted(names - expected)))
    ncrash = sum(1 for e in edges if e["to"]["status"] == "crash")
    nilprod = {e["act"]["name"] for e in edges if e["from"]["top"]["valid"] and not e["to"]["top"]["valid"]}
    if not ncrash or nilprod != {"GetHeader", "GetBlock", "GetTransaction", "GetContract", "Create"}:
        ctx.infra("NeoVMInterop what-if model: %d crash transitions, handles to nothing from %s (vacuous)" % (ncrash, sorted(nilprod)))
    ctx.log("TLC NeoVMInterop: design %d states (Total, NoNilHandle hold); what-if %d states, %d transitions, %d of them crash"
            % (r.distinct, x.distinct, len(edges), ncrash))
    return r, x, edges, inits


def design_outcome(steps):
    """what the DESIGN says about a what-if behaviour: the first producer that meets an absent target fails"""
    for s in steps:
        if s["to"]["status"] == "fault" or not s["to"]["top"]["valid"]:
            return "fault"
    return "halt"


def scripts_of(ctx, edges, inits, max_len):
    paths, ncov = ctx.cover(edges, inits, max_len=max_len)
    out = []
    for p in paths:
        st = p["init"]
        steps = p["steps"]
        code = b"".join(step_code(s["act"]) for s in steps)
        # a behaviour that stops while running ends the script there (the model's End action)
        out.append({"mode": st["mode"], "api": st["api"], "steps": steps, "hex": code.hex(), "want": design_outcome(steps),
                    "whatif": any(not s["to"]["top"]["valid"] for s in steps)})
    return out, ncov


def item_of(i, s, nsteps=None):
    steps = s["steps"] if nsteps is None else s["steps"][:nsteps]
    code, cuts = b"", []
    for x in steps:
        code += step_code(x["act"])
        cuts.append(len(code))
    return {"id": i, "hex": code.hex(), "preexec": s["mode"] == "pre", "legacy": s["api"] == "legacy", "cuts": cuts}


def story(s, nsteps=None):
    steps = s["steps"] if nsteps is None else s["steps"][:nsteps]
    return " ; ".join(act_text(x["act"]) for x in steps)


ENV = {"VERIF_KCODE": KCODE.hex(), "VERIF_DCODE": DCODE.hex()}
DEAD = ("crash", "stack-overflow", "oom", "timeout")


def crash_key(s, k, at_end):
    """structural key of a death.  at_end = False: step number k (1-based) is fatal; at_end = True: the conversion of the
    item that the first k steps leave on the stack (pre-execution result).  The item in use = the steps since the stack
    was last empty.  When the what-if model says that this item is a handle to nothing, the root cause is the PRODUCER
    that handed it out for an absent target (one key per producer and target class, the consumers go into the detail);
    otherwise the key names the whole chain and the consumer."""
    steps = s["steps"]
    n_chain = k if at_end else k - 1
    prod = 0
    for j in range(n_chain - 1, -1, -1):
        frm = steps[j - 1]["to"]["top"] if j > 0 else {"t": "empty"}
        if frm["t"] == "empty":
            prod = j
            break
    chain = steps[prod:n_chain]
    cons = "Result(pre-execution)" if at_end else act_text(steps[k - 1]["act"])
    nil_by = [x for x in chain if not x["to"]["top"]["valid"]]
    if nil_by:
        return "InteropHandle:%s:absent-target-handle-used:process-death" % act_text(nil_by[0]["act"]), cons
    return "InteropHandle:%s:%s:process-death" % ("->".join(act_text(x["act"]) for x in chain) or "(empty stack)", cons), cons


def replay(ctx, binary, scripts, nproc):
    """run the scripts; returns (n_executed, n_halt, n_fault, deaths, crashes: list of (script, k, at_end, record), drift).
    The harness recovers Go panics (outcome "crash") and locates the fatal step itself: fatal_k = shortest panicking
    prefix (in steps), drop_survives = that prefix survives when its result is dropped."""
    items = [item_of(i, s) for i, s in enumerate(scripts)]
    res, deaths = nv.run_children_parallel(ctx, binary, "TestVerifInterop", items, "interop", 120, nproc, mem_gb=6, extra_env=ENV,
                                           defop="run", max_deaths=200)
    by_id = {}
    for o in res:
        if o.get("op") == "fixture":
            if o.get("height") != STORED_HEIGHT:
                ctx.infra("interop fixture: ledger height %s" % o.get("height"))
            continue
        by_id[o["id"]] = o
    drift, crashes = [], []
    n_halt = n_fault = 0
    for i, s in enumerate(scripts):
        o = by_id.get(i)
        if o is None:
            continue
        if o["out"] in DEAD:
            k = o.get("fatal_k") or len(s["steps"])          # a dead child (fatal error) is not located: whole script
            k = max(1, min(k, len(s["steps"])))
            after = s["steps"][k - 1]["to"]
            at_end = bool(s["mode"] == "pre" and o.get("drop_survives") and after["top"]["t"] != "empty" and after["status"] == "run")
            crashes.append((s, k, at_end, o))
            continue
        got = "halt" if o["ok"] else "fault"
        n_halt += got == "halt"
        n_fault += got == "fault"
        if got != s["want"]:
            drift.append((s, got, o.get("err", "") or o.get("result", "")))
    return len(by_id), n_halt, n_fault, deaths, crashes, drift


def replay_file(ctx, binary, info):
    """bin/check C12 --replay <file>: the scripts of a recorded interop violation"""
    import json
    rp = json.load(open(ctx.replay_in)).get("replay", {})
    its = [dict(it, id=i) for i, it in enumerate(rp.get("interop") or [])]
    if not its or not binary:
        return info
    res, deaths = nv.run_child(ctx, binary, "TestVerifInterop", [{k: it.get(k) for k in ("id", "hex", "preexec", "legacy", "cuts")} for it in its], "interop-replay",
                               120, 6, "items", ENV, "run", 50)
    info["executed"] = len([o for o in res if o.get("op") != "fixture"])
    for o in res:
        if o.get("op") != "fixture" and o["out"] in DEAD:
            it = its[o["id"]]
            ctx.violation("InteropHandle:replay:process-death", "script `%s` (%s) panics / kills the process (%s): %s"
                          % (it.get("story", it["hex"][:80]), "pre-execution" if it["preexec"] else "transaction in a block", o["out"], (o.get("err") or "")[:260]),
                          {"interop": [it]})
    return info


def check(ctx, binary, nproc, mc=None):
    """the whole interop part of C12; returns a dict of measured numbers for the evidence.  mc = result of model_check
    (the caller may have started it earlier, concurrently with its other work)"""
    r, x, edges, inits = mc if mc is not None else model_check(ctx)
    info = {"tlc_design": {"distinct": r.distinct, "generated": r.generated, "wall": round(r.wall, 1)}, "edges": len(edges), "scripts": 0, "executed": 0}
    if x is not None:
        info["tlc_whatif"] = {"distinct": x.distinct, "generated": x.generated, "wall": round(x.wall, 1)}
    if ctx.replay_in:
        return replay_file(ctx, binary, info)
    if not edges or not binary:
        return info
    scripts, ncov = scripts_of(ctx, edges, inits, max_len=10)
    info.update({"scripts": len(scripts), "scripts_whatif": sum(1 for s in scripts if s["whatif"]), "edges_covered": ncov})
    if ncov < len(edges):
        ctx.infra("interop: %d of %d model transitions are not covered by a script" % (len(edges) - ncov, len(edges)))
    n, n_halt, n_fault, deaths, crashes, drift = replay(ctx, binary, scripts, nproc)
    info.update({"executed": n, "halt": n_halt, "fault": n_fault, "child_deaths": deaths})
    if n < len(scripts):
        ctx.infra("interop: %d of %d scripts were not answered" % (len(scripts) - n, len(scripts)))
    viol = {}
    for (s, k, at_end, o) in crashes:
        key, cons = crash_key(s, k, at_end)
        viol.setdefault(key, []).append((s, k, at_end, o, cons))
    for key in sorted(viol):
        s, k, at_end, o, _ = min(viol[key], key=lambda v: (v[1], v[0]["mode"] != "tx"))
        modes = sorted({"%s/%s" % (v[0]["mode"], v[0]["api"]) for v in viol[key]})
        conss = sorted({v[4] for v in viol[key]})
        ctx.violation(key, "script `%s`%s (%s, %s syscall table, real ledger: genesis + 1 block) panics / kills the process (%s): %s; %d script(s) of this class, "
                      "modes %s, fatal consumers: %s"
                      % (story(s, k), " then the result conversion" if at_end else "", "pre-execution" if s["mode"] == "pre" else "transaction in a block",
                         s["api"], o["out"], (o.get("err") or "")[:260], len(viol[key]), modes, ", ".join(conss)),
                      {"interop": [dict(item_of(0, v[0], v[1]), story=story(v[0], v[1])) for v in viol[key][:4]]})
    info["finding_classes"] = {k: len(v) for k, v in viol.items()}
    # a what-if script that HALTS on the real code: a producer handed out a handle for an absent target and nothing
    # dereferenced it.  Where the same producer is already reported above (its handle kills other scripts) this is the
    # harmless face of that finding; anywhere else the specification does not describe the code.
    fatal_producers = set()
    for (s, k, at_end, o) in crashes:
        n_chain = k if at_end else k - 1
        fatal_producers |= {act_text(x["act"]) for x in s["steps"][:n_chain] if not x["to"]["top"]["valid"]}
    unused = []
    for d in list(drift):
        s, got, err = d
        nil_by = [x for x in s["steps"] if not x["to"]["top"]["valid"]]
        if s["want"] == "fault" and got == "halt" and nil_by and act_text(nil_by[0]["act"]) in fatal_producers:
            unused.append(d)
            drift.remove(d)
    info["absent_target_handle_unused"] = len(unused)
    if unused:
        ctx.log("interop: %d scripts halt although a producer met an absent target (handle handed out, never dereferenced): %s"
                % (len(unused), sorted({act_text([x for x in u[0]["steps"] if not x["to"]["top"]["valid"]][0]["act"]) for u in unused})))
    if drift:
        classes = {}
        for (s, got, err) in drift:
            last = s["steps"][-1]["act"] if s["steps"] else {"name": "End", "arg": "-"}
            classes.setdefault((s["api"], act_text(last), s["want"], got), []).append((s, err))
        ex = ["%s/%s `%s`: model %s, code %s (%s)" % (v[0][0]["mode"], k[0], story(v[0][0]), k[2], k[3], (v[0][1] or "")[:120]) for k, v in sorted(classes.items())[:6]]
        ctx.infra("MODEL-DRIFT interop handles: %d of %d scripts end in another class (halt/fault) than spec/NeoVMInterop.tla says "
                  "(not against the property), %d classes, e.g. %s" % (len(drift), len(scripts), len(classes), " | ".join(ex)))
    info["drift"] = len(drift)
    # vacuity: every handle kind was really produced and consumed (scripts that ran to the end as the model says)
    kinds = {x["to"]["top"]["kind"] for s in scripts if s["want"] == "halt" for x in s["steps"] if x["to"]["top"]["t"] == "h"}
    info["handle_kinds_exercised"] = sorted(kinds)
    if not drift and kinds != {"header", "hvalue", "block", "tx", "contract", "sctx", "sctxro"}:
        ctx.infra("interop: handle kinds exercised on the real code: %s" % sorted(kinds))
    if scripts:
        s = scripts[len(scripts) // 2]
        ctx.samples.append({"interop_script": story(s), "mode": s["mode"], "api": s["api"], "model": s["want"], "program": s["hex"][:200]})
    return info
