"""Shared machinery of X01 (spec/BlockSync.tla <-> p2pserver/protocols/block_sync/block_sync.go)."""
import json
import os
import vf

PKG = "p2pserver/protocols/block_sync"
HARNESS = "x01_blocksync"
ALL_ACTIONS = ["AddNode", "NetDrop", "DelNode", "SyncHeader", "SyncHeaderBusy", "SyncHeaderResume",
               "SyncBlock", "SyncBlockBusy", "SyncBlockResume", "HeaderResp", "BlockResp",
               "SaveBlock", "SaveBlockBusy", "SaveBlockResume", "CheckTimeout"]

# constants of the model-checking configurations (must mirror spec/BlockSync_MC.tla / the cfg files)
WORLDS = {
    "w2": {"n": 2, "empty": [1, 2], "peers": {"p1": 2, "p2": 1}},
    "w3": {"n": 3, "empty": [2, 3], "peers": {"p1": 3, "p2": 2}},
    "w4": {"n": 4, "empty": [3, 4], "peers": {"p1": 4, "p2": 3, "p3": 4}},
}
MAX_FLIGHT_BLK = 50
FLIGHT_SLACK = 2 * (3 - 1) + 1


def norm_state(s):
    """canonical form of a model state exported by TLC (sets arrive in TLC order)"""
    t = dict(s)
    t["nodes"] = sorted(s["nodes"])
    t["net"] = sorted(s["net"])
    return t


def model_check(ctx, cfg, workers=1, timeout=1500, want_edges=True, simulate=None, depth=None, required=ALL_ACTIONS):
    r = ctx.tlc("BlockSync_MC", cfg=cfg, workers=workers, timeout=timeout, simulate=simulate, depth=depth)
    if r.status != "ok" and not (simulate and r.status == "timeout"):
        ctx.infra("TLC did not verify %s: status=%s violated=%s %s" % (cfg, r.status, r.violated, r.errors[:2]))
        return None
    edges = r.prints.get("EDGE", [])
    inits = r.prints.get("INIT", [])
    if want_edges:
        for e in edges:
            e["from"] = norm_state(e["from"])
            e["to"] = norm_state(e["to"])
        inits = [norm_state(s) for s in inits]
        names = {e["act"]["name"] for e in edges}
        missing = [a for a in required if a not in names]
        if missing:
            ctx.infra("vacuous model run (%s): actions never taken: %s" % (cfg, missing))
    ctx.log("TLC %s: %d generated, %d distinct, depth %d, %d edges, %.1fs" %
            (cfg, r.generated, r.distinct, r.depth, len(edges), r.wall))
    return r, edges, inits


def step_of(act):
    """what the harness needs of a model action"""
    a = {k: act[k] for k in ("name", "p", "h", "bad", "lo", "hi", "ng", "ord", "del", "hold", "th", "tb", "first") if k in act}
    a["nreq"] = len(act.get("reqs", []))
    a["rej"] = any(not x["ok"] for x in act.get("adds", []))
    return a


def replay(ctx, binary, world, paths, tag, timeout=1500, procs=4):
    """Replays the paths on the real manager, in `procs` harness processes (a fresh real ledger per path costs
    0.3-0.6 s on the loaded box).  Returns {path index: [observations]} or None."""
    from concurrent.futures import ThreadPoolExecutor
    procs = max(1, min(procs, len(paths)))
    chunks = [list(range(k, len(paths), procs)) for k in range(procs)]

    def one(k):
        inp = dict(WORLDS[world])
        inp["paths"] = [{"steps": [step_of(s["act"]) for s in paths[i]["steps"]]} for i in chunks[k]]
        fin = os.path.join(ctx.scratch, "replay-%s-%d.in.json" % (tag, k))
        fout = os.path.join(ctx.scratch, "replay-%s-%d.out.ndjson" % (tag, k))
        vf.write_json(fin, inp)
        rc, out = ctx.run_bin(binary, "TestVerifX01Replay", env={"VERIF_IN": fin, "VERIF_OUT": fout}, timeout=timeout,
                              cwd=os.path.join(ctx.scratch, "wd%d" % k))
        if rc != 0:
            return None
        res = {}
        for o in vf.read_ndjson(fout):
            res.setdefault(chunks[k][o["path"]], []).append(o)
        os.remove(fin)
        os.remove(fout)
        return res

    per_path = {}
    with ThreadPoolExecutor(max_workers=procs) as ex:
        for r in ex.map(one, range(procs)):
            if r is None:
                ctx.infra("replay harness failed (%s)" % tag)
                return None
            per_path.update(r)
    return per_path


def select_paths(ctx, paths, max_paths, max_steps):
    """Budgeted choice: paths in the order class_cover produced them (the long in-layer walks first), then a
    seed-dependent sample of the remaining short paths (each covers a few layer-crossing edges)."""
    if len(paths) <= max_paths and sum(len(p["steps"]) for p in paths) <= max_steps:
        return list(paths)
    long_ = [p for p in paths if len(p["steps"]) >= 500]
    short = [p for p in paths if len(p["steps"]) < 500]
    ctx.rng.shuffle(short)
    out, steps = [], 0
    for p in long_ + short:
        if len(out) >= max_paths or steps + len(p["steps"]) > max_steps:
            continue
        out.append(p)
        steps += len(p["steps"])
    return out


def covered_edges(paths):
    seen = set()
    for p in paths:
        cur = vf.canon(p["init"])
        for s in p["steps"]:
            nxt = vf.canon(s["to"])
            seen.add((cur, vf.canon(s["act"]), nxt))
            cur = nxt
    return len(seen)


def bag(reqs):
    b = {}
    for r in reqs:
        k = (r["t"], r["p"], r["h"])
        b[k] = b.get(k, 0) + 1
    return b


def model_reqs(act):
    if act["name"] == "CheckTimeout":
        b = {}
        for r, m in act["reqbag"]:
            k = (r["t"], r["p"], r["h"])
            b[k] = b.get(k, 0) + m
        return None, b
    rs = [{"t": r["t"], "p": r["p"], "h": r["h"]} for r in act.get("reqs", [])]
    return rs, bag(rs)


def state_diff(real, model):
    d = {}
    for k in ("nodes", "net", "hdrH", "blkH", "fh", "fb", "cache", "lkH", "lkB", "lkS"):
        if real[k] != model[k]:
            d[k] = {"real": real[k], "model": model[k]}
    return d


class Oracle:
    """Properties (a)-(e) of X01 evaluated on what the REAL manager did (previous real state, action, new real
    state, requests it sent, AddBlock calls it made).  Differences to the model that contradict none of them are drift."""

    def __init__(self, ctx, world):
        self.ctx = ctx
        self.peerH = WORLDS[world]["peers"]
        self.n = WORLDS[world]["n"]
        self.viol = 0
        self.drift = 0
        self.steps = 0
        self.per_action = {}

    def can_serve(self, st, h):
        return [p for p in st["nodes"] if p in st["net"] and self.peerH[p] >= h]

    def properties(self, act, r0, o, committed):
        """returns list of (key, detail)"""
        out = []
        r1, reqs, adds = o["state"], o["reqs"], o["adds"]
        name = act["name"]
        # (a) only the next height reaches the ledger, each height committed once
        for ad in adds:
            if ad["h"] != ad["cur"] + 1:
                out.append(("%s:AddBlock-not-next-height" % name, ad))
            if ad["ok"] and ad["new"] > ad["cur"]:
                if ad["h"] in committed:
                    out.append(("%s:height-committed-twice" % name, ad))
                committed.add(ad["h"])
        if r1["blkH"] != r0["blkH"] + sum(1 for ad in adds if ad["ok"] and ad["new"] > ad["cur"]):
            out.append(("%s:block-height-changed-without-AddBlock" % name, {"before": r0["blkH"], "after": r1["blkH"], "adds": adds}))
        # (b) nothing committed or cached is requested; flights bounded
        for r in reqs:
            if r["t"] == "blk" and 1 <= r["h"] <= self.n and (r["h"] <= r1["blkH"] or r1["cache"][r["h"] - 1]["st"] != "none"):
                out.append(("%s:request-for-committed-or-cached-block" % name, r))
            if r["t"] == "hdr" and r["h"] <= r1["hdrH"]:
                out.append(("%s:request-for-known-header" % name, r))
        if sum(len(x) for x in r1["fb"]) > MAX_FLIGHT_BLK + FLIGHT_SLACK:
            out.append(("%s:block-flights-exceed-bound" % name, {"flights": sum(len(x) for x in r1["fb"])}))
        if sum(1 for x in r1["fh"] if x != "-") > 1:
            out.append(("%s:header-flights-exceed-bound" % name, {"fh": r1["fh"]}))
        # (c) responses that are not on flight from that peer change neither ledger nor cache
        changed = (r1["hdrH"], r1["blkH"], r1["cache"]) != (r0["hdrH"], r0["blkH"], r0["cache"])
        if name == "BlockResp" and changed and act["p"] not in r0["fb"][act["h"] - 1]:
            k = "block-from-other-peer-cached" if r0["fb"][act["h"] - 1] else "unsolicited-block-cached"
            out.append(("OnBlockReceive:" + k, {"p": act["p"], "h": act["h"], "flights_before": r0["fb"][act["h"] - 1]}))
        if name == "HeaderResp" and changed and r0["fh"][act["lo"] - 1] != act["p"]:
            k = "header-from-other-peer-accepted" if r0["fh"][act["lo"] - 1] != "-" else "unsolicited-header-accepted"
            out.append(("OnHeaderReceive:" + k, {"p": act["p"], "lo": act["lo"], "flight_before": r0["fh"][act["lo"] - 1]}))
        # (d) a rejected block leaves the cache and is requested again
        for ad in adds:
            if not ad["ok"] and 1 <= ad["h"] <= self.n:
                h = ad["h"]
                if r1["cache"][h - 1]["st"] != "none":
                    out.append(("%s:rejected-block-stays-cached" % name, ad))
                elif self.can_serve(r1, h) and not (r1["fb"][h - 1] and any(r["t"] == "blk" and r["h"] == h for r in reqs)):
                    out.append(("%s:rejected-block-not-rerequested" % name, {"add": ad, "fb": r1["fb"][h - 1], "reqs": reqs}))
        # (e) flights of a deleted peer do not survive their timeout (when another peer can take them)
        if name == "CheckTimeout" and self.can_serve(r0, r0["blkH"] + 1):
            for h in act["tb"]:
                idx = [0] if act["first"] else range(len(r0["fb"][h - 1]))
                for i in idx:
                    was = r0["fb"][h - 1][i]
                    if was in r0["nodes"]:
                        continue
                    now = r1["fb"][h - 1]
                    if h <= r0["blkH"]:
                        if now:
                            out.append(("checkTimeout:stale-block-flight-of-deleted-peer-kept", {"h": h, "fb": now}))
                    elif i < len(now) and now[i] not in r0["nodes"]:
                        out.append(("checkTimeout:block-flight-left-with-deleted-peer", {"h": h, "i": i, "peer": now[i]}))
            for h in act["th"]:
                was = r0["fh"][h - 1]
                if was in r0["nodes"] or was == "-":
                    continue
                now = r1["fh"][h - 1]
                if now != "-" and now not in r0["nodes"]:
                    out.append(("checkTimeout:header-flight-left-with-deleted-peer", {"h": h, "peer": now}))
        return out

    def check_path(self, path, obs, tag, pi):
        """obs: observations of one path (index 0 = Init). Stops at the first difference to the model."""
        ctx = self.ctx
        if not obs:
            ctx.infra("%s: no observation for path %d" % (tag, pi))
            return
        committed = set()
        d0 = state_diff(obs[0]["state"], path["init"])
        if d0 or obs[0]["state"]["extra"]:
            ctx.infra("%s: initial state differs from the model: %s" % (tag, d0))
            return
        for si, s in enumerate(path["steps"]):
            if si + 1 >= len(obs):
                ctx.infra("%s: path %d ended early at step %d" % (tag, pi, si + 1))
                return
            act, o, r0 = s["act"], obs[si + 1], obs[si]["state"]
            self.steps += 1
            self.per_action[act["name"]] = self.per_action.get(act["name"], 0) + 1
            replay_obj = {"world": tag, "steps": [step_of(x["act"]) for x in path["steps"][:si + 1]]}
            props = self.properties(act, r0, o, committed)
            for key, detail in props:
                self.viol += 1
                ctx.violation(key, detail, replay_obj)
            # conformance with the model
            diff = state_diff(o["state"], s["to"])
            mseq, mbag = model_reqs(act)
            if (mseq is not None and mseq != o["reqs"]) or mbag != bag(o["reqs"]):
                diff["reqs"] = {"real": o["reqs"], "model": mseq if mseq is not None else sorted(mbag.items())}
            madds = [(a["h"], a["ok"]) for a in act.get("adds", [])]
            if madds != [(a["h"], a["ok"]) for a in o["adds"]]:
                diff["adds"] = {"real": o["adds"], "model": madds}
            if o["state"]["extra"]:
                diff["extra"] = o["state"]["extra"]
            if o.get("err"):
                diff["harness"] = o["err"]
            if diff:
                known = ctx.known_keys()
                if not [k for k, _ in props if k not in known]:
                    self.drift += 1
                    if self.drift <= 5:
                        ctx.infra("%s: real manager and model differ (no property (a)-(e) contradicted) at path %d step %d "
                                  "action %s: %s" % (tag, pi, si + 1, json.dumps(step_of(act)), json.dumps(diff)[:900]))
                return


def class_cover(edges, inits, max_len=6000):
    """Edge cover by few, long paths.  The ledger heights never decrease, so the state graph is layered by
    (hdrH, blkH); a fresh real ledger (~0.6 s) is needed per path.  The walk therefore exhausts the uncovered
    edges of its current layer before it moves on to a later layer.  Returns (paths, n_covered, n_edges)."""
    from collections import deque
    sid, states = {}, []

    def ident(s):
        c = vf.canon(s)
        i = sid.get(c)
        if i is None:
            i = sid[c] = len(states)
            states.append(s)
        return i

    seen, E, adj = set(), [], {}
    for e in edges:
        a, b = ident(e["from"]), ident(e["to"])
        k = (a, vf.canon(e["act"]), b)
        if k in seen:
            continue
        seen.add(k)
        adj.setdefault(a, []).append(len(E))
        E.append((a, e["act"], b))
    layer = [(s["hdrH"], s["blkH"]) for s in states]
    covered = [False] * len(E)
    unc = {a: len(v) for a, v in adj.items()}
    ncov = 0
    roots = [ident(s) for s in inits]

    def bfs(start, same_layer):
        """shortest edge list from start to (and including) an uncovered edge"""
        prev = {start: None}
        q = deque([start])
        while q:
            u = q.popleft()
            for ei in adj.get(u, ()):
                v = E[ei][2]
                if same_layer and layer[v] != layer[start]:
                    if not covered[ei]:       # an uncovered edge leaving the layer: keep it for later
                        continue
                    continue
                if not covered[ei]:
                    path = [ei]
                    while prev[u] is not None:
                        u, e2 = prev[u]
                        path.append(e2)
                    path.reverse()
                    return path
                if v not in prev:
                    prev[v] = (u, ei)
                    q.append(v)
        return None

    paths = []
    while ncov < len(E):
        progressed = False
        for r in roots:
            cur, steps, new = r, [], 0
            while len(steps) < max_len:
                nxt = bfs(cur, True) or bfs(cur, False)
                if not nxt:
                    break
                for ei in nxt:
                    if not covered[ei]:
                        covered[ei] = True
                        ncov += 1
                        new += 1
                    steps.append({"act": E[ei][1], "to": states[E[ei][2]]})
                    cur = E[ei][2]
            if new:
                progressed = True
                paths.append({"init": states[r], "steps": steps})
        if not progressed:
            break
    return paths, ncov, len(E)
