"""Shared machinery for C35 (spec/TxPool.tla): TLC runs, replay on the real TXPool + IncrementValidator, oracle."""
import os
import re
import vf

os.environ.setdefault("JAVA_TOOL_OPTIONS", "-XX:ParallelGCThreads=3")  # many builders share the box: small GC teams

INIT_NONCE = {"a": 0, "b": 1}
EVM_SENDERS = ["a", "b"]


def cfg_text(evm, ont, max_ops, export, max_tx=3, max_blocks=2, max_height=3, max_block_txs=2, max_stale=1, max_lag=1,
             view="view", props=True):
    t = """SPECIFICATION Spec
CONSTANTS
  EvmTxs <- %s
  OntTxs <- %s
  EvmSenders <- SendersAB
  InitNonce <- InitNonceAB
  H0 = 1
  MaxBlocks = %d
  MaxTx = %d
  MaxStale = %d
  MaxLag = %d
  MaxBlockTxs = %d
  MaxHeight = %d
  MaxOps = %d
  Acts <- ActsAll
VIEW %s
INVARIANTS TypeOK PoolOK WindowNewest
CHECK_DEADLOCK FALSE
""" % (evm, ont, max_blocks, max_tx, max_stale, max_lag, max_block_txs, max_height, max_ops, view)
    if props:
        t += "PROPERTIES ProposalOK ReplaceOnlyHigher\n"
    if export:
        t += "CONSTRAINT InitOut\nACTION_CONSTRAINT Edge\n"
    return t


def txid(t):
    return "%s/%d/%d/%d" % (t["s"], t["n"], t["gp"], t["v"])


def parse_id(i):
    s, n, gp, v = i.split("/")
    return {"s": s, "n": int(n), "gp": int(gp), "v": int(v)}


def norm_state(s):
    return {"pool": sorted(({"tx": txid(e["tx"]), "vh": e["vh"]} for e in s["pool"]), key=lambda e: e["tx"]),
            "blocks": [[txid(t) for t in b] for b in s["blocks"]],
            "vbase": s["vbase"], "vlen": s["vlen"], "vnext": s["vnext"], "pnext": s["pnext"]}


def norm_act(a):
    a = dict(a)
    if "out" in a:
        a["out"] = [txid(t) for t in a["out"]]
    return a


def collect(r):
    """edges/inits of a TLC run, states normalised; the Propose edges of one (from, to) pair are merged into one edge whose
    act carries the set of proposals the model allows (the ordering of equal gas prices is free)"""
    edges = []
    merged = {}
    for e in r.prints.get("EDGE", []):
        f, t, a = norm_state(e["from"]), norm_state(e["to"]), norm_act(e["act"])
        if a["name"] == "Propose":
            k = (vf.canon(f), vf.canon(t))
            if k in merged:
                if a["out"] not in merged[k]["act"]["outs"]:
                    merged[k]["act"]["outs"].append(a["out"])
                continue
            a = {"name": "Propose", "valid": a["valid"], "outs": [a["out"]]}
            ed = {"from": f, "act": a, "to": t}
            merged[k] = ed
            edges.append(ed)
        else:
            edges.append({"from": f, "act": a, "to": t})
    inits = [norm_state(s) for s in r.prints.get("INIT", [])]
    # the same state may be printed as initial state once per behaviour in simulation mode
    uniq = {}
    for s in inits:
        uniq.setdefault(vf.canon(s), s)
    return edges, list(uniq.values())


def go_act(a):
    g = {"name": a["name"]}
    if a["name"] == "Submit":
        g["tx"] = a["tx"]
        g["vh"] = a["vh"]
    elif a["name"] == "RemoveBelowGas":
        g["g"] = a["g"]
    elif a["name"] == "LedgerCommit":
        g["block"] = a["block"]
        g["h"] = a["h"]
    elif a["name"] in ("ValAddBlock", "PoolClean"):
        g["h"] = a["h"]
    return g


def replay(ctx, binary, paths, tag, max_tx=3, max_blocks=2):
    inp = {"evmSenders": EVM_SENDERS, "initNonce": INIT_NONCE, "h0": 1, "maxBlocks": max_blocks, "maxTx": max_tx,
           "paths": [[go_act(s["act"]) for s in p["steps"]] for p in paths]}
    fin = os.path.join(ctx.scratch, "replay-%s.in.json" % tag)
    fout = os.path.join(ctx.scratch, "replay-%s.out.ndjson" % tag)
    vf.write_json(fin, inp)
    rc, out = ctx.run_bin(binary, "TestVerifTxPoolReplay", env={"VERIF_IN": fin, "VERIF_OUT": fout}, timeout=3000)
    if rc != 0:
        ctx.infra("replay harness failed rc=%s" % rc)
        return None
    return vf.read_ndjson(fout)


def act_text(a):
    n = a["name"]
    if n == "Submit":
        return "Submit(%s@%d)" % (txid(a["tx"]), a["vh"])
    if n == "RemoveBelowGas":
        return "RemoveBelowGas(%d)" % a["g"]
    if n == "LedgerCommit":
        return "LedgerCommit(%d:[%s])" % (a["h"], ",".join(txid(t) for t in a["block"]))
    if n in ("ValAddBlock", "PoolClean"):
        return "%s(%d)" % (n, a["h"])
    return n


def path_text(p, upto):
    return " ".join(act_text(s["act"]) for s in p["steps"][:upto])


def proposal_defects(out, chain, nonce):
    """the property C35 on a proposal (list of tx ids), given the set of transactions on chain and the account nonces"""
    bad = []
    if len(set(out)) != len(out):
        bad.append(("duplicate-hash", {"proposal": out}))
    onchain = [t for t in out if t in chain]
    if onchain:
        bad.append(("already-on-chain", {"proposal": out, "on_chain": onchain}))
    for s in EVM_SENDERS:
        ns = [parse_id(t)["n"] for t in out if parse_id(t)["s"] == s]
        want = list(range(nonce[s], nonce[s] + len(ns)))
        if ns != want:
            kind = "nonce-run-not-from-account-nonce" if ns and ns[0] != nonce[s] else "nonce-run-not-consecutive"
            bad.append((kind, {"proposal": out, "sender": s, "account_nonce": nonce[s], "nonces": ns}))
    return bad


def judge(ctx, paths, obs, stats):
    by_path = {}
    for o in obs:
        by_path.setdefault(o["path"], []).append(o)
    drift = 0
    for pi, p in enumerate(paths):
        rec = by_path.get(pi, [])
        if len(rec) == 0:
            ctx.infra("path %d was not executed" % pi)
            continue
        chain = set()
        nonce = dict(INIT_NONCE)
        ok_steps = 0
        diverged = False
        for o in rec:
            si = o["step"]
            if o.get("infra"):
                ctx.infra("harness: path %d step %d: %s  [%s]" % (pi, si, o["infra"], path_text(p, si)))
                break
            if si == 0:
                continue
            stats["steps"] += 1
            st = p["steps"][si - 1]
            a, to = st["act"], st["to"]
            rp = {"init_nonce": INIT_NONCE, "h0": 1, "steps": [go_act(s["act"]) for s in p["steps"][:si]]}
            diff = None
            # ------------------------------------------------ property-level oracles on the REAL observations
            if a["name"] == "Submit":
                stats["submits"][o["res"]] = stats["submits"].get(o["res"], 0) + 1
                if o["res"].startswith("replaced"):
                    old, new = parse_id(o["oldTx"]), a["tx"]
                    if not new["gp"] > old["gp"]:
                        ctx.violation("AddTxList:replaced-without-higher-gas-price",
                                      {"old": o["oldTx"], "new": txid(new), "history": path_text(p, si)}, rp)
                if o["res"] != a["res"] and not diverged:
                    diff = ("result", o["res"], a["res"])
            elif a["name"] == "LedgerCommit":
                for t in a["block"]:
                    chain.add(txid(t))
                    if t["s"] in nonce:
                        nonce[t["s"]] += 1
            elif a["name"] == "Propose":
                stats["proposals"] += 1
                stats["proposed_txs"] += len(o.get("out", []))
                for kind, d in proposal_defects(o.get("out", []), chain, nonce):
                    d["history"] = path_text(p, si)
                    d["GetTxPool"] = o.get("raw", [])
                    ctx.violation("Propose:" + kind, d, rp)
                if diverged:
                    pass
                elif o.get("out", []) not in a["outs"]:
                    diff = ("proposal", o.get("out", []), a["outs"])
                elif o["validH"] != a["valid"]:
                    diff = ("validHeight", o["validH"], a["valid"])
            # ------------------------------------------------ conformance with the model state
            if diverged:
                continue   # only the property-level oracles above are meaningful once the model was left
            if diff is None:
                real_pool = [{"tx": e["tx"], "vh": e["vh"]} for e in o["valid"]]
                if real_pool != to["pool"]:
                    diff = ("validTxMap", real_pool, to["pool"])
                elif o["eip"] != sorted(e["tx"] for e in to["pool"] if parse_id(e["tx"])["s"] in EVM_SENDERS):
                    diff = ("eipTxPool", o["eip"], [e["tx"] for e in to["pool"]])
                elif not o["eipOK"]:
                    diff = ("txSortedMap index", "inconsistent", "consistent")
                elif (o["vstart"], o["vend"]) != (to["vbase"], to["vbase"] + to["vlen"]):
                    diff = ("validator window", (o["vstart"], o["vend"]), (to["vbase"], to["vbase"] + to["vlen"]))
            if diff:
                drift += 1
                if drift <= 5:
                    ctx.infra("MODEL-DRIFT after [%s]: real %s = %s, model %s" % (path_text(p, si), diff[0], diff[1], diff[2]))
                diverged = True
                continue
            ok_steps = si
        else:
            if not diverged and ok_steps != len(p["steps"]):
                ctx.infra("path %d: %d of %d steps executed" % (pi, ok_steps, len(p["steps"])))
    if drift > 5:
        ctx.infra("MODEL-DRIFT: %d paths diverged from the model" % drift)
    return drift


def check_valid_height(ctx, cases, max_blocks_of):
    """cases: dict (vbase, vlen, height, tag) -> (valid, vbase', vlen') taken from the model's Propose edges.  The real
    consensus/vbft Server.validHeight (+ the real IncrementValidator) must compute the same: this binds the proposer logic
    that the TXPool harness replicates (solo makeBlock) to the repository's code."""
    binary = ctx.go_test_bin("consensus/vbft", harness="b_p2p_vbftvh", hide_own_tests=True)
    if not binary:
        return 0
    keys = sorted(cases)
    fin = os.path.join(ctx.scratch, "validheight.in.json")
    fout = os.path.join(ctx.scratch, "validheight.out.ndjson")
    vf.write_json(fin, [{"vbase": k[0], "vlen": k[1], "height": k[2], "maxBlocks": max_blocks_of[k[3]]} for k in keys])
    rc, out = ctx.run_bin(binary, "TestVerifValidHeight", env={"VERIF_IN": fin, "VERIF_OUT": fout}, timeout=600)
    if rc != 0:
        ctx.infra("validHeight harness failed rc=%s" % rc)
        return 0
    res = vf.read_ndjson(fout)
    if len(res) != len(keys):
        ctx.infra("validHeight harness: %d of %d cases" % (len(res), len(keys)))
        return 0
    bad = 0
    for k, o in zip(keys, res):
        valid, b2, l2 = cases[k]
        if (o["valid"], o["start"], o["end"]) != (valid, b2, b2 + l2):
            bad += 1
            if bad <= 3:
                ctx.infra("MODEL-DRIFT: vbft validHeight for window [%d,%d) at ledger height %d gives valid=%d window [%d,%d); model valid=%d window [%d,%d)" % (
                    k[0], k[0] + k[1], k[2], o["valid"], o["start"], o["end"], valid, b2, b2 + l2))
    return len(keys)
