"""Linear-time transition cover for large exported graphs (same path format as vf.Ctx.cover).

Every path = shortest prefix (BFS tree) from an initial state to a state that still has an uncovered outgoing edge,
followed by a greedy chain of uncovered edges.  Every edge reachable from an initial state is on some path."""
import vf


def fast_cover(edges, inits, max_len=60):
    sid = {}
    states = []

    def ident(s):
        c = vf.canon(s)
        i = sid.get(c)
        if i is None:
            i = sid[c] = len(states)
            states.append(s)
        return i

    seen = set()
    E = []          # (from, act, to)
    adj = {}
    for e in edges:
        a, b = ident(e["from"]), ident(e["to"])
        k = (a, vf.canon(e["act"]), b)
        if k in seen:
            continue
        seen.add(k)
        adj.setdefault(a, []).append(len(E))
        E.append((a, e["act"], b))
    roots = [ident(s) for s in inits]
    parent = {r: None for r in roots}   # node -> edge index of the BFS tree
    root_of = {r: r for r in roots}
    order = list(roots)
    qi = 0
    while qi < len(order):
        u = order[qi]
        qi += 1
        for ei in adj.get(u, ()):
            v = E[ei][2]
            if v not in parent:
                parent[v] = ei
                root_of[v] = root_of[u]
                order.append(v)
    covered = [False] * len(E)
    nxt = {u: 0 for u in adj}           # per node: index of the first possibly uncovered out-edge
    ncov = 0
    paths = []

    def uncovered_edge(u):
        lst = adj.get(u)
        if not lst:
            return None
        i = nxt[u]
        while i < len(lst) and covered[lst[i]]:
            i += 1
        nxt[u] = i
        return lst[i] if i < len(lst) else None

    for u in order:
        while uncovered_edge(u) is not None:
            pre = []
            x = u
            while parent[x] is not None:
                pre.append(parent[x])
                x = E[parent[x]][0]
            pre.reverse()
            chain = []
            cur = u
            while len(pre) + len(chain) < max(max_len, len(pre) + 1):
                ei = uncovered_edge(cur)
                if ei is None:
                    break
                covered[ei] = True
                ncov += 1
                chain.append(ei)
                cur = E[ei][2]
            for ei in pre:
                if not covered[ei]:
                    covered[ei] = True
                    ncov += 1
            paths.append({"init": states[root_of[u]],
                          "steps": [{"act": E[ei][1], "to": states[E[ei][2]]} for ei in pre + chain]})
    reachable_edges = sum(len(adj.get(u, ())) for u in order)
    return paths, ncov, reachable_edges
