"""C39 — invalid blocks are rejected without changing the ledger."""
import _ledgerquery as lq


def run(ctx):
    if ctx.replay_in:
        lq.replay_mode(ctx)
    try:
        _run(ctx)
    finally:
        lq.cleanup(ctx)


def _run(ctx):
    binary = lq.build(ctx)
    # quick: heights 1..2; thorough: heights 1..3 (C39h) plus all double-field mutations (C39t)
    cfgs = ["LedgerQuery_C39h.cfg", "LedgerQuery_C39t.cfg"] if ctx.thorough else ["LedgerQuery_C39.cfg"]
    allpaths, nsteps, names, classes = [], 0, {}, set()
    files = None
    if binary:
        bits, bits_mod = lq.real_bits(ctx, binary)
        files = {"LQBits.tla": bits_mod} if bits_mod else None
        # design intent: with the body check in place no invalid block is ever committed (spec-level sanity of the oracle)
        ri = ctx.tlc("LedgerQuery_MC", cfg="LedgerQuery_C39it.cfg" if ctx.thorough else "LedgerQuery_C39i.cfg", files=files, timeout=1500, tags=())
        if ri.status != "ok":
            ctx.infra("TLC did not verify the design-intent configuration: %s %s" % (ri.status, ri.violated))
    for cfg in (cfgs if binary else []):
        mc = lq.model_check(ctx, cfg, ["Submit:ok", "Submit:refused", "Submit:ignored", "Restart", "SyncHeader"], files=files)
        if not mc:
            continue
        nsteps, names, classes, allpaths = one_cfg(ctx, binary, mc, cfg, nsteps, names, classes, allpaths)
    ctx.extra["mutation_classes"] = len(classes)
    ctx.samples.append({"mutation_classes": sorted(classes)[:40]})
    finish(ctx, allpaths, nsteps, names, cfgs)


def one_cfg(ctx, binary, mc, cfg, nsteps, names, classes, allpaths):
    paths = []
    if mc:
        r, edges, inits, shapes, nm = mc
        for k, v in nm.items():
            names[k] = names.get(k, 0) + v
        paths, ncov = ctx.cover(edges, inits, max_len=40)
        if ncov != len(edges):
            ctx.infra("cover reaches %d of %d edges" % (ncov, len(edges)))
        ctx.log("cover: %d paths, %d steps" % (len(paths), sum(len(p["steps"]) for p in paths)))
        obs = lq.replay(ctx, binary, shapes, paths, "c39-" + cfg[12:-4])
        if obs is not None:
            n = lq.check_steps(ctx, paths, obs, {"result", "unchanged", "views", "history"})
            nsteps += n
            ctx.log("replayed %d steps on the real ledger" % n)
        classes |= {lq.mut_class(e["act"]["mut"]) for e in edges if e["act"]["name"] == "Submit"}
        if paths and not allpaths:
            ctx.samples.append({"replayed_path": [s["act"] for s in paths[0]["steps"][:3]]})
    return nsteps, names, classes, allpaths + paths


def finish(ctx, paths, nsteps, names, cfg):
    cov = {"states": ctx.stats["states"], "transitions": ctx.stats["transitions"],
           "traces_validated_against_impl": len(paths), "replayed_steps": nsteps, "edges_by_action": names,
           "cfg": cfg, "exhaustive": True}
    cov.update(ctx.extra)
    ctx.finish("model_checking", cov, [
        "solo network with 4 bookkeepers (3 signatures required); blocks carry signed ONT/ONG transfers and EIP-155 transactions",
        "a block is delivered as wire bytes (Block.Deserialization + AddBlock), as an object (AddBlock) or through ExecuteBlock+SubmitBlock",
        "'unchanged' = sha256 over the full key/value content of the block, state, event and cross-chain LevelDB stores and of merkle_tree.db, "
        "plus all query interfaces and current heights; in-memory effects are caught by committing valid blocks afterwards and comparing "
        "with other visits of the same chain",
        "a block of a stale height is answered with nil (ignored) by AddBlock; the check accepts that as a rejection",
    ])
