"""C27 — cross-chain merkle paths prove exactly the included values (spec/Merkle.tla, Part B)."""
import json
import _merkle as mk

INV = ["XRootOK", "XCompleteOK"]
PROPS = ["XSoundOK", "XExactOK", "XFunctionOK"]
ACTS = ["Grow", "GenPath", "Prove"]


def judge(ctx, paths, mism, verd):
    muts = {}
    nproved = 0
    for (pi, si, act, r) in mism:
        ctx.violation("%s:%s" % (act["name"], r["what"]), {"real": r.get("real"), "expected": r.get("exp"), "act": act},
                      mk.minimal(paths, pi, si))
    for (pi, si, act, real) in verd:
        k = paths[pi]["steps"][si]["to"]["k"]
        muts[act["mut"]] = muts.get(act["mut"], 0) + 1
        case = {x: act[x] for x in act if x != "name"}
        member = 0 <= act["val"] < k
        nproved += real == "ok"
        if real.startswith("panic"):
            ctx.violation("MerkleProve:panic:%s" % act["mut"], {"panic": real, "case": case, "list_size": k}, mk.minimal(paths, pi, si))
        elif real.startswith("ok-other-value"):
            ctx.violation("MerkleProve:returns-other-value:%s" % act["mut"], {"real": real, "case": case}, mk.minimal(paths, pi, si))
        elif act["mut"] == "none" and real != "ok":
            ctx.violation("MerkleProve:generated-path-rejected", {"case": case, "list_size": k}, mk.minimal(paths, pi, si))
        elif real == "ok" and not member and act["root"] == "0-%d" % k:
            ctx.violation("MerkleProve:proves-non-member:%s" % act["mut"], {"case": case, "list_size": k}, mk.minimal(paths, pi, si))
        elif real != act["res"]:
            ctx.infra("MODEL-DRIFT MerkleProve returns %s where the specification says %s (not against the property): %s" % (real, act["res"], case))
    return muts, nproved


def run(ctx):
    binary = ctx.go_test_bin("merkle", harness=mk.HARNESS)
    if ctx.replay_in:
        rp = json.load(open(ctx.replay_in))["replay"]
        paths = [rp]
        res = mk.replay(ctx, binary, "B", paths, "rp") if binary else None
        if res:
            judge(ctx, paths, res[0], res[1])
        ctx.finish("model_checking", {"states": 0, "transitions": 0, "traces_validated_against_impl": 1, "replay_of": ctx.replay_in})
    max_k = 13 if ctx.thorough else 9
    mc = mk.model_check(ctx, "Merkle_C27_gen.cfg", mk.cfg_text("SpecB", 0, max_k, False, 2, INV, PROPS), ACTS)
    paths, muts, counts, nsteps, nproved, nverd = [], {}, {}, 0, 0, 0
    if mc and binary:
        r, edges, inits, names = mc
        paths, ncov = ctx.cover(edges, inits, max_len=6000)
        nsteps = sum(len(p["steps"]) for p in paths)
        ctx.log("cover: %d paths, %d steps, %d/%d edges" % (len(paths), nsteps, ncov, len(edges)))
        if ncov != len(edges):
            ctx.infra("cover reaches %d of %d edges" % (ncov, len(edges)))
        res = mk.replay(ctx, binary, "B", paths, "c27")
        if res:
            mism, verd, counts = res
            muts, nproved = judge(ctx, paths, mism, verd)
            nverd = len(verd)
            ctx.log("replayed %d steps: %s; %d MerkleProve verdicts compared (%d prove), %d path/root mismatches" %
                    (nsteps, counts, nverd, nproved, len(mism)))
            missing = [a for a in ACTS if counts.get(a, 0) == 0]
            if missing:
                ctx.infra("harness never executed: %s" % missing)
            if nproved == 0:
                ctx.infra("vacuous: no path proved")
            for (pi, si, act, real) in verd[:3000:1100]:
                ctx.samples.append({"prove_case": act, "real": real})
    ctx.finish("model_checking", {
        "states": ctx.stats["states"], "transitions": ctx.stats["transitions"],
        "traces_validated_against_impl": len(paths), "replayed_steps": nsteps, "replayed_by_action": counts,
        "verdicts_compared": nverd, "accepted_paths": nproved, "mutation_cases": muts,
        "constants": {"MaxK": max_k, "MutLevel": 2}, "exhaustive": True,
    }, ["hashes are free constructors in the specification (sha256 injective, leaf/node prefixes separate the domains); the harness evaluates terms with crypto/sha256 independently of package merkle",
        "list elements are HashLeaf of pairwise distinct values",
        "mutations are single-element; a mutated path that still proves the SAME member (side byte 1 -> 2, up to 31-k trailing junk bytes) is allowed by the statement and by the specification",
        "paths longer than 31 elements (lists of more than 2^31 values) are out of the bounds"])
