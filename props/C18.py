"""C18 — primitive binary codec round-trips, is canonical and never panics (spec/ZeroCopy.tla)."""
import os
import _codec as cd
import vf

# The C18 statement says "every variable-length integer that is not minimally encoded is reported as irregular".
# The legacy io.Reader codec common/serialization (listed in the property's anchors) has no such check.  The
# specification carries this as the named deviation LegacyMinimalCheck = FALSE (the code as it is); every replayed
# case in which the real legacy reader accepts a non-minimal length prefix is reported under ONE structural key per
# function, recorded in known_findings.d/C18-legacy-serialization-nonminimal.json.
LEGACY_NONMINIMAL_IS_FINDING = True

SIZE_OPS = {"NextVarUint", "NextVarBytes", "NextString"}
ERR_OPS = {"ReadVarBytes", "ReadString", "ReadVarUint", "ReadUint32", "ReadUint64"}


def edges_of(r):
    edges = []
    for e in r.prints.get("EDGE", []):
        to = dict(e["from"])
        to.update(e["to"])
        act = dict(e["act"])
        act["res"] = e["res"]
        act["leg"] = e["leg"]
        edges.append({"from": e["from"], "act": act, "to": to})
    return edges


def replay_obj(path, upto):
    return {"buf": path["init"]["buf"], "spare": path["init"]["spare"], "steps": [{k: v for k, v in s["act"].items() if k in ("name", "n", "t", "v")}
                                                   for s in path["steps"][:upto + 1]]}


def check_read(ctx, path, si, act, o, drift):
    """compare one reader call: spec result act['res'] vs real outcome o.  Property-level differences are
    violations; differences in fields the property does not speak about are model drift."""
    name, S = act["name"], act["res"]
    rp = replay_obj(path, si)

    def bad(kind, detail):
        ctx.violation("%s:%s" % (name, kind), detail, rp)

    if o.get("panic"):
        return bad("panic", o["panic"])
    if o["off"] > o["len"]:
        return bad("offset-out-of-bounds", {"off": o["off"], "len": o["len"]})
    if o.get("variants_differ"):
        return bad("huge-count-outcomes-differ", o["variants_differ"])
    if name == "BackUp":
        if o["off"] != S["off"]:
            bad("offset", {"real": o["off"], "model": S["off"]})
        return
    if name in ERR_OPS:
        if o["err"] != S["err"]:
            return bad("error-indication", {"real": o["err"], "model": S["err"]})
        if S["err"] == "ok":
            if o["val"] != S["val"]:
                return bad("value", {"real": o["val"], "model": S["val"]})
            if o["off"] != S["off"]:
                return bad("offset", {"real": o["off"], "model": S["off"]})
        elif o["off"] != S["off"]:
            drift.append((name, "offset after error", o["off"], S["off"]))
    else:
        if o["eof"] != S["eof"]:
            return bad("eof-indication", {"real": o["eof"], "model": S["eof"], "buf": path["init"]["buf"], "at": act})
        if not S["eof"] and o["irr"] != S["irr"]:
            return bad("irregular-indication", {"real": o["irr"], "model": S["irr"]})
        if not S["eof"] and not S["irr"]:
            if name != "Skip" and o["val"] != S["val"]:
                return bad("value", {"real": o["val"], "model": S["val"]})
            if o["off"] != S["off"]:
                return bad("offset", {"real": o["off"], "model": S["off"]})
            if name in SIZE_OPS and o["size"] != S["size"]:
                return bad("size", {"real": o["size"], "model": S["size"]})
        else:
            if (o["val"] or []) != S["val"] and name != "Skip":
                drift.append((name, "value of an eof/irregular read", o["val"], S["val"]))
            if o["off"] != S["off"]:
                drift.append((name, "offset after an eof/irregular read", o["off"], S["off"]))
            if S["eof"] and o["irr"] != S["irr"]:
                drift.append((name, "irregular flag of an eof read", o["irr"], S["irr"]))
    # legacy common/serialization reader on the same bytes
    L = act["leg"]
    if L["has"]:
        lo = o.get("leg")
        lname = "serialization." + L["name"]
        if lo is None:
            ctx.infra("harness did not run %s" % lname)
            return
        if lo.get("panic"):
            return ctx.violation("%s:panic" % lname, lo["panic"], rp)
        if lo["ok"] != L["ok"]:
            return ctx.violation("%s:accept" % lname, {"real_ok": lo["ok"], "model_ok": L["ok"]}, rp)
        if L["ok"] and (lo["val"] or []) != L["val"]:
            return ctx.violation("%s:value" % lname, {"real": lo["val"], "model": L["val"]}, rp)
        if LEGACY_NONMINIMAL_IS_FINDING and L["nonmin"] and lo["ok"]:
            ctx.violation("%s:non-minimal-length-accepted" % lname,
                          {"bytes_from_offset": path_bytes(path, si), "value": lo["val"]}, rp)


def path_bytes(path, si):
    off = path["init"]["off"] if si == 0 else path["steps"][si - 1]["to"]["off"]
    return cd.hx(path["init"]["buf"][off:off + 12])


def check_write(ctx, path, si, act, to, o):
    t = act["t"]
    rp = replay_obj(path, si)
    if o.get("panic"):
        return ctx.violation("Write%s:panic" % t, o["panic"], rp)
    if (o.get("sink") or []) != to["sink"]:
        return ctx.violation("Write%s:bytes" % t, {"real": cd.hx(o.get("sink") or []), "model": cd.hx(to["sink"])}, rp)
    if t in ("VarUint", "VarBytes", "String") and o["size"] != act["res"]["size"]:
        return ctx.violation("Write%s:size" % t, {"real": o["size"], "model": act["res"]["size"]}, rp)
    if o.get("legerr") or (o.get("legsink") or []) != to["sink"]:
        return ctx.violation("serialization.Write%s:bytes" % t, {"real": cd.hx(o.get("legsink") or []), "model": cd.hx(to["sink"]),
                                                                  "err": o.get("legerr")}, rp)
    items = to["items"]
    rb = o.get("rb") or []
    if len(rb) != len(items):
        return ctx.infra("read-back produced %d results for %d items" % (len(rb), len(items)))
    for it, r, lg in zip(items, rb, o.get("legrb") or [None] * len(items)):
        if r.get("panic") or r["eof"] or r["irr"] or (r["val"] or []) != it["v"]:
            return ctx.violation("roundtrip:%s" % it["t"], {"written": it["v"], "read": r}, rp)
        if lg is not None and (lg.get("panic") or not lg["ok"] or (lg["val"] or []) != it["v"]):
            return ctx.violation("roundtrip:serialization.%s" % lg["name"], {"written": it["v"], "read": lg}, rp)
    if o["off"] != o["len"] or o["len"] != len(to["sink"]):
        ctx.violation("roundtrip:trailing-bytes", {"off": o["off"], "len": o["len"]}, rp)


def run(ctx):
    cd.apply_replay(ctx)
    binary = ctx.go_test_bin("common", harness="b_codecA_common")
    stats = {"reader_edges": 0, "writer_edges": 0, "paths": 0, "steps": 0, "trace_events": 0, "traces": 0}
    drift = []
    ops_seen = set()
    cfgs = [("ZeroCopy_C18t.cfg" if ctx.thorough else "ZeroCopy_C18.cfg", "all")]
    for cfg, what in cfgs:
        r = cd.run_tlc(ctx, "ZeroCopy_MC", cfg, what)
        if not r or not binary:
            continue
        edges = edges_of(r)
        inits = r.prints.get("INIT", [])
        stats["writer_edges"] = sum(1 for e in edges if e["act"]["name"] == "Write")
        stats["reader_edges"] = len(edges) - stats["writer_edges"]
        paths, ncov = ctx.cover(edges, inits, max_len=12)
        if ncov != len({(vf.canon(e["from"]), vf.canon(e["act"]), vf.canon(e["to"])) for e in edges}):
            ctx.infra("%s: cover reached %d edges only" % (what, ncov))
        ctx.log("%s cover: %d paths, %d steps, %d edges" % (what, len(paths), sum(len(p["steps"]) for p in paths), ncov))
        inp = {"paths": [{"buf": p["init"]["buf"], "spare": p["init"]["spare"], "steps": [{k: v for k, v in s["act"].items() if k in ("name", "n", "t", "v")}
                                                               for s in p["steps"]]} for p in paths]}
        res = cd.run_harness(ctx, binary, "TestVerifZCReplay", inp, "zc-" + what)
        if res is None:
            continue
        expected = sum(len(p["steps"]) for p in paths)
        if len(res) != expected:
            ctx.infra("replay produced %d observations, expected %d" % (len(res), expected))
            continue
        for o in res:
            p = paths[o["p"]]
            s = p["steps"][o["s"]]
            ops_seen.add(s["act"]["name"] if s["act"]["name"] != "Write" else "Write" + s["act"]["t"])
            if s["act"]["name"] == "Write":
                check_write(ctx, p, o["s"], s["act"], s["to"], o)
            elif s["act"]["name"] in ("SinkReset", "SinkBackUp"):
                if o.get("panic"):
                    ctx.violation("%s:panic" % s["act"]["name"], o["panic"], replay_obj(p, o["s"]))
                elif (o.get("sink") or []) != s["to"]["sink"]:
                    ctx.violation("%s:bytes" % s["act"]["name"], {"real": cd.hx(o.get("sink") or []), "model": cd.hx(s["to"]["sink"])},
                                  replay_obj(p, o["s"]))
            else:
                check_read(ctx, p, o["s"], s["act"], o, drift)
        stats["paths"] += len(paths)
        stats["steps"] += expected
        if paths:
            ctx.samples.append({"replayed_path": cd.hx(paths[len(paths) // 2]["init"]["buf"][:16]),
                                "calls": [[s["act"]["name"], s["act"].get("n", 0)] for s in paths[len(paths) // 2]["steps"][:6]]})
    required = {"NextByte", "NextBool", "NextUint16", "NextUint32", "NextUint64", "NextVarUint", "NextVarBytes", "NextString",
                "NextAddress", "NextHash", "NextI128", "NextBytes", "Skip", "BackUp", "ReadVarBytes", "ReadVarUint",
                "WriteVarUint", "WriteVarBytes", "WriteBool", "WriteUint64", "WriteAddress", "WriteHash", "SinkReset", "SinkBackUp"}
    if binary and required - ops_seen:
        ctx.infra("vacuous: calls never replayed: %s" % sorted(required - ops_seen))
    if drift:
        ctx.infra("model drift (fields outside the property differ from the code as modelled): %d cases, first %s" % (len(drift), drift[:3]))

    # code -> spec: random buffers and call sequences validated by TLC
    if binary:
        ntr, nst, maxlen = (400, 40, 64) if ctx.thorough else (40, 25, 48)
        fout = os.path.join(ctx.scratch, "zc-trace.ndjson")
        fin = os.path.join(ctx.scratch, "zc-trace.in.json")
        vf.write_json(fin, {"ntraces": ntr, "nsteps": nst, "maxlen": maxlen})
        rc, _ = ctx.run_bin(binary, "TestVerifZCTrace", env={"VERIF_IN": fin, "VERIF_OUT": fout})
        if rc != 0:
            ctx.infra("trace driver failed rc=%s" % rc)
        else:
            v = cd.trace_check(ctx, "ZeroCopy_Trace", fout, "C18")
            stats["trace_events"], stats["traces"] = v["total"], ntr
            ctx.log("trace validation: %d/%d events matched" % (v["matched"], v["total"]))
            self_test(ctx, fout)
            ctx.samples.append({"trace_events": vf.read_ndjson(fout)[1:3]})

    ctx.finish("model_checking", {
        "states": ctx.stats["states"], "transitions": ctx.stats["transitions"],
        "traces_validated_against_impl": stats["paths"] + stats["traces"],
        "replayed_steps": stats["steps"], "reader_edges": stats["reader_edges"], "writer_edges": stats["writer_edges"],
        "trace_events": stats["trace_events"], "calls_replayed": sorted(ops_seen),
        "constants": {"alphabet": [0, 1, 252, 253, 254, 255], "max_short_len": 4 if ctx.thorough else 2, "max_calls": 3},
        "exhaustive": True,
    }, ["byte counts >= 2^24 are one model value HUGE; the harness tries 8 concrete counts for it (2^24 .. 2^64-1, including the "
        "ones that overflow off+n) and requires one common outcome",
        "BackUp(n) is offered only within its documented contract n <= off",
        "sinks are fresh or created over 48 stale bytes (0xFF / 0x02), and reused after Reset() / BackUp(last item); every Write* call is replayed on each",
        "values returned together with an eof/irregular indication are compared as model drift (exit 2), not as property violations",
        "legacy common/serialization readers are modelled as coded (named deviation LegacyMinimalCheck = FALSE)"])


def self_test(ctx, trace_path):
    """binding self-test: a flipped irregular flag and a dropped event must be rejected"""
    ev = vf.read_ndjson(trace_path)[:260]
    idx = next((i for i, e in enumerate(ev) if e.get("event") == "NextVarUint" and not e["eof"] and i + 1 < len(ev)), None)
    idx2 = next((i for i, e in enumerate(ev) if e.get("event") in ("NextUint16", "NextByte", "NextUint32") and not e["eof"]
                 and i + 1 < len(ev) and ev[i + 1].get("event") not in ("Reset", "Skip", "NextBytes", "BackUp")
                 and not ev[i + 1].get("eof", True)), None)
    if idx is None or idx2 is None:
        ctx.infra("binding self-test: no suitable event in trace")
        return
    bad1 = [dict(e) for e in ev]
    bad1[idx]["irr"] = not bad1[idx]["irr"]
    bad2 = ev[:idx2] + ev[idx2 + 1:]
    for name, t in (("corrupt", bad1), ("drop", bad2)) if ctx.thorough else (("corrupt", bad1),):
        p = os.path.join(ctx.scratch, "selftest-%s.ndjson" % name)
        cd.write_ndjson(p, t)
        v = ctx.trace_validate("ZeroCopy_Trace", p)
        if v["accepted"]:
            ctx.infra("binding self-test: %s trace was accepted" % name)
