"""Shared machinery for C07 (spec/EvmTx.tla): EIP-155 transactions conserve ONG and advance the nonce by one."""
import json
import os

import vf

PKG = "core/store/ledgerstore"
HARNESS = "b_exec_ledger"
TARGETS = ["R", "NEW", "FWD", "SDO", "SDS", "STO", "REV", "LOOP", "DD2", "DD0", "DDS", "DRD", "RW"]
NEVER_OK = ("REV", "LOOP", "RW")
BURNERS = ("SDS", "DDS")
BURN_KEY = "SELFDESTRUCT:self-beneficiary:balance-burnt"


def build(ctx):
    return ctx.go_test_bin(PKG, harness=HARNESS, hide_own_tests=True)


def model_check(ctx, cfg, workers=1, timeout=1200):
    r = ctx.tlc("EvmTx_MC", cfg=cfg, workers=workers, timeout=timeout)
    if r.status != "ok":
        ctx.infra("TLC did not verify %s: status=%s violated=%s %s" % (cfg, r.status, r.violated, r.errors[:2]))
        return None
    edges = r.prints.get("EDGE", [])
    inits = r.prints.get("INIT", [])
    ctx.log("TLC %s: %d generated, %d distinct, depth %d, %d edges, %.1fs" % (cfg, r.generated, r.distinct, r.depth, len(edges), r.wall))
    return r, edges, inits


def candidate_check(ctx, cfg):
    """C07 as written forbids any loss of ONG.  On the model of the code as it is TLC must produce the candidate
    counterexample (a call into a contract that self-destructs to itself); it is then looked for on the real code."""
    r = ctx.tlc("EvmTx_MC", cfg=cfg, workers=max(2, vf.NCPU // 2), timeout=900)
    if r.status != "violation" or r.violated != "NoBurn":
        ctx.infra("NoBurn was expected to be refuted on the as-coded model (status=%s violated=%s)" % (r.status, r.violated))
        return False
    ctx.log("TLC %s: candidate counterexample to NoBurn found after %d states (SELFDESTRUCT with itself as beneficiary)" % (cfg, r.generated))
    return True


def scenarios_from_edges(edges, rng, per_group=40):
    """one real transaction per distinct class (target, nonce delta, gas-limit class, gas price, value, balance class)"""
    classes = {}
    for e in edges:
        a = e["act"]
        b = e["from"]["bal"][a["s"]]
        cost = a["gl"] * a["gp"] + a["v"]
        bc = "zero" if b == 0 else ("lt" if b < cost else "ge")
        for c in {bc, "zero", "ge"} | ({"lt"} if cost > 0 else set()):   # the model's balance is one point; every balance class is run
            key = (a["to"], a["nd"], a["gl"], a["gp"], a["v"], c)
            classes.setdefault(key, 0)
            classes[key] += 1
    keys = sorted(classes)
    rng.shuffle(keys)
    groups = []
    for i in range(0, len(keys), per_group):
        txs = []
        for (to, nd, gl, gp, v, bc) in keys[i:i + per_group]:
            txs.append({"s": "S", "to": to, "nd": nd, "glmode": {0: "below", 1: "exact"}.get(gl, "plus"), "gl": 0 if gl < 3 else 100000,
                        "gp": gp, "v": v * 1000, "class": bc, "tag": "mc"})
        groups.append({"fund": {"S": 1000000, "S2": 0, "SDS": 700, "SDO": 700, "DD2": 2500, "DDS": 2500, "DRD": 1500}, "txs": txs})
    return groups, len(keys)


def random_groups(rng, ngroups, ntx):
    groups = []
    for g in range(ngroups):
        fund = {"S": rng.choice([0, 50000, 1000000, 3000000]), "S2": rng.choice([0, 30000, 500000])}
        for c in ("SDS", "SDO", "FWD", "STO", "DD2", "DD0", "DDS", "DRD", "RW"):
            if rng.random() < 0.5:
                fund[c] = rng.randrange(1, 5000)
        txs = []
        for i in range(ntx):
            to = rng.choice(TARGETS + ["B", "SDS", "SDO", "FWD", "DD2", "DD2", "DDS", "DRD", "DD0"])
            t = {"s": rng.choice(["S", "S", "S2"]), "to": to, "nd": 0 if rng.random() < 0.85 else rng.choice([-1, 1, 2]),
                 "glmode": rng.choice(["below", "exact", "plus", "plus", "plus", "abs"]), "gl": rng.choice([0, 1, 700, 2300, 9000, 30000, 60000, 150000]),
                 "gp": rng.choice([0, 1, 1, 2, 3]), "v": rng.choice([0, 0, 1, 999, 5000, 200000]), "tag": "rnd"}
            if t["glmode"] == "abs":
                t["gl"] = rng.choice([0, 20999, 21000, 21001, 52999, 53000, 54000, 80000])
            if to == "NEW" and rng.random() < 0.5:
                t["data"] = "".join("%02x" % rng.randrange(256) for _ in range(rng.randrange(1, 40)))
            if rng.random() < 0.12:
                t["setbal"] = rng.choice([0, 1, 20999, 21000, 42000, 100000, 2000000])
            txs.append(t)
        groups.append({"fund": fund, "txs": txs})
    return groups


def run_groups(ctx, binary, groups, tag):
    fin = os.path.join(ctx.scratch, "evmtx-%s.in.json" % tag)
    fout = os.path.join(ctx.scratch, "evmtx-%s.ndjson" % tag)
    vf.write_json(fin, {"senders": ["S", "S2"], "groups": groups})
    rc, out = ctx.run_bin(binary, "TestVerifEvmTx", env={"VERIF_IN": fin, "VERIF_OUT": fout}, timeout=3000)
    if rc != 0:
        ctx.infra("evmtx harness failed rc=%s" % rc)
        return None
    return fout


def diagnose(prev, e):
    to = e.get("to")
    if e["event"] == "Rejected":
        return "rejected-tx:state-changed" if (e["changed"] or e["bal"] != prev["bal"] or e["nonce"] != prev["nonce"]) else "rejected-tx:unexplained"
    s = e["s"]
    if e["nd"] != 0:
        return "applied-tx:wrong-nonce-accepted:delta%+d" % e["nd"]
    dn = e["nonce"][s] - prev["nonce"][s]
    if dn != 1 or any(e["nonce"][x] != prev["nonce"][x] for x in e["nonce"] if x != s):
        return "applied-tx:%s:nonce-step-%d" % (to, dn)
    tot = sum(e["bal"].values()) + e["burnt"] - sum(prev["bal"].values()) - prev["burnt"]
    if tot != 0:
        return "applied-tx:%s:ong-moved-to-or-from-an-untracked-account" % to
    db = e["burnt"] - prev["burnt"]        # burnt = initial sum of ALL ONG balance entries - current sum
    if db < 0:
        return "applied-tx:%s:ong-created-from-nothing" % to
    if db > 0 and not (to in BURNERS and e["ok"]):
        return "applied-tx:%s:ong-lost" % to
    if prev["bal"][s] - e["bal"][s] > e["gl"] * e["gp"] + e["v"]:
        return "applied-tx:%s:charged-more-than-gaslimit*price+value" % to
    if to != "FEE" and e["bal"]["FEE"] - prev["bal"]["FEE"] != e["used"] * e["gp"]:
        return "applied-tx:%s:fee-differs-from-gas-used*price" % to
    if db > 0:
        return "applied-tx:%s:burnt-amount-differs-from-contract-balance" % to
    return "applied-tx:%s:unexplained" % to


def trace_check(ctx, trace_path, what="C07"):
    ev = vf.read_ndjson(trace_path)
    counts = {}
    prev = None
    for i, e in enumerate(ev):
        if e.get("frac"):
            ctx.infra("amounts that are not whole gwei at event %d: %s" % (i + 1, e["frac"]))
            return None, counts
        if e["event"] in ("Applied", "Rejected"):
            k = "%s/%s/%s" % (e["event"], e["to"], "ok" if e["ok"] else "fail")
            counts[k] = counts.get(k, 0) + 1
            # the known-finding candidate: ONG leaves all balances in a successful call of the self-destruct-to-self contract
            if e["event"] == "Applied" and e["burnt"] > prev["burnt"] and e["to"] in BURNERS and e["ok"]:
                ctx.violation(BURN_KEY, {"event_index": i + 1, "burnt_gwei": e["burnt"] - prev["burnt"], "to": e["to"], "contract_balance_before": prev["bal"]["SDS"],
                                         "value": e["v"]}, {"trace_prefix": ev[max(0, i - 3):i + 1]})
        prev = e
    v = ctx.trace_validate("EvmTx_Trace", trace_path, timeout=1800)
    r = v["result"]
    if r.status == "violation":
        k = min(v["matched"], len(ev) - 1)
        j = k - 1
        ctx.violation("trace:" + diagnose(ev[j], ev[k]) + ":property-" + str(r.violated), {"matched": v["matched"], "event": ev[k], "before": ev[j]},
                      {"trace_prefix": ev[max(0, k - 6):k + 1]})
    elif not v["accepted"]:
        errs = " ".join(r.errors)
        if r.status == "timeout" or v["matched"] < 1 or (r.errors and "ostcondition" not in errs):
            ctx.infra("evmtx trace validation failed to run: status=%s %s" % (r.status, r.errors[:3]))
        else:
            i = v["matched"]
            ctx.violation(diagnose(ev[i - 1], ev[i]), {"unexplained_event_index": i + 1, "event": ev[i], "before": {"bal": ev[i - 1]["bal"], "nonce": ev[i - 1]["nonce"]}},
                          {"trace_prefix": ev[max(0, i - 6):i + 1]})
    return v, counts


def self_test(ctx, trace_path):
    ev = vf.read_ndjson(trace_path)
    idx = next((i for i in range(2, len(ev) - 1) if ev[i]["event"] == "Applied" and ev[i]["used"] > 0 and ev[i]["gp"] > 0 and ev[i + 1]["event"] != "Reset"), None)
    if idx is None:
        ctx.infra("binding self-test: no charged applied transaction in the trace")
        return False
    end = next((i for i in range(idx + 1, len(ev)) if ev[i]["event"] == "Reset"), len(ev))
    bad1 = json.loads(json.dumps(ev[:end]))
    bad1[idx]["nonce"][bad1[idx]["s"]] += 1          # nonce advanced by two
    bad2 = json.loads(json.dumps(ev[:end]))
    for j in range(idx, end):
        bad2[j]["bal"]["R"] += 1                      # one gwei from nowhere
    bad3 = ev[:idx] + ev[idx + 1:end]
    ok = True
    for name, tr in (("nonce", bad1), ("mint", bad2), ("drop", bad3)):
        p = os.path.join(ctx.scratch, "evmtx-selftest-%s.ndjson" % name)
        with open(p, "w") as f:
            for x in tr:
                f.write(json.dumps(x) + "\n")
        v = ctx.trace_validate("EvmTx_Trace", p, timeout=900)
        if v["accepted"]:
            ok = False
            ctx.infra("binding self-test: %s trace was accepted" % name)
    return ok


REFUND_KEY = "height-13920628:adjusted-gas-refund-mints-ong-on-non-mainnet-chain"


def refund_height_probe(ctx, binary):
    """state_transition.go:handleGasFee credits RefundValue to a sender whose balance did not cover gasLimit*gasPrice when
    the block number is 13920628, on every chain id.  One real transaction at that height; any ONG appearing from
    nowhere contradicts C07's 'total unchanged on non-mainnet chain ids'."""
    groups = [{"fund": {"S": 1000000, "S2": 0}, "txs": [
        {"s": "S", "to": "R", "nd": 0, "glmode": "plus", "gl": 0, "gp": 1, "v": 0, "class": "lt", "height": 13920628, "tag": "refund-height"}]}]
    tp = run_groups(ctx, binary, groups, "c07-refund")
    if not tp:
        return
    ev = vf.read_ndjson(tp)
    e = ev[-1]
    minted = [f for f in (e.get("frac") or []) if f.startswith("burnt=-")] or ([e["burnt"]] if e["burnt"] < 0 else [])
    if e["event"] == "Applied" and minted:
        ctx.violation(REFUND_KEY, {"event": {k: e[k] for k in ("s", "to", "gl", "gp", "v", "used", "ok", "height")}, "ong_created_wei": minted,
                                   "balances_not_whole_gwei": e.get("frac")}, {"groups": groups})
    else:
        ctx.log("refund-height probe: no ONG created (%s)" % e.get("frac"))
