"""C44 — contract migration and destruction move or remove all storage; destroyed addresses stay dead."""
import _kvstack as kv
import vf


def run(ctx):
    acts = ["ContractPut", "CacheCommit", "OvlCommit", "Migrate", "Destroy", "Deploy", "DeployRefused"]
    cfg = "KVStack_C44t.cfg" if ctx.thorough else "KVStack_C44.cfg"
    mc = kv.model_check(ctx, cfg, acts, workers=1)
    binary = ctx.go_test_bin("smartcontract/storage")
    paths, nsteps, ntr, nev = [], 0, 0, 0
    contracts = [[1], [2]]
    if mc and binary:
        r, edges, inits = mc
        paths, ncov = ctx.cover(edges, inits, max_len=60)
        ctx.log("cover: %d paths, %d steps, %d/%d edges" % (len(paths), sum(len(p["steps"]) for p in paths), ncov, len(edges)))
        res = kv.replay(ctx, binary, kv.KEYSEQC, contracts, True, paths, "c44")
        nsteps = kv.check_reads(ctx, kv.KEYSEQC, paths, res, with_contracts=True)
        # code -> spec: 3 contracts x 5 storage keys, random histories
        c3 = [[1], [2], [3]]
        suffixes = [[], [1], [1, 1], [1, 2], [2]]
        keyseq = sorted([c + s for c in c3 for s in suffixes])
        ntr, nst = (60, 250) if ctx.thorough else (12, 120)
        tp = kv.trace_run(ctx, binary, keyseq, c3, True, kv.TRACE_VALS, "contract", ntr, nst, "c44")
        if tp:
            v = kv.trace_check(ctx, tp, "C44")
            nev = v["total"]
            ctx.log("trace validation: %d/%d events matched" % (v["matched"], v["total"]))
            evs = vf.read_ndjson(tp)
            counts = {}
            for e in evs:
                counts[e["event"]] = counts.get(e["event"], 0) + 1
            ctx.extra["trace_event_counts"] = counts
            for need in ("Migrate", "Destroy", "DeployRefused"):
                if counts.get(need, 0) == 0:
                    ctx.infra("random driver never produced a %s event" % need)
            kv.self_test(ctx, tp)
            ctx.samples.append({"trace_event": {k: evs[5][k] for k in ("event", "c", "k", "v", "res", "readC") if k in evs[5]}})
    if paths:
        ctx.samples.append({"replayed_path": [s["act"] for s in paths[len(paths) // 2]["steps"][:10]]})
    ctx.finish("model_checking", {
        "states": ctx.stats["states"], "transitions": ctx.stats["transitions"],
        "traces_validated_against_impl": len(paths) + ntr, "replayed_steps": nsteps, "trace_events": nev,
        "trace_event_counts": ctx.extra.get("trace_event_counts"), "exhaustive": True,
    }, ["destroyed-contract tracking is active (height above the configured tracking height)",
        "CacheDB-level binding: Migrate/Destroy are CacheDB.MigrateContractStorage/CleanContractStorage; deploy refusal is read through CacheDB.GetContract; the NeoVM syscall path is bound by the ledger harness (C44 part 2)"])
