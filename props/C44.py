"""C44 — contract migration and destruction move or remove all storage; destroyed addresses stay dead."""
import _kvstack as kv
import vf


CONTRACT_ACTS = ("ContractPut", "Migrate", "Destroy", "Deploy", "DeployRefused", "MarkDestroyed", "PutRefused")


def segment(path):
    """cut a model path into transactions and block commits; returns (segments, expected model state after each).
    Inside a script, Contract.Create for a DESTROYED address is an error that aborts the whole transaction
    (for a merely deployed address it is a silent no-op): such a transaction is expected to fail and to leave the
    state it started from, and the path is cut there (the model continued as if the refusal were silent)."""
    segs, exp, cur = [], [], []
    state = path["init"]
    tx_start = path["init"]
    aborts = False
    for st in path["steps"]:
        n = st["act"]["name"]
        if n in CONTRACT_ACTS:
            if not cur:
                tx_start = state
            if n == "DeployRefused" and st["act"]["c"] in state["destroyed"]:
                aborts = True
            if n == "PutRefused":
                aborts = True       # APPCALL of an address that is not a live contract faults the transaction
            cur.append(st["act"])
        elif n in ("CacheCommit", "CacheReset"):
            if cur:
                alone_deploy = len(cur) == 1 and cur[0]["name"] in ("Deploy", "DeployRefused") and n == "CacheCommit"
                if aborts and not alone_deploy:
                    segs.append({"tx": {"acts": cur, "end": n}})
                    exp.append((tx_start, cur, "Aborted"))
                    return segs, exp
                segs.append({"tx": {"acts": cur, "end": n}})
                exp.append((st["to"], cur, n))
            cur, aborts = [], False
        elif n == "OvlCommit":
            segs.append({"commit": True})
            exp.append((st["to"], None, n))
        state = st["to"]
    return segs, exp   # trailing actions without a closing CacheCommit/CacheReset are dropped


def neo_binding(ctx):
    """C44 through the real call sites (tx_handler.go, neovm/contract.go) on a real ledger state store"""
    r = ctx.tlc("KVStack_MC", cfg="KVStack_C44n.cfg", workers=1, timeout=1800)
    if r.status != "ok":
        ctx.infra("TLC did not verify KVStack_C44n.cfg: %s %s" % (r.status, r.errors[:2]))
        return (0, 0, {})
    edges, inits = r.prints.get("EDGE", []), r.prints.get("INIT", [])
    paths, ncov = ctx.cover(edges, inits, max_len=40)
    segd = [segment(p) for p in paths]
    keep = [(p, s, e) for p, (s, e) in zip(paths, segd) if s]
    # de-duplicate identical segment lists
    seen, uniq = set(), []
    for p, s, e in keep:
        k = vf.canon(s)
        if k not in seen:
            seen.add(k)
            uniq.append((p, s, e))
    if not ctx.thorough:
        uniq = uniq[: 1500]
    ctx.log("ledger-level binding: %d edges, %d cover paths, %d distinct transaction scripts" % (len(edges), len(paths), len(uniq)))
    binary = ctx.go_test_bin("core/store/ledgerstore", harness="b_exec_ledger", hide_own_tests=True, name="c44neo")
    if not binary:
        return (0, 0, {})
    import os
    fin, fout = os.path.join(ctx.scratch, "neo.in.json"), os.path.join(ctx.scratch, "neo.out.ndjson")
    vf.write_json(fin, {"keyseq": kv.KEYSEQC, "contracts": [[1], [2]], "paths": [s for _, s, _ in uniq]})
    rc, out = ctx.run_bin(binary, "TestVerifC44Neo", env={"VERIF_IN": fin, "VERIF_OUT": fout}, timeout=3000)
    if rc != 0:
        ctx.infra("ledger-level harness failed rc=%s" % rc)
        return (0, 0, {})
    ntx, kinds = 0, {}
    for o in vf.read_ndjson(fout):
        p, segs, exp = uniq[o["path"]]
        to, acts, end = exp[o["seg"]]
        rp = {"segments": segs[: o["seg"] + 1]}
        names = "+".join(a["name"] for a in acts) if acts else "OvlCommit"
        kinds[o["kind"]] = kinds.get(o["kind"], 0) + 1
        ntx += 1
        if o.get("err"):
            ctx.violation("neo:%s:error" % names, o["err"], rp)
            continue
        want_state = -1 if acts is None else (1 if end == "CacheCommit" else 0)   # "CacheReset" and "Aborted" fail
        if acts is not None and len(acts) == 1 and acts[0]["name"] == "DeployRefused" and o["kind"] == "deploytx":
            want_state = 0      # a deploy transaction for a deployed / destroyed address must fail
        bad = None
        if o["state"] != want_state:
            bad = ("tx-state", {"real": o["state"], "model": want_state, "handler_error": o.get("note")})
        elif o["read"] != to["flatO"]:
            bad = ("storage", {"real": o["read"], "model": to["flatO"]})
        elif sorted(o["deployed"]) != sorted(to["metaO"][0]):
            bad = ("deployed-set", {"real": o["deployed"], "model": to["metaO"][0]})
        elif sorted(o["destroyed"]) != sorted(to["metaO"][1]):
            bad = ("destroyed-set", {"real": o["destroyed"], "model": to["metaO"][1]})
        else:
            live = sorted([str(i + 1), v] for i, v in enumerate(to["flatO"]) if v != "")
            if sorted(o["iter"]) != live:
                bad = ("iterator", {"real": o["iter"], "model": live})
        if bad:
            ctx.violation("neo:%s:%s" % (names, bad[0]), bad[1], rp)
    return (len(uniq), ntx, kinds)


def run(ctx):
    acts = ["ContractPut", "CacheCommit", "OvlCommit", "Migrate", "Destroy", "Deploy", "DeployRefused", "MarkDestroyed", "PutRefused"]
    cfg = "KVStack_C44t.cfg" if ctx.thorough else "KVStack_C44.cfg"
    mc = kv.model_check(ctx, cfg, acts, workers=1)
    binary = ctx.go_test_bin("smartcontract/storage")
    paths, nsteps, ntr, nev = [], 0, 0, 0
    contracts = [[1], [2]]
    if mc and binary:
        r, edges, inits = mc
        paths, ncov = ctx.cover(edges, inits, max_len=60)
        ctx.log("cover: %d paths, %d steps, %d/%d edges" % (len(paths), sum(len(p["steps"]) for p in paths), ncov, len(edges)))
        res = kv.replay(ctx, binary, kv.KEYSEQC, contracts, True, paths, "c44")
        nsteps = kv.check_reads(ctx, kv.KEYSEQC, paths, res, with_contracts=True)
        # code -> spec: 3 contracts x 5 storage keys, random histories
        c3 = [[1], [2], [3]]
        suffixes = [[], [1], [1, 1], [1, 2], [2]]
        keyseq = sorted([c + s for c in c3 for s in suffixes])
        ntr, nst = (60, 250) if ctx.thorough else (12, 120)
        tp = kv.trace_run(ctx, binary, keyseq, c3, True, kv.TRACE_VALS, "contract", ntr, nst, "c44")
        if tp:
            v = kv.trace_check(ctx, tp, "C44")
            nev = v["total"]
            ctx.log("trace validation: %d/%d events matched" % (v["matched"], v["total"]))
            evs = vf.read_ndjson(tp)
            counts = {}
            for e in evs:
                counts[e["event"]] = counts.get(e["event"], 0) + 1
            ctx.extra["trace_event_counts"] = counts
            for need in ("Migrate", "Destroy", "DeployRefused", "MarkDestroyed", "PutRefused"):
                if counts.get(need, 0) == 0:
                    ctx.infra("random driver never produced a %s event" % need)
            kv.self_test(ctx, tp)
            ctx.samples.append({"trace_event": {k: evs[5][k] for k in ("event", "c", "k", "v", "res", "readC") if k in evs[5]}})
    nneo = neo_binding(ctx)
    if paths:
        ctx.samples.append({"replayed_path": [s["act"] for s in paths[len(paths) // 2]["steps"][:10]]})
    ctx.finish("model_checking", {
        "states": ctx.stats["states"], "transitions": ctx.stats["transitions"],
        "traces_validated_against_impl": len(paths) + ntr + nneo[0], "replayed_steps": nsteps, "trace_events": nev,
        "trace_event_counts": ctx.extra.get("trace_event_counts"), "exhaustive": True,
        "ledger_level_paths": nneo[0], "ledger_level_transactions": nneo[1], "ledger_level_kinds": nneo[2],
    }, ["destroyed-contract tracking is active (height above the configured tracking height)",
        "CacheDB-level binding: Migrate/Destroy are CacheDB.MigrateContractStorage/CleanContractStorage; deploy refusal is read through CacheDB.GetContract; the same contract actions are also replayed through HandleDeployTransaction / HandleInvokeTransaction -> NeoVM Contract.Create/Migrate/Destroy and Storage.Put on a real ledger state store (neo_binding)"])
