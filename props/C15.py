"""C15 — contract execution results do not depend on Go map iteration order."""
import json

import _neovm as nv
import vf

MAP_CONSUMERS = ["keys", "values", "keysser", "valuesser"]
ALL_CONSUMERS = ["ser", "serdeser", "native", "notify", "equal", "unpack", "size"]
DEAD = ("crash", "stack-overflow", "oom", "timeout")


def klass(r):
    if r.get("wide"):
        return "map-of-%d-entries" % r["wide"]
    if r["cyc"]:
        return nv.shape_class(r)
    if not r["within"]:
        return "acyclic-beyond-depth-limit" + (":through-map" if any(c["kind"] == "map" and c["slots"] for c in r["cells"]) else "")
    return "acyclic"


def run(ctx):
    fams = [("nc2", {}), ("chain", {"NC": "13" if ctx.thorough else "11", "HeapMode": '"chain"', "ChainLens": "{9, 10, 11, 12, 13}" if ctx.thorough else "{10, 11}"})]
    if ctx.thorough:
        fams.insert(1, ("nc3", {"NC": "3"}))
    rows = {}
    stats = {}
    for name, consts in fams:
        r, heaps, _ = nv.tlc_rows(ctx, "NeoVM_C15.cfg", consts or None, workers=None)
        if r.status != "ok":
            ctx.infra("TLC did not verify OrderFree on the design model (%s): %s %s %s" % (name, r.status, r.violated, r.errors[:2]))
            continue
        stats[name] = {"distinct": r.distinct, "generated": r.generated, "heaps": len(heaps), "wall": round(r.wall, 1)}
        ctx.log("TLC design %s: %d states, %d heaps; the model has ONE outcome per heap for every map-iteration choice (%.0fs)" % (name, r.distinct, len(heaps), r.wall))
        for h in heaps:
            if all(c["kind"] in ("arr", "map") for c in h["cells"]):     # faithfully buildable by SETITEM (no struct clone)
                rows[vf.canon(h["cells"])] = h
    binary = ctx.go_test_bin("smartcontract/test", harness="b_neovm_sc")
    if not rows or not binary:
        return finish(ctx, stats, 0, {})
    allrows = sorted(rows.values(), key=lambda r: vf.canon(r["cells"]))
    if ctx.replay_in:
        rp = json.load(open(ctx.replay_in))["replay"]
        keep = {vf.canon(c) for c in rp.get("cells", [])}
        allrows = [r for r in allrows if vf.canon(r["cells"]) in keep] or allrows

    # ---- programs
    reps = 50 if ctx.thorough else 25
    progs, slow, skipped = [], [], 0
    for r in allrows:
        cons = list(ALL_CONSUMERS) + (MAP_CONSUMERS if r["cells"][0]["kind"] == "map" else [])
        if len(r["cells"]) > 3:      # chains: the operations that walk the whole value
            cons = [c for c in cons if c in ("ser", "serdeser", "native", "notify", "valuesser")]
        a = r["asis"]
        for c in cons:
            if c == "native" and "diverge" in a["nat"]:
                skipped += 1            # dies on the unrepaired code: that is C12's subject, not an order question
                continue
            p = {"row": r, "cons": c, "hex": nv.program(r["cells"], c).hex()}
            if c in ("ser", "serdeser", "keysser", "valuesser") and "errsize" in a["ser"]:
                slow.append(p)
            else:
                progs.append(p)
    # wide maps (python-generated family; the model's statement is the same: sorted key order at ANY size):
    # maps of MAX_ARRAY_SIZE-2 .. MAX_ARRAY_SIZE+3 entries built with SETITEM, then serialized / listed
    if not ctx.replay_in:
        for n in ((1022, 1023, 1024, 1025, 1026, 1027, 1100, 2049) if ctx.thorough else (1023, 1024, 1025, 1026, 1027)):
            code = nv.op("NEWMAP") + b"".join(nv.op("DUP") + nv.push_int(k) + nv.push_int(1) + nv.op("SETITEM") for k in range(1, n + 1))
            wrow = {"cells": [{"kind": "map", "slots": [0, 0]}], "cyc": False, "within": True, "wide": n,
                    "asis": {"ser": ["ok"], "nat": ["err"], "det": [False]}}
            for c in ("ser", "serdeser", "keysser", "valuesser"):
                progs.append({"row": wrow, "cons": c, "hex": (code + nv.CONSUMERS[c]()).hex()})
    n_slow = 60 if ctx.thorough else 12
    slow = ctx.rng.sample(slow, min(len(slow), n_slow))
    items = []
    for p in progs:
        p["id"] = len(items)
        # a heap without a map of two entries has no iteration order to depend on: control runs only
        has_map = any(c["kind"] == "map" and len(c["slots"]) > 1 for c in p["row"]["cells"])
        items.append({"id": p["id"], "hex": p["hex"], "preexec": False, "gas": 200000, "reps": reps if has_map else 3})
    for p in slow:
        p["id"] = len(items)
        items.append({"id": p["id"], "hex": p["hex"], "preexec": False, "gas": 200000, "reps": 2})
    byid = {p["id"]: p for p in progs + slow}
    nprocs = 4 if ctx.thorough else 3
    per_prog = {}
    total_runs = 0
    import concurrent.futures
    with concurrent.futures.ThreadPoolExecutor(max_workers=nprocs) as ex:      # separate processes: separate Go map hash seeds
        futs = [ex.submit(nv.run_children_parallel, ctx, binary, "TestVerifPrograms", items, "proc%d" % k, 300,
                          max(2, vf.NCPU // nprocs), 8, "items", None, "run") for k in range(nprocs)]
        for k, f in enumerate(futs):
            res, deaths = f.result()
            for o in res:
                per_prog.setdefault(o["id"], []).append(o)
                total_runs += o.get("runs", 0)
            ctx.log("process group %d: %d programs answered, %d child deaths" % (k, len(res), deaths))
    # ---- oracle: one property-level observation per program over all runs in all processes
    viol = {}
    drift = 0
    for pid, outs in per_prog.items():
        p = byid[pid]
        r = p["row"]
        keys = set()
        for o in outs:
            if o["out"] in DEAD:
                keys.add("DEAD:" + o["out"])
            else:
                keys.update(o["keys"])
        if len(keys) > 1:
            k = "%s:%s:order-dependent-result" % (p["cons"], klass(r))
            viol.setdefault(k, []).append((p, sorted(keys)))
        elif p["cons"] == "ser" and r["within"] and not r.get("wide") and outs and outs[0]["out"] == "ok":
            want = "true|0:%s|null|" % bytes(r["bytes"]).hex()
            if list(keys)[0] != want:
                drift += 1
                if drift <= 3:
                    ctx.infra("MODEL-DRIFT: program result %s differs from the model's serialization %s for heap {%s}" % (list(keys)[0][:200], want[:200], nv.heap_text(r)))
    missing = [pid for pid in byid if pid not in per_prog]
    if missing:
        ctx.infra("%d programs were not answered" % len(missing))
    for k in sorted(viol):
        p, keys = viol[k][0]
        r = p["row"]
        ctx.violation(k, "program build{%s}+%s gives %d different results over %d runs in %d processes: %s; as-coded model predicts Serialize outcomes %s; %d program(s) of this class"
                      % (("map of %d entries" % r["wide"]) if r.get("wide") else nv.heap_text(r), p["cons"], len(keys), reps, nprocs, [x[:80] for x in keys][:3], r["asis"]["ser"], len(viol[k])),
                      {"cells": [x[0]["row"]["cells"] for x in viol[k][:10]], "consumer": p["cons"], "hex": p["hex"]})
    if progs:
        p = progs[len(progs) // 2]
        ctx.samples.append({"program": p["hex"], "heap": nv.heap_text(p["row"]), "consumer": p["cons"], "observations": per_prog.get(p["id"], [{}])[0].get("keys")})
    for k in list(viol)[:2]:
        p, keys = viol[k][0]
        ctx.samples.append({"finding": k, "heap": nv.heap_text(p["row"]), "program": p["hex"], "results": [x[:100] for x in keys]})
    predicted = sum(1 for r in allrows if len(r["asis"]["ser"]) > 1 or len(r["asis"]["nat"]) > 1 or len(r["asis"]["det"]) > 1)
    return finish(ctx, stats, total_runs, {
        "heaps": len(allrows), "programs": len(items), "runs_per_program": reps * nprocs, "processes": nprocs,
        "slow_programs_sampled": len(slow), "programs_skipped_fatal_on_unrepaired_code": skipped,
        "heaps_order_dependent_in_as_coded_model": predicted, "finding_classes": {k: len(v) for k, v in viol.items()},
    })


def finish(ctx, stats, n, extra):
    cov = {"states": ctx.stats["states"], "transitions": ctx.stats["transitions"], "traces_validated_against_impl": n, "tlc_runs": stats}
    cov.update(extra)
    ctx.finish("model_checking", cov, [
        "programs: heaps of array/map cells built with NEWARRAY/NEWMAP/SETITEM followed by one consuming operation; struct cells are excluded (SETITEM clones them)",
        "observables compared: success/failure, returned value, notifications, write set (error text and gas are recorded but not compared)",
        "fresh engine and fresh in-memory store per run; each program is run in several processes (Go seeds map iteration per process and per map)",
    ])
