"""C07 — EVM transactions conserve ONG and advance the sender nonce by one (spec/EvmTx.tla)."""
import threading

import _evmtx as ev


def run(ctx):
    box = {}
    tb = threading.Thread(target=lambda: box.__setitem__("bin", ev.build(ctx)))
    tb.start()
    mc = ev.model_check(ctx, "EvmTx_C07.cfg")                     # depth 1 with edge export: the transaction classes
    ev.model_check(ctx, "EvmTx_C07d.cfg", workers=max(2, ev.vf.NCPU // 2))   # depth 2, all properties
    if ctx.thorough:
        ev.model_check(ctx, "EvmTx_C07t.cfg", workers=max(2, ev.vf.NCPU // 2))
        ev.model_check(ctx, "EvmTx_C07int.cfg", workers=max(2, ev.vf.NCPU // 2))
    ev.candidate_check(ctx, "EvmTx_C07nb.cfg")
    tb.join()
    binary = box.get("bin")
    nsc = ngroups = nev = 0
    counts = {}
    if mc and binary:
        r, edges, inits = mc
        groups, nsc = ev.scenarios_from_edges(edges, ctx.rng)
        nmc = len(groups)
        ngr, ntx = (200, 40) if ctx.thorough else (30, 30)
        groups += ev.random_groups(ctx.rng, ngr, ntx)
        ngroups = len(groups)
        ctx.log("%d scenario classes from %d TLC edges in %d groups, %d random groups" % (nsc, len(edges), nmc, ngr))
        tp = ev.run_groups(ctx, binary, groups, "c07")
        if tp:
            v, counts = ev.trace_check(ctx, tp)
            if v:
                nev = v["total"]
                ctx.log("trace validation: %d/%d events matched; counts: %s" % (v["matched"], v["total"], counts))
                missing = [t for t in ev.TARGETS for o in ("ok", "fail") if "Applied/%s/%s" % (t, o) not in counts and not (t in ev.NEVER_OK and o == "ok")]
                missing += [t for t in ev.TARGETS if "Rejected/%s/fail" % t not in counts]
                if missing:
                    ctx.infra("vacuous run: transaction classes never observed on the real code: %s" % missing)
                if v["accepted"]:
                    ev.self_test(ctx, tp)
            evs = ev.vf.read_ndjson(tp)
            ctx.samples.append({"trace_event": next((e for e in evs if e["event"] == "Applied" and e["ok"] and e["to"] == "FWD"), evs[-1])})
    if binary and ctx.thorough:
        ev.refund_height_probe(ctx, binary)
    ctx.finish("model_checking", {
        "states": ctx.stats["states"], "transitions": ctx.stats["transitions"],
        "traces_validated_against_impl": ngroups, "trace_events": nev, "scenario_classes_from_tlc_edges": nsc,
        "real_transactions_by_kind": counts,
        "constants": {"cfg": "EvmTx_C07.cfg", "chain_id": 12345},
        "exhaustive": True,
    }, ["chain id 12345 (not the mainnet id 58), block height 100; transactions applied through StateStore.HandleEIP155Transaction on a transaction cache over one block overlay of a real solo ledger",
        "all amounts are whole gwei (the harness only uses gwei multiples), so the model's integers are exact",
        "contracts: hand-assembled bytecode per kind (value forwarder, SELFDESTRUCT to other/self, SSTORE, REVERT, infinite loop) plus random init code"])
