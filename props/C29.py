"""C29 — each VBFT round selects well-formed proposer / endorser / committer sets
(consensus/vbft/node_utils.go calcParticipantPeers/calcParticipant, utils.go getParticipantSelectionSeed)."""
import _chaincfg as cc


def run(ctx):
    vbin = ctx.go_test_bin("consensus/vbft/config", harness="c30_vconfig")
    if not vbin:
        return ctx.finish("model_checking", {"states": 0, "transitions": 0, "traces_validated_against_impl": 0}, [])
    if ctx.replay_in:
        bbin = ctx.go_test_bin("consensus/vbft", harness="c29_vbft")
        cc.replay_file(ctx, vbin, bbin)
        return ctx.finish("model_checking", {"states": 0, "transitions": 0, "traces_validated_against_impl": 1}, ["replay only"])
    hashmod = cc.hash_module(ctx, vbin)
    cfgs = ["ChainConfig_C29at.cfg", "ChainConfig_C29bt.cfg"] if ctx.thorough else ["ChainConfig_C29a.cfg", "ChainConfig_C29b.cfg"]
    n_rp = 0
    tv = None
    per_cfg = {}
    branches = {}
    if hashmod:
        jobs = [lambda c=c: cc.model_check(ctx, c, hashmod, ["Select"], workers=1) for c in cfgs]
        def build_and_trace():
            b = ctx.go_test_bin("consensus/vbft", harness="c29_vbft")
            if not b:
                return None, None
            # code -> spec: real configurations (N up to 40, tables up to > 512 slots), real seeds
            if ctx.thorough:
                return b, cc.seed_trace(ctx, vbin, b, 40, 3000, 40, 40, [2, 3, 4, 16], 3, "c29")
            return b, cc.seed_trace(ctx, vbin, b, 8, 240, 16, 34, [2, 3, 4, 16], 3, "c29")
        jobs.append(build_and_trace)
        res = cc.parallel(jobs)
        bbin, tv = res[-1]
        for c, mc in zip(cfgs, res[:-1]):
            if not mc or not bbin:
                continue
            r, edges = mc
            n, br = cc.replay_select(ctx, bbin, edges, 3, c[12:-4])
            n_rp += n
            per_cfg[c] = {"generated": r.generated, "distinct": r.distinct, "select_edges": n, "branches": br}
            for k, v in br.items():
                branches[k] = branches.get(k, 0) + v
            if edges:
                e = edges[len(edges) // 3]
                ctx.samples.append({"edge": {"chain": e["from"]["chain"], "vrf_prefix": e["act"]["vrf"][:5], "parts": e["to"]["parts"]}})
        missing = [k for k in ("fill", "all", "cap", "table-end") if not branches.get(k)]
        if missing and n_rp:
            ctx.infra("vacuous: selection branches never exercised by the model: %s" % missing)
        if tv:
            ev = cc.vf.read_ndjson(tv["path"])
            ctx.samples.append({"trace_event": {k: (v[:8] if k == "vrf" else v) for k, v in ev[1].items()}})
    ctx.finish("model_checking", {
        "states": ctx.stats["states"], "transitions": ctx.stats["transitions"],
        "traces_validated_against_impl": n_rp + (tv["blocks"] if tv else 0),
        "select_edges_replayed_on_calcParticipantPeers": n_rp, "selection_branches": branches,
        "trace_events": tv["events"] if tv else 0, "trace_matched": tv["v"]["matched"] if tv else 0,
        "trace_max_N": tv["maxN"] if tv else 0, "trace_max_table": tv["maxTable"] if tv else 0,
        "per_cfg": per_cfg, "exhaustive": True,
    }, ["sha512 of getParticipantSelectionSeed is uninterpreted: the model is offered 64-byte seeds; the bit slicing of calcParticipant is modelled exactly",
        "domain of the property: C >= 1, N >= 3C+1, N distinct peers, position table over the configured peers (produced by GenesisChainConfig)",
        "model bounds: (N,C) in {(4,1),(5,1),(7,2),(10,1),(10,3)}, tables of 4..30 slots from GenesisChainConfig on the real shuffle hash, "
        "seeds = all 3-byte (4-byte) prefixes over a 5..8-letter byte alphabet; larger N / tables / random seeds through trace validation"])
