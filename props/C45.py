"""C45 — only an ONT ID's authorized keys or controllers can change it (spec/OntId.tla)."""
import _ontid as oi


def run(ctx):
    T = ctx.thorough
    binary = ctx.go_test_bin("smartcontract/service/native/ontid", harness="c45_ontid", hide_own_tests=True)
    # 1. the specification satisfies OnlyAuthorized, RevokedFinal, RevokedEmpty (TLC, all workers, no export)
    oi.tlc_design(ctx, "OntId_C45t.cfg" if T else "OntId_C45.cfg")
    npaths = nsteps = 0
    seen = set()
    if binary:
        runs = [("E1", "InitsAll", 1, None), ("R", "InitsAll", 1000, ("num=%d" % (60 if T else 30), 30))]
        if T:
            runs[1:1] = [("E2", "Inits1", 2, None), ("E3", "Inits2", 2, None)]
        for tag, inits, max_ops, sim in runs:
            mc = oi.tlc_export(ctx, "OntId_%s.cfg" % tag, inits, max_ops, simulate=sim[0] if sim else None, depth=sim[1] if sim else None)
            if not mc:
                continue
            r, edges, inits_ = mc
            seen |= {e["act"]["name"] for e in edges}
            paths, ncov = ctx.cover(edges, inits_, max_len=80)
            ctx.log("run %s: cover %d paths, %d steps, %d/%d edges" % (tag, len(paths), sum(len(p["steps"]) for p in paths), ncov, len(edges)))
            obs = oi.run_paths(ctx, binary, paths, tag)
            if obs:
                nsteps += oi.check(ctx, paths, obs)
                npaths += len(paths)
            if paths and len(ctx.samples) < 4:
                ctx.samples.append({"run": tag, "init": oi.which_init(paths[-1]["init"]), "replayed_path": [s["act"] for s in paths[-1]["steps"][:5]]})
        missing = [a for a in oi.ACTS if a not in seen]
        if missing:
            ctx.infra("vacuous: actions never taken in any exported run: %s" % missing)
    ctx.finish("model_checking", {
        "states": ctx.stats["states"], "transitions": ctx.stats["transitions"],
        "traces_validated_against_impl": npaths, "replayed_steps": nsteps,
        "constants": {"ids": oi.IDS, "keys": oi.KEYS, "max_keys_per_id": 2, "groups": ["{A,B} 2-of-2", "{A,B} 1-of-2"],
                      "signer_sets": "all subsets of the 3 keys", "init_states": sorted(oi.SETUPS)},
        "methods": oi.ACTS, "exhaustive": True,
    }, ["block height = config.GetNewOntIdHeight()+100 (all new-ONT-ID methods registered, version-1 key records)",
        "signer sets are installed through the transaction's SignedAddr (what CheckWitness reads); keys are ECDSA P-256",
        "group controllers/recoveries are flat groups of registered identities with threshold >= 1 (no nested groups, no threshold 0)",
        "27 of the contract's methods are modelled (service/context/proof methods and the *ByRecovery auth-key variants are not)"])
