"""C45 — only an ONT ID's authorized keys or controllers can change it (spec/OntId.tla)."""
from concurrent.futures import ThreadPoolExecutor

import _ontid as oi


def run(ctx):
    T = ctx.thorough
    # the TLC runs and the harness build are independent subprocesses: started together (ctx.stage_specs is locked)
    pool = ThreadPoolExecutor(max_workers=8)
    fbin = pool.submit(ctx.go_test_bin, "smartcontract/service/native/ontid", harness="c45_ontid", hide_own_tests=True)
    # 1. the specification satisfies OnlyAuthorized, RevokedFinal, RevokedNotRegistered, RevokedEmpty (TLC, no export)
    #    at/above the new-ONT-ID fork height and below it
    fdesign = [pool.submit(oi.tlc_design, ctx, "OntId_C45t.cfg" if T else "OntId_C45.cfg"),
               pool.submit(oi.tlc_design, ctx, "OntId_C45pret.cfg" if T else "OntId_C45pre.cfg")]
    # (tag, initial states, MaxOps, simulation, below the fork height)
    runs = [("E1", "InitsAll", 1, None, False), ("P1", "InitsPre" if T else "InitsPreQ", 1, None, True),
            ("R", "InitsAll", 1000, ("num=%d" % (60 if T else 30), 30), False)]
    if T:
        runs[2:2] = [("E2", "Inits1", 2, None, False), ("E3", "Inits2", 2, None, False), ("E4", "InitsRev", 2, None, False)]
        runs.append(("PR", "InitsPre", 1000, ("num=40", 30), True))
    fexp = [pool.submit(oi.tlc_export, ctx, "OntId_%s.cfg" % tag, inits, max_ops, simulate=sim[0] if sim else None,
                        depth=sim[1] if sim else None, pre=pre) for tag, inits, max_ops, sim, pre in runs]
    binary = fbin.result()
    npaths = nsteps = 0
    seen = set()
    regrev = {False: set(), True: set()}
    if binary:
        for (tag, inits, max_ops, sim, pre), f in zip(runs, fexp):
            mc = f.result()
            if not mc:
                continue
            r, edges, inits_ = mc
            seen |= {e["act"]["name"] for e in edges}
            paths, ncov = ctx.cover(edges, inits_, max_len=80)
            ctx.log("run %s: cover %d paths, %d steps, %d/%d edges" % (tag, len(paths), sum(len(p["steps"]) for p in paths), ncov, len(edges)))
            obs = oi.run_paths(ctx, binary, paths, tag, pre=pre)
            if obs:
                nsteps += oi.check(ctx, paths, obs, pre=pre)
                npaths += len(paths)
                regrev[pre] |= oi.reg_on_revoked(paths)
            if paths and len(ctx.samples) < 4:
                ctx.samples.append({"run": tag, "init": oi.which_init(paths[-1]["init"]), "replayed_path": [s["act"] for s in paths[-1]["steps"][:5]]})
        missing = [a for a in oi.ACTS if a not in seen]
        if missing:
            ctx.infra("vacuous: actions never taken in any exported run: %s" % missing)
        # every registration entry point must have been tried on a revoked identity, with and without witnesses,
        # on both sides of the fork height
        for pre in (False, True):
            lack = [(a, c) for a in oi.REG_ACTS for c in ("witnessed", "unwitnessed") if (a, c) not in regrev[pre]]
            if lack:
                ctx.infra("vacuous: no registration attempt on a revoked identity replayed for %s (below fork height: %s)" % (lack, pre))
    for f in fdesign + fexp:
        f.result()
    pool.shutdown()
    ctx.finish("model_checking", {
        "states": ctx.stats["states"], "transitions": ctx.stats["transitions"],
        "traces_validated_against_impl": npaths, "replayed_steps": nsteps,
        "constants": {"ids": oi.IDS, "keys": oi.KEYS, "max_keys_per_id": 2, "groups": ["{A,B} 2-of-2", "{A,B} 1-of-2"],
                      "signer_sets": "all subsets of the 3 keys", "init_states": sorted(oi.SETUPS),
                      "heights": ["new-ONT-ID fork height + 100", "fork height - 1"]},
        "registration_attempts_on_revoked_identity": {("below_fork" if k else "above_fork"): sorted("%s/%s" % t for t in v) for k, v in regrev.items()},
        "methods": oi.ACTS, "exhaustive": True,
    }, ["block height = config.GetNewOntIdHeight()+100 (all new-ONT-ID methods registered, version-1 key records), and, for the "
        "NewOntId = FALSE runs, GetNewOntIdHeight()-1 (main net id; old methods only, version-0 key records); no history crosses the fork height",
        "signer sets are installed through the transaction's SignedAddr (what CheckWitness reads); keys are ECDSA P-256",
        "group controllers/recoveries are flat groups of registered identities with threshold >= 1 (no nested groups, no threshold 0)",
        "28 of the contract's methods are modelled (service/context/proof methods and the *ByRecovery auth-key variants are not)"])
