"""Shared machinery for C45 (spec/OntId.tla): TLC runs and replay on the real ontid contract."""
import os
import vf
import _tlccache

IDS, KEYS = ["A", "B", "C"], ["k1", "k2", "k3"]
GAB2 = {"kind": "group", "id": "", "key": "", "members": ["A", "B"], "t": 2}
GAB1 = {"kind": "group", "id": "", "key": "", "members": ["A", "B"], "t": 1}
SGAB = [{"id": "A", "idx": 1}, {"id": "B", "idx": 1}]
PSG = {"kind": "sg", "cid": "", "idx": 0, "sg": SGAB}
CID_A = {"kind": "id", "id": "A", "key": "", "members": [], "t": 0}
PIDX_A = {"kind": "idx", "cid": "A", "idx": 1, "sg": []}
BASE = [dict(name="RegPk", id="A", key="k1", signers=["k1"]), dict(name="RegPk", id="B", key="k2", signers=["k2"])]
SETUPS = {
    "I0": [],
    "I1": BASE,
    "I2": BASE + [dict(name="RegCtrl", id="C", ctrl=GAB2, proof=PSG, signers=["k1", "k2"]),
                  dict(name="AddKeyByCtrl", id="C", key="k3", proof=PSG, signers=["k1", "k2"])],
    "I3": BASE + [dict(name="RegPk", id="C", key="k3", signers=["k3"]),
                  dict(name="AddKeyIdx", id="C", key="k1", idx=1, signers=["k3"]),
                  dict(name="SetRecovery", id="C", group=GAB1, idx=1, signers=["k3"]),
                  dict(name="AddAttrIdx", id="C", attr="a1", idx=1, signers=["k3"])],
    "I4": BASE + [dict(name="RegPk", id="C", key="k3", signers=["k3"]),
                  dict(name="AddRecoveryOld", id="C", key="k2", op={"form": "pk", "key": "k3"}, signers=["k3"])],
    "I6": BASE + [dict(name="RegPk", id="C", key="k3", signers=["k3"]),
                  dict(name="AddNewAuthKey", id="C", key="k1", idx=1, signers=["k3"]),
                  dict(name="RemoveKeyIdx", id="C", key="k3", idx=2, signers=["k1"])],
    "I7": BASE + [dict(name="RegPk", id="C", key="k3", signers=["k3"]),
                  dict(name="AddNewAuthKey", id="C", key="k1", idx=1, signers=["k3"]),
                  dict(name="RemoveAuthKey", id="C", target=2, idx=1, signers=["k3"])],
    "I5": BASE + [dict(name="RegCtrl", id="C", ctrl={"kind": "id", "id": "A", "key": "", "members": [], "t": 0},
                       proof={"kind": "idx", "cid": "A", "idx": 1, "sg": []}, signers=["k1"])],
    # revoked identities (set-ups use only methods that exist on both sides of the fork height)
    "I8": BASE + [dict(name="RegPk", id="C", key="k3", signers=["k3"]),
                  dict(name="AddAttrPk", id="C", attr="a1", op={"form": "pk", "key": "k3"}, signers=["k3"]),
                  dict(name="AddRecoveryOld", id="C", key="k2", op={"form": "pk", "key": "k3"}, signers=["k3"]),
                  dict(name="RevokeID", id="C", idx=1, signers=["k3"])],
    "I9": [BASE[0],
           dict(name="RegCtrl", id="B", ctrl=CID_A, proof=PIDX_A, signers=["k1"]),
           dict(name="RegPk", id="C", key="k3", signers=["k3"]),
           dict(name="RevokeByCtrl", id="B", proof=PIDX_A, signers=["k1"])],
    # below the fork height (every key record has authentication right)
    "P2": BASE + [dict(name="RegCtrl", id="C", ctrl=GAB2, proof=PSG, signers=["k1", "k2"]),
                  dict(name="AddKeyByCtrl", id="C", key="k3", proof=PSG, signers=["k1", "k2"])],
    "P3": BASE + [dict(name="RegPk", id="C", key="k3", signers=["k3"]),
                  dict(name="AddKeyPk", id="C", key="k1", op={"form": "pk", "key": "k3"}, signers=["k3"]),
                  dict(name="SetRecovery", id="C", group=GAB1, idx=1, signers=["k3"]),
                  dict(name="AddAttrPk", id="C", attr="a1", op={"form": "pk", "key": "k3"}, signers=["k3"])],
}
REG_ACTS = ["RegPk", "RegAttrs", "RegCtrl"]
ACTS = ["RegPk", "RegAttrs", "RegCtrl", "AddKeyIdx", "RemoveKeyIdx", "AddNewAuthKey", "SetAuthKey", "RemoveAuthKey", "AddKeyPk",
        "RemoveKeyPk", "AddAttrIdx", "RemoveAttrIdx", "AddAttrPk", "SetRecovery", "UpdateRecovery", "RemoveRecovery",
        "AddRecoveryOld", "ChangeRecoveryOld", "AddKeyByRecovery", "RemoveKeyByRecovery", "RemoveController",
        "AddKeyByCtrl", "RemoveKeyByCtrl", "AddAttrByCtrl", "SetAuthKeyByCtrl", "RevokeID", "RevokeByCtrl", "VerifySig"]


def which_init(st):
    ids = st["ids"]
    if ids["A"]["st"] == "none":
        return "I0"
    c = ids["C"]
    if c["st"] == "none":
        return "I1"
    if c["st"] == "revoked":
        return "I8"
    if ids["B"]["st"] == "revoked":
        return "I9"
    if c["ctrl"]["kind"] == "group":
        return "I2" if not c["keys"][0]["auth"] else "P2"
    if c["rec"]["kind"] == "group" and all(k["auth"] for k in c["keys"]):
        return "P3"
    if c["keys"] and c["keys"][0]["revoked"]:
        return "I6"
    if len(c["keys"]) == 2 and c["rec"]["kind"] == "none" and c["ctrl"]["kind"] == "none":
        return "I7"
    if c["rec"]["kind"] == "group":
        return "I3"
    if c["rec"]["kind"] == "old":
        return "I4"
    return "I5"


def cfg_text(inits, max_ops, export, props=True, pre=False):
    lines = ["SPECIFICATION Spec", "CONSTANTS", "  Ids <- Ids3", "  Keys <- Keys3", "  AttrNames <- Attrs1", "  MaxKeys = 2",
             "  Groups <- Groups2", "  SgSets <- SgSets4", "  SignerSets <- AllSigners", "  MaxOps = %d" % max_ops,
             "  Acts <- ActsAll", "  InitStates <- %s" % inits, "  NewOntId = %s" % ("FALSE" if pre else "TRUE"), "VIEW view",
             "INVARIANTS TypeOK RevokedEmpty NoneEmpty KeysDistinct"]
    if props:
        lines.append("PROPERTIES OnlyAuthorized RevokedFinal RevokedNotRegistered")
    if export:
        lines += ["CONSTRAINT InitOut", "ACTION_CONSTRAINT Edge"]
    lines.append("CHECK_DEADLOCK FALSE")
    return "\n".join(lines) + "\n"


def body(b):
    return {"kind": b["kind"], "id": b.get("id", ""), "key": b.get("key", ""), "members": list(b.get("members") or []), "t": b.get("t", 0)}


def norm(idst):
    return {"st": idst["st"], "keys": [{"key": k["key"], "revoked": k["revoked"], "auth": k["auth"], "pklist": k["pklist"]} for k in idst["keys"]],
            "ctrl": body(idst["ctrl"]), "rec": body(idst["rec"]), "attrs": sorted(idst["attrs"])}


# ---- the property statement, evaluated on real observations
def by_index(ids, x, i, S):
    kl = ids.get(x, {"keys": []})["keys"]
    return 1 <= i <= len(kl) and not kl[i - 1]["revoked"] and kl[i - 1]["auth"] and kl[i - 1]["key"] in S


def any_key_auth(ids, x, S):
    return x in ids and any(by_index(ids, x, i, S) for i in range(1, len(ids[x]["keys"]) + 1))


def body_sat(ids, c, S):
    if c["kind"] == "id":
        return any_key_auth(ids, c["id"], S)
    if c["kind"] == "group":
        return sum(1 for m in c["members"] if any_key_auth(ids, m, S)) >= c["t"]
    if c["kind"] == "old":
        return c["key"] in S
    return False


def authorized(ids, x, S):
    return any_key_auth(ids, x, S) or body_sat(ids, ids[x]["ctrl"], S) or body_sat(ids, ids[x]["rec"], S)


def reg_authorized(ids, act, S):
    if act["name"] in ("RegPk", "RegAttrs"):
        return act["key"] in S
    if act["name"] == "RegCtrl":
        return body_sat(ids, body(act["ctrl"]), S)
    return False


def run_paths(ctx, binary, paths, tag, timeout=1800, pre=False):
    inp = {"ids": IDS, "keys": KEYS, "pre": pre, "paths": [{"setup": SETUPS[which_init(p["init"])], "steps": [s["act"] for s in p["steps"]]} for p in paths]}
    fin = os.path.join(ctx.scratch, "replay-%s.in.json" % tag)
    fout = os.path.join(ctx.scratch, "replay-%s.out.ndjson" % tag)
    vf.write_json(fin, inp)
    rc, out = ctx.run_bin(binary, "TestVerifOntIdReplay", env={"VERIF_IN": fin, "VERIF_OUT": fout}, timeout=timeout)
    if rc != 0:
        ctx.infra("ontid replay harness failed rc=%s" % rc)
        return None
    obs = vf.read_ndjson(fout)
    expected = sum(len(p["steps"]) + 1 for p in paths)
    if len(obs) != expected:
        ctx.infra("ontid replay produced %d observations, expected %d" % (len(obs), expected))
    return obs


def tlc_design(ctx, cfg):
    r = _tlccache.run(ctx, "OntId_MC", "OntId", cfg, tags_needed=False)
    if r.status != "ok":
        ctx.infra("TLC did not verify the OntId specification (%s): %s %s %s" % (cfg, r.status, r.violated, r.errors[:2]))
        return None
    ctx.log("TLC %s: %d generated, %d distinct, depth %d, %.1fs" % (cfg, r.generated, r.distinct, r.depth, r.wall))
    return r


def tlc_export(ctx, name, inits, max_ops, simulate=None, depth=None, pre=False):
    txt = cfg_text(inits, max_ops, True, props=not simulate, pre=pre)
    r = _tlccache.run(ctx, "OntId_MC", "OntId", name, txt, simulate=simulate, depth=depth, workers=1)
    if r.status != "ok" and not (simulate and r.status == "error" and not r.errors):
        ctx.infra("TLC failed on %s: %s %s %s" % (name, r.status, r.violated, r.errors[:2]))
        return None
    edges, inits_ = r.prints.get("EDGE", []), r.prints.get("INIT", [])
    ctx.log("TLC %s: %d generated, %d distinct, depth %d, %d edges, %.1fs" % (name, r.generated, r.distinct, r.depth, len(edges), r.wall))
    return r, edges, inits_


def reg_on_revoked(paths):
    """(entry point, caller class) pairs of registration attempts on a revoked identity contained in the paths"""
    seen = set()
    for p in paths:
        cur = p["init"]
        for s in p["steps"]:
            a = s["act"]
            if a["name"] in REG_ACTS and cur["ids"][a["id"]]["st"] == "revoked":
                seen.add((a["name"], "witnessed" if a["signers"] else "unwitnessed"))
            cur = s["to"]
    return seen


def check(ctx, paths, obs, pre=False):
    n = 0
    prev = None
    ndrift = 0
    dead = set()
    for o in obs:
        if o["path"] in dead:
            continue
        p = paths[o["path"]]
        if o["step"] == 0:
            act, to = {"name": "Init", "res": "init"}, p["init"]
            prev = None
        else:
            st = p["steps"][o["step"] - 1]
            act, to = st["act"], st["to"]
        n += 1
        if len(ctx.violations) > 40:
            break
        name = act["name"]
        rp = {"below_fork_height": pre, "init": which_init(p["init"]), "setup": SETUPS[which_init(p["init"])], "steps": [s["act"] for s in p["steps"][:o["step"]]]}
        real = {x: norm(o["ids"][x]) for x in IDS} if o.get("ids") and len(o["ids"]) == len(IDS) else None
        if o["res"] == "panic" or real is None:
            ctx.violation("%s:panic" % name, o.get("err"), rp)
            prev = None
            continue
        model = {x: norm(to["ids"][x]) for x in IDS}
        if o["step"] == 0 and real != model:
            ctx.infra("setup of %s did not produce the model's initial state: %s" % (rp["init"], [x for x in IDS if real[x] != model[x]]))
        # ---- C45 directly on the real observations
        if prev is not None:
            S = set(act.get("signers", []))
            for x in IDS:
                if prev[x] == real[x]:
                    continue
                if prev[x]["st"] == "revoked":
                    ctx.violation("RevokedFinal:%s:revoked-identity-changed" % name, {"identity": x, "before": prev[x], "after": real[x]}, rp)
                elif act.get("id") != x:
                    ctx.violation("OnlyAuthorized:%s:other-identity-changed" % name, {"identity": x, "before": prev[x], "after": real[x]}, rp)
                elif prev[x]["st"] == "none":
                    if not reg_authorized(prev, act, S):
                        ctx.violation("OnlyAuthorized:%s:registered-without-witness" % name, {"identity": x, "signers": sorted(S), "after": real[x]}, rp)
                elif not authorized(prev, x, S):
                    ctx.violation("OnlyAuthorized:%s:changed-without-authorized-witness" % name,
                                  {"identity": x, "signers": sorted(S), "before": prev[x], "after": real[x]}, rp)
        prev = real
        # ---- the contract's storage and answer against the model of the method
        diff = [x for x in IDS if real[x] != model[x]]
        rres = "ok" if o["res"] == "ok" else "err"
        if diff:
            x = diff[0]
            fld = next(f for f in ("st", "keys", "ctrl", "rec", "attrs") if real[x][f] != model[x][f])
            sfx = ":accepted-but-spec-refuses" if (rres == "ok" and act.get("res") == "err") else ""
            ctx.violation("State:%s:%s%s" % (name, fld, sfx), {"identity": x, "real": real[x], "model": model[x], "real_res": o["res"],
                                                                "err": o.get("err"), "model_res": act.get("res")}, rp)
            dead.add(o["path"])   # the rest of this path is no longer comparable
            continue
        if o["step"] > 0 and rres != act["res"]:
            if rres == "ok":
                ctx.violation("Result:%s:accepted-but-spec-refuses" % name, {"signers": act.get("signers"), "act": act}, rp)
            else:
                ndrift += 1
                if ndrift <= 5:
                    ctx.infra("model drift: %s refused (%s) but the model accepts; act %s" % (name, o.get("err"), act))
    return n
