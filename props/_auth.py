"""Shared machinery for C41 (spec/Auth.tla): TLC runs and replay on the real auth + ontid contracts."""
import os
import vf
import _tlccache

IDS, ROLES, FNS = ["A", "B", "C"], ["r1", "r2"], ["f1", "f2"]
OWN = lambda x: {"k": 1, "signers": [[x, 1]]}
# the action sequence that produces initial state S1 of Auth_MC.tla
SETUP_S1 = [dict(name="InitAdmin", id="A", k=1, signers=[]),
            dict(name="AssignFuncs", id="A", role="r1", fns=["f1"], **OWN("A")),
            dict(name="AssignFuncs", id="A", role="r2", fns=["f2"], **OWN("A")),
            dict(name="AssignIds", id="A", role="r1", persons=["A"], **OWN("A")),
            dict(name="AssignIds", id="A", role="r2", persons=["B"], **OWN("A"))]
KEY_SKIP = "Exact:assignOntIDsToRole-skips-delegated-holder:verifyToken-denies-assigned-role"


def cfg_text(inits, max_ops, modes, dev_skip, export, max_t=3, props=True):
    lines = ["SPECIFICATION Spec", "CONSTANTS", "  Ids <- Ids3", "  Roles <- Roles2", "  Fns <- Fns2", "  MaxT = %d" % max_t,
             "  Periods <- Periods2", "  Levels <- Levels3", "  FnSets <- FnSets2", "  PersonSets <- PersonSets4",
             "  Modes <- %s" % modes, "  MaxOps = %d" % max_ops, "  Acts <- ActsAll",
             "  AssignSkipsDelegated = %s" % ("TRUE" if dev_skip else "FALSE"), "  InitStates <- %s" % inits, "VIEW view"]
    inv = ["TypeOK", "DelegByHolder"] + ([] if dev_skip else ["Exact", "TokensAssigned"])
    lines.append("INVARIANTS " + " ".join(inv))
    if props:
        lines.append("PROPERTIES AdminAuth AdminChange DelegAuth")
    if export:
        lines += ["CONSTRAINT InitOut", "ACTION_CONSTRAINT Edge"]
    lines.append("CHECK_DEADLOCK FALSE")
    return "\n".join(lines) + "\n"


def norm_model(st):
    return {"admin": st["admin"],
            "funcs": {r: sorted(v) for r, v in st["funcs"].items()},
            "tokens": {p: sorted(v) for p, v in st["tokens"].items()},
            "deleg": {p: {r: d for r, d in m.items() if d["root"] != "none"} for p, m in st["deleg"].items()}}


def unexpired(st, c, r):
    d = st["deleg"][c][r]
    return d["root"] != "none" and st["now"] <= d["expire"]


def code_holds(st, c, f):
    return any(f in st["funcs"][r] and (r in st["tokens"][c] or unexpired(st, c, r)) for r in ROLES)


def should(st, c, f):
    asg = {tuple(x) for x in st["assigned"]}
    return any(f in st["funcs"][r] and ((c, r) in asg or unexpired(st, c, r)) for r in ROLES)


def run_paths(ctx, binary, paths, tag, timeout=1500):
    """paths: list of {init, steps:[{act,to}]}.  Returns list of observations (or None)."""
    inp = {"ids": IDS, "roles": ROLES, "fns": FNS, "paths": []}
    for p in paths:
        setup = [] if p["init"]["admin"] == "none" else SETUP_S1
        if p["init"].get("deleg") and p["init"]["deleg"]["B"]["r1"]["root"] != "none":
            setup = SETUP_S1 + [dict(name="Delegate", id="A", to="B", role="r1", period=1, level=1, **OWN("A"))]
        if p["init"].get("deleg") and p["init"]["deleg"]["C"]["r1"]["root"] != "none":
            setup = SETUP_S1 + [dict(name="AssignIds", id="A", role="r1", persons=["B"], **OWN("A")),
                                dict(name="Delegate", id="A", to="C", role="r1", period=1, level=1, **OWN("A")),
                                dict(name="Tick", k=1, signers=[]), dict(name="Tick", k=1, signers=[])]
        inp["paths"].append({"setup": setup, "now": p["init"]["now"], "steps": [s["act"] for s in p["steps"]]})
    fin = os.path.join(ctx.scratch, "replay-%s.in.json" % tag)
    fout = os.path.join(ctx.scratch, "replay-%s.out.ndjson" % tag)
    vf.write_json(fin, inp)
    rc, out = ctx.run_bin(binary, "TestVerifAuthReplay", env={"VERIF_IN": fin, "VERIF_OUT": fout}, timeout=timeout)
    if rc != 0:
        ctx.infra("auth replay harness failed rc=%s" % rc)
        return None
    obs = vf.read_ndjson(fout)
    expected = sum(len(p["steps"]) + 1 for p in paths)
    if len(obs) != expected:
        ctx.infra("auth replay produced %d observations, expected %d" % (len(obs), expected))
    return obs


def probe(ctx, binary):
    """does assignOntIDsToRole skip a person who holds the role through an unexpired delegation?"""
    steps = [dict(name="Delegate", id="A", to="B", role="r1", period=2, level=1, **OWN("A")),
             dict(name="AssignIds", id="A", role="r1", persons=["B"], **OWN("A"))]
    init = {"admin": "A", "now": 0}
    obs = run_paths(ctx, binary, [{"init": init, "steps": [{"act": s} for s in steps]}], "probe")
    if not obs or len(obs) != 3 or obs[1]["res"] != "true" or obs[2]["res"] != "true":
        ctx.infra("auth probe did not run as expected: %s" % (obs and [o["res"] + o.get("err", "") for o in obs]))
        return None
    return {"AssignSkipsDelegated": "r1" not in obs[2]["tokens"]["B"]}


def tlc_design(ctx, cfg):
    r = _tlccache.run(ctx, "Auth_MC", "Auth", cfg, tags_needed=False)
    if r.status != "ok":
        ctx.infra("TLC did not verify the auth design (%s): %s %s %s" % (cfg, r.status, r.violated, r.errors[:2]))
        return None
    ctx.log("TLC design %s: %d generated, %d distinct, depth %d, %.1fs" % (cfg, r.generated, r.distinct, r.depth, r.wall))
    return r


def tlc_asis(ctx, name, dev, inits, max_ops, modes="ModesAll", simulate=None, depth=None, max_t=3):
    txt = cfg_text(inits, max_ops, modes, dev["AssignSkipsDelegated"], True, max_t=max_t, props=not simulate)
    r = _tlccache.run(ctx, "Auth_MC", "Auth", name, txt, simulate=simulate, depth=depth, workers=1)
    if r.status != "ok" and not (simulate and r.status == "error" and not r.errors):
        ctx.infra("TLC failed on %s: %s %s %s" % (name, r.status, r.violated, r.errors[:2]))
        return None
    edges, inits_ = r.prints.get("EDGE", []), r.prints.get("INIT", [])
    ctx.log("TLC as-is %s: %d generated, %d distinct, depth %d, %d edges, %.1fs" % (name, r.generated, r.distinct, r.depth, len(edges), r.wall))
    return r, edges, inits_


def check(ctx, paths, obs, dev):
    n = 0
    dead = set()
    for o in obs:
        if o["path"] in dead:
            continue
        p = paths[o["path"]]
        if o["step"] == 0:
            act, to = {"name": "Init", "res": "init"}, p["init"]
        else:
            st = p["steps"][o["step"] - 1]
            act, to = st["act"], st["to"]
        n += 1
        if len(ctx.violations) > 40:
            break
        name = act["name"]
        rp = {"init_admin": p["init"]["admin"], "steps": [s["act"] for s in p["steps"][:o["step"]]]}
        if "PANIC" in (o.get("err") or ""):
            ctx.violation("%s:panic" % name, o["err"], rp)
            continue
        # ---- C41 directly: verifyToken (with a valid proof of key control) <=> holds a role with that function,
        #      directly (assigned by the admin) or through an unexpired delegation
        bad = False
        for c in IDS:
            for f in FNS:
                real = o["grid"][c][f] == "true"
                if real != should(to, c, f):
                    bad = True
                    if dev["AssignSkipsDelegated"] and code_holds(to, c, f) == real and not real:
                        ctx.violation(KEY_SKIP, {"identity": c, "fn": f, "verifyToken": o["grid"][c][f], "assigned": to["assigned"],
                                                 "tokens_in_storage": o["tokens"][c]}, rp)
                    else:
                        ctx.violation("Exact:%s:verifyToken-%s-but-%s" % (name, o["grid"][c][f], "holds" if should(to, c, f) else "does-not-hold"),
                                      {"identity": c, "fn": f, "real": o["grid"][c][f], "state": norm_model(to), "now": to["now"]}, rp)
        # ---- the contract's storage against the model of the operation
        m = norm_model(to)
        for fld in ("admin", "funcs", "tokens", "deleg"):
            if o[fld] != m[fld]:
                bad = True
                accepted = o["res"] == "true" and act.get("res") != "true"
                ctx.violation("State:%s:%s%s" % (name, fld, ":refusal-expected" if accepted else ""),
                              {"real": o[fld], "model": m[fld], "real_res": o["res"], "model_res": act.get("res")}, rp)
                dead.add(o["path"])   # the rest of this path is no longer comparable
                break
        if bad:
            continue
        for c in IDS:
            for f in FNS:
                if (o["grid"][c][f] == "true") != code_holds(to, c, f):
                    ctx.violation("State:%s:verify-grid" % name, {"identity": c, "fn": f, "real": o["grid"][c][f]}, rp)
        if o["step"] > 0 and o["res"] != act["res"]:
            if "true" in (o["res"], act["res"]):
                ctx.violation("Result:%s:%s-instead-of-%s" % (name, o["res"], act["res"]), {"err": o.get("err")}, rp)
            else:
                ctx.infra("model drift: %s answered %s (%s), model %s; %s" % (name, o["res"], o.get("err"), act["res"], rp["steps"][-1]))
    return n
