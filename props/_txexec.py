"""Shared machinery for C05 (spec/TxExec.tla): failed transactions change nothing except the fee."""
import json
import os

import vf

PKG = "core/store/ledgerstore"
HARNESS = "b_exec_ledger"
SITES = ["minGas", "codeLenBalance", "codeLenLimit", "execError", "drained", "execErrorFree", "success"]
KU = 1000
ROLES = ["P", "Q", "R"]


def build(ctx):
    return ctx.go_test_bin(PKG, harness=HARNESS, hide_own_tests=True)


def model_check(ctx, cfg, workers=1, timeout=1200):
    r = ctx.tlc("TxExec_MC", cfg=cfg, workers=workers, timeout=timeout)
    if r.status != "ok":
        ctx.infra("TLC did not verify %s: status=%s violated=%s %s" % (cfg, r.status, r.violated, r.errors[:2]))
        return None
    edges = r.prints.get("EDGE", [])
    inits = r.prints.get("INIT", [])
    sites = {e["act"]["site"] for e in edges}
    if edges:
        missing = [s for s in SITES if s not in sites]
        if missing:
            ctx.infra("vacuous model run %s: outcome classes never taken: %s" % (cfg, missing))
    ctx.log("TLC %s: %d generated, %d distinct, depth %d, %d edges, %.1fs" % (cfg, r.generated, r.distinct, r.depth, len(edges), r.wall))
    return r, edges, inits


def deviation_check(ctx, cfg):
    """The named deviation (no cache.Reset() before a transaction) must be refuted by TLC: a spec that cannot
    tell the two designs apart decides nothing."""
    r = ctx.tlc("TxExec_MC", cfg=cfg, workers=max(2, vf.NCPU // 2), timeout=900)
    if r.status != "violation" or r.violated != "OnlyOwnWrites":
        ctx.infra("deviation switch ResetBeforeTx=FALSE was not refuted by TLC (status=%s violated=%s)" % (r.status, r.violated))
        return False
    ctx.log("TLC %s: deviation ResetBeforeTx=FALSE refuted (OnlyOwnWrites) after %d states" % (cfg, r.generated))
    return True


# ------------------------------------------------------------------ scenarios from TLC edges
def blocks_from_paths(paths, rng, max_two=None):
    """Each cover path becomes one group: fresh accounts funded to the model's initial balances and ONE real
    block holding the path's transactions (so the cache of executeBlock is shared as in the model)."""
    blocks = []
    seen = set()
    n = 0
    paths = sorted(paths, key=lambda p: len(p["steps"]))
    longer = [i for i, p in enumerate(paths) if len(p["steps"]) > 1]
    if max_two is not None and len(longer) > max_two:   # quick tier: every single-transaction class, a seeded sample of the sequences
        keep = set(rng.sample(longer, max_two))
        paths = [p for i, p in enumerate(paths) if len(p["steps"]) <= 1 or i in keep]
    for p in paths:
        # the model's fee choice is not controllable on the real code: paths that differ only in it are one scenario
        key = vf.canon([p["init"]["ong"], [s["act"]["tx"] for s in p["steps"]]])
        if key in seen:
            continue
        seen.add(key)
        n += 1
        pi = n
        pr = [1, 500, 2500][pi % 3]
        unit = 10000 * pr
        fund = {r: v * unit for r, v in p["init"]["ong"].items() if r in ("P", "Q") and v > 0}
        blocks.append({"reset": True, "fund": fund})
        txs = []
        for si, s in enumerate(p["steps"]):
            tx = s["act"]["tx"]
            other = "Q" if tx["payer"] == "P" else "P"
            ops = []
            if tx["w"]["k"] != "?":
                ops.append({"op": "put", "k": "k", "v": tx["w"]["k"]})
            if tx["d"] > 0:
                ops.append({"op": "xfer", "tok": "ong", "from": tx["payer"], "to": "SINK", "amt": tx["d"] * unit})
            # native contracts that handle the transaction cache themselves, between the script's effects and its end:
            # system.evmInvoke (an EVM call from inside the transaction), a read of global_params
            if (n + si) % 2 == 0:
                ops.append({"op": "evminvoke"})
            elif (n + si) % 5 == 1:
                ops.append({"op": "getparam"})
            end = "ok"
            if tx["end"] == "fault":
                kind = (pi + si) % 3
                end = "throw" if kind == 0 else "loop" if kind == 1 else "ok"
                if kind == 2:  # a native call that fails its witness check: ONG of the other role, who does not sign
                    ops.append({"op": "xfer", "tok": "ong", "from": other, "to": "SINK", "amt": 0 + unit})
            txs.append({"payer": tx["payer"], "price": pr if tx["price"] else 0, "limit": tx["limit"] * 10000,
                        "pad": 2100 if tx["size"] == "huge" else 0, "ops": ops, "end": end, "signers": [],
                        "tag": "mc:%s" % s["act"]["site"]})
        blocks.append({"txs": txs})
    return blocks


# ------------------------------------------------------------------ random blocks
def random_blocks(rng, ngroups, nblocks):
    blocks = []
    for g in range(ngroups):
        pr = rng.choice([0, 1, 1, 500, 2500, 2500])
        scale = 1000 * max(pr, 1)
        fund = {}
        for r in ROLES:
            c = rng.random()
            if c < 0.15:
                continue  # no ONG at all
            elif c < 0.4:
                fund[r] = rng.randrange(1, 20) * scale  # below the 20000-gas minimum
            elif c < 0.6:
                fund[r] = rng.randrange(20, 60) * scale
            else:
                fund[r] = rng.randrange(60, 400) * scale
        blocks.append({"reset": True, "fund": fund, "fundont": {r: rng.randrange(0, 20) for r in ROLES}})
        for b in range(nblocks):
            txs = []
            for i in range(rng.randrange(1, 4)):
                payer = rng.choice(ROLES)
                price = pr if rng.random() < 0.8 else rng.choice([0, 1, 500, 2500])
                scale2 = 1000 * max(price, 1)
                ops = []
                signers = []
                for j in range(rng.randrange(0, 4)):
                    c = rng.random()
                    if c < 0.45:
                        ops.append({"op": "put", "k": rng.choice(["a", "b", "c"]), "v": rng.choice(["x", "y", "zz"])})
                    elif c < 0.65:
                        frm = payer if rng.random() < 0.8 else rng.choice(ROLES)
                        ops.append({"op": "approve", "tok": rng.choice(["ong", "ont"]), "from": frm, "to": rng.choice(ROLES), "amt": rng.randrange(0, 50)})
                    elif c < 0.78:
                        if not any(o["op"] == "xfer" and o.get("to") == "SINK" for o in ops):
                            ops.append({"op": "xfer", "tok": "ong", "from": payer, "to": "SINK", "amt": rng.randrange(1, 300) * scale2})
                    elif c < 0.84:
                        ops.append({"op": rng.choice(["evminvoke", "evminvoke", "getparam", "regid"])})
                    elif c < 0.9:
                        frm = rng.choice(ROLES)
                        ops.append({"op": "xfer", "tok": "ont", "from": frm, "to": rng.choice(ROLES), "amt": rng.randrange(0, 12)})
                        if rng.random() < 0.7 and frm != payer:
                            signers.append(frm)
                    else:
                        frm = rng.choice(ROLES)
                        ops.append({"op": "xfer", "tok": "ong", "from": frm, "to": rng.choice(ROLES), "amt": rng.randrange(0, 100) * scale2})
                        if rng.random() < 0.7 and frm != payer:
                            signers.append(frm)
                end = rng.choice(["ok", "ok", "ok", "throw", "loop"])
                limit = rng.choice([0, 5, 19, 20, 21, 30, 40, 45, 60, 100]) * 1000
                pad = rng.choice([0, 0, 0, 1100, 2100])
                txs.append({"payer": payer, "price": price, "limit": limit, "pad": pad, "ops": ops, "end": end, "signers": sorted(set(signers)), "tag": "rnd"})
            blocks.append({"txs": txs})
    return blocks


def run_blocks(ctx, binary, blocks, tag):
    fin = os.path.join(ctx.scratch, "txexec-%s.in.json" % tag)
    fout = os.path.join(ctx.scratch, "txexec-%s.ndjson" % tag)
    vf.write_json(fin, {"ku": KU, "roles": ROLES, "blocks": blocks})
    rc, out = ctx.run_bin(binary, "TestVerifTxExec", env={"VERIF_IN": fin, "VERIF_OUT": fout}, timeout=3000)
    if rc != 0:
        ctx.infra("txexec harness failed rc=%s" % rc)
        return None
    ev = vf.read_ndjson(fout)
    keys = set()
    for e in ev:
        for kv in e.get("other") or []:
            keys.add(kv[0])
        for kv in e.get("w") or []:
            keys.add(kv[0])
    ev[0]["keys"] = sorted(keys) or ["W:k"]
    with open(fout, "w") as f:
        for e in ev:
            f.write(json.dumps(e) + "\n")
    return fout


def diagnose(prev_ong, e):
    """structural key for a rejected transaction event"""
    site = e.get("site")
    if e["state"] == "FAIL":
        if e["other"]:
            return "failed-tx:%s:storage-effect-survives" % site
        p = e["payer"]
        moved = prev_ong[p] - e["ong"][p]
        rest_same = all(e["ong"][a] == prev_ong[a] for a in e["ong"] if a not in (p, "GOV"))
        if e["gas"] > prev_ong[p] or moved > prev_ong[p]:
            return "failed-tx:%s:fee-exceeds-balance" % site
        if moved != e["gas"]:
            return "failed-tx:%s:gas-consumed-differs-from-fee-moved" % site
        if e["ong"]["GOV"] - prev_ong["GOV"] != moved or not rest_same:
            return "failed-tx:%s:ong-moved-elsewhere" % site
        return "failed-tx:%s:unexplained" % site
    if e.get("known"):
        return "ok-tx:commits-writes-it-did-not-make"
    return "ok-tx:unexplained"


def trace_check(ctx, trace_path, what):
    ev = vf.read_ndjson(trace_path)
    counts = {}
    for i, e in enumerate(ev):
        if e.get("frac"):
            ctx.infra("amounts outside the model's units at event %d: %s" % (i + 1, e["frac"]))
            return None, counts
        if e["event"] == "Tx":
            k = "%s/%s" % (e["site"], e["state"])
            counts[k] = counts.get(k, 0) + 1
            if e["mingas"] != 20:
                ctx.infra("MIN_TRANSACTION_GAS is not 20000")
    v = ctx.trace_validate("TxExec_Trace", trace_path, timeout=1800)
    r = v["result"]
    if r.status == "violation":
        k = min(v["matched"], len(ev) - 1)
        ctx.violation("trace:%s:invariant-%s" % (what, r.violated), {"matched": v["matched"], "event": ev[k]}, {"trace_prefix": ev[max(0, k - 6):k + 1]})
    elif not v["accepted"]:
        errs = " ".join(r.errors)
        if r.status == "timeout" or v["matched"] < 1 or (r.errors and "ostcondition" not in errs):
            ctx.infra("txexec trace validation failed to run: status=%s %s" % (r.status, r.errors[:3]))
        else:
            i = v["matched"]
            bad = ev[i]
            j = i - 1
            while ev[j]["event"] not in ("Tx", "Reset", "Config"):
                j -= 1
            key = diagnose(ev[j]["ong"], bad)
            # replay = the group the event belongs to
            g = i
            while ev[g]["event"] == "Tx":
                g -= 1
            ctx.violation(key, {"unexplained_event_index": i + 1, "event": bad, "ong_before": ev[j]["ong"]}, {"trace_group": ev[g:i + 1]})
    return v, counts


def self_test(ctx, trace_path):
    """corrupt one failed transaction (a surviving write; a mis-reported gas) and drop one event: all must be rejected"""
    ev = vf.read_ndjson(trace_path)
    idx = next((i for i in range(2, len(ev) - 1) if ev[i]["event"] == "Tx" and ev[i]["state"] == "FAIL" and ev[i]["gas"] > 0 and ev[i + 1]["event"] == "Tx"), None)
    if idx is None:
        ctx.infra("binding self-test: no charged failing transaction in the trace")
        return False
    bad1 = json.loads(json.dumps(ev))
    bad1[idx]["other"] = [[ev[0]["keys"][0], "00ff"]]
    bad2 = json.loads(json.dumps(ev))
    bad2[idx]["gas"] -= 1
    bad3 = ev[:idx] + ev[idx + 1:]
    end = next((i for i in range(idx + 1, len(ev)) if ev[i]["event"] == "Reset"), len(ev))   # a short prefix is enough
    bad1, bad2, bad3 = bad1[:end], bad2[:end], bad3[:end - 1]
    ok = True
    for name, tr in (("write-survives", bad1), ("gas-misreported", bad2), ("drop", bad3)):
        p = os.path.join(ctx.scratch, "txexec-selftest-%s.ndjson" % name)
        with open(p, "w") as f:
            for x in tr:
                f.write(json.dumps(x) + "\n")
        v = ctx.trace_validate("TxExec_Trace", p, timeout=900)
        if v["accepted"]:
            ok = False
            ctx.infra("binding self-test: %s trace was accepted" % name)
    return ok


DEPLOY_KEY = "Deploy:redeploy-destroyed-contract:fee-charged-but-gas-consumed-reported-0"


def deploy_destroyed_probe(ctx, binary):
    """A deploy transaction (gas price > 0) for the address of a destroyed contract fails AFTER its fee was charged and
    committed; the failure path does not report the fee in GasConsumed.  One real scenario in real blocks."""
    fout = os.path.join(ctx.scratch, "txexec-deploy-destroyed.ndjson")
    rc, out = ctx.run_bin(binary, "TestVerifDeployDestroyed", env={"VERIF_OUT": fout}, timeout=600)
    if rc != 0 or not os.path.exists(fout):
        ctx.infra("deploy-destroyed probe failed rc=%s" % rc)
        return
    r = vf.read_ndjson(fout)[0]
    if not (r["deploy1_state"] == 1 and r["destroy_state"] == 1 and r["destroyed"]):
        ctx.infra("deploy-destroyed probe: could not set the scenario up: %s" % r)
        return
    paid = int(r["payer_paid"])
    if r["redeploy_state"] == 0 and (paid != r["redeploy_gas_consumed"] or int(r["gov_received"]) != paid):
        ctx.violation(DEPLOY_KEY, r, {"test": "TestVerifDeployDestroyed", "result": r})
    else:
        ctx.log("deploy-destroyed probe: consistent (%s)" % r)
