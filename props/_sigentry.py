"""C32, entry points and their order (spec/SigEntry.tla): AddHeader / AddHeaders / AddBlock / ExecuteBlock+SubmitBlock in every
order for the two heights above the ledger's current block, the unsigned part (what the hash covers) and the signature
section of every object chosen independently.  TLC checks StoredSound / CacheSound on the model of the tree (thresholds
probed as for SigHeader), exports every transition; a path cover of the transition graph is replayed on one real
VBFT-genesis LedgerStoreImp (harness/b_sig_ledger/sigentry_test.go) and the observed state is compared after every call.
Oracle (observed on the real code only): a block in the block store whose STORED header carries valid signatures of
fewer than C+1 distinct consensus peers -> violation; any other difference to the model -> model drift (infra)."""
import _sigcheck as sc

CFG = """SPECIFICATION Spec
CONSTANTS
  N = %(N)d
  C = %(C)d
  LedgerSigsVerified = %(sv)d
  LedgerMinDistinct = %(md)d
  MaxHeight = 2
  Ids <- IdsAB
  Sections <- %(secs)s
  BatchSections <- Batch3
  SecDef <- SecDefMC
  SkipVerifyOnCacheHit <- %(skip)s
VIEW State
INVARIANTS TypeOK %(inv)s
%(export)s
CHECK_DEADLOCK FALSE
"""
EXPORT = "CONSTRAINT SecOut\nACTION_CONSTRAINT Edge"
TEST = "TestVerifSigEntryLedger"


def cfg(N, C, sv, md, secs, skip="NoSkip", inv="StoredSound CacheSound", export=True):
    return CFG % dict(N=N, C=C, sv=sv, md=md, secs=secs, skip=skip, inv=inv, export=EXPORT if export else "")


def step_str(a, real=None):
    hs = ",".join("%d%s/%s" % (h["h"], h["id"], h["sec"]) for h in a["hs"])
    return "%s(%s)%s" % (a["name"], hs, "" if real is None else "->" + real)


def real_out(o):
    return "panic" if o.get("panic") else ("nil" if o.get("ok") else "err")


def go_rows(ctx, binary, inp, tag, timeout=1500):
    """as _sigcheck.go_rows, but in a working directory of its own: the package's TestMain opens a LevelDB under ./test, so
    two harness processes of this package must not share their cwd (this phase runs beside the single-header phase)"""
    import os
    fin = os.path.join(ctx.scratch, "%s.in.json" % tag)
    fout = os.path.join(ctx.scratch, "%s.out.ndjson" % tag)
    sc.vf.write_json(fin, inp)
    rc, out = ctx.run_bin(binary, TEST, env={"VERIF_IN": fin, "VERIF_OUT": fout}, timeout=timeout, cwd=os.path.join(ctx.scratch, "wd-" + tag))
    if rc != 0 or not os.path.exists(fout):
        ctx.infra("harness %s (%s) failed rc=%s %s" % (TEST, tag, rc, out[-300:] if rc == 0 else ""))
        return None
    res = sc.vf.read_ndjson(fout)
    if not res or not res[-1].get("done"):
        ctx.infra("harness %s (%s) did not finish" % (TEST, tag))
        return None
    return res


def run_paths(ctx, binary, N, C, secs, paths, tag):
    inp = {"n": N, "c": C, "ids": ["a", "b"], "maxh": 2, "secs": secs,
           "paths": [[{"op": s["name"], "hs": s["hs"]} for s in p] for p in paths]}
    res = go_rows(ctx, binary, inp, tag)
    if res is None:
        return None
    if res[0].get("peers") != N or res[0].get("headerHeight") != 0:
        ctx.infra("entry harness set-up is off: %s" % res[0])
        return None
    obs = {}
    for o in res[1:]:
        if "p" in o:
            obs[(o["p"], o["s"])] = o
    if len(obs) != sum(len(p) for p in paths):
        ctx.infra("entry harness returned %d/%d steps" % (len(obs), sum(len(p) for p in paths)))
        return None
    return obs


def judge(ctx, N, C, secs, acts, observed, model_to=None, report=True):
    """acts: the calls of one path; observed: the harness rows of these calls; model_to: the model's state after every
    call (None: replay of a recorded violation, property only).  Returns (steps compared, unsound stores, drift list)"""
    unsound = 0
    drift = []
    prev_cache = [{"a": "-", "b": "-"}, {"a": "-", "b": "-"}]
    prev_nblocks = 0
    n = 0
    shape = lambda x: (x["hidx"], x["cache"], [(b["id"], b["sec"]) for b in x["blocks"]])
    moved = []                                 # the calls that changed the observed state
    for i, (a, o) in enumerate(zip(acts, observed)):
        n += 1
        desc = " ; ".join(step_str(q, real_out(observed[j])) for j, q in enumerate(acts[:i + 1]))
        if i == 0 or shape(o) != shape(observed[i - 1]):
            moved.append(i)
        essential = " ; ".join(step_str(acts[j], real_out(observed[j])) for j in moved)
        bad = [(j, b) for j, b in enumerate(o["blocks"]) if j >= prev_nblocks and b["valid"] < C + 1]
        for j, b in bad:
            unsound += 1
            h = a["hs"][0]
            cached = prev_cache[h["h"] - 1].get(h["id"], "-") != "-"
            key = "%s:block-stored-without-quorum:%s:section-%s" % (
                a["name"], "hash-in-headerCache" if cached else "hash-not-cached", b["sec"])
            if report and (key, essential) not in judge.seen:
                judge.seen.add((key, essential))
                ctx.violation(key, {"N": N, "C": C, "calls_that_changed_the_state": essential, "history": desc, "stored_block_height": "origin+%d" % (j + 1),
                                    "distinct_valid_member_signatures_on_stored_header": b["valid"], "required": C + 1,
                                    "stored_bookkeepers": b.get("nbk"), "stored_signatures": b.get("nsig"),
                                    "header_cache_before_the_call": prev_cache},
                              {"entry": True, "N": N, "C": C, "secs": secs, "steps": acts[:i + 1]})
        if model_to is not None:
            m = model_to[i]
            want = {"hidx": m["hidx"], "cache": m["cache"], "blocks": [{"id": b["id"], "sec": b["sec"]} for b in m["blocks"]],
                    "err": a["out"] == "err"}
            got = {"hidx": o["hidx"], "cache": o["cache"], "blocks": [{"id": b["id"], "sec": b["sec"]} for b in o["blocks"]],
                   "err": real_out(o) != "nil"}
            if got != want or o.get("ncache") != sum(1 for r in m["cache"] for v in r.values() if v != "-"):
                if not bad:
                    drift.append((desc, "real=%s model=%s err=%s" % (got, want, o.get("err") or o.get("panic"))))
                break                          # the real state has left the model's path
        elif bad:
            break
        prev_cache = o["cache"]
        prev_nblocks = len(o["blocks"])
    return n, unsound, drift


judge.seen = set()


def entry_phase(ctx, binary, N, C, sv, md):
    secs_name = "AllSections" if ctx.thorough else "QuickSections"
    design = sv >= C + 1 and md >= C + 1
    name = "SigEntry_C32_%d.cfg" % N
    # the model of the tree; StoredSound / CacheSound are its invariants when the probed thresholds are the design's
    mcfg = cfg(N, C, sv, md, secs_name, inv="StoredSound CacheSound" if design else "")
    jobs = [lambda: ctx.tlc("SigEntry_MC", cfg=name, workers=min(sc.vf.NCPU, 4), timeout=1200, files={name: mcfg})]
    # model self-test: with the named deviation on (an entry point trusts a cache hit on the hash) TLC must find the
    # counterexample to StoredSound
    devs = ["SkipAddBlock", "SkipSubmitBlock"] if ctx.thorough else ["SkipAddBlock" if ctx.seed % 2 else "SkipSubmitBlock"]
    for dv in devs:
        dn = "SigEntry_C32_%d_%s.cfg" % (N, dv)
        jobs.append(lambda dn=dn, dv=dv: ctx.tlc("SigEntry_MC", cfg=dn, timeout=600,
                                                 files={dn: cfg(N, C, max(sv, C + 1), max(md, C + 1), secs_name, skip=dv, inv="StoredSound", export=False)}))
    res = sc.parallel(*jobs)
    for dv, af in zip(devs, res[1:]):
        if af.status != "violation" or af.violated != "StoredSound":
            ctx.infra("SigEntry self-test N=%d: deviation %s should violate StoredSound, got status=%s violated=%s" % (N, dv, af.status, af.violated))
        else:
            ctx.log("TLC SigEntry N=%d (deviation %s on): counterexample to StoredSound found, as expected" % (N, dv))
    r = res[0]
    if r.status != "ok":
        ctx.infra("TLC did not verify %s: status=%s violated=%s %s" % (name, r.status, r.violated, r.errors[:2]))
        return None
    edges, inits = r.prints.get("EDGE", []), r.prints.get("INIT", [])
    rows = [x for x in r.prints.get("ROW", []) if isinstance(x, list) and x and x[0] == "SEC"]
    if any(not isinstance(e, dict) for e in edges) or len(inits) != 1 or not rows:
        ctx.infra("SigEntry N=%d: export did not decode (%d edges, %d inits, %d sections)" % (N, len(edges), len(inits), len(rows)))
        return None
    secs = {x[1]: {"bk": x[2], "sigs": x[3]} for x in rows}
    sec_acc = {x[1]: x[4] for x in rows}
    sec_ok = {x[1]: x[5] for x in rows}
    if not any(sec_acc.values()) or all(sec_acc.values()) or not any(not v for v in sec_ok.values()):
        ctx.infra("vacuous SigEntry sections N=%d: %s" % (N, sec_acc))
        return None
    names = {}
    for e in edges:
        k = (e["act"]["name"], e["act"]["out"])
        names[k] = names.get(k, 0) + 1
    need = [("AddHeader", "ok"), ("AddHeader", "err"), ("AddHeaders", "ok"), ("AddHeaders", "err"), ("AddBlock", "ok"), ("AddBlock", "err"),
            ("AddBlock", "noop"), ("SubmitBlock", "ok"), ("SubmitBlock", "err"), ("SubmitBlock", "noop")]
    if any(k not in names for k in need):
        ctx.infra("vacuous SigEntry run N=%d: outcomes never produced: %s" % (N, [k for k in need if k not in names]))
        return None
    # circumstances the property is about must be among the transitions: a block entry for a hash that sits in the header
    # cache with a section the model refuses; a block without any synced header; a block while the NEXT header is cached
    def cached(e, h):
        return e["from"]["cache"][h["h"] - 1][h["id"]] != "-"
    blk = [e for e in edges if e["act"]["name"] in ("AddBlock", "SubmitBlock")]
    circ = {
        "forged section on a cached hash": sum(1 for e in blk if cached(e, e["act"]["hs"][0]) and not sec_acc[e["act"]["hs"][0]["sec"]]),
        "other valid section on a cached hash": sum(1 for e in blk if cached(e, e["act"]["hs"][0]) and e["act"]["out"] == "ok"
                                                    and e["from"]["cache"][e["act"]["hs"][0]["h"] - 1][e["act"]["hs"][0]["id"]] != e["act"]["hs"][0]["sec"]),
        "block without synced header": sum(1 for e in blk if e["act"]["out"] == "ok" and not cached(e, e["act"]["hs"][0])),
        "block H while header H+1 is cached": sum(1 for e in blk if e["act"]["hs"][0]["h"] == 1 and e["act"]["out"] != "noop"
                                                  and any(v != "-" for v in e["from"]["cache"][1].values())),
        "block of the other fork than the synced header": sum(1 for e in blk if e["act"]["out"] == "ok" and e["from"]["hidx"][e["act"]["hs"][0]["h"] - 1]
                                                              not in ("-", e["act"]["hs"][0]["id"])),
    }
    if any(v == 0 for v in circ.values()):
        ctx.infra("vacuous SigEntry run N=%d: circumstance never generated: %s" % (N, circ))
        return None
    paths, ncov = ctx.cover(edges, inits, max_len=100)
    nedges = len({(sc.vf.canon(e["from"]), sc.vf.canon(e["act"])) for e in edges})
    ctx.log("TLC %s: %d generated, %d distinct, depth %d, %d transitions exported, %d covered by %d paths, %.1fs"
            % (name, r.generated, r.distinct, r.depth, nedges, ncov, len(paths), r.wall))
    if ncov < nedges:
        ctx.infra("SigEntry N=%d: only %d/%d transitions covered" % (N, ncov, nedges))
    acts = [[s["act"] for s in p["steps"]] for p in paths]
    obs = run_paths(ctx, binary, N, C, secs, acts, "entry-%d" % N)
    if obs is None:
        return None
    nsteps = unsound = 0
    drift = []
    for pi, p in enumerate(paths):
        n, u, d = judge(ctx, N, C, secs, acts[pi], [obs[(pi, si)] for si in range(len(acts[pi]))], [s["to"] for s in p["steps"]])
        nsteps += n
        unsound += u
        drift += d
    if drift:
        ctx.infra("MODEL-DRIFT (SigEntry N=%d): %d paths, e.g. %s" % (N, len(drift), drift[:2]))
    ctx.log("SigEntry N=%d: %d paths / %d calls replayed on the real ledger, %d blocks stored without quorum" % (N, len(paths), nsteps, unsound))
    mid = acts[len(acts) // 2]
    ctx.samples.append({"entry_path": [step_str(a, a["out"]) for a in mid[:6]]})
    return {"paths": len(paths), "calls": nsteps, "transitions": nedges, "states": r.distinct, "unsound_stores": unsound,
            "outcomes": {"%s/%s" % k: v for k, v in sorted(names.items())}, "circumstances": circ, "sections": sorted(secs),
            "self_test_deviations": devs}


def replay(ctx, binary, rec):
    """single-case replay of a recorded entry-point violation"""
    acts = rec["steps"]
    obs = run_paths(ctx, binary, rec["N"], rec["C"], rec["secs"], [acts], "replay-entry")
    if obs is None:
        return None
    n, u, _ = judge(ctx, rec["N"], rec["C"], rec["secs"], acts, [obs[(0, i)] for i in range(len(acts))], None, report=False)
    last = obs[(0, len(acts) - 1)]
    return u > 0, " ; ".join(step_str(a, real_out(obs[(0, i)])) for i, a in enumerate(acts)), last["blocks"]
