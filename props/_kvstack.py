"""Shared machinery for the KVStack properties C03, C04, C44 (spec/KVStack.tla)."""
import json
import os
import vf

# trace values have many different lengths (append-only memdb buffer: size-dependent overwrite paths)
TRACE_VALS = ["v" * n for n in (1, 2, 3, 4, 5, 6, 7, 8, 9, 10, 11, 12, 13, 15, 17, 20, 24)]
KEYSEQ3 = [[1], [1, 2], [2]]
KEYSEQC = [[1], [1, 1], [1, 2], [2], [2, 1], [2, 2]]


def prefixes_of(keyseq):
    ps = {()}
    for k in keyseq:
        for n in range(len(k) + 1):
            ps.add(tuple(k[:n]))
    return [list(p) for p in sorted(ps)]


def has_prefix(k, p):
    return k[:len(p)] == p


def expected_iter(keyseq, flat, p):
    return [["%02d" % (i + 1), flat[i]] for i, k in enumerate(keyseq) if has_prefix(k, p) and flat[i] != ""]


def model_check(ctx, cfg, required_actions, workers=1, timeout=1200):
    r = ctx.tlc("KVStack_MC", cfg=cfg, workers=workers, timeout=timeout, coverage=ctx.thorough)
    if r.status != "ok":
        # a counterexample in the specification alone is a model problem, never a verdict on the code
        ctx.infra("TLC did not verify %s: status=%s violated=%s %s" % (cfg, r.status, r.violated, r.errors[:2]))
        return None
    edges = r.prints.get("EDGE", [])
    inits = r.prints.get("INIT", [])
    names = {e["act"]["name"] for e in edges}
    missing = [a for a in required_actions if a not in names]
    if missing:
        ctx.infra("vacuous model run: actions never taken: %s" % missing)
    ctx.log("TLC %s: %d generated, %d distinct, depth %d, %d edges, %.1fs" % (cfg, r.generated, r.distinct, r.depth, len(edges), r.wall))
    return r, edges, inits


def replay(ctx, binary, keyseq, contracts, addrkeys, paths, tag):
    """Run the cover paths on the real stack; returns list of (path, stepIndex, act, to, obs)."""
    inp = {"keyseq": keyseq, "prefixes": prefixes_of(keyseq), "contracts": contracts, "addrkeys": addrkeys,
           "height": 4000000000, "paths": [{"disk": p["init"]["disk"], "steps": [s["act"] for s in p["steps"]]} for p in paths]}
    fin = os.path.join(ctx.scratch, "replay-%s.in.json" % tag)
    fout = os.path.join(ctx.scratch, "replay-%s.out.ndjson" % tag)
    vf.write_json(fin, inp)
    rc, out = ctx.run_bin(binary, "TestVerifKVReplay", env={"VERIF_IN": fin, "VERIF_OUT": fout}, timeout=1800)
    if rc != 0:
        ctx.infra("replay harness failed rc=%s" % rc)
        return []
    res = []
    for o in vf.read_ndjson(fout):
        p = paths[o["path"]]
        if o["step"] == 0:
            res.append((o["path"], 0, {"name": "Init"}, p["init"], o))
        else:
            s = p["steps"][o["step"] - 1]
            res.append((o["path"], o["step"], s["act"], s["to"], o))
    expected = sum(len(p["steps"]) + 1 for p in paths)
    if len(res) != expected:
        ctx.infra("replay produced %d observations, expected %d" % (len(res), expected))
    return res


def replay_prefix(paths, pi, si):
    p = paths[pi]
    return {"disk": p["init"]["disk"], "steps": [s["act"] for s in p["steps"][:si]]}


def check_reads(ctx, keyseq, paths, results, with_contracts=False):
    """C04/C44 oracle: every read / iteration of the real stack equals the single map of the model."""
    pfx = prefixes_of(keyseq)
    n = 0
    for (pi, si, act, to, o) in results:
        bad = None
        if o.get("res") == "panic" or o.get("err"):
            bad = ("error", o.get("err"))
        elif o["readC"] != to["flatC"]:
            bad = ("cache-read", {"real": o["readC"], "model": to["flatC"]})
        elif o["readO"] != to["flatO"]:
            bad = ("overlay-read", {"real": o["readO"], "model": to["flatO"]})
        else:
            for j, p in enumerate(pfx):
                it = o["iter"][j]
                if it["c"] != expected_iter(keyseq, to["flatC"], p):
                    bad = ("cache-iter", {"prefix": p, "real": it["c"], "model": expected_iter(keyseq, to["flatC"], p)})
                    break
                if it["o"] != expected_iter(keyseq, to["flatO"], p):
                    bad = ("overlay-iter", {"prefix": p, "real": it["o"], "model": expected_iter(keyseq, to["flatO"], p)})
                    break
        if bad is None and with_contracts:
            if sorted(o["deployed"]) != sorted(to["deployed"]):
                bad = ("deployed-set", {"real": o["deployed"], "model": to["deployed"]})
            elif sorted(o["destroyed"]) != sorted(to["destroyed"]):
                bad = ("destroyed-set", {"real": o["destroyed"], "model": to["destroyed"]})
            elif act["name"] == "DeployRefused" and o["res"] != "refused":
                bad = ("deploy-not-refused", {"contract": act.get("c")})
            elif act["name"] == "PutRefused" and o["res"] != "refused":
                bad = ("write-not-refused", {"contract": act.get("c"), "key": act.get("k")})
            elif act["name"] not in ("DeployRefused", "PutRefused") and o["res"] not in ("ok", "init"):
                bad = ("unexpected-result", {"res": o["res"]})
        if bad:
            ctx.violation("%s:%s" % (act["name"], bad[0]), bad[1], replay_prefix(paths, pi, si))
        n += 1
    return n


def trace_run(ctx, binary, keyseq, contracts, addrkeys, vals, mode, ntraces, nsteps, tag):
    inp = {"keyseq": keyseq, "prefixes": prefixes_of(keyseq), "contracts": contracts, "addrkeys": addrkeys,
           "height": 4000000000, "paths": [], "vals": vals, "ntraces": ntraces, "nsteps": nsteps, "mode": mode}
    fin = os.path.join(ctx.scratch, "trace-%s.in.json" % tag)
    fout = os.path.join(ctx.scratch, "trace-%s.ndjson" % tag)
    vf.write_json(fin, inp)
    rc, out = ctx.run_bin(binary, "TestVerifKVTrace", env={"VERIF_IN": fin, "VERIF_OUT": fout}, timeout=1800)
    if rc != 0:
        ctx.infra("trace driver failed rc=%s" % rc)
        return None
    return fout


def trace_check(ctx, trace_path, what):
    """TLC validates the recorded trace.  A rejection is a behaviour of the real code that the
    specification (= the property) does not allow."""
    v = ctx.trace_validate("KVStack_Trace", trace_path)
    r = v["result"]
    if r.status == "violation":
        ev = vf.read_ndjson(trace_path)
        k = min(v["matched"], len(ev) - 1)
        ctx.violation("trace:%s:invariant-%s" % (what, r.violated), {"matched": v["matched"], "event": ev[k]},
                      {"trace": trace_path, "upto": v["matched"] + 1})
    elif r.status != "ok" and not v["accepted"] and r.status != "error":
        ctx.infra("trace validation did not finish: %s" % r.status)
    elif not v["accepted"]:
        ev = vf.read_ndjson(trace_path)
        if v["matched"] < 1 or (r.errors and "Postcondition" not in " ".join(r.errors) and "POSTCONDITION" not in " ".join(r.errors).upper()):
            ctx.infra("trace validation failed to run: %s" % r.errors[:3])
        else:
            bad = ev[v["matched"]] if v["matched"] < len(ev) else None
            slim = {k2: bad[k2] for k2 in bad if k2 not in ("ws", "hash")} if bad else None
            ctx.violation("trace:%s:%s" % (what, bad["event"] if bad else "?"),
                          {"unexplained_event_index": v["matched"] + 1, "event": slim},
                          {"trace_prefix": ev[: v["matched"] + 1]})
    return v


def self_test(ctx, trace_path):
    """Binding self-test: a corrupted field and a dropped event must both be rejected."""
    ev = vf.read_ndjson(trace_path)
    def good(i):
        e, prev, nxt = ev[i], ev[i - 1], ev[i + 1]
        return (e["event"] in ("CachePut", "ContractPut") and "readC" in prev and prev["readC"][e["k"] - 1] != e["v"]
                and nxt["event"] not in ("Reset", "CacheReset") and nxt.get("k") != e["k"]
                and nxt["event"] not in ("Migrate", "Destroy"))
    idx = next(i for i in range(3, len(ev) - 1) if good(i))
    bad1 = [dict(e) for e in ev]
    rc = list(bad1[idx]["readC"])
    k = bad1[idx]["k"] - 1
    rc[k] = "" if rc[k] != "" else "v"
    bad1[idx]["readC"] = rc
    bad2 = ev[:idx] + ev[idx + 1:]
    ok = True
    for name, t in (("corrupt", bad1), ("drop", bad2)):
        p = os.path.join(ctx.scratch, "selftest-%s.ndjson" % name)
        with open(p, "w") as f:
            for e in t:
                f.write(json.dumps(e) + "\n")
        v = ctx.trace_validate("KVStack_Trace", p)
        if v["accepted"]:
            ok = False
            ctx.infra("binding self-test: %s trace was accepted" % name)
    return ok
