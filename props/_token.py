"""Shared machinery for C06 (spec/Token.tla): native ONT/ONG token operations."""
import json
import os
import threading
import time

import vf

ACTS = ["Transfer", "Approve", "TransferFrom"]
PKG = "core/store/ledgerstore"
HARNESS = "b_exec_ledger"


def build(ctx):
    return ctx.go_test_bin(PKG, harness=HARNESS, hide_own_tests=True)


def model_check_many(ctx, cfgs, timeout=1500, parallel=True):
    """Run TLC (workers=1, edge export) on several configs of Token_MC, concurrently.
    Returns {cfg: (result, edges, inits)} or None if any run did not verify the spec."""
    res = {}
    lock = threading.Lock()

    def one(cfg):
        r = ctx.tlc("Token_MC", cfg=cfg, workers=1, timeout=timeout)
        with lock:
            res[cfg] = r

    ths = []
    for cfg in cfgs:
        th = threading.Thread(target=one, args=(cfg,))
        th.start()
        ths.append(th)
        time.sleep(1.0)  # ctx.stage_specs numbers its directories with an unlocked counter
        if not parallel:
            th.join()
    for th in ths:
        th.join()
    out = {}
    ok = True
    for cfg in cfgs:
        r = res[cfg]
        if r.status != "ok":
            # a counterexample in the specification alone is a model problem, never a verdict on the code
            ctx.infra("TLC did not verify %s: status=%s violated=%s %s" % (cfg, r.status, r.violated, r.errors[:2]))
            ok = False
            continue
        edges = r.prints.get("EDGE", [])
        inits = r.prints.get("INIT", [])
        for e in edges:
            e["act"]["signers"] = sorted(e["act"]["signers"])
        names = {(e["act"]["name"], e["act"]["ok"]) for e in edges}
        missing = [(a, o) for a in ACTS for o in (True, False) if (a, o) not in names]
        if missing:
            ctx.infra("vacuous model run %s: (action, outcome) never taken: %s" % (cfg, missing))
        ctx.log("TLC %s: %d generated, %d distinct, depth %d, %d edges, %.1fs" % (cfg, r.generated, r.distinct, r.depth, len(edges), r.wall))
        out[cfg] = (r, edges, inits)
    return out if ok else None


def strip_act(a):
    return {k: v for k, v in a.items() if k != "ok"}


def replay(ctx, binary, paths, users, sf, huge, tag):
    inp = {"users": users, "oc": "OC", "sf": sf, "huge": huge,
           "paths": [{"init": p["init"], "steps": [strip_act(s["act"]) for s in p["steps"]]} for p in paths]}
    fin = os.path.join(ctx.scratch, "token-replay-%s.in.json" % tag)
    fout = os.path.join(ctx.scratch, "token-replay-%s.out.ndjson" % tag)
    vf.write_json(fin, inp)
    rc, out = ctx.run_bin(binary, "TestVerifTokenReplay", env={"VERIF_IN": fin, "VERIF_OUT": fout}, timeout=3000)
    if rc != 0:
        ctx.infra("token replay harness failed rc=%s" % rc)
        return []
    obs = vf.read_ndjson(fout)
    expected = sum(len(p["steps"]) + 1 for p in paths)
    if len(obs) != expected:
        ctx.infra("token replay produced %d observations, expected %d" % (len(obs), expected))
    return obs


def first_diff(real, model):
    for t in ("ont", "ong"):
        for a, v in model["bal"][t].items():
            if real["bal"][t].get(a) != v:
                return "bal.%s.%s" % (t, a), real["bal"][t].get(a), v
        for a, m in model["allow"][t].items():
            for s, v in m.items():
                if real["allow"][t].get(a, {}).get(s) != v:
                    return "allow.%s.%s.%s" % (t, a, s), real["allow"][t].get(a, {}).get(s), v
    return None


def act_key(a):
    return "%s:%s:v%d" % (a["name"], a["t"], a["ver"])


def check_replay(ctx, paths, obs, users, sf, huge):
    """Oracle of the replay: after every step the real balances/allowances equal the model's post-state
    (the model satisfies Conserved, NonNeg, DebitAuthorized, AllowanceRespected, FailedCallIsNoOp);
    the sum over all balance entries in storage is unchanged."""
    n = 0
    cnt = {}
    diverged = set()
    for o in obs:
        if o["path"] in diverged:
            continue  # after the first difference the rest of the path is not a model behaviour any more
        p = paths[o["path"]]
        si = o["step"]
        rep = {"users": users, "sf": sf, "huge": huge, "init": p["init"], "steps": [strip_act(s["act"]) for s in p["steps"][:si]]}
        if si == 0:
            d = first_diff(o["state"], p["init"])
            if d or o.get("frac"):
                ctx.infra("token set-up did not reach the model's initial state: %s %s" % (d, o.get("frac")))
                return n, cnt
            continue
        step = p["steps"][si - 1]
        act, to = step["act"], step["to"]
        key = act_key(act)
        cnt[(act["name"], act["t"], o["ok"])] = cnt.get((act["name"], act["t"], o["ok"]), 0) + 1
        n += 1
        if o.get("panic"):
            ctx.infra("real code panicked in %s: %s" % (key, o["panic"]))
            continue
        if o.get("frac"):
            ctx.violation(key + ":value-not-a-multiple-of-the-amount-quantum", {"values": o["frac"], "act": act}, rep)
            continue
        d = first_diff(o["state"], to)
        if d:
            what = "failed-call-changed-state" if not o["ok"] else ("effect-differs" if act["ok"] else "succeeded-but-must-fail")
            ctx.violation("%s:%s:%s" % (key, what, d[0].split(".")[0]),
                          {"field": d[0], "real": d[1], "model": d[2], "real_ok": o["ok"], "err": o.get("err"), "act": act}, rep)
            diverged.add(o["path"])
            continue
        for t in ("ont", "ong"):
            if o["supply"][t] != "0":
                ctx.violation("%s:total-supply-changed:%s" % (key, t), {"delta": o["supply"][t], "act": act}, rep)
        if o["gont"] != "0":
            ctx.violation("%s:third-party-balance-changed" % key, {"delta": o["gont"], "act": act}, rep)
        if o["ok"] != act["ok"]:
            # same state, different verdict of the call: the model misdescribes the return value (not a property matter)
            ctx.infra("model drift: %s real ok=%s model ok=%s err=%s act=%s" % (key, o["ok"], act["ok"], o.get("err"), act))
    return n, cnt


def trace_run(ctx, binary, users, sf, huge, ntraces, nsteps, tag, maxdt=40, ontinit=None, onginit=None, pool=1000000000):
    inp = {"users": users, "oc": "OC", "sf": sf, "huge": huge, "paths": [], "ntraces": ntraces, "nsteps": nsteps, "maxdt": maxdt,
           "ontinit": ontinit if ontinit is not None else 12 * sf, "onginit": onginit if onginit is not None else 5000 * sf, "pool": pool}
    fin = os.path.join(ctx.scratch, "token-trace-%s.in.json" % tag)
    fout = os.path.join(ctx.scratch, "token-trace-%s.ndjson" % tag)
    vf.write_json(fin, inp)
    rc, out = ctx.run_bin(binary, "TestVerifTokenTrace", env={"VERIF_IN": fin, "VERIF_OUT": fout}, timeout=3000)
    if rc != 0:
        ctx.infra("token trace driver failed rc=%s" % rc)
        return None
    return fout


def trace_check(ctx, trace_path, what="C06"):
    """TLC validates the recorded history against Token_Trace.  A rejection = a real call whose observed
    effect no Token action explains (or on which a property invariant is false)."""
    ev = vf.read_ndjson(trace_path)
    for i, e in enumerate(ev):
        if e.get("panic"):
            ctx.infra("real code panicked at trace event %d: %s" % (i + 1, e["panic"]))
        if e.get("frac"):
            ctx.violation("trace:%s:value-not-a-multiple-of-the-amount-quantum" % e["event"], {"event_index": i + 1, "values": e["frac"]},
                          {"trace_prefix": ev[:i + 1]})
            return None
        if e["event"] in ACTS:
            for t in ("ont", "ong"):
                if e["supply"][t] != "0":
                    ctx.violation("trace:%s:total-supply-changed:%s" % (e["event"], t), {"event_index": i + 1, "delta": e["supply"][t]},
                                  {"trace_prefix": ev[:i + 1]})
            if e["gont"] != "0":
                ctx.violation("trace:%s:third-party-balance-changed" % e["event"], {"event_index": i + 1, "delta": e["gont"]}, {"trace_prefix": ev[:i + 1]})
    v = ctx.trace_validate("Token_Trace", trace_path, timeout=1500)
    r = v["result"]
    if r.status == "violation":
        k = min(v["matched"], len(ev) - 1)
        ctx.violation("trace:%s:%s:invariant-%s" % (what, ev[k]["event"], r.violated), {"matched": v["matched"], "event": ev[k]},
                      {"trace_prefix": ev[:k + 1]})
    elif not v["accepted"]:
        errs = " ".join(r.errors)
        if r.status == "timeout" or v["matched"] < 1 or (r.errors and "ostcondition" not in errs and "POSTCONDITION" not in errs.upper()):
            ctx.infra("token trace validation failed to run: status=%s %s" % (r.status, r.errors[:3]))
        else:
            bad = ev[v["matched"]] if v["matched"] < len(ev) else None
            name = "%s:%s:v%s" % (bad["event"], bad.get("t"), bad.get("ver")) if bad else "?"
            ctx.violation("trace:%s:unexplained-effect" % name,
                          {"unexplained_event_index": v["matched"] + 1, "event": bad, "state_before": {k2: ev[v["matched"] - 1].get(k2) for k2 in ("bal", "allow")}},
                          {"trace_prefix": ev[: v["matched"] + 1]})
    return v


def self_test(ctx, trace_path):
    """Binding self-test: a corrupted balance, a forged success and a dropped event must be rejected."""
    ev = vf.read_ndjson(trace_path)

    def effective(i):
        e = ev[i]
        return (e["event"] in ACTS and e["ok"] and ev[i - 1].get("bal") is not None and e["bal"] != ev[i - 1]["bal"]
                and i + 1 < len(ev) and ev[i + 1]["event"] in ACTS)

    idx = next((i for i in range(2, len(ev) - 1) if effective(i)), None)
    if idx is None:
        ctx.infra("binding self-test: no effective call in the trace")
        return False
    bad1 = json.loads(json.dumps(ev))
    e = bad1[idx]
    t = e["t"]
    u = sorted(e["bal"][t])[0]
    for j in range(idx, len(bad1)):  # one unit appears from nowhere and stays
        if bad1[j]["event"] in ("Reset", "Config"):
            break
        bad1[j]["bal"][t][u] += 1
    bad2 = ev[:idx] + ev[idx + 1:]
    end = next((i for i in range(idx + 1, len(ev)) if ev[i]["event"] == "Reset"), len(ev))   # the first trace is enough
    bad1, bad2 = bad1[:end], bad2[:end - 1]
    ok = True
    for name, tr in (("corrupt", bad1), ("drop", bad2)):
        p = os.path.join(ctx.scratch, "token-selftest-%s.ndjson" % name)
        with open(p, "w") as f:
            for x in tr:
                f.write(json.dumps(x) + "\n")
        v = ctx.trace_validate("Token_Trace", p, timeout=900)
        if v["accepted"]:
            ok = False
            ctx.infra("binding self-test: %s trace was accepted" % name)
    return ok
