"""C16 — only correctly signed transactions paid by a signer are accepted (spec/SigTx.tla)."""
import _sigcheck as sc

KNOWN_DUP = "VerifyTransaction:unsound-accept:duplicate-key-in-multisig-script"


MAL = {"variants": 0, "rows": 0, "accepted": 0, "aborts": {}}


def oracle_malformed(ctx, v, o, ktypes, drift):
    """A row holding malformed signature blobs stands for all their concrete realisations (o["vars"]).  Each one: accepted
    where the property forbids it -> violation; the library aborting the call (panic) is 'NOT accepted' and allowed only where
    the specification says a malformed blob reaches the library (facts.malex); anything else against the model -> drift."""
    tx = v["tx"]
    MAL["rows"] += 1
    n_acc = n_viol = 0
    for w in o["vars"]:
        MAL["variants"] += 1
        what = "%s %s" % (sc.short_tx(tx), "+".join(w["name"]))
        if w.get("panic"):
            if not v["malex"]:
                ctx.infra("VerifyTransaction panicked on %s although no malformed blob is examined: %s" % (what, w["panic"]))
            else:
                # robustness observation, not a verdict: the call is aborted, the transaction is not accepted
                k = "%s:%s" % ("/".join(sorted(set(w["ktype"]))), "/".join(sorted(set(w["class"]))))
                MAL["aborts"][k] = MAL["aborts"].get(k, 0) + 1
            continue
        n_acc += w["acc"]
        key = "MalformedSig:accepted:%s:%s" % ("/".join(sorted(set(w["ktype"]))), "/".join(sorted(set(w["class"]))))
        if w["acc"] and not v["ok"]:
            n_viol += 1
            MAL["accepted"] += 1
            ctx.violation(key, {"tx": sc.short_tx(tx), "ktypes": ktypes, "blob": w["name"], "form": [s["form"] for s in tx["sets"]], "object_history": v["pre"]},
                          {"ktypes": ktypes, "tx": tx, "variant": w["name"], "model_accepts": v["v"], "property_allows": v["ok"]})
        elif w["acc"] != v["v"]:
            if w["acc"] and v["malex"] and key in ctx.known_keys():
                # the examined blob was counted as a signature (a recorded finding for this blob class) in a set that
                # holds enough other valid signatures for the property to allow the acceptance: explained, no verdict
                MAL["explained"] = MAL.get("explained", 0) + 1
            else:
                drift.append((what, "real=%s model=%s property_allows=%s" % (w["acc"], v["v"], v["ok"])))
    return n_acc, n_viol


def oracle(ctx, V, obs, ktypes, tag):
    """V rows (model) against observations of the real VerifyTransaction."""
    drift = []
    n_acc = n_viol = 0
    for v, o in zip(V, obs):
        tx = v["tx"]
        if o.get("vars"):
            a, nv = oracle_malformed(ctx, v, o, ktypes, drift)
            n_acc += min(a, 1); n_viol += nv
            continue
        if o.get("panic"):
            ctx.infra("VerifyTransaction panicked on %s: %s" % (sc.short_tx(tx), o["panic"]))
            continue
        real = o["acc"]
        n_acc += real
        if real and not v["ok"]:
            # the real validator accepted a transaction the property forbids
            n_viol += 1
            if v["pre"] != "fresh":
                # the same bytes are judged differently because of what was done with the object before
                key = "VerifyTransaction:unsound-accept:after-%s" % {"queried": "GetSignatureAddresses", "reverify": "failed-VerifyTransaction"}[v["pre"]]
            elif v["mut"]:
                key = "Mutate%s:mutated-transaction-accepted" % v["mut"].capitalize()
            elif v["dup"] and all_sets_signed_by_position(tx):
                key = KNOWN_DUP          # fixed by 900ecb87: reappears only if position masking returns
            else:
                key = "VerifyTransaction:unsound-accept:%s" % ("duplicate-key-other" if v["dup"] else
                                                                  ("payer-or-count" if all_sets_signed(tx) else "set-without-m-distinct-valid-signers"))
            ctx.violation(key, {"tx": sc.short_tx(tx), "ktypes": ktypes, "signed": o["signed"], "payer": o["payer"]},
                          {"ktypes": ktypes, "tx": tx, "model_accepts": v["v"], "property_allows": v["ok"]})
        elif real != v["v"]:
            drift.append((sc.short_tx(tx), "real=%s model=%s property_allows=%s" % (real, v["v"], v["ok"])))
    if drift:
        ctx.infra("MODEL-DRIFT (%s, %s): real VerifyTransaction differs from SigTx's model on %d/%d rows without violating the property, e.g. %s"
                  % (tag, ktypes, len(drift), len(V), drift[:3]))
    return n_acc, n_viol


def mal_share(v):
    """share of the malformed-blob rows executed with the slower key types in the quick tier: every single-key row on a
    fresh object (each blob shape of each key type offered to each key type), seeded shares of the others"""
    if v["pre"] != "fresh":
        return 0.1
    return 1.0 if all(s["form"] == "single" for s in v["tx"]["sets"]) else 0.4


def all_sets_signed_by_position(tx):
    """every set would pass a position-masking verifier: the first m signatures are valid signatures of listed keys,
    each key used at most as often as it is listed"""
    for s in tx["sets"]:
        vals = [k["v"] for k in s["keys"]]
        m = 1 if s["form"] == "single" else s["m"]
        if m < 1 or len(s["sigs"]) < m:
            return False
        avail = list(vals)
        for g in s["sigs"][:m]:
            if g["kind"] != "g" or g["by"] not in avail:
                return False
            avail.remove(g["by"])
    return True


def all_sets_signed(tx):
    for s in tx["sets"]:
        vals = {k["v"] for k in s["keys"]}
        good = {g["by"] for g in s["sigs"] if g["kind"] == "g" and g["by"] in vals}
        if len(good) < max(1, s["m"]):
            return False
    return True


def oracle_mut(ctx, M, mobs, ktypes):
    """byte-level mutations of accepted builder-shaped transactions must all be rejected"""
    tried = 0
    for m, o in zip(M, mobs):
        tried += o["tried"]
        if not o["baseAcc"]:
            ctx.infra("MODEL-DRIFT: base transaction of a mutation is rejected by the real code: %s (%s)" % (sc.short_tx(m["tx"]), ktypes))
            continue
        if o["regions"] != 1 or o["tried"] == 0:
            ctx.infra("mutation %s found %d regions / %d trials on %s" % (m["name"], o["regions"], o["tried"], sc.short_tx(m["tx"])))
            continue
        seen = set()
        for h in o["accepted"]:
            if m["name"] == "MutateSig":
                where = "byte"
                if h["ktype"] == "eth" and h["rel"] == h["len"] - 1:
                    where = "recovery-id-byte"
                elif h["ktype"] == "k1" and h["rel"] == 1:
                    where = "compact-header-byte"
                elif h["rel"] == 0:
                    where = "scheme-byte"
                key = "MutateSig:mutated-signature-accepted:%s:%s" % (h["ktype"], where)
            else:
                key = "%s:mutated-transaction-accepted" % m["name"]
            if key in seen:
                continue
            seen.add(key)
            ctx.violation(key, {"tx": sc.short_tx(m["tx"]), "ktypes": ktypes, "mutation": m["name"], "set": m["i"], "sig": m["j"], "hit": h},
                          {"ktypes": ktypes, "tx": m["tx"], "mutation": {"name": m["name"], "i": m["i"], "j": m["j"]}, "byte": h})
    return tried


def run(ctx):
    t = "t" if ctx.thorough else ""
    if ctx.replay_in:
        return replay(ctx)
    # Deviation switches OFF (MaskByPosition was repaired by 900ecb87): the property itself (Sound, MutatedRejected) is
    # an invariant of the model of the code, and the same run exports the rows (TLC and the Go build side by side)
    (r, rows), binary = sc.parallel(
        lambda: sc.run_tlc_rows(ctx, "SigTx_MC", "SigTx_C16%s.cfg" % t),
        lambda: ctx.go_test_bin("core/validation", harness="b_sig_validation"))
    d = r
    nexec = nmut = ntried = nacc = 0
    cand = 0
    per_kt = {}
    if r and binary:
        V, X, M = sc.split_tx_rows(rows)
        names = {m["name"] for m in M}
        malkinds = {g["kind"] for v in V for s in v["tx"]["sets"] for g in s["sigs"]} & set(sc.MAL_KINDS)
        if not ({"queried", "reverify"} <= {v["pre"] for v in V}) or not ({"MutateContent", "MutatePayer", "MutateSig"} <= names) or not any(v["v"] for v in V) or not any(not v["v"] for v in V) or not X \
                or malkinds != set(sc.MAL_KINDS) or not any(v["malex"] for v in V) or any(v["malex"] and v["v"] for v in V):
            ctx.infra("vacuous model run: actions seen %s, V rows %d" % (sorted(names), len(V)))
        cand = sum(1 for v in V if v["v"] and not v["ok"])
        ctx.log("rows: %d VerifyTransaction (%d accepted by the model, %d of them against the property = TLC candidates), %d mutations"
                % (len(V), sum(v["v"] for v in V), cand, len(M)))
        txs = [v["tx"] for v in V]
        # every row with P-256 keys; byte-exhaustive mutation of a few base transactions, seeded sample for the rest
        muts = [dict(tx=m["tx"], name=m["name"], i=m["i"], j=m["j"], full=(k % 97 == 0)) for k, m in enumerate(M)]
        obs, mobs = sc.run_sigtx(ctx, binary, sc.KT_FAST, txs, muts, "c16-fast", sample=6 if ctx.thorough else 3, malfull=ctx.thorough)
        if obs is not None:
            a, nv = oracle(ctx, V, obs, sc.KT_FAST, "all rows")
            ntried += oracle_mut(ctx, M, mobs, sc.KT_FAST)
            nexec += len(obs); nmut += len(mobs); nacc += a
            per_kt["/".join(sc.KT_FAST)] = {"rows": len(obs), "accepted": a, "mutations": len(mobs)}
            ctx.log("P-256 pass: %d rows executed, %d accepted, %d unsound accepts, %d byte mutations tried" % (len(obs), a, nv, ntried))
        # the other key types on a seeded sample (thorough: a larger one), always including every TLC candidate
        nsamp = 6000 if ctx.thorough else 800
        msamp = 400 if ctx.thorough else 40
        for kt in (sc.KT_MIX if ctx.thorough else sc.KT_MIX[:3]):
            # ... and every malformed-blob row on a fresh object (blob shapes are per key type / scheme), seeded shares of
            # the others (mal_share)
            idx = sorted(set(ctx.rng.sample(range(len(V)), min(nsamp, len(V)))) | {i for i, v in enumerate(V) if v["v"] and not v["ok"]}
                         | {i for i, v in enumerate(V) if sc.has_malformed(v["tx"]) and (ctx.thorough or ctx.rng.random() < mal_share(v))})
            midx = sorted(ctx.rng.sample(range(len(M)), min(msamp, len(M))))
            Vs, Ms = [V[i] for i in idx], [M[i] for i in midx]
            muts = [dict(tx=m["tx"], name=m["name"], i=m["i"], j=m["j"], full=(k % 29 == 0)) for k, m in enumerate(Ms)]
            obs, mobs = sc.run_sigtx(ctx, binary, kt, [v["tx"] for v in Vs], muts, "c16-" + "-".join(kt), sample=3, malfull=ctx.thorough)
            if obs is None:
                continue
            a, nv = oracle(ctx, Vs, obs, kt, "sample")
            ntried += oracle_mut(ctx, Ms, mobs, kt)
            nexec += len(obs); nmut += len(mobs); nacc += a
            per_kt["/".join(kt)] = {"rows": len(obs), "accepted": a, "mutations": len(mobs)}
            ctx.log("%s pass: %d rows executed, %d accepted, %d unsound accepts" % ("/".join(kt), len(obs), a, nv))
        if MAL["aborts"]:
            ctx.log("robustness observation (not a verdict): VerifyTransaction panicked on %d malformed-blob inputs, counted as NOT accepted: %s"
                    % (sum(MAL["aborts"].values()), MAL["aborts"]))
        ctx.log("malformed signature blobs: %d rows / %d concrete blobs executed, %d accepted" % (MAL["rows"], MAL["variants"], MAL["accepted"]))
        if V:
            ctx.samples.append({"row": sc.short_tx(V[len(V) // 2]["tx"]), "model_accepts": V[len(V) // 2]["v"], "property_allows": V[len(V) // 2]["ok"]})
        if M:
            ctx.samples.append({"mutation": M[0]["name"], "of": sc.short_tx(M[0]["tx"])})
    ctx.finish("model_checking", {
        "states": ctx.stats["states"], "transitions": ctx.stats["transitions"],
        "traces_validated_against_impl": nexec + nmut,
        "rows_executed_on_VerifyTransaction": nexec, "accepted_by_real_code": nacc,
        "mutation_rows": nmut, "byte_mutations_tried": ntried,
        "tlc_candidates_against_property": cand, "per_key_types": per_kt,
        "malformed_blob_accepted_explained_by_known_finding": MAL.get("explained", 0), "malformed_blob_rows": MAL["rows"], "malformed_blob_variants_executed": MAL["variants"], "malformed_blob_accepted": MAL["accepted"],
        "library_aborts_on_malformed_blob(robustness observation, counted as NOT accepted)": MAL["aborts"],
        "exhaustive": True, "deviation_switches": {"MaskByPosition": False, "RawScriptFallback": False},
        "constants": {"cfg": "SigTx_C16%s.cfg" % t, "keys": 3, "max_keys_per_script": 3, "max_sigs": 3, "sets": "1 (full), 2 (family of 9), 0/16/17"},
    }, ["operation sequences on one Transaction object: VerifyTransaction on a fresh decode, after GetSignatureAddresses(), and again after a rejection (VerdictPure: the verdict is a function of the bytes)",
        "ideal cryptography: a signature verifies iff it was made by that key over exactly that message",
        "mutations are applied to transactions in builder shape (each set carries exactly m signatures); surplus signatures are never examined by the validator and are outside the mutation claim",
        "abstract keys are bound to real keys of every supported type (P-224/256/384/521, secp256k1, SM2, Ed25519, Ethereum-type); all rows with P-256, seeded samples with the others",
        "malformed signature blobs (empty, scheme byte only, truncated, over-long, wrong scheme byte; built from a good signature of each key type) in single-key sets and at every position of 1..3-of-2..3 multi-signature sets: each abstract row is executed for all its concrete byte strings (boundary truncation lengths + seeded ones; thorough: every length); a panic of VerifyTransaction on such a row counts as NOT accepted (robustness observation in the evidence), an acceptance is a violation",
        "byte mutations XOR one byte with 0x01, 0x04, 0x80 and a seeded value at the first two, the last and seeded positions of the named region (every position for a subset of rows)"])


def replay(ctx):
    """bin/check C16 --replay <file>: re-execute the recorded input on the real code and re-apply the oracle"""
    import json, sys
    rec = json.load(open(ctx.replay_in))["replay"]
    binary = ctx.go_test_bin("core/validation", harness="b_sig_validation")
    if not binary:
        sys.exit(2)
    kt = rec["ktypes"]
    if "mutation" in rec:
        m = dict(tx=rec["tx"], name=rec["mutation"]["name"], i=rec["mutation"]["i"], j=rec["mutation"]["j"], full=True)
        obs, mobs = sc.run_sigtx(ctx, binary, kt, [], [m], "replay")
        bad = mobs is not None and bool(mobs[0]["accepted"])
        what = mobs[0]["accepted"][:3] if mobs else None
    else:
        obs, mobs = sc.run_sigtx(ctx, binary, kt, [rec["tx"]], [], "replay", malfull=True)
        if obs is not None and obs[0].get("vars"):
            # the recorded concrete blob (other realisations of the same abstract row may be recorded findings of their own)
            hits = [w for w in obs[0]["vars"] if w["acc"] and not rec["property_allows"] and w["name"] == rec.get("variant", w["name"])]
            bad = bool(hits)
            what = hits[:3] if hits else "blob %s not accepted (%d concrete blobs of the row executed)" % (rec.get("variant"), len(obs[0]["vars"]))
        else:
            bad = obs is not None and obs[0]["acc"] and not rec["property_allows"]
            what = obs[0] if obs else None
    if obs is None and mobs is None:
        sys.exit(2)
    print("REPLAY property=C16 %s: %s" % ("VIOLATION reproduced" if bad else "not reproduced", what))
    sys.exit(1 if bad else 0)
