"""C31 -- commit consensus is declared only with a verifiable two-thirds signer quorum.

spec/VBFTPool.tla models the BlockPool candidate record and commitDone (getCommitConsensus + fallback) with thresholds
extracted from the real code; VBFTPool_MC feeds every bounded sequence of (possibly forged) proposal/endorse/commit
messages.  (a) as-coded configuration: every TLC edge is replayed on a real BlockPool behind the real intake signature
check; pool content, decision and valid-signer sets are compared with the model and the property (|valid signers of the
declared block| >= N-(N-1)/3, real keys and signatures) is evaluated on the real pool.  (b) design configuration (named
deviation switches on): TLC checks CommitSound as an invariant.  (c) TLC -simulate behaviours of bigger configurations
(two proposers; N=7, C=2) are replayed the same way."""
import threading

import vf
import _vbft as vb

P1, P2 = "Proposers1", "Proposers2"
EXH_QUICK = [
    ("n4-commit", 4, dict(Proposers=P1, MaxProp=1, MaxEnd=0, MaxCom=2, MaxForged=1, MaxClaims=1, ForgePok="FALSE")),
    ("n4-claims", 4, dict(Proposers=P1, MaxProp=1, MaxEnd=0, MaxCom=1, MaxForged=1, MaxClaims=3, ForgePok="TRUE")),
    ("n4-endorse", 4, dict(Proposers=P1, MaxProp=1, MaxEnd=3, MaxCom=0, MaxForged=1, MaxClaims=0, ForgePok="FALSE")),
    # the same endorsement arriving with and without the endorser's cross-chain-msg signature (all signatures valid)
    ("n4-endorse-cc", 4, dict(Proposers=P1, MaxProp=1, MaxEnd=3, MaxCom=0, MaxForged=0, MaxClaims=0, ForgePok="FALSE", CcChoices="CcBoth")),
]
# N > 3C+1 (the quorum N-(N-1)/3 exceeds 2C+1): all-valid messages in a reduced universe, so that the fallback of commitDone
# (pool signatures) and getCommitConsensus are exercised around their thresholds for these (N, C) too
EXH_QUICK += [
    ("n6-sigs", 6, dict(Proposers=P1, MaxProp=1, MaxEnd=4, MaxCom=0, MaxForged=0, MaxClaims=0, ForgePok="FALSE", Canonical="TRUE")),
    ("n6-commit", 6, dict(Proposers=P1, MaxProp=1, MaxEnd=1, MaxCom=1, MaxForged=0, MaxClaims=4, ForgePok="FALSE", Canonical="TRUE")),
    ("n8-sigs", 8, dict(Proposers=P1, MaxProp=1, MaxEnd=6, MaxCom=0, MaxForged=0, MaxClaims=0, ForgePok="FALSE", Canonical="TRUE")),
    ("n8-commit", 8, dict(Proposers=P1, MaxProp=1, MaxEnd=1, MaxCom=1, MaxForged=0, MaxClaims=6, ForgePok="FALSE", Canonical="TRUE")),
]
EXH_THOROUGH = [
    ("n4-commit2", 4, dict(Proposers=P1, MaxProp=1, MaxEnd=0, MaxCom=2, MaxForged=1, MaxClaims=2, ForgePok="FALSE")),
    ("n4-commit3", 4, dict(Proposers=P1, MaxProp=0, MaxEnd=0, MaxCom=3, MaxForged=1, MaxClaims=1, ForgePok="FALSE")),
    ("n4-mixed", 4, dict(Proposers=P1, MaxProp=1, MaxEnd=2, MaxCom=1, MaxForged=1, MaxClaims=2, ForgePok="FALSE")),
    ("n4-2prop", 4, dict(Proposers=P2, MaxProp=2, MaxEnd=2, MaxCom=1, MaxForged=1, MaxClaims=1, ForgePok="FALSE")),
]
SIM = [
    # (label, N, overrides, behaviours quick, thorough, depth)
    ("n4-sim", 4, dict(Proposers=P2, MaxProp=2, MaxEnd=4, MaxCom=3, MaxForged=2, MaxClaims=2, ForgePok="TRUE"), 150, 3000, 9),
    ("n7-sim", 7, dict(Proposers=P2, MaxProp=2, MaxEnd=4, MaxCom=3, MaxForged=2, MaxClaims=4, ForgePok="TRUE"), 150, 3000, 9),
]


def cfg_text(n, c, ov, design=False, edges=True):
    sw = "TRUE" if design else "FALSE"
    l = ["SPECIFICATION Spec", "CONSTANTS", "  N = %d" % n, "  C = %d" % c, "  EndorserSet <- EndorserSet%d" % n,
         "  QM <- QM%d" % n, "  QS <- QS%d" % n, "  TE <- TE%d" % n,
         "  SW_Verify = %s" % sw, "  SW_PerBlock = %s" % sw, "  SW_Proposer = %s" % sw]
    ov = dict(ov)
    ov.setdefault("Canonical", "FALSE")
    ov.setdefault("CcChoices", "CcNone")
    for k, v in ov.items():
        l.append("  %s %s %s" % (k, "<-" if k in ("Proposers", "CcChoices") else "=", v))
    l += ["VIEW view", "INVARIANTS TypeOK" + (" Inv_CommitSound" if design else ""), "CHECK_DEADLOCK FALSE"]
    if edges:
        l += ["CONSTRAINT InitOut", "ACTION_CONSTRAINT Edge"]
    return "\n".join(l) + "\n"


def behaviours_from_sim(edges, inits):
    """TLC's simulator prints (through ACTION_CONSTRAINT Edge) the candidate successor edges of the current state, one
    group of consecutive edges per visited state; the edge taken is the one whose target is the source of the next group.
    The last group of a behaviour has no identifiable taken edge and is dropped."""
    init_c = {vf.canon(s) for s in inits}
    groups = []
    for e in edges:
        fc = vf.canon(e["from"])
        if groups and groups[-1][0] == fc:
            groups[-1][1].append(e)
        else:
            groups.append((fc, [e]))
    beh, cur = [], None
    for gi, (fc, es) in enumerate(groups):
        if fc in init_c:
            if cur:
                beh.append(cur)
            cur = []
        if cur is None:
            continue
        nxt = groups[gi + 1][0] if gi + 1 < len(groups) else None
        if nxt is None or nxt in init_c:
            continue
        taken = [e for e in es if vf.canon(e["to"]) == nxt]
        if not taken:
            # broken chain (should not happen): give up on this behaviour
            if cur:
                beh.append(cur)
            cur = None
            continue
        cur.append(taken[0])
    if cur:
        beh.append(cur)
    return [b for b in beh if b]


def run(ctx):
    binary = vb.build(ctx)
    stats = {"steps": 0, "drift": 0, "done": 0, "unsound": 0}
    npaths = 0
    design_states = 0
    consts = None
    per_cfg = {}
    if binary:
        mod, consts = vb.extract_constants(ctx, binary)
    if binary and consts:
        files = {"VBFTConst.tla": mod}
        exh = EXH_QUICK + (EXH_THOROUGH if ctx.thorough else [])
        jobs = []
        for label, n, ov in exh:
            c = dict(vb.CONFIGS)[n]
            jobs.append(dict(kind="coded", label=label, n=n, c=c, ov=ov, cfg=cfg_text(n, c, ov), kw=dict(workers=1)))
            jobs.append(dict(kind="design", label=label, n=n, c=c, ov=ov, cfg=cfg_text(n, c, ov, design=True, edges=False), kw=dict(workers=2)))
        for label, n, ov, nq, nt, depth in SIM:
            c = dict(vb.CONFIGS)[n]
            jobs.append(dict(kind="sim", label=label, n=n, c=c, ov=ov, cfg=cfg_text(n, c, ov),
                             kw=dict(workers=1, simulate="num=%d" % (nt if ctx.thorough else nq), depth=depth)))
        # all TLC runs concurrently (each single-threaded where output is parsed); spec staging is serialized
        lock = threading.Lock()
        orig_stage = ctx.stage_specs

        def locked_stage(extra_files=None):
            with lock:
                return orig_stage(extra_files)

        ctx.stage_specs = locked_stage
        sem = threading.Semaphore(max(2, min(8, vf.NCPU)))

        def tlc_job(j):
            with sem:
                f = dict(files)
                f["VBFTPool_gen.cfg"] = j["cfg"]
                j["r"] = ctx.tlc("VBFTPool_MC", cfg="VBFTPool_gen.cfg", files=f, timeout=2400, **j["kw"])

        th = [threading.Thread(target=tlc_job, args=(j,)) for j in jobs]
        [t.start() for t in th]
        [t.join() for t in th]
        ctx.stage_specs = orig_stage
        for j in jobs:
            r, label, n, c, ov = j["r"], j["label"], j["n"], j["c"], j["ov"]
            if j["kind"] == "design":
                design_states += r.distinct
                if r.status != "ok":
                    ctx.infra("TLC (%s design variant): CommitSound is not an invariant of the intended design: status=%s violated=%s %s" % (
                        label, r.status, r.violated, r.errors[:2]))
                continue
            if r.status != "ok":
                ctx.infra("TLC (%s %s): status=%s violated=%s %s" % (label, j["kind"], r.status, r.violated, r.errors[:2]))
                continue
            edges, inits = r.prints.get("EDGE", []), r.prints.get("INIT", [])
            if j["kind"] == "coded":
                names = {e["act"]["name"] for e in edges}
                want = ({"FeedProposal"} if ov["MaxProp"] else set()) | ({"FeedCommit"} if ov["MaxCom"] else set()) | ({"FeedEndorse"} if ov["MaxEnd"] else set())
                if not want <= names:
                    ctx.infra("vacuous model run %s: actions never taken: %s" % (label, want - names))
                paths, ncov = ctx.cover(edges, inits, max_len=12)
                acts = [[s["act"] for s in p["steps"]] for p in paths]
                states = [[s["to"] for s in p["steps"]] for p in paths]
                ctx.log("TLC %s: %d generated, %d distinct, %d edges (%.0fs); cover %d paths / %d steps (%d edges)" % (
                    label, r.generated, r.distinct, len(edges), r.wall, len(paths), sum(len(a) for a in acts), ncov))
                if ncov < len({(vf.canon(e["from"]), vf.canon(e["act"]), vf.canon(e["to"])) for e in edges}):
                    ctx.infra("%s: cover misses edges" % label)
            else:
                beh = behaviours_from_sim(edges, inits)
                acts = [[e["act"] for e in b] for b in beh]
                states = [[e["to"] for e in b] for b in beh]
                ctx.log("TLC simulate %s: %d behaviours, %d steps (%.0fs)" % (label, len(beh), sum(len(b) for b in beh), r.wall))
                if not beh:
                    ctx.infra("no simulated behaviours for %s" % label)
            res = vb.replay_pool(ctx, binary, n, c, acts, label)
            if res is None:
                continue
            before = dict(stats)
            vb.check_pool_paths(ctx, n, acts, states, res, stats)
            npaths += len(acts)
            per_cfg[label] = {"distinct": r.distinct, "edges": len(edges), "paths": len(acts),
                              "commit_done_states_replayed": stats["done"] - before["done"],
                              "unsound_on_real_pool": stats["unsound"] - before["unsound"]}
            if acts and not ctx.samples:
                k = min(2, len(res[0]) - 1)
                ctx.samples.append({"replayed_path": [vb.act_to_feed(a) for a in acts[0][:k + 1]],
                                    "real_observation": {x: res[0][k][x] for x in ("cd", "cdp", "cde", "valid", "viaMsgs")}})
        vb.report_violations(ctx, stats)
        if stats["done"] == 0:
            ctx.infra("vacuous: commitDone never true on the real pool")
        ctx.log("replayed %d paths / %d steps on the real BlockPool: commitDone true in %d states, %d of them without a valid quorum; drift %d" % (
            npaths, stats["steps"], stats["done"], stats["unsound"], stats["drift"]))
    ctx.finish("model_checking", {
        "states": ctx.stats["states"], "transitions": ctx.stats["transitions"],
        "traces_validated_against_impl": npaths, "replayed_steps": stats["steps"],
        "commit_done_states_on_real_pool": stats["done"], "unsound_states_on_real_pool": stats["unsound"],
        "design_variant_states": design_states, "extracted_constants": consts, "per_config": per_cfg,
        "violation_classes": stats.get("violn", {}),
    }, ["pool-level binding: messages pass the intake signature check of Server.run (transcribed: msg.Verify under the SENDER's key) "
        "and are added with newBlockProposal/newBlockEndorsement/newBlockCommitment as processMsgEvent does",
        "one proposal variant per proposer (equivocation is part of C34)", "forged material is signed by one designated peer (index 1)",
        "fallback iteration orders enumerated exactly for maps of <= 4 keys, over-approximated above"])
