"""C33 — cross-chain headers need signatures of two thirds of distinct peers (spec/SigHeader.tla, SyncBlockHeader)."""
import _sigcheck as sc

KNOWN = "SyncBlockHeader:unsound-accept:duplicate-bookkeeper"


def run_bin(ctx, binary, N, rows, tag):
    obs = run_batch(ctx, binary, [(N, rows)], tag)
    return obs[0] if obs else None


def run_batch(ctx, binary, worlds, tag):
    """worlds: [(peer-set size, rows)], one stored peer set each, one harness call -> [observations per world]"""
    res = sc.go_rows(ctx, binary, "TestVerifSigHeaderSync", {"batch": [{"n": n, "rows": rows} for n, rows in worlds]}, tag)
    if res is None:
        return None
    out = []
    for wi, (n, rows) in enumerate(worlds):
        m = [o for o in res if o.get("meta") and o.get("w") == wi]
        obs = [o for o in res if "i" in o and o.get("w") == wi]
        if len(m) != 1 or m[0].get("storedPeers") != n:
            ctx.infra("header_sync harness (%s): the contract has not stored a peer set of %d peers (%s)" % (tag, n, m[:1]))
            return None
        if len(obs) != len(rows):
            ctx.infra("header_sync harness (%s, %d peers) returned %d/%d rows" % (tag, n, len(obs), len(rows)))
            return None
        out.append(obs)
    return out


QPADS = ("garbage", "stale", "repeat", "unlisted", "outsider")
KEY_SHORT = "SyncBlockHeader:unsound-accept:verifies-fewer-signatures-than-two-thirds"


def probe(ctx, binary, Ns):
    """Thresholds of the tree for every peer-set size in Ns, one harness call: headers listing the first L peers
    (L = 0..N) with valid signatures of the first j of them (j = 0..L) and garbage in the remaining L-j places.
    -> {N: (ml, sv)}: ml = shortest list accepted when every listed peer signed, sv[L] = how many leading
    signatures must be valid for a list of length L (as many as the contract really verifies)."""
    worlds, meta = [], []
    for N in Ns:
        full = list(range(1, N + 1))
        lj = [(L, j) for L in range(0, N + 1) for j in range(0, L + 1)]
        worlds.append((N, [{"bk": full[:L], "sigs": [sc.G(k) for k in full[:j]] + [sc.X] * (L - j)} for L, j in lj]))
        meta.append(lj)
    res = run_batch(ctx, binary, worlds, "c33-probe")
    if res is None:
        return {}
    out = {}
    for N, lj, obs in zip(Ns, meta, res):
        if any(o.get("panic") for o in obs):
            ctx.infra("probe N=%d: panics %s" % (N, [o["panic"] for o in obs if o.get("panic")][:2]))
            continue
        acc = {x: bool(o["acc"]) for x, o in zip(lj, obs)}
        full_ok = [L for L in range(0, N + 1) if acc[(L, L)]]
        if not full_ok:
            ctx.infra("probe N=%d: the real code accepted none of the fully signed probe headers" % N)
            continue
        ml = full_ok[0]
        if full_ok != list(range(ml, N + 1)):
            ctx.infra("probe N=%d: acceptance not monotone in the list length (%s)" % (N, full_ok))
            continue
        sv, bad = {}, None
        for L in range(0, N + 1):
            js = [j for j in range(0, L + 1) if acc[(L, j)]]
            if js != (list(range(js[0], L + 1)) if js and L >= ml else []):
                bad = (L, js)
                break
            if js:
                sv[L] = js[0]
        if bad:
            ctx.infra("probe N=%d: acceptance not monotone in the number of valid signatures (list length %d: %s)" % ((N,) + bad))
            continue
        out[N] = (ml, sv)
    return out


def confs_for(ctx):
    """(peer-set sizes, max bookkeepers, max signatures, max outsiders, slack, align, quorum mode) -- see SigHeader.tla.
    The general enumeration (all lists / all signature symbols) runs for 4 and 7 (thorough: 5, 10) stored peers; the quorum
    mode (number of valid signatures independent of the number listed) in ONE run for EVERY peer-set size, all residues mod 3."""
    if not ctx.thorough:
        return [([4], 3, 3, 1, 1, 0, False), ([7], 5, 5, 0, 0, 3, False), (list(range(1, 11)), 0, 0, 0, 0, 0, True)]
    return [([4], 4, 4, 1, 0, 0, False), ([4], 5, 5, 1, 0, 3, False), ([5], 4, 4, 0, 1, 0, False), ([7], 6, 6, 0, 0, 3, False),
            ([7], 5, 5, 1, 0, 3, False), ([10], 7, 7, 0, 0, 2, False), (list(range(1, 14)), 0, 0, 0, 0, 0, True)]


def two_thirds(n):
    return -(-2 * n // 3)


def run(ctx):
    confs = confs_for(ctx)
    binary = ctx.go_test_bin("smartcontract/service/native/cross_chain/header_sync/test", harness="b_sig_hsync")
    if ctx.replay_in:
        import json, sys
        rec = json.load(open(ctx.replay_in))["replay"]
        obs = run_bin(ctx, binary, rec["N"], [{"bk": rec["bk"], "sigs": rec["sigs"]}], "replay") if binary else None
        if obs is None:
            sys.exit(2)
        nvalid = len({g[1] for g in rec["sigs"] if g[0] == "g" and 1 <= g[1] <= rec["N"]})
        bad = obs[0]["acc"] and 3 * nvalid < 2 * rec["N"]
        print("REPLAY property=C33 %s: accepted=%s distinct valid peer signatures=%d of %d peers" % ("VIOLATION reproduced" if bad else "not reproduced", obs[0]["acc"], nvalid, rec["N"]))
        sys.exit(1 if bad else 0)
    nexec = nacc = nunsound = cand = 0
    per = {}
    epoch = {}
    if binary:
        # the stateful part (spec/SigEpoch.tla, below) is independent of the header enumeration: it runs alongside
        import threading

        def epoch_job():
            try:
                epoch["r"] = sc.epoch_phase(ctx, binary, "sync", "SigEpoch_C33.cfg", "TestVerifSigEpochSync", {"n": 4, "keys": 5})
            except BaseException as e:  # noqa
                epoch["exc"] = e
        eth = threading.Thread(target=epoch_job)
        eth.start()
        # 1. probe the thresholds of every peer-set size, 2. all TLC runs side by side, 3. execute the rows
        plan = []
        probed = probe(ctx, binary, sorted({n for c in confs for n in c[0]}))
        for N, (ml, sv) in sorted(probed.items()):
            short = {L: m for L, m in sv.items() if m != L}
            ctx.log("N=%d: the tree wants a bookkeeper list of length >= %d and verifies %s (property: >= %d distinct valid peer signatures)"
                    % (N, ml, "every listed bookkeeper's signature" if not short else "only {list length: signatures} %s" % short, two_thirds(N)))
        for ci, (sizes, maxbk, maxsigs, outs, slack, align, quorum) in enumerate(confs):
            sizes = [n for n in sizes if n in probed]
            if not sizes:
                continue
            mltab = {n: probed[n][0] for n in sizes}
            svtab = {(n, L): m for n in sizes for L, m in probed[n][1].items()}
            name = "SigHeader_S%d_%d.cfg" % (max(sizes), ci)
            # MaskByPosition OFF (repaired by 900ecb87).  With the probed thresholds at (or above) two thirds the
            # property SyncSound itself is the invariant of the model of the tree; a lower probed threshold is a
            # candidate that the rows then confirm on the real code
            sound = all(mltab[n] >= two_thirds(n) for n in sizes) and all(m >= two_thirds(n) for (n, L), m in svtab.items())
            big = max(sizes)
            ccfg = sc.hdr_cfg(big, 0, 0, 0, 0, False, "sync", maxbk, maxsigs, "SyncSound SyncQuorum" if sound else "SyncSoundUpTo", True,
                              outs, slack, align, sizes=sizes, mltab=mltab, svtab=svtab, qpads=QPADS if quorum else (),
                              qbelow=big if ctx.thorough else 1, qshort=big if ctx.thorough else 1)
            plan.append((ci, sizes, maxbk, maxsigs, outs, slack, align, quorum, name, ccfg))
        tlc = sc.parallel(*[(lambda pl=pl: sc.run_tlc_rows(ctx, "SigHeader_MC", pl[8], files={pl[8]: pl[9]}, workers=max(2, sc.vf.NCPU // max(1, len(plan)))))
                            for pl in plan]) if plan else []
        todo = []
        for pl, (r, rows) in zip(plan, tlc):
            ci, sizes, quorum = pl[0], pl[1], pl[7]
            if not r:
                continue
            H = sc.hdr_rows(rows)
            byn = {n: [h for h in H if h["n"] == n] for n in sizes}
            if sum(len(v) for v in byn.values()) != len(H):
                ctx.infra("rows of %s carry peer-set sizes outside %s" % (pl[8], sizes))
                continue
            vac = [n for n in sizes if not any(h["acc"] for h in byn[n]) or not any(not h["acc"] for h in byn[n])]
            if vac:
                ctx.infra("vacuous model run for %s peers (%s)" % (vac, pl[8]))
                continue
            # the quorum mode must have produced the class it is there for: enough bookkeepers LISTED (and as many
            # signatures), one VALID signature of a listed peer less than two thirds
            vac = [n for n in sizes if quorum and n >= 2 and not any(
                len(h["bk"]) >= two_thirds(n) and len(h["sigs"]) >= len(h["bk"]) and not h["ok"]
                and len({g[1] for g in h["sigs"] if g[0] == "g" and g[1] in h["bk"]}) == two_thirds(n) - 1 for h in byn[n])]
            if vac:
                ctx.infra("vacuous quorum mode for %s peers: no header listing two thirds with one valid signature less" % vac)
                continue
            todo.append((pl, byn))
        allobs = sc.parallel(*[(lambda pl=pl, byn=byn: run_batch(ctx, binary, [(n, [{"bk": h["bk"], "sigs": h["sigs"]} for h in byn[n]]) for n in pl[1]],
                                                                  "c33-rows-%d" % pl[0])) for pl, byn in todo]) if todo else []
        for (pl, byn), wobs in zip(todo, allobs):
            ci, sizes, maxbk, maxsigs, outs, slack, align, quorum, name, ccfg = pl
            if wobs is None:
                continue
            for N, obs in zip(sizes, wobs):
                H = byn[N]
                ml, sv = probed[N]
                need = two_thirds(N)
                c = sum(1 for h in H if h["acc"] and not h["ok"])
                cand += c
                drift = []
                acc = uns = 0
                for h, o in zip(H, obs):
                    if o.get("panic"):
                        ctx.infra("SyncBlockHeader panicked on %s: %s" % (sc.hdr_str(h), o["panic"]))
                        continue
                    if o["acc"] != o["direct"] or o["acc"] != o["stored"]:
                        ctx.infra("SyncBlockHeader / VerifyHeader / stored header disagree on %s: %s" % (sc.hdr_str(h), o))
                        continue
                    acc += o["acc"]
                    if o["acc"] and not h["ok"]:
                        uns += 1
                        nvalid = len({g[1] for g in h["sigs"] if g[0] == "g" and 1 <= g[1] <= N})
                        if any(k > N for k in h["bk"]):
                            key = "SyncBlockHeader:unsound-accept:non-peer-bookkeeper"
                        elif 3 * len(h["bk"]) < 2 * N:
                            key = "SyncBlockHeader:unsound-accept:list-shorter-than-two-thirds"
                        elif h["acc"] and 3 * sv.get(len(h["bk"]), len(h["bk"])) < 2 * N:
                            key = KEY_SHORT      # enough bookkeepers listed, but fewer of their signatures verified than two thirds of the peers
                        elif h["dup"]:
                            key = KNOWN          # fixed by 900ecb87: a long enough list of peers with one peer counted several times
                        elif h["acc"]:
                            key = "SyncBlockHeader:unsound-accept:list-length-threshold-below-two-thirds"
                        else:
                            key = "SyncBlockHeader:unsound-accept:other"
                        ctx.violation(key, {"peers": N, "header": sc.hdr_str(h), "distinct_valid_peer_signatures": nvalid, "required": need},
                                      {"N": N, "bk": h["bk"], "sigs": h["sigs"]})
                    elif o["acc"] != h["acc"]:
                        drift.append((sc.hdr_str(h), "real=%s model=%s" % (o["acc"], h["acc"])))
                if drift:
                    ctx.infra("MODEL-DRIFT N=%d: %d/%d rows, e.g. %s" % (N, len(drift), len(H), drift[:3]))
                nexec += len(obs); nacc += acc; nunsound += uns
                per["N=%d/%d%s" % (N, ci, "/quorum" if quorum else "")] = {
                    "rows": len(obs), "max_outsiders": outs, "sig_slack": slack, "align_opts": align, "accepted": acc, "unsound_accepts": uns,
                    "tlc_candidates": c, "min_list_len": ml, "max_bk": maxbk, "max_sigs": maxsigs, "quorum_mode": quorum, "two_thirds": need,
                    "sigs_verified_by_list_len": {str(L): m for L, m in sorted(sv.items())}}
                ctx.log("N=%d%s: %d rows on SyncBlockHeader+VerifyHeader, %d accepted, %d against the property (TLC candidates %d)"
                        % (N, " (quorum mode)" if quorum else "", len(obs), acc, uns, c))
                if not quorum or N in (5, 8):
                    ctx.samples.append({"peers": N, "header": sc.hdr_str(H[len(H) // 2]), "model_accepts": H[len(H) // 2]["acc"], "property_allows": H[len(H) // 2]["ok"]})
    # stateful part: which stored peer set governs a header when key headers arrive in any order (spec/SigEpoch.tla)
    if binary:
        eth.join()
        if "exc" in epoch:
            raise epoch["exc"]
    ep = epoch.get("r")
    if ep:
        nexec += ep[0]
        per["epoch histories"] = {"histories": ep[0], "steps": ep[1], "unsound_accepts": ep[2]}
    ctx.finish("model_checking", {
        "states": ctx.stats["states"], "transitions": ctx.stats["transitions"],
        "traces_validated_against_impl": nexec, "accepted_by_real_code": nacc, "unsound_accepts_on_real_code": nunsound,
        "tlc_candidates_against_property": cand, "per_configuration": per, "exhaustive": True,
    }, ["ideal cryptography", "peer set stored through the contract's own SyncGenesisHeader path over an in-memory CacheDB; every header is offered to SyncBlockHeader on a throw-away cache and to VerifyHeader directly",
        "headers enumerated up to renaming of peers (listed in order of first occurrence); signatures by listed peers, one unlisted peer, an outsider, garbage, stale",
        "quorum mode, every peer-set size 1..10 (thorough ..13): L distinct peers listed, the first or last v of them signed, signature list padded (before or after) with garbage / stale / repeated / unlisted-peer / outsider signatures to |bk|-1..|bk|+1 (thorough: any length), all L and v",
        "stateful part (SigEpoch): all histories of 3 SyncBlockHeader steps at 3 heights in any order, key headers retiring one peer, 5 signer sets",
        "the list-length threshold and the number of signatures verified per list length are probed from the tree and fed to TLC as constants"])
