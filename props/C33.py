"""C33 — cross-chain headers need signatures of two thirds of distinct peers (spec/SigHeader.tla, SyncBlockHeader)."""
import _sigcheck as sc

KNOWN = "SyncBlockHeader:unsound-accept:duplicate-bookkeeper"


def run_bin(ctx, binary, N, rows, tag):
    res = sc.go_rows(ctx, binary, "TestVerifSigHeaderSync", {"n": N, "rows": rows}, tag)
    if res is None:
        return None
    obs = [o for o in res[1:] if "i" in o]
    if len(obs) != len(rows):
        ctx.infra("header_sync harness returned %d/%d rows" % (len(obs), len(rows)))
        return None
    return obs


QPADS = ("garbage", "stale", "repeat", "unlisted", "outsider")
KEY_SHORT = "SyncBlockHeader:unsound-accept:verifies-fewer-signatures-than-two-thirds"


def probe(ctx, binary, Ns):
    """Thresholds of the tree for every peer-set size in Ns, one harness call: headers listing the first L peers
    (L = 0..N) with valid signatures of the first j of them (j = 0..L) and garbage in the remaining L-j places.
    -> {N: (ml, svtab)}: ml = shortest list accepted when every listed peer signed, svtab[L] = how many leading
    signatures must be valid for a list of length L (as many as the contract really verifies)."""
    batch, meta = [], []
    for N in Ns:
        full = list(range(1, N + 1))
        lj = [(L, j) for L in range(0, N + 1) for j in range(0, L + 1)]
        batch.append({"n": N, "rows": [{"bk": full[:L], "sigs": [sc.G(k) for k in full[:j]] + [sc.X] * (L - j)} for L, j in lj]})
        meta.append(lj)
    res = sc.go_rows(ctx, binary, "TestVerifSigHeaderSync", {"batch": batch}, "c33-probe")
    if res is None:
        return {}
    out = {}
    for wi, N in enumerate(Ns):
        m = [o for o in res if o.get("meta") and o.get("w") == wi]
        obs = [o for o in res if "i" in o and o.get("w") == wi]
        if len(m) != 1 or m[0].get("storedPeers") != N:
            ctx.infra("probe N=%d: the contract has not stored a peer set of %d peers (%s)" % (N, N, m[:1]))
            continue
        if len(obs) != len(meta[wi]) or any(o.get("panic") for o in obs):
            ctx.infra("probe N=%d: %d/%d observations, panics %s" % (N, len(obs), len(meta[wi]), [o["panic"] for o in obs if o.get("panic")][:2]))
            continue
        acc = {lj: bool(o["acc"]) for lj, o in zip(meta[wi], obs)}
        full_ok = [L for L in range(0, N + 1) if acc[(L, L)]]
        if not full_ok:
            ctx.infra("probe N=%d: the real code accepted none of the fully signed probe headers" % N)
            continue
        ml = full_ok[0]
        if full_ok != list(range(ml, N + 1)):
            ctx.infra("probe N=%d: acceptance not monotone in the list length (%s)" % (N, full_ok))
            continue
        svtab, bad = {}, None
        for L in range(0, N + 1):
            js = [j for j in range(0, L + 1) if acc[(L, j)]]
            if js != (list(range(js[0], L + 1)) if js and L >= ml else []):
                bad = (L, js)
                break
            if js:
                svtab[L] = js[0]
        if bad:
            ctx.infra("probe N=%d: acceptance not monotone in the number of valid signatures (list length %d: %s)" % ((N,) + bad))
            continue
        out[N] = (ml, svtab)
    return out


def confs_for(ctx):
    """(N, max bookkeepers, max signatures, max outsiders, slack, align, quorum mode) -- see SigHeader.tla.  The general
    enumeration (all lists / all signature symbols) runs for 4 and 7 (10) peers; the quorum mode (number of valid
    signatures independent of the number listed) for EVERY peer-set size, all residues mod 3."""
    if not ctx.thorough:
        general = [(4, 3, 3, 1, 1, 0), (7, 5, 5, 0, 0, 3)]
        qn = range(1, 11)
    else:
        general = [(4, 4, 4, 1, 0, 0), (4, 5, 5, 1, 0, 3), (5, 4, 4, 0, 1, 0), (7, 6, 6, 0, 0, 3), (7, 5, 5, 1, 0, 3), (10, 7, 7, 0, 0, 2)]
        qn = range(1, 14)
    confs, seen = [], set()
    for g in general:
        confs.append(g + (g[0] in qn and g[0] not in seen,))
        seen.add(g[0])
    confs += [(N, 0, 0, 0, 0, 0, True) for N in qn if N not in seen]
    return sorted(confs, key=lambda c: c[0])


def run(ctx):
    confs = confs_for(ctx)
    binary = ctx.go_test_bin("smartcontract/service/native/cross_chain/header_sync/test", harness="b_sig_hsync")
    if ctx.replay_in:
        import json, sys
        rec = json.load(open(ctx.replay_in))["replay"]
        obs = run_bin(ctx, binary, rec["N"], [{"bk": rec["bk"], "sigs": rec["sigs"]}], "replay") if binary else None
        if obs is None:
            sys.exit(2)
        nvalid = len({g[1] for g in rec["sigs"] if g[0] == "g" and 1 <= g[1] <= rec["N"]})
        bad = obs[0]["acc"] and 3 * nvalid < 2 * rec["N"]
        print("REPLAY property=C33 %s: accepted=%s distinct valid peer signatures=%d of %d peers" % ("VIOLATION reproduced" if bad else "not reproduced", obs[0]["acc"], nvalid, rec["N"]))
        sys.exit(1 if bad else 0)
    nexec = nacc = nunsound = cand = 0
    per = {}
    epoch = {}
    if binary:
        # the stateful part (spec/SigEpoch.tla, below) is independent of the header enumeration: it runs alongside
        import threading

        def epoch_job():
            try:
                epoch["r"] = sc.epoch_phase(ctx, binary, "sync", "SigEpoch_C33.cfg", "TestVerifSigEpochSync", {"n": 4, "keys": 5})
            except BaseException as e:  # noqa
                epoch["exc"] = e
        eth = threading.Thread(target=epoch_job)
        eth.start()
        # 1. probe the thresholds of every peer-set size, 2. all TLC runs side by side, 3. execute the rows
        plan = []
        probed = probe(ctx, binary, sorted({c[0] for c in confs}))
        for ci, (N, maxbk, maxsigs, outs, slack, align, quorum) in enumerate(confs):
            if N not in probed:
                continue
            ml, svtab = probed[N]
            need = -(-2 * N // 3)
            short = {L: m for L, m in svtab.items() if m != L}
            ctx.log("N=%d: the tree wants a bookkeeper list of length >= %d and verifies %s (property: >= %d distinct valid peer signatures)"
                    % (N, ml, "every listed bookkeeper's signature" if not short else "only {list length: signatures} %s" % short, need))
            name = "SigHeader_S%d_%d.cfg" % (N, ci)
            # MaskByPosition OFF (repaired by 900ecb87).  With the probed thresholds at (or above) two thirds the
            # property SyncSound itself is the invariant of the model of the tree; a lower probed threshold is a
            # candidate that the rows then confirm on the real code
            sound = ml >= need and all(m >= need for m in svtab.values())
            ccfg = sc.hdr_cfg(N, 0, 0, 0, ml, False, "sync", maxbk, maxsigs, "SyncSound SyncQuorum" if sound else "SyncSoundUpTo", True,
                              outs, slack, align, svtab=svtab, qpads=QPADS if quorum else (),
                              qmin=0 if ctx.thorough else max(0, ml - 1), qmax=N, qshort=N if ctx.thorough else 1)
            plan.append((ci, N, maxbk, maxsigs, outs, slack, align, ml, need, name, ccfg, svtab, quorum))
        tlc = sc.parallel(*[(lambda pl=pl: sc.run_tlc_rows(ctx, "SigHeader_MC", pl[9], files={pl[9]: pl[10]}, workers=max(2, sc.vf.NCPU // max(1, len(plan)))))
                            for pl in plan]) if plan else []
        todo = []
        for pl, (r, rows) in zip(plan, tlc):
            N, quorum, need = pl[1], pl[12], pl[8]
            if not r:
                continue
            H = sc.hdr_rows(rows)
            if not any(h["acc"] for h in H) or not any(not h["acc"] for h in H):
                ctx.infra("vacuous model run N=%d" % N)
                continue
            # the quorum mode must have produced the class it is there for: enough bookkeepers LISTED, one valid signature short
            if quorum and N >= 2 and not any(len(h["bk"]) >= need and not h["ok"] and len({s[1] for s in h["sigs"] if s[0] == "g" and s[1] in h["bk"]}) == need - 1
                                             and len(h["sigs"]) >= len(h["bk"]) for h in H):
                ctx.infra("vacuous quorum mode N=%d: no header listing two thirds with one valid signature less" % N)
                continue
            todo.append((pl, H))
        allobs = sc.parallel(*[(lambda pl=pl, H=H: run_bin(ctx, binary, pl[1], [{"bk": h["bk"], "sigs": h["sigs"]} for h in H], "c33-rows-%d-%d" % (pl[1], pl[0])))
                               for pl, H in todo]) if todo else []
        for (pl, H), obs in zip(todo, allobs):
            ci, N, maxbk, maxsigs, outs, slack, align, ml, need, name, ccfg, svtab, quorum = pl
            c = sum(1 for h in H if h["acc"] and not h["ok"])
            cand += c
            if obs is None:
                continue
            drift = []
            acc = uns = 0
            for h, o in zip(H, obs):
                if o.get("panic"):
                    ctx.infra("SyncBlockHeader panicked on %s: %s" % (sc.hdr_str(h), o["panic"]))
                    continue
                if o["acc"] != o["direct"] or o["acc"] != o["stored"]:
                    ctx.infra("SyncBlockHeader / VerifyHeader / stored header disagree on %s: %s" % (sc.hdr_str(h), o))
                    continue
                acc += o["acc"]
                if o["acc"] and not h["ok"]:
                    uns += 1
                    nvalid = len({s[1] for s in h["sigs"] if s[0] == "g" and 1 <= s[1] <= N})
                    if any(k > N for k in h["bk"]):
                        key = "SyncBlockHeader:unsound-accept:non-peer-bookkeeper"
                    elif 3 * len(h["bk"]) < 2 * N:
                        key = "SyncBlockHeader:unsound-accept:list-shorter-than-two-thirds"
                    elif h["acc"] and 3 * svtab.get(len(h["bk"]), len(h["bk"])) < 2 * N:
                        key = KEY_SHORT      # enough bookkeepers listed, but fewer of their signatures verified than two thirds of the peers
                    elif h["dup"]:
                        key = KNOWN          # fixed by 900ecb87: a long enough list of peers with one peer counted several times
                    elif h["acc"]:
                        key = "SyncBlockHeader:unsound-accept:list-length-threshold-below-two-thirds"
                    else:
                        key = "SyncBlockHeader:unsound-accept:other"
                    ctx.violation(key, {"peers": N, "header": sc.hdr_str(h), "distinct_valid_peer_signatures": nvalid, "required": need},
                                  {"N": N, "bk": h["bk"], "sigs": h["sigs"]})
                elif o["acc"] != h["acc"]:
                    drift.append((sc.hdr_str(h), "real=%s model=%s" % (o["acc"], h["acc"])))
            if drift:
                ctx.infra("MODEL-DRIFT N=%d: %d/%d rows, e.g. %s" % (N, len(drift), len(H), drift[:3]))
            nexec += len(obs); nacc += acc; nunsound += uns
            per["N=%d/%d" % (N, ci)] = {"rows": len(obs), "max_outsiders": outs, "sig_slack": slack, "align_opts": align, "accepted": acc, "unsound_accepts": uns, "tlc_candidates": c, "min_list_len": ml,
                               "max_bk": maxbk, "max_sigs": maxsigs, "quorum_mode": quorum, "two_thirds": need,
                               "sigs_verified_by_list_len": {str(L): m for L, m in sorted(svtab.items())}}
            ctx.log("N=%d: %d rows on SyncBlockHeader+VerifyHeader, %d accepted, %d against the property (TLC candidates %d)" % (N, len(obs), acc, uns, c))
            if maxbk or N in (5, 8):
                ctx.samples.append({"peers": N, "header": sc.hdr_str(H[len(H) // 2]), "model_accepts": H[len(H) // 2]["acc"], "property_allows": H[len(H) // 2]["ok"]})
    # stateful part: which stored peer set governs a header when key headers arrive in any order (spec/SigEpoch.tla)
    if binary:
        eth.join()
        if "exc" in epoch:
            raise epoch["exc"]
    ep = epoch.get("r")
    if ep:
        nexec += ep[0]
        per["epoch histories"] = {"histories": ep[0], "steps": ep[1], "unsound_accepts": ep[2]}
    ctx.finish("model_checking", {
        "states": ctx.stats["states"], "transitions": ctx.stats["transitions"],
        "traces_validated_against_impl": nexec, "accepted_by_real_code": nacc, "unsound_accepts_on_real_code": nunsound,
        "tlc_candidates_against_property": cand, "per_configuration": per, "exhaustive": True,
    }, ["ideal cryptography", "peer set stored through the contract's own SyncGenesisHeader path over an in-memory CacheDB; every header is offered to SyncBlockHeader on a throw-away cache and to VerifyHeader directly",
        "headers enumerated up to renaming of peers (listed in order of first occurrence); signatures by listed peers, one unlisted peer, an outsider, garbage, stale",
        "quorum mode, every peer-set size 1..10 (thorough ..13): L distinct peers listed, the first or last v of them signed, signature list padded (before or after) with garbage / stale / repeated / unlisted-peer / outsider signatures to |bk|-1..|bk|+1 (thorough: any length), all L and v",
        "stateful part (SigEpoch): all histories of 3 SyncBlockHeader steps at 3 heights in any order, key headers retiring one peer, 5 signer sets",
        "the list-length threshold and the number of signatures verified per list length are probed from the tree and fed to TLC as constants"])
