"""C33 — cross-chain headers need signatures of two thirds of distinct peers (spec/SigHeader.tla, SyncBlockHeader)."""
import _sigcheck as sc

KNOWN = "SyncBlockHeader:unsound-accept:duplicate-bookkeeper"


def run_bin(ctx, binary, N, rows, tag):
    res = sc.go_rows(ctx, binary, "TestVerifSigHeaderSync", {"n": N, "rows": rows}, tag)
    if res is None:
        return None
    obs = [o for o in res[1:] if "i" in o]
    if len(obs) != len(rows):
        ctx.infra("header_sync harness returned %d/%d rows" % (len(obs), len(rows)))
        return None
    return obs


def run(ctx):
    # (N, max bookkeepers, max signatures, max outsiders, slack, align) -- see SigHeader.tla
    if not ctx.thorough:
        confs = [(4, 3, 3, 1, 1, 0), (7, 5, 5, 0, 0, 3)]
    else:
        confs = [(4, 4, 4, 1, 0, 0), (4, 5, 5, 1, 0, 3), (7, 6, 6, 0, 0, 3), (7, 5, 5, 1, 0, 3), (10, 7, 7, 0, 0, 2)]
    binary = ctx.go_test_bin("smartcontract/service/native/cross_chain/header_sync/test", harness="b_sig_hsync")
    if ctx.replay_in:
        import json, sys
        rec = json.load(open(ctx.replay_in))["replay"]
        obs = run_bin(ctx, binary, rec["N"], [{"bk": rec["bk"], "sigs": rec["sigs"]}], "replay") if binary else None
        if obs is None:
            sys.exit(2)
        nvalid = len({g[1] for g in rec["sigs"] if g[0] == "g" and 1 <= g[1] <= rec["N"]})
        bad = obs[0]["acc"] and 3 * nvalid < 2 * rec["N"]
        print("REPLAY property=C33 %s: accepted=%s distinct valid peer signatures=%d of %d peers" % ("VIOLATION reproduced" if bad else "not reproduced", obs[0]["acc"], nvalid, rec["N"]))
        sys.exit(1 if bad else 0)
    nexec = nacc = nunsound = cand = 0
    per = {}
    if binary:
        # 1. probe the thresholds of every configuration, 2. all TLC runs side by side, 3. execute the rows
        plan = []
        for ci, (N, maxbk, maxsigs, outs, slack, align) in enumerate(confs):
            full = list(range(1, N + 1))
            pobs = run_bin(ctx, binary, N, [{"bk": full[:j], "sigs": [sc.G(k) for k in full[:j]]} for j in range(0, N + 1)], "c33-probe-%d-%d" % (N, ci))
            if pobs is None:
                continue
            ml = sc.first_accepted(pobs, "bookkeeper list length", ctx)
            if ml is None:
                continue
            if any(not o["acc"] for o in pobs[ml:]):
                ctx.infra("probe N=%d: acceptance not monotone in the list length" % N)
                continue
            need = -(-2 * N // 3)
            ctx.log("N=%d: the tree wants a bookkeeper list of length >= %d (property: >= %d distinct valid peer signatures)" % (N, ml, need))
            name = "SigHeader_S%d_%d.cfg" % (N, ci)
            # MaskByPosition OFF (repaired by 900ecb87).  With the probed threshold at (or above) two thirds the
            # property SyncSound itself is the invariant of the model of the tree; a lower probed threshold is a
            # candidate that the rows then confirm on the real code
            ccfg = sc.hdr_cfg(N, 0, 0, 0, ml, False, "sync", maxbk, maxsigs, "SyncSound" if ml >= need else "SyncSoundUpTo", True,
                              outs, slack, align)
            plan.append((ci, N, maxbk, maxsigs, outs, slack, align, ml, need, name, ccfg))
        tlc = sc.parallel(*[(lambda pl=pl: sc.run_tlc_rows(ctx, "SigHeader_MC", pl[9], files={pl[9]: pl[10]}, workers=max(2, sc.vf.NCPU // max(1, len(plan)))))
                            for pl in plan]) if plan else []
        for pl, (r, rows) in zip(plan, tlc):
            ci, N, maxbk, maxsigs, outs, slack, align, ml, need, name, ccfg = pl
            if not r:
                continue
            H = sc.hdr_rows(rows)
            if not any(h["acc"] for h in H) or not any(not h["acc"] for h in H):
                ctx.infra("vacuous model run N=%d" % N)
                continue
            c = sum(1 for h in H if h["acc"] and not h["ok"])
            cand += c
            obs = run_bin(ctx, binary, N, [{"bk": h["bk"], "sigs": h["sigs"]} for h in H], "c33-rows-%d-%d" % (N, ci))
            if obs is None:
                continue
            drift = []
            acc = uns = 0
            for h, o in zip(H, obs):
                if o.get("panic"):
                    ctx.infra("SyncBlockHeader panicked on %s: %s" % (sc.hdr_str(h), o["panic"]))
                    continue
                if o["acc"] != o["direct"] or o["acc"] != o["stored"]:
                    ctx.infra("SyncBlockHeader / VerifyHeader / stored header disagree on %s: %s" % (sc.hdr_str(h), o))
                    continue
                acc += o["acc"]
                if o["acc"] and not h["ok"]:
                    uns += 1
                    nvalid = len({s[1] for s in h["sigs"] if s[0] == "g" and 1 <= s[1] <= N})
                    if any(k > N for k in h["bk"]):
                        key = "SyncBlockHeader:unsound-accept:non-peer-bookkeeper"
                    elif 3 * len(h["bk"]) < 2 * N:
                        key = "SyncBlockHeader:unsound-accept:list-shorter-than-two-thirds"
                    elif h["dup"]:
                        key = KNOWN          # fixed by 900ecb87: a long enough list of peers with one peer counted several times
                    elif h["acc"]:
                        key = "SyncBlockHeader:unsound-accept:list-length-threshold-below-two-thirds"
                    else:
                        key = "SyncBlockHeader:unsound-accept:other"
                    ctx.violation(key, {"peers": N, "header": sc.hdr_str(h), "distinct_valid_peer_signatures": nvalid, "required": need},
                                  {"N": N, "bk": h["bk"], "sigs": h["sigs"]})
                elif o["acc"] != h["acc"]:
                    drift.append((sc.hdr_str(h), "real=%s model=%s" % (o["acc"], h["acc"])))
            if drift:
                ctx.infra("MODEL-DRIFT N=%d: %d/%d rows, e.g. %s" % (N, len(drift), len(H), drift[:3]))
            nexec += len(obs); nacc += acc; nunsound += uns
            per["N=%d/%d" % (N, ci)] = {"rows": len(obs), "max_outsiders": outs, "sig_slack": slack, "align_opts": align, "accepted": acc, "unsound_accepts": uns, "tlc_candidates": c, "min_list_len": ml,
                               "max_bk": maxbk, "max_sigs": maxsigs}
            ctx.log("N=%d: %d rows on SyncBlockHeader+VerifyHeader, %d accepted, %d against the property (TLC candidates %d)" % (N, len(obs), acc, uns, c))
            ctx.samples.append({"peers": N, "header": sc.hdr_str(H[len(H) // 2]), "model_accepts": H[len(H) // 2]["acc"], "property_allows": H[len(H) // 2]["ok"]})
    # stateful part: which stored peer set governs a header when key headers arrive in any order (spec/SigEpoch.tla)
    ep = sc.epoch_phase(ctx, binary, "sync", "SigEpoch_C33.cfg", "TestVerifSigEpochSync", {"n": 4, "keys": 5}) if binary else None
    if ep:
        nexec += ep[0]
        per["epoch histories"] = {"histories": ep[0], "steps": ep[1], "unsound_accepts": ep[2]}
    ctx.finish("model_checking", {
        "states": ctx.stats["states"], "transitions": ctx.stats["transitions"],
        "traces_validated_against_impl": nexec, "accepted_by_real_code": nacc, "unsound_accepts_on_real_code": nunsound,
        "tlc_candidates_against_property": cand, "per_configuration": per, "exhaustive": True,
    }, ["ideal cryptography", "peer set stored through the contract's own SyncGenesisHeader path over an in-memory CacheDB; every header is offered to SyncBlockHeader on a throw-away cache and to VerifyHeader directly",
        "headers enumerated up to renaming of peers (listed in order of first occurrence); signatures by listed peers, one unlisted peer, an outsider, garbage, stale",
        "stateful part (SigEpoch): all histories of 3 SyncBlockHeader steps at 3 heights in any order, key headers retiring one peer, 5 signer sets",
        "the list-length threshold is probed from the tree and fed to TLC as a constant"])
