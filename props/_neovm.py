"""Shared machinery for the NeoVM value-heap properties C12, C14, C15 (spec/NeoVM.tla, spec/NeoVM_MC.tla)."""
import concurrent.futures
import json
import os
import resource
import subprocess
import time

import vf

KINDNAME = {"arr": "array", "str": "struct", "map": "map"}


# ----------------------------------------------------------------------------- TLC rows
def tlc_rows(ctx, cfg, consts=None, timeout=1500, workers=1, coverage=False):
    """Run NeoVM_MC with the given cfg (optionally rewriting constants) and split the ROW lines."""
    files = None
    cfgname = cfg
    if consts:
        text = open(os.path.join(vf.VERIF, "spec", cfg)).read()
        for k, v in consts.items():
            import re
            text, n = re.subn(r"(?m)^(\s*%s\s*=\s*).*$" % k, lambda m: m.group(1) + v, text)
            if n != 1:
                raise ValueError("constant %s not found in %s" % (k, cfg))
        import re as _re
        cfgname = "gen_" + "_".join("%s%s" % (k, _re.sub(r"[^A-Za-z0-9]", "", v)) for k, v in sorted(consts.items())) + "_" + cfg
        files = {cfgname: text}
    r = ctx.tlc("NeoVM_MC", cfg=cfgname, workers=workers, timeout=timeout, files=files, coverage=coverage)
    heaps, muts = [], []
    seen = set()
    for o in r.prints.get("ROW", []):
        if "cells" in o:
            k = vf.canon(o["cells"])
            if k in seen:
                continue
            seen.add(k)
            heaps.append(o)
        else:
            muts.append(o)
    return r, heaps, muts


def slot_str(s):
    return "L" if s == 0 else str(s)


def heap_item(idx, row, ops):
    return {"id": idx, "cells": [{"kind": c["kind"], "slots": [slot_str(s) for s in c["slots"]]} for c in row["cells"]],
            "root": "1", "ops": ops}


def heap_text(row):
    return " ".join("%d=%s%s" % (i + 1, c["kind"], [slot_str(s) for s in c["slots"]]) for i, c in enumerate(row["cells"])).replace("'", "")


# ----------------------------------------------------------------------------- shape classification (for keys)
def reach(cells, v):
    seen = set()
    todo = [v]
    while todo:
        c = todo.pop()
        if c == 0 or c in seen:
            continue
        seen.add(c)
        todo.extend(cells[c - 1]["slots"])
    return seen


def cycle_cells(cells, root=1):
    out = set()
    for c in reach(cells, root):
        succ = set()
        for s in cells[c - 1]["slots"]:
            succ |= reach(cells, s)
        if c in succ:
            out.add(c)
    return out


def first_chain_hits_cycle(cells, root=1):
    """does following only first slots from the root run into a cell twice?"""
    seen = set()
    c = root
    while c != 0:
        if c in seen:
            return True
        seen.add(c)
        sl = cells[c - 1]["slots"]
        if not sl:
            return False
        c = sl[0]
    return False


def shape_class(row):
    cells = row["cells"]
    cyc = cycle_cells(cells)
    if not cyc:
        return "acyclic"
    kinds = sorted({KINDNAME[cells[c - 1]["kind"]] for c in cyc})
    pos = "first-elements" if first_chain_hits_cycle(cells) else "non-first-element"
    return "cycle-at-%s:%s" % (pos, "+".join(kinds))


def marshal_loop_kinds(cells, root=1):
    """kinds of the cells on the loop BuildParamToNative runs around when no detector fires (walk in slot order;
    a map ends the walk with an error)"""
    found = []

    def walk(v, path):
        if v == 0:
            return True
        c = cells[v - 1]
        if c["kind"] == "map":
            return False
        if v in path:
            found.extend(path[path.index(v):])
            return False
        for s in c["slots"]:
            if not walk(s, path + [v]):
                return False
        return True
    walk(root, [])
    return "+".join(sorted({KINDNAME[cells[c - 1]["kind"]] for c in found})) or "none"


# ----------------------------------------------------------------------------- trees
def tree_dump(t):
    """canonical text of a specification tree (NeoVM!Unfold / Parse result), same format as the harness's shDump"""
    tag = t[0]
    if tag == "L":
        return "i1"
    if tag == "X":
        bs = t[1]
        if bs[0] == 1:
            return "t%d" % bs[1]
        # var-bytes: skip tag and the (single byte or longer) count
        data, _ = varbytes(bs, 1)
        if bs[0] == 0:
            return "b" + bytes(data).hex()
        n = int.from_bytes(bytes(data), "little", signed=True) if data else 0
        return ("i%d" if -2 ** 63 <= n < 2 ** 63 else "I%d") % n
    if tag in ("arr", "str"):
        return ("a[" if tag == "arr" else "s[") + "".join(tree_dump(x) + "," for x in t[1]) + "]"
    if tag == "map":
        d = {}
        for (k, v) in t[1]:
            d[map_key(k)] = (tree_dump(k), tree_dump(v))
        return "m[" + "".join("%s:%s," % d[k] for k in sorted(d)) + "]"
    raise ValueError(t)


def varbytes(bs, p):
    c = bs[p]
    if c < 253:
        return bs[p + 1:p + 1 + c], p + 1 + c
    if c == 253:
        n = bs[p + 1] + 256 * bs[p + 2]
        return bs[p + 3:p + 3 + n], p + 3 + n
    raise ValueError("long var-bytes in model tree")


def map_key(k):
    """Go's GetMapKey: the key's AsBytes"""
    if k[0] == "L":
        return bytes([1])
    bs = k[1]
    if bs[0] == 1:
        return bytes([bs[1]])
    data, _ = varbytes(bs, 1)
    if bs[0] == 0:
        return bytes(data)
    n = int.from_bytes(bytes(data), "little", signed=True) if data else 0
    return neo_bytes(n)


def neo_bytes(n):
    if n == 0:
        return b""
    ln = (n.bit_length() + 8) // 8 if n > 0 else ((-n - 1).bit_length() + 8) // 8
    return n.to_bytes(ln, "little", signed=True)


def unfold(cells, v):
    if v == 0:
        return ["L"]
    c = cells[v - 1]
    if c["kind"] == "map":
        return ["map", [[(["L"] if i == 0 else ["X", [2, 1, i + 1]]), unfold(cells, s)] for i, s in enumerate(c["slots"])]]
    return [c["kind"], [unfold(cells, s) for s in c["slots"]]]


# ----------------------------------------------------------------------------- child processes
def _limits(mem_bytes):
    def f():
        resource.setrlimit(resource.RLIMIT_AS, (mem_bytes, mem_bytes))
        resource.setrlimit(resource.RLIMIT_CORE, (0, 0))
    return f


def run_child(ctx, binary, test, items, tag, timeout, mem_gb=8, key="items", extra_env=None, defop="deser", max_deaths=5):
    """Run `items` in child processes of the harness.  The child emits {"start":id,"op":..} before and a result after
    every (item, op); when it dies or exceeds `timeout` the first unanswered (item, op) gets the outcome
    crash / stack-overflow / oom / timeout and a new child continues after it.
    Returns (results: list of dicts, deaths: int)."""
    results = []
    deaths = 0
    pending = list(items)
    rnd = 0
    while pending:
        rnd += 1
        fin = os.path.join(ctx.scratch, "%s-%d.in.json" % (tag, rnd))
        fout = os.path.join(ctx.scratch, "%s-%d.out.ndjson" % (tag, rnd))
        if os.path.exists(fout):
            os.remove(fout)
        vf.write_json(fin, {key: pending})
        env = ctx.go_env()
        env.update({"VERIF_SEED": str(ctx.seed), "VERIF_TIER": ctx.tier, "VERIF_IN": fin, "VERIF_OUT": fout,
                    "GOTRACEBACK": "single"})
        env.update(extra_env or {})
        wd = os.path.join(ctx.scratch, "wd")
        os.makedirs(wd, exist_ok=True)
        cmd = [binary, "-test.run", "^%s$" % test, "-test.timeout", "0"]
        t0 = time.time()
        timed_out = False
        # `timeout` is a PER-ITEM limit: the child is killed when its result file has not grown for that long
        # (a slow machine makes a batch slow, it must not make the open item look like a hang)
        fstd = os.path.join(ctx.scratch, "%s-%d.stdout" % (tag, rnd))
        with open(fstd, "w") as so:
            p = subprocess.Popen(cmd, cwd=wd, env=env, stdout=so, stderr=subprocess.STDOUT, preexec_fn=_limits(mem_gb << 30))
            last_size, last_change = -1, time.time()
            while p.poll() is None:
                time.sleep(0.25)
                sz = os.path.getsize(fout) if os.path.exists(fout) else 0
                now = time.time()
                if sz != last_size:
                    last_size, last_change = sz, now
                elif now - last_change > (timeout if sz > 0 else max(timeout, 900)):     # start-up (nothing written yet) gets more time
                    timed_out = True
                    p.kill()
                    p.wait()
                    break
            rc = p.returncode
        with open(fstd, errors="replace") as f:
            out = f.read(3000)
            f.seek(0, 2)
            n = f.tell()
            if n > 3000:
                f.seek(max(3000, n - 20000))
                out += f.read()
        os.remove(fstd)
        lines = vf.read_ndjson(fout) if os.path.exists(fout) else []
        done = any(l.get("done") for l in lines)
        open_start = None
        answered = set()
        for l in lines:
            if "start" in l:
                open_start = (l["start"], l["op"])
            elif "done" in l:
                pass
            else:
                results.append(l)
                answered.add((l["id"], l.get("op", defop)))
                open_start = None
        if done and rc == 0:
            break
        # the child died (or hung) on open_start
        if open_start is None:
            ctx.infra("harness child %s ended (rc=%s, timeout=%s) outside an item: %s" % (test, rc, timed_out, out[-800:]))
            break
        deaths += 1
        if deaths > max_deaths:
            ctx.log("%s: %d child deaths, the remaining %d items of this chain are not run" % (tag, deaths, len(pending)))
        kind = "timeout" if timed_out else "stack-overflow" if "stack overflow" in out or "goroutine stack exceeds" in out \
            else "oom" if "out of memory" in out or "cannot allocate memory" in out else "crash"
        results.append({"id": open_start[0], "op": open_start[1], "out": kind, "err": out[:300].replace("\n", " | "),
                        "ms": int((time.time() - t0) * 1000)})
        answered.add(open_start)
        # continue with what has not been answered
        nxt = []
        for it in pending:
            ops = [op for op in it.get("ops", [defop]) if (it["id"], op) not in answered]
            if ops:
                it2 = dict(it)
                if "ops" in it:
                    it2["ops"] = ops
                nxt.append(it2)
        if len(nxt) == len(pending) and all(a.get("ops") == b.get("ops") for a, b in zip(nxt, pending)):
            ctx.infra("harness child %s makes no progress" % test)
            break
        pending = nxt if deaths <= max_deaths else []
    return results, deaths


def run_children_parallel(ctx, binary, test, items, tag, timeout, nproc, mem_gb=6, key="items", extra_env=None, defop="deser", max_deaths=5):
    """split items over nproc child chains"""
    if not items:
        return [], 0
    nproc = max(1, min(nproc, len(items)))
    parts = [items[i::nproc] for i in range(nproc)]
    res, deaths = [], 0
    with concurrent.futures.ThreadPoolExecutor(max_workers=nproc) as ex:
        futs = [ex.submit(run_child, ctx, binary, test, part, "%s-p%d" % (tag, i), timeout, mem_gb, key, extra_env, defop, max_deaths) for i, part in enumerate(parts)]
        for f in futs:
            r, d = f.result()
            res += r
            deaths += d
    return res, deaths


# ----------------------------------------------------------------------------- NeoVM bytecode for the model's heaps
OP = {"PUSH0": 0x00, "PUSHM1": 0x4F, "NOP": 0x61, "JMP": 0x62, "JMPIF": 0x63, "CALL": 0x65, "RET": 0x66, "SYSCALL": 0x68,
      "TOALTSTACK": 0x6B, "FROMALTSTACK": 0x6C, "DROP": 0x75, "DUP": 0x76, "OVER": 0x78, "PICK": 0x79, "ROT": 0x7B, "SWAP": 0x7C,
      "CAT": 0x7E, "EQUAL": 0x87, "INC": 0x8B, "ADD": 0x93, "SHA256": 0xA8, "ARRAYSIZE": 0xC0, "PACK": 0xC1, "UNPACK": 0xC2,
      "PICKITEM": 0xC3, "SETITEM": 0xC4, "NEWARRAY": 0xC5, "NEWSTRUCT": 0xC6, "NEWMAP": 0xC7, "APPEND": 0xC8, "REVERSE": 0xC9,
      "REMOVE": 0xCA, "HASKEY": 0xCB, "KEYS": 0xCC, "VALUES": 0xCD}


def op(*names):
    return bytes(OP[n] for n in names)


def push_int(n):
    if n == 0:
        return b"\x00"
    if n == -1:
        return b"\x4f"
    if 1 <= n <= 16:
        return bytes([0x50 + n])
    return push_bytes(neo_bytes(n))


def push_bytes(b):
    if len(b) <= 75:
        return bytes([len(b)]) + b
    if len(b) < 256:
        return b"\x4c" + bytes([len(b)]) + b
    if len(b) < 65536:
        return b"\x4d" + len(b).to_bytes(2, "little") + b
    return b"\x4e" + len(b).to_bytes(4, "little") + b


def syscall(name):
    return b"\x68" + bytes([len(name)]) + name.encode()


def build_heap(cells, root=1):
    """bytecode that builds the heap with NEWARRAY/NEWSTRUCT/NEWMAP + SETITEM and leaves cell `root` on top.
    NOTE: SETITEM clones a struct VALUE, so heaps whose struct cells are referenced from a slot are not built
    faithfully; callers use array/map cells (structs only through the dedicated recipes)."""
    n = len(cells)
    code = b""
    for c in cells:
        if c["kind"] == "map":
            code += op("NEWMAP")
        else:
            code += push_int(len(c["slots"])) + op("NEWSTRUCT" if c["kind"] == "str" else "NEWARRAY")
    for a, c in enumerate(cells, 1):
        for j, s in enumerate(c["slots"]):
            code += push_int(n - a) + op("PICK")
            code += push_int(j + 1 if c["kind"] == "map" else j)
            code += push_int(1) if s == 0 else push_int(n - s + 2) + op("PICK")
            code += op("SETITEM")
    code += push_int(n - root) + op("PICK")
    return code


CONSUMERS = {
    "ser": lambda: syscall("System.Runtime.Serialize"),
    "serdeser": lambda: syscall("System.Runtime.Serialize") + syscall("System.Runtime.Deserialize") + syscall("System.Runtime.Serialize"),
    "native": lambda: push_bytes(b"transfer") + push_bytes(bytes(19) + b"\x01") + push_int(0) + syscall("Ontology.Native.Invoke"),
    "notify": lambda: syscall("System.Runtime.Notify"),
    "keys": lambda: op("KEYS"),
    "values": lambda: op("VALUES"),
    "keysser": lambda: op("KEYS") + syscall("System.Runtime.Serialize"),
    "valuesser": lambda: op("VALUES") + syscall("System.Runtime.Serialize"),
    "equal": lambda: op("DUP", "EQUAL"),
    "hash": lambda: op("SHA256"),
    "size": lambda: op("ARRAYSIZE"),
    "unpack": lambda: op("UNPACK"),
    "put": lambda: push_bytes(b"k") + syscall("System.Storage.GetContext") + syscall("System.Storage.Put"),
    "appendstruct": lambda: push_int(0) + op("NEWSTRUCT", "SWAP", "APPEND"),
    "log": lambda: syscall("System.Runtime.Log"),
}


def program(cells, consumer, root=1):
    return build_heap(cells, root) + CONSUMERS[consumer]()
