"""C32 — synced block headers carry signatures of more than C consensus peers (spec/SigHeader.tla, AddHeader)."""
import _sigcheck as sc
import _sigentry as se

KNOWN = "AddHeaders:unsound-accept:fewer-signatures-verified-than-C+1"


def run_bin(ctx, binary, N, C, rows, tag):
    res = sc.go_rows(ctx, binary, "TestVerifSigHeaderLedger", {"n": N, "c": C, "rows": rows}, tag)
    if res is None:
        return None, None
    if res[0].get("peers") != N or res[0].get("headerHeight") != 0:
        ctx.infra("ledger harness set-up is off: %s" % res[0])
        return None, None
    obs = [o for o in res[1:] if "i" in o]
    if len(obs) != len(rows):
        ctx.infra("ledger harness returned %d/%d rows" % (len(obs), len(rows)))
        return None, None
    return obs, res[-1]


def probe(ctx, binary, N, C):
    """extract the decision thresholds of the current tree by probing AddHeaders"""
    full = list(range(1, N + 1))
    p1 = [{"bk": full, "sigs": [sc.G(k) for k in full[:j]] + [sc.X] * (N - j)} for j in range(0, N + 1)]
    p2 = [{"bk": full[:d] + [1] * (N - d), "sigs": [sc.G(k) for k in full[:d]] + [sc.G(1)] * (N - d)} for d in range(1, N + 1)]
    obs, _ = run_bin(ctx, binary, N, C, p1 + p2, "c32-probe-%d" % N)
    if obs is None:
        return None
    sv = sc.first_accepted(obs[:len(p1)], "signatures verified", ctx)
    md = sc.first_accepted(obs[len(p1):], "distinct listed members", ctx)
    if sv is None or md is None:
        return None
    md += 1
    # monotone? (a threshold model only makes sense if acceptance is upward closed on the probes)
    if any(not o["acc"] for o in obs[sv:len(p1)]) or any(not o["acc"] for o in obs[len(p1) + md - 1:]):
        ctx.infra("probe N=%d: acceptance is not monotone in the number of valid signatures / distinct members" % N)
        return None
    return sv, md


def run(ctx):
    confs = [(4, 1, 3, 3), (7, 2, 3, 3)] if not ctx.thorough else [(4, 1, 4, 3), (7, 2, 4, 3), (10, 3, 5, 3)]
    binary = ctx.go_test_bin("core/store/ledgerstore", harness="b_sig_ledger")
    if ctx.replay_in:
        import json, sys
        rec = json.load(open(ctx.replay_in))["replay"]
        if rec.get("entry"):
            # an entry-point history (spec/SigEntry.tla): re-run it, read the stored headers back
            rr = se.replay(ctx, binary, rec) if binary else None
            if rr is None:
                sys.exit(2)
            print("REPLAY property=C32 %s: %s ; blocks in the store (valid = distinct consensus peers with a valid signature on the STORED header, required %d): %s"
                  % ("VIOLATION reproduced" if rr[0] else "not reproduced", rr[1], rec["C"] + 1, rr[2]))
            sys.exit(1 if rr[0] else 0)
        obs, _ = run_bin(ctx, binary, rec["N"], rec["C"], [{"bk": rec["bk"], "sigs": rec["sigs"]}], "replay") if binary else (None, None)
        if obs is None:
            sys.exit(2)
        nvalid = len({g[1] for g in rec["sigs"] if g[0] == "g" and 1 <= g[1] <= rec["N"]})
        bad = obs[0]["acc"] and nvalid < rec["C"] + 1
        print("REPLAY property=C32 %s: accepted=%s distinct valid member signatures=%d, required %d" % ("VIOLATION reproduced" if bad else "not reproduced", obs[0]["acc"], nvalid, rec["C"] + 1))
        sys.exit(1 if bad else 0)
    nexec = nacc = nunsound = cand = 0
    per = {}
    entry_confs = {4} if not ctx.thorough else {4, 7}
    entry_threads = []
    entry_res = {}
    if binary:
        for (N, C, maxbk, maxsigs) in confs:
            th = probe(ctx, binary, N, C)
            if th is None:
                continue
            sv, md = th
            if N in entry_confs:
                # entry points and their order (spec/SigEntry.tla), side by side with the single-header rows
                import threading

                def entry_job(N=N, C=C, sv=sv, md=md):
                    try:
                        entry_res[N] = se.entry_phase(ctx, binary, N, C, sv, md)
                    except BaseException as e:  # noqa
                        ctx.infra("entry phase N=%d died: %r" % (N, e))
                t_ = threading.Thread(target=entry_job)
                t_.start()
                entry_threads.append(t_)
            ctx.log("N=%d C=%d: the tree verifies %d signature(s) and wants %d distinct listed members (property: %d valid member signatures)"
                    % (N, C, sv, md, C + 1))
            name = "SigHeader_L%d.cfg" % N
            # design: verify C+1 signatures against distinct keys -> the property is an invariant
            dcfg = sc.hdr_cfg(N, C, C + 1, C + 1, 0, False, "ledger", maxbk, maxsigs, "LedgerSound", False, outs=1 if maxbk <= 4 else 0)
            ccfg = sc.hdr_cfg(N, C, sv, md, 0, False, "ledger", maxbk, maxsigs, "LedgerSoundUpTo", True, outs=1 if maxbk <= 4 else 0)
            if sv >= C + 1 and md >= C + 1:
                # the probed constants are (at least) the design's: LedgerSound itself is the invariant of the model of the tree
                ccfg = sc.hdr_cfg(N, C, sv, md, 0, False, "ledger", maxbk, maxsigs, "LedgerSound", True, outs=1 if maxbk <= 4 else 0)
                r, rows = sc.run_tlc_rows(ctx, "SigHeader_MC", name, files={name: ccfg})
            else:
                d, (r, rows) = sc.parallel(
                    lambda: sc.run_tlc_plain(ctx, "SigHeader_MC", "d" + name, "design N=%d: LedgerSound" % N, files={"d" + name: dcfg}),
                    lambda: sc.run_tlc_rows(ctx, "SigHeader_MC", name, files={name: ccfg}))
            if not r:
                continue
            H = sc.hdr_rows(rows)
            if not any(h["acc"] for h in H) or not any(not h["acc"] for h in H):
                ctx.infra("vacuous model run N=%d" % N)
                continue
            c = sum(1 for h in H if h["acc"] and not h["ok"])
            cand += c
            obs, tail = run_bin(ctx, binary, N, C, [{"bk": h["bk"], "sigs": h["sigs"]} for h in H], "c32-rows-%d" % N)
            if obs is None:
                continue
            drift = []
            acc = uns = 0
            for h, o in zip(H, obs):
                if o.get("panic"):
                    ctx.infra("AddHeaders panicked on %s: %s" % (sc.hdr_str(h), o["panic"]))
                    continue
                acc += o["acc"]
                if o["acc"] and not h["ok"]:
                    uns += 1
                    nvalid = len({s[1] for s in h["sigs"] if s[0] == "g" and 1 <= s[1] <= N})
                    listed = {k for k in h["bk"] if 1 <= k <= N}
                    outsider = any(k > N for k in h["bk"])
                    if outsider:
                        key = "AddHeaders:unsound-accept:non-member-bookkeeper"
                    elif len(listed) < C + 1:
                        key = "AddHeaders:unsound-accept:fewer-than-C+1-distinct-members-listed"
                    elif h["acc"] and sv < C + 1:
                        key = KNOWN          # C+1 distinct members are listed, but fewer signatures are verified
                    elif h["acc"] and h["dup"]:
                        key = "AddHeaders:unsound-accept:duplicate-bookkeeper"
                    else:
                        key = "AddHeaders:unsound-accept:other"
                    ctx.violation(key, {"N": N, "C": C, "header": sc.hdr_str(h), "distinct_valid_member_signatures": nvalid, "required": C + 1,
                                        "signatures_verified_by_tree": sv},
                                  {"N": N, "C": C, "bk": h["bk"], "sigs": h["sigs"]})
                elif o["acc"] != h["acc"]:
                    drift.append((sc.hdr_str(h), "real=%s model=%s" % (o["acc"], h["acc"])))
            if drift:
                ctx.infra("MODEL-DRIFT N=%d: %d/%d rows, e.g. %s" % (N, len(drift), len(H), drift[:3]))
            if tail["addBlockRejectedRefused"] != tail["addBlockRejectedTried"] or str(tail["addBlockAccepted"]).startswith("REFUSED"):
                ctx.infra("AddBlock does not gate on the same verifyHeader verdict as AddHeaders: %s" % tail)
            nexec += len(obs); nacc += acc; nunsound += uns
            per["N=%d,C=%d" % (N, C)] = {"rows": len(obs), "accepted": acc, "unsound_accepts": uns, "tlc_candidates": c,
                                         "signatures_verified": sv, "min_distinct_listed": md, "max_bk": maxbk, "max_sigs": maxsigs,
                                         "addblock_rejected_refused": tail["addBlockRejectedRefused"], "addblock_accepted": tail["addBlockAccepted"][:60]}
            ctx.log("N=%d: %d rows on AddHeaders, %d accepted, %d against the property (TLC candidates %d)" % (N, len(obs), acc, uns, c))
            ctx.samples.append({"N": N, "header": sc.hdr_str(H[len(H) // 2]), "model_accepts": H[len(H) // 2]["acc"], "property_allows": H[len(H) // 2]["ok"]})
    # stateful part: which peer set a header is verified against over multi-step histories (spec/SigEpoch.tla)
    ep = sc.epoch_phase(ctx, binary, "ledger", "SigEpoch_C32.cfg", "TestVerifSigEpochLedger", {"n": 4, "c": 1, "keys": 8},
                        asfound_cfg="SigEpoch_C32d.cfg") if binary else None
    if ep:
        nexec += ep[0]
        per["epoch histories"] = {"histories": ep[0], "steps": ep[1], "unsound_accepts": ep[2]}
    for t_ in entry_threads:
        t_.join()
    for N_ in sorted(entry_confs):
        er = entry_res.get(N_)
        if er:
            nexec += er["paths"]
            nunsound += er["unsound_stores"]
            per["entry points N=%d" % N_] = er
        elif binary and not ctx.infra_errors:
            ctx.infra("entry phase N=%d produced no result" % N_)
    ctx.finish("model_checking", {
        "states": ctx.stats["states"], "transitions": ctx.stats["transitions"],
        "traces_validated_against_impl": nexec, "accepted_by_real_code": nacc, "unsound_accepts_on_real_code": nunsound,
        "tlc_candidates_against_property": cand, "per_configuration": per, "exhaustive": True,
    }, ["ideal cryptography", "real LedgerStoreImp initialised from a real VBFT genesis block (genesis.BuildGenesisBlock) whose N peers' keys the harness owns; headers of height 1",
        "headers enumerated up to renaming of members (members listed in order of first occurrence); signatures by listed members, one unlisted member, an outsider, garbage, stale",
        "thresholds (signatures verified, distinct listed members) are probed from the tree and fed to TLC as constants",
        "stateful part (SigEpoch): all histories of 3 AddHeader/AddBlock steps over config-change headers, LastConfigBlockNum in {0,1}, members/outsiders as signers; in-memory header state reset between histories",
        "a valid signature counts for the property whether or not its signer is listed as bookkeeper (the weaker reading)",
        "entry points (SigEntry): AddHeader / AddHeaders / AddBlock / ExecuteBlock+SubmitBlock in every order over the two heights above the current block, two unsigned contents per height (two forks), "
        "the signature section of every object chosen independently of its hash; empty blocks; the governing configuration is the genesis one; every path starts at the real ledger's current block "
        "(header index above it and header cache reset between paths); the stored header of every block is read back from the block store and its signatures are verified with the real signature.Verify"])
