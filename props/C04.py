"""C04 — layered contract storage behaves like one ordered key/value map."""
import _kvstack as kv


def run(ctx):
    acts = ["CachePut", "CacheDelete", "CacheCommit", "CacheReset", "OvlCommit"]
    cfg = "KVStack_C04t.cfg" if ctx.thorough else "KVStack_C04.cfg"
    mc = kv.model_check(ctx, cfg, acts)
    binary = ctx.go_test_bin("smartcontract/storage")
    nsteps = ntr = nev = 0
    paths = []
    if mc and binary:
        r, edges, inits = mc
        paths, ncov = ctx.cover(edges, inits, max_len=60)
        ctx.log("cover: %d paths, %d steps, %d/%d edges" % (len(paths), sum(len(p["steps"]) for p in paths), ncov, len(edges)))
        res = kv.replay(ctx, binary, kv.KEYSEQ3, [], False, paths, "c04")
        nsteps = kv.check_reads(ctx, kv.KEYSEQ3, paths, res)
        # code -> spec: long random histories over 12 keys sharing prefixes
        keyseq = sorted([[1], [1, 1], [1, 1, 1], [1, 2], [1, 2, 1], [2], [2, 1], [2, 2], [2, 2, 2], [3], [3, 1], [3, 3]])
        ntr, nst = (60, 300) if ctx.thorough else (12, 150)
        tp = kv.trace_run(ctx, binary, keyseq, [], False, kv.TRACE_VALS, "kv", ntr, nst, "c04")
        if tp:
            v = kv.trace_check(ctx, tp, "C04")
            nev = v["total"]
            ctx.log("trace validation: %d/%d events matched" % (v["matched"], v["total"]))
            if ctx.thorough or True:
                kv.self_test(ctx, tp)
            ctx.samples.append({"trace_event": kv.vf.read_ndjson(tp)[3]})
    if paths:
        ctx.samples.append({"replayed_path": [s["act"] for s in paths[0]["steps"][:8]], "init_disk": paths[0]["init"]["disk"]})
    ctx.finish("model_checking", {
        "states": ctx.stats["states"], "transitions": ctx.stats["transitions"],
        "traces_validated_against_impl": len(paths) + ntr,
        "replayed_steps": nsteps, "trace_events": nev,
        "constants": {"keys": kv.KEYSEQ3, "vals": ["x", "y"], "cfg": cfg},
        "exhaustive": True,
    }, ["in-memory goleveldb stands for the persistent store", "values are short strings; keys are byte strings sharing prefixes"])
