"""C03 — the block change hash / write set depend only on the final content of the overlay."""
import os
import _kvstack as kv
import vf
from _kvstack import TRACE_VALS


def content_key(ovl):
    return tuple(ovl)


def check_function(ctx, observations, what):
    """observations: iterable of (content tuple, hash, ws, replay). Same content => same hash & write set."""
    seen = {}
    distinct_orders = 0
    for content, h, ws, rp in observations:
        k = content
        if k not in seen:
            seen[k] = (h, ws, rp)
            continue
        distinct_orders += 1
        h0, ws0, rp0 = seen[k]
        if h != h0:
            ctx.violation("%s:hash-depends-on-history" % what, {"content": list(k), "hash_a": h0, "hash_b": h},
                          {"a": rp0, "b": rp})
        elif ws != ws0:
            ctx.violation("%s:writeset-depends-on-history" % what, {"content": list(k), "ws_a": ws0, "ws_b": ws},
                          {"a": rp0, "b": rp})
    return len(seen), distinct_orders


def expected_ws(keyseq, ovl):
    out = []
    for i, k in enumerate(keyseq):
        if ovl[i] != "?":
            out.append(["05" + "".join("%02x" % b for b in k), ovl[i]])
    return out


def run(ctx):
    mc = kv.model_check(ctx, "KVStack_C03.cfg", ["OvlPut", "OvlDelete"])
    binary = ctx.go_test_bin("smartcontract/storage")
    paths, nsteps, ncontents, nrevisits, ntr, nev = [], 0, 0, 0, 0, 0
    if mc and binary:
        r, edges, inits = mc
        paths, ncov = ctx.cover(edges, inits, max_len=80)
        ctx.log("cover: %d paths, %d steps, %d/%d edges" % (len(paths), sum(len(p["steps"]) for p in paths), ncov, len(edges)))
        res = kv.replay(ctx, binary, kv.KEYSEQ3, [], False, paths, "c03")
        nsteps = len(res)
        obs = []
        for (pi, si, act, to, o) in res:
            if o.get("err"):
                ctx.violation("%s:error" % act["name"], o["err"], kv.replay_prefix(paths, pi, si))
            rp = kv.replay_prefix(paths, pi, si)
            obs.append((content_key(to["ovl"]), o["hash"], o["ws"], rp))
            if o["ws"] != expected_ws(kv.KEYSEQ3, to["ovl"]):
                ctx.violation("%s:writeset-not-sorted-final-content" % act["name"],
                              {"real": o["ws"], "model": expected_ws(kv.KEYSEQ3, to["ovl"])}, rp)
        ncontents, nrevisits = check_function(ctx, obs, "replay")
        ctx.log("replay: %d steps, %d distinct contents, %d revisits by another history" % (nsteps, ncontents, nrevisits))
        # code -> spec: random long histories, 16 keys; the trace spec infers the overlay content
        keyseq = sorted([[1], [1, 1], [1, 1, 1], [1, 2], [1, 2, 1], [2], [2, 1], [2, 2], [2, 2, 2], [3], [3, 1], [3, 3],
                         [1, 1, 2], [2, 1, 1], [3, 2], [3, 3, 3]])
        ntr, nst = (80, 250) if ctx.thorough else (15, 120)
        tp = kv.trace_run(ctx, binary, keyseq, [], False, TRACE_VALS, "kv", ntr, nst, "c03")
        if tp:
            v = kv.trace_check(ctx, tp, "C03")
            nev = v["total"]
            ctx.log("trace validation: %d/%d events matched" % (v["matched"], v["total"]))
            if v["accepted"]:
                # the model overlay content at every event is determined by the (validated) trace:
                evs = vf.read_ndjson(tp)
                n = len(keyseq)
                ovl = ["?"] * n
                cache = ["?"] * n
                obs = []
                for i, e in enumerate(evs[1:], start=1):
                    nm = e["event"]
                    if nm == "Reset":
                        ovl, cache = ["?"] * n, ["?"] * n
                        continue
                    if nm == "CachePut":
                        cache[e["k"] - 1] = e["v"]
                    elif nm == "CacheDelete":
                        cache[e["k"] - 1] = ""
                    elif nm == "CacheCommit":
                        ovl = [ovl[j] if cache[j] == "?" else cache[j] for j in range(n)]
                        cache = ["?"] * n
                    elif nm == "CacheReset":
                        cache = ["?"] * n
                    elif nm == "OvlPut":
                        ovl[e["k"] - 1] = e["v"]
                    elif nm == "OvlDelete":
                        ovl[e["k"] - 1] = ""
                    elif nm == "OvlCommit":
                        ovl = ["?"] * n
                    obs.append((tuple(ovl), e["hash"], e["ws"], {"trace": tp, "event_index": i + 1}))
                    if e["ws"] != expected_ws(keyseq, ovl):
                        ctx.violation("trace:writeset-not-sorted-final-content", {"real": e["ws"], "model": expected_ws(keyseq, ovl)},
                                      {"trace": tp, "event_index": i + 1})
                c2, r2 = check_function(ctx, obs, "trace")
                ctx.log("trace: %d distinct contents, %d revisits" % (c2, r2))
                ncontents += c2
                nrevisits += r2
            kv.self_test(ctx, tp)
    if paths:
        ctx.samples.append({"replayed_path": [s["act"] for s in paths[0]["steps"][:8]]})
    ctx.finish("model_checking", {
        "states": ctx.stats["states"], "transitions": ctx.stats["transitions"],
        "traces_validated_against_impl": len(paths) + ntr, "replayed_steps": nsteps, "trace_events": nev,
        "distinct_contents": ncontents, "contents_revisited_by_other_history": nrevisits,
        "exhaustive": True,
    }, ["property is one-directional: equal content => equal hash/write set (collisions between different contents are not claimed)"])
