"""Shared machinery of the VBFT properties C31 / C34 (spec/VBFTPool.tla, spec/VBFT.tla, harness/vbft_bvbft)."""
import json
import os

import vf

HARNESS = "vbft_bvbft"
CONFIGS = [(4, 1), (7, 2), (6, 1), (8, 2)]   # (6,1), (8,2): N > 3C+1, where 2C+1 < N-(N-1)/3


def build(ctx):
    return ctx.go_test_bin("consensus/vbft", harness=HARNESS)


def quorum(n):
    return n - (n - 1) // 3


def extract_constants(ctx, binary):
    """Thresholds (least accepted k) and participant roles of the REAL code for the model's configurations; they are fed
    to TLC as the generated module VBFTConst.  Returns (module_text, consts dict) or (None, None)."""
    fin = os.path.join(ctx.scratch, "const.in.json")
    fout = os.path.join(ctx.scratch, "const.out.ndjson")
    vf.write_json(fin, {"pairs": [list(p) for p in CONFIGS], "cryptoMaxN": 0})
    rc, _ = ctx.run_bin(binary, "TestVerifVBThresholds", env={"VERIF_IN": fin, "VERIF_OUT": fout}, timeout=600)
    if rc != 0:
        ctx.infra("threshold extraction failed rc=%s" % rc)
        return None, None
    thr = {}
    for r in vf.read_ndjson(fout):
        thr[(r["n"], r["fn"])] = r["k"]
        if r["up"] != 1:
            ctx.infra("non-monotone threshold %s" % r)
    consts = {}
    lines = ["---- MODULE VBFTConst ----", "\\* GENERATED from the real code (thresholds: least accepted k; roles: calcParticipantPeers)"]
    for n, c in CONFIGS:
        fin2 = os.path.join(ctx.scratch, "roles%d.in.json" % n)
        fout2 = os.path.join(ctx.scratch, "roles%d.out.ndjson" % n)
        vf.write_json(fin2, {"n": n, "c": c, "self": n, "byz": 1, "paths": []})
        rc, _ = ctx.run_bin(binary, "TestVerifVBPoolReplay", env={"VERIF_IN": fin2, "VERIF_OUT": fout2}, timeout=600)
        if rc != 0:
            ctx.infra("role extraction failed rc=%s" % rc)
            return None, None
        roles = vf.read_ndjson(fout2)[0]["roles"]
        k = {"QM": thr[(n, "getCommitConsensus")], "QMs": thr[(n, "getCommitConsensus/spread")], "QS": thr[(n, "commitDone/sigs")],
             "TE": thr[(n, "endorseDone")], "proposers": roles[0], "endorsers": roles[1], "committers": roles[2]}
        if k["QM"] != k["QMs"] or min(k["QM"], k["QS"], k["TE"]) < 0:
            ctx.infra("extracted thresholds unusable for the model: %s" % k)
            return None, None
        consts[n] = k
        seq = lambda l: "<<" + ", ".join(str(x) for x in l) + ">>"
        st = lambda l: "{" + ", ".join(str(x) for x in sorted(set(l))) + "}"
        lines += ["QM%d == %d" % (n, k["QM"]), "QS%d == %d" % (n, k["QS"]), "TE%d == %d" % (n, k["TE"]),
                  "ProposerSeq%d == %s" % (n, seq(roles[0])), "EndorserSeq%d == %s" % (n, seq(roles[1])),
                  "CommitterSeq%d == %s" % (n, seq(roles[2])),
                  "EndorserSet%d == %s" % (n, st(roles[1])), "CommitterSet%d == %s" % (n, st(roles[2]))]
    lines.append("====")
    ctx.log("extracted model constants: %s" % json.dumps(consts))
    return "\n".join(lines) + "\n", consts


# ----------------------------------------------------------------------------------------------------------- C31 level

def act_to_feed(a):
    f = {"name": a["name"], "p": a.get("p", 0), "v": a.get("v", 0)}
    if a["name"] == "FeedEndorse":
        f.update({"i": a["i"], "e": a["e"], "ok": a["ok"], "cc": a.get("cc", False)})
    elif a["name"] == "FeedCommit":
        f.update({"c": a["c"], "e": a["e"], "cok": a["cok"], "pok": a["pok"],
                  "es": sorted([{"i": x["i"], "ok": x["ok"]} for x in a["es"]], key=lambda x: x["i"])})
    return f


def norm_model_pool(st):
    pool = st["pool"]
    return {
        "props": sorted(x["p"] for x in pool["props"]),
        "esigs": [[{"p": s["p"], "e": s["e"], "ok": s["ok"]} for s in l] for l in pool["esigs"]],
        "cmsgs": [{"c": m["c"], "p": m["p"], "e": m["e"], "cok": m["cok"], "pok": m["pok"],
                   "es": sorted([{"i": x["i"], "ok": x["ok"]} for x in m["es"]], key=lambda x: x["i"])} for m in pool["cmsgs"]],
    }


def norm_real_pool(o):
    return {"props": sorted(o["props"]), "esigs": o["esigs"], "cmsgs": o["cmsgs"]}


def classify(n, obs):
    """Structural key of a CommitSound violation observed on the real pool: which path decided and why fewer than the
    quorum of VALID signatures for the decided block are present."""
    q = quorum(n)
    p, e = obs["cdp"], obs["cde"]
    path = "msgs" if obs["viaMsgs"] else "sigs"
    claimed_same, claimed_any = set(), set()
    forged = False
    if p in obs["props"]:
        claimed_same.add(p)
        claimed_any.add(p)
    for i, l in enumerate(obs["esigs"]):
        for s in l:
            if s["p"] == p:
                claimed_any.add(i + 1)
                # the proposer's own entry stands for the proposal held in the pool (verified at intake; on the proposer's own
                # node the entry carries no signature bytes at all): never a forged signature
                if not (i + 1 == p and p in obs["props"]):
                    forged = forged or not s["ok"]
                if s["e"] == e:
                    claimed_same.add(i + 1)
    in_msgs = set()
    for m in obs["cmsgs"]:
        if m["p"] != p:
            continue
        who = {m["c"]} | {x["i"] for x in m["es"]}
        forged = forged or not m["cok"] or not m["pok"] or any(not x["ok"] for x in m["es"])
        in_msgs |= who
        claimed_any |= who | {p}
        if m["e"] == e:
            claimed_same |= who | {p}
    if forged:
        # signatures that do not verify (or are attributed to a peer that did not make them) were counted
        tag = "unverified-signatures-counted"
    elif len(claimed_same) >= q:
        tag = "inconsistent-valid-count"          # all signatures valid and enough of them: should be impossible
    elif len(claimed_any) >= q:
        tag = "empty-and-nonempty-signatures-counted-together"
    elif path == "msgs" and p in in_msgs:
        tag = "proposer-counted-twice"
    else:
        # every counted signature is valid and for the declared block, there are just fewer than N-(N-1)/3 of them:
        # the decision threshold itself is too low for this (N, C)
        c = dict(CONFIGS).get(n, -1)
        tag = "fewer-than-quorum-claimed[%s,N=%d,C=%d]" % ("fallback" if path == "sigs" else "getCommitConsensus", n, c)
    return "commitDone/%s:%s" % (path, tag)


def replay_pool(ctx, binary, n, c, paths, tag, byz=1):
    """paths: list of lists of model acts.  Returns list of observations per path (list of lists) or None."""
    fin = os.path.join(ctx.scratch, "pool-%s.in.json" % tag)
    fout = os.path.join(ctx.scratch, "pool-%s.out.ndjson" % tag)
    vf.write_json(fin, {"n": n, "c": c, "self": n, "byz": byz, "paths": [[act_to_feed(a) for a in p] for p in paths]})
    rc, _ = ctx.run_bin(binary, "TestVerifVBPoolReplay", env={"VERIF_IN": fin, "VERIF_OUT": fout}, timeout=1800)
    if rc != 0:
        ctx.infra("pool replay harness failed rc=%s" % rc)
        return None
    res = [[] for _ in paths]
    for o in vf.read_ndjson(fout):
        if o["path"] >= 0:
            res[o["path"]].append(o)
    if any(len(r) != len(p) for r, p in zip(res, paths)):
        ctx.infra("pool replay: observation count mismatch")
        return None
    return res


def check_pool_paths(ctx, n, paths_acts, paths_states, results, stats):
    """Conformance (real pool == model pool, real decision in model's result set) and the C31 oracle on every step."""
    q = quorum(n)
    for pi, (acts, states, obs_l) in enumerate(zip(paths_acts, paths_states, results)):
        for si, (a, st, o) in enumerate(zip(acts, states, obs_l)):
            stats["steps"] += 1
            replay = {"n": n, "steps": [act_to_feed(x) for x in acts[:si + 1]]}
            if o["intake"] == "dropped":
                ctx.infra("model drift: a message of the model was dropped by the real intake signature check: %s" % a)
                return
            # ---- the oracle first: it only looks at the real pool (real signatures), never at the model
            if o["cd"] and len(o["valid"]) < q:
                stats["unsound"] += 1
                k = classify(n, o)
                old = stats.setdefault("viol", {}).get(k)
                if old is None or len(replay["steps"]) < len(old[1]["steps"]):
                    stats["viol"][k] = ({"N": n, "declared": {"proposer": o["cdp"], "empty": o["cde"]}, "valid_signers": o["valid"],
                                         "quorum_required": q, "instances": 0}, replay)
                stats.setdefault("violn", {})[k] = stats.setdefault("violn", {}).get(k, 0) + 1
            mp, rp = norm_model_pool(st), norm_real_pool(o)
            if mp != rp:
                stats["drift"] += 1
                if stats["drift"] <= 3:
                    ctx.infra("model drift (pool content) after %s: model=%s real=%s" % (json.dumps(a), json.dumps(mp), json.dumps(rp)))
                break
            res = {(r["p"], r["e"]): r for r in st["results"]}
            if o["cd"]:
                stats["done"] += 1
                key = (o["cdp"], o["cde"])
                if key not in res:
                    stats["drift"] += 1
                    if stats["drift"] <= 3:
                        ctx.infra("model drift (commitDone): real=%s model=%s after %s" % (key, sorted(res), json.dumps(a)))
                    break
                if sorted(res[key]["valid"]) != o["valid"] or res[key]["sound"] != (len(o["valid"]) >= q):
                    stats["drift"] += 1
                    if stats["drift"] <= 3:
                        ctx.infra("model drift (valid signer set): real=%s model=%s" % (o["valid"], res[key]["valid"]))
                    break
                if o["viaMsgs"] != st["viaMsgs"]:
                    stats["drift"] += 1
                    ctx.infra("model drift (decision path): real viaMsgs=%s model=%s" % (o["viaMsgs"], st["viaMsgs"]))
                    break
            elif res:
                stats["drift"] += 1
                if stats["drift"] <= 3:
                    ctx.infra("model drift (commitDone): real=not done, model=%s after %s" % (sorted(res), json.dumps(a)))
                break
            # endorseDone / endorseFailed conformance (used by C34's model)
            eds = {(r["p"], r["e"]) for r in st["ed"]}
            if (o["ed"] and (o["edp"], o["ede"]) not in eds) or (not o["ed"] and eds) or o["ef"] != st["ef"]:
                stats["drift"] += 1
                if stats["drift"] <= 3:
                    ctx.infra("model drift (endorseDone/Failed): real=%s model=%s/%s pool=%s" % ((o["ed"], o["edp"], o["ede"], o["ef"]), sorted(eds), st["ef"], json.dumps(rp)))
                break


def report_violations(ctx, stats):
    for k, (detail, replay) in sorted(stats.get("viol", {}).items()):
        detail["instances"] = stats["violn"][k]
        ctx.violation(k, detail, replay)


# ----------------------------------------------------------------------------------------------------------- C34 level

def c34_cfg(n, byz, auth, maxbyz, byzprops, claims, depth, mode):
    """mode: 'bfs' (Agreement-violating schedules are reported as ROW lines), 'sim' (edges of simulated behaviours)"""
    l = ["SPECIFICATION SpecH", "CONSTANTS", "  N = %d" % n, "  C = %d" % dict(CONFIGS)[n],
         "  EndorserSet <- EndorserSet%d" % n, "  CommitterSet <- CommitterSet%d" % n, "  ProposerSeq <- ProposerSeq%d" % n,
         "  QM <- QM%d" % n, "  QS <- QS%d" % n, "  TE <- TE%d" % n,
         "  SW_Verify = FALSE", "  SW_PerBlock = FALSE", "  SW_Proposer = FALSE",
         "  Byz <- %s" % byz, "  AuthFields = %s" % ("TRUE" if auth else "FALSE"), "  MaxByz = %d" % maxbyz,
         "  ByzProposals <- %s" % byzprops, "  ByzClaimSets <- %s" % claims, "  MaxDepth = %d" % depth,
         "VIEW view", "CHECK_DEADLOCK FALSE", "CONSTRAINT Depth"]
    if mode == "bfs":
        l += ["CONSTRAINT AgreementOut"]
    elif mode == "frontier":
        l += ["CONSTRAINT AgreementOut", "CONSTRAINT FrontierOut"]
    elif mode == "count":
        pass
    else:
        l += ["CONSTRAINT InitOut", "ACTION_CONSTRAINT Edge"]
    return "\n".join(l) + "\n"
