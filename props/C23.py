"""C23 — signature scripts parse back to their keys and give order-free addresses (spec/SigScript.tla)."""
import _sigcheck as sc

KT17_FAST = ["p256"] * 17
KT17_MIX = ["p224"] + ["p256"] * 7 + ["p384", "p384", "p521", "k1", "sm2", "sm2", "ed", "ed", "eth"]


def params_ok(m, n):
    return 1 <= m <= n and 1 < n <= 16


def check(ctx, B, P, res, kt):
    bobs = [o for o in res if "addrOk" in o]
    pobs = [o for o in res if "s" in o]
    fz = [o for o in res if o.get("fuzz")]
    if len(bobs) != len(B) or len(pobs) != len(P) or len(fz) != 1:
        ctx.infra("harness returned %d/%d builds, %d/%d scripts" % (len(bobs), len(B), len(pobs), len(P)))
        return 0
    drift = []
    groups = {}
    for b, o in zip(B, bobs):
        keys, m, built = b["keys"], b["m"], b["built"]
        what = "keys=%s m=%d" % (keys, m)
        rp = {"ktypes": kt, "build": {"keys": keys, "m": m}}
        if o.get("panic"):
            ctx.violation("Build:panic", {"build": what, "panic": o["panic"]}, rp)
            continue
        if o.get("changed"):
            # spec invariant HeldStable: a script returned by an earlier build changed in the caller's hands
            first = B[o["changed"][0]]
            ctx.violation("Build:retained-script-changed-by-later-build",
                          {"later_build": what, "earlier_builds_changed": len(o["changed"]),
                           "first": "keys=%s m=%d" % (first["keys"], first["m"])},
                          {"ktypes": kt, "builds": [{"keys": first["keys"], "m": first["m"]}, {"keys": keys, "m": m}]})
        if not built:
            if o["ok"]:
                ctx.violation("ProgramFromMultiPubKey:invalid-parameters-accepted", {"build": what, "script": o["script"]}, rp)
            if o["addrOk"]:
                ctx.violation("AddressFromMultiPubKeys:invalid-parameters-accepted", {"build": what, "addr": o["addr"]}, rp)
            continue
        if not o["ok"] or not o["addrOk"]:
            drift.append((what, "valid parameters rejected by the real builder"))
            continue
        # round trip on the real bytes
        pr = o["parse"]
        if pr.get("panic") or not pr["ok"] or pr["keys"] != sorted(keys) or pr["m"] != m:
            ctx.violation("RoundTrip:built-script-does-not-parse-back", {"build": what, "parsed": pr, "script": o["script"]}, rp)
        elif not o["scriptEq"]:
            drift.append((what, "built bytes differ from the model's script although they parse back"))
        single_eth = len(keys) == 1 and kt[keys[0] - 1] == "eth"
        if not o["addrIsH"] and not single_eth:
            drift.append((what, "address is not the hash of the built script"))
        if len(keys) > 1:
            groups.setdefault((frozenset(keys), m), []).append((keys, o["addr"]))
    norder = 0
    for (ks, m), lst in groups.items():
        norder += len(lst)
        if len({a for _, a in lst}) != 1:
            ctx.violation("AddressFromMultiPubKeys:address-depends-on-key-order", {"keyset": sorted(ks), "m": m, "orders": lst[:4]},
                          {"ktypes": kt, "keyset": sorted(ks), "m": m})
    for p, o in zip(P, pobs):
        rp = {"ktypes": kt, "script": p["script"]}
        what = script_str(p["script"])
        if o.get("panic"):
            ctx.violation("GetProgramInfo:panic", {"script": what, "panic": o["panic"]}, rp)
            continue
        if o["ok"]:
            n = len(o["keys"])
            multi = p["script"][-1][2] == "CHECKMULTISIG"
            sh = p["shape"]
            if not (1 <= o["m"] <= n <= 16) or (multi and n < 2):
                ctx.violation("GetProgramInfo:accepts-invalid-threshold-or-key-count", {"script": what, "m": o["m"], "n": n}, rp)
                continue
            if sh and not (params_ok(sh[0], sh[1]) and sh[1] == sh[2]):
                ctx.violation("GetProgramInfo:accepts-invalid-declared-parameters", {"script": what, "declared_m_n_pushes": sh, "returned": o}, rp)
                continue
            if p["origin"] == "built" and (o["keys"] != sorted(p["keys"]) or o["m"] != p["m"]):
                ctx.violation("RoundTrip:built-script-does-not-parse-back", {"script": what, "parsed": o}, rp)
                continue
        if o["ok"] != p["ok"] or (o["ok"] and (o["keys"] != p["pkeys"] or o["m"] != p["pm"])):
            if p["origin"] == "built" and not o["ok"]:
                ctx.violation("RoundTrip:built-script-does-not-parse-back", {"script": what, "parsed": o}, rp)
            else:
                drift.append((what, "real=%s model=%s" % ({k: o[k] for k in ("ok", "keys", "m")}, (p["ok"], p["pkeys"], p["pm"]))))
    f = fz[0]
    for bad in f["bad"] or []:
        ctx.violation("GetProgramInfo:byte-string:%s" % ("panic" if bad.startswith("panic") else "accepts-invalid-threshold-or-key-count"),
                      {"script": bad}, {"script_hex": bad})
    if drift:
        ctx.infra("MODEL-DRIFT (%s): %d rows, e.g. %s" % (kt[:3], len(drift), drift[:3]))
    ctx.log("%s...: %d builds (%d in %d order groups), %d scripts parsed, %d byte strings (%d accepted)" %
            (kt[:2], len(B), norder, len(groups), len(P), f["tried"], f["accepted"]))
    return f["tried"]


def script_str(toks):
    out = []
    for t in toks:
        if t[0] == "num":
            out.append("%d%s" % (t[1], "" if t[2] == "op" else ":" + t[2]))
        elif t[0] == "key":
            out.append("K%d%s" % (t[1], "" if t[2] == "c" else ":" + t[2]))
        elif t[0] == "op":
            out.append(t[2])
        else:
            out.append("junk")
    return " ".join(out)


def run(ctx):
    cfg = "SigScript_C23t.cfg" if ctx.thorough else "SigScript_C23.cfg"
    (r, rows), binary = sc.parallel(lambda: sc.run_tlc_rows(ctx, "SigScript_MC", cfg),
                                    lambda: ctx.go_test_bin("core/validation", harness="b_sig_validation"))
    nexec = nfuzz = 0
    B, P = [], []
    if r and binary:
        for x in rows:
            if x[0] == "B":
                B.append({"keys": x[1], "m": x[2], "built": x[3], "script": x[4]})
            elif x[0] == "P":
                P.append({"origin": x[1], "keys": x[2], "m": x[3], "script": x[4], "ok": x[5], "pkeys": x[6], "pm": x[7], "shape": x[8]})
        origins = {p["origin"] for p in P}
        if not ({"built", "raw", "mutated"} <= origins) or not any(not b["built"] for b in B) or not any(p["ok"] for p in P if p["origin"] == "raw"):
            ctx.infra("vacuous model run: origins %s, %d builds" % (origins, len(B)))
        inp = {"builds": [{"keys": b["keys"], "m": b["m"], "script": b["script"]} for b in B], "scripts": [p["script"] for p in P],
               "fuzz": 200000 if ctx.thorough else 30000}
        for kt in (KT17_FAST, KT17_MIX):
            # all rows with P-256 keys; with the mix of key types (slow curves) all builds, every script that the model
            # accepts or that came from a build, and a seeded sample of the other raw scripts (thorough: everything)
            if kt is KT17_MIX and not ctx.thorough:
                keep = [i for i, p in enumerate(P) if p["ok"] or p["origin"] != "raw"]
                rest = [i for i, p in enumerate(P) if not (p["ok"] or p["origin"] != "raw")]
                keep = sorted(keep[:6000] + ctx.rng.sample(rest, min(3000, len(rest))))
                Ps = [P[i] for i in keep]
            else:
                Ps = P
            run_inp = dict(inp, ktypes=kt, scripts=[p["script"] for p in Ps])
            if kt is KT17_MIX and not ctx.thorough:
                run_inp["fuzz"] = 8000
            res = sc.go_rows(ctx, binary, "TestVerifSigScript", run_inp, "c23-" + kt[0] + kt[-1])
            if res is None:
                continue
            nfuzz += check(ctx, B, Ps, res[1:-1], kt)
            nexec += len(B) + len(Ps)
        ctx.samples.append({"build": B[len(B) // 2]["keys"], "m": B[len(B) // 2]["m"], "model_builds": B[len(B) // 2]["built"]})
        mp = [p for p in P if p["origin"] == "mutated"]
        if mp:
            ctx.samples.append({"mutated_script": script_str(mp[len(mp) // 2]["script"]), "model_accepts": mp[len(mp) // 2]["ok"]})
    ctx.finish("model_checking", {
        "states": ctx.stats["states"], "transitions": ctx.stats["transitions"],
        "traces_validated_against_impl": nexec, "build_rows": len(B), "parse_rows": len(P), "byte_strings_parsed": nfuzz,
        "exhaustive": True, "constants": {"cfg": cfg, "key_lists": "all orderings of all subsets of 4 keys + sizes 15,16,17",
                                          "thresholds": [0, 1, 2, 3, 4, 5, 15, 16, 17, 18], "raw_alphabet": 12},
    }, ["abstract key order = keypair.SortPublicKeys order of the bound real keys (17 keys; all P-256, and a mix of every supported type)",
        "byte strings beyond the token grammar are covered by seeded random and mutated byte strings with the oracle 'accepted => 1 <= M <= n <= 16 (n >= 2 behind CHECKMULTISIG), no panic'"])
