"""Shared machinery for C38 (spec/Wallet.tla): TLC runs, view computation, replay on the real ClientImpl."""
import json
import os
import vf
import _tlccache

LOW = {"n": 16, "r": 1, "p": 1, "dkLen": 64}
SCHEMES = ["SHA256withECDSA", "SHA3-256withECDSA"]
NULLM = {"id": 0, "label": "", "dflt": False, "scheme": ""}
ALL_ACTS = ["New", "Import", "Delete", "SetDefault", "SetLabel", "ChangePassword", "ChangeScheme", "Reload"]
FAULTS = ["SetFault", "ClearFault"]


def cfg_text(import_ids, new_ids, labels, wscrypt, max_obj, max_ops, acts, dev_new, dev_dup, invariants, export, schemes=None, props=True):
    def s(xs):
        return "{" + ", ".join(json.dumps(x) for x in xs) + "}"
    lines = ["SPECIFICATION Spec", "CONSTANTS",
             "  ImportIds = {%s}" % ", ".join(str(i) for i in import_ids),
             "  NewIdSeq <- NewSeq%s" % "".join(str(i) for i in new_ids),
             "  ArgLabels = %s" % s(labels),
             '  Pwds = {"p", "q"}',
             "  Schemes = %s" % s(schemes or SCHEMES),
             '  BadScheme = "SM3withSM2"',
             '  WScrypt = "%s"' % wscrypt,
             "  MaxObj = %d" % max_obj,
             "  MaxOps = %d" % max_ops,
             "  Acts = %s" % s(acts),
             "  NewIgnoresWalletScrypt = %s" % ("TRUE" if dev_new else "FALSE"),
             "  DupAddrImport = %s" % ("TRUE" if dev_dup else "FALSE"),
             "VIEW view",
             "INVARIANTS " + " ".join(invariants)]
    if props:
        lines.append("PROPERTIES FailNoChange")
    if export:
        lines += ["CONSTRAINT InitOut", "ACTION_CONSTRAINT Edge"]
    lines.append("CHECK_DEADLOCK FALSE")
    return "\n".join(lines) + "\n"


def meta(r):
    return {k: r[k] for k in ("id", "label", "dflt", "scheme")}


def view_of(accts, objs, ai, li, dp, all_ids, pwds, wscrypt):
    ob = lambda o: objs[o - 1]
    v = {"list": [meta(ob(o)) for o in accts],
         "byAddr": {str(x): (meta(ob(ai[x - 1])) if ai[x - 1] else NULLM) for x in all_ids},
         "byLabel": {l: (ob(li[l])["id"] if li[l] else 0) for l in li if l != ""},
         "dflt": meta(ob(dp)) if dp else NULLM,
         "num": sum(1 for x in all_ids if ai[x - 1]),
         "opens": {str(x): sorted(p for p in pwds if ai[x - 1] and ob(ai[x - 1])["pwd"] == p and ob(ai[x - 1])["enc"] == wscrypt)
                   for x in all_ids}}
    return v


def mem_view(st, all_ids, pwds, wscrypt):
    return view_of(st["accts"], st["objs"], st["addrIdx"], st["labelIdx"], st["dfltPtr"], all_ids, pwds, wscrypt)


def file_view(st, all_ids, pwds, wscrypt):
    f = [st["objs"][o - 1] for o in st["accts"]]
    n = len(f)
    last = lambda pred: max([i + 1 for i in range(n) if pred(f[i])] or [0])
    ai = [last(lambda r, x=x: r["id"] == x) for x in all_ids]
    li = {l: (0 if l == "" else last(lambda r, l=l: r["label"] == l)) for l in st["labelIdx"]}
    dp = last(lambda r: r["dflt"])
    return view_of(list(range(1, n + 1)), f, ai, li, dp, all_ids, pwds, wscrypt)


def strip(v, opens=True):
    """real view -> comparable with a model view (drop the metadata digests)"""
    m = lambda e: {k: e[k] for k in ("id", "label", "dflt", "scheme")}
    out = {"list": [m(e) for e in v["list"]], "byAddr": {k: m(e) for k, e in v["byAddr"].items()},
           "byLabel": v["byLabel"], "dflt": m(v["dflt"]), "num": v["num"]}
    if opens:
        out["opens"] = {k: sorted(x) for k, x in v["opens"].items()}
    return out


def first_diff(a, b):
    for k in a:
        if a[k] != b.get(k):
            return k, {"real": a[k], "model": b.get(k)}
    return None


def probe(ctx, binary):
    fout = os.path.join(ctx.scratch, "probe.ndjson")
    rc, out = ctx.run_bin(binary, "TestVerifWalletProbe", env={"VERIF_OUT": fout}, timeout=300)
    if rc != 0:
        ctx.infra("wallet probe failed rc=%s" % rc)
        return None
    r = vf.read_ndjson(fout)[0]
    if "error" in r:
        ctx.infra("wallet probe: %s" % r["error"])
        return None
    return r


def tlc_design(ctx, name, **kw):
    """the design (all deviation switches off) must satisfy the property invariants"""
    txt = cfg_text(dev_new=False, dev_dup=False, export=False,
                   invariants=["TypeOK", "Saved", "Persist", "Opens", "OneDefault"], **kw)
    r = _tlccache.run(ctx, "Wallet_MC", "Wallet", name, txt, tags_needed=False)
    if r.status != "ok":
        ctx.infra("TLC did not verify the wallet design (%s): %s %s %s" % (name, r.status, r.violated, r.errors[:2]))
        return None
    ctx.log("TLC design %s: %d generated, %d distinct, depth %d, %.1fs" % (name, r.generated, r.distinct, r.depth, r.wall))
    return r


def tlc_asis(ctx, name, dev, simulate=None, depth=None, **kw):
    """the code as found (deviation switches as probed), with edge export"""
    inv = ["TypeOK", "Saved"]
    if not dev["DupAddrImport"]:
        inv += ["Persist", "OneDefault"]
    if not (dev["NewIgnoresWalletScrypt"] and kw["wscrypt"] != "def" and kw["new_ids"]):
        inv.append("Opens")
    txt = cfg_text(dev_new=dev["NewIgnoresWalletScrypt"], dev_dup=dev["DupAddrImport"], export=True, invariants=inv, props=not simulate, **kw)
    r = _tlccache.run(ctx, "Wallet_MC", "Wallet", name, txt, simulate=simulate, depth=depth, workers=1)
    if r.status != "ok" and not (simulate and r.status == "error" and not r.errors):
        ctx.infra("TLC failed on %s: %s %s %s" % (name, r.status, r.violated, r.errors[:2]))
        return None
    edges = r.prints.get("EDGE", [])
    inits = r.prints.get("INIT", [])
    names = {e["act"]["name"] for e in edges}
    missing = [a for a in kw["acts"] if a not in names]
    if missing:
        ctx.infra("vacuous model run %s: actions never taken: %s" % (name, missing))
    ctx.log("TLC as-is %s: %d generated, %d distinct, depth %d, %d edges, %.1fs" % (name, r.generated, r.distinct, r.depth, len(edges), r.wall))
    return r, edges, inits


def replay(ctx, binary, paths, tag, import_ids, all_ids, labels, wscrypt, dev, opens_live=True, timeout=1500):
    """run the paths on the real wallet and compare every step with the model.  Returns number of steps compared."""
    pwds = ["p", "q"]
    inp = {"scrypt": LOW if wscrypt == "low" else None, "importIds": import_ids, "allIds": all_ids,
           "labels": [l for l in labels if l != ""], "pwds": pwds, "opensLive": opens_live,
           "workers": int(os.environ.get("VERIF_WORKERS", "0")),
           "paths": [[s["act"] for s in p["steps"]] for p in paths]}
    fin = os.path.join(ctx.scratch, "replay-%s.in.json" % tag)
    fout = os.path.join(ctx.scratch, "replay-%s.out.ndjson" % tag)
    vf.write_json(fin, inp)
    rc, out = ctx.run_bin(binary, "TestVerifWalletReplay", env={"VERIF_IN": fin, "VERIF_OUT": fout}, timeout=timeout)
    if rc != 0:
        ctx.infra("wallet replay harness failed rc=%s" % rc)
        return 0
    obs = vf.read_ndjson(fout)
    expected = sum(len(p["steps"]) + 1 for p in paths)
    if len(obs) != expected:
        ctx.infra("wallet replay produced %d observations, expected %d" % (len(obs), expected))
    cfgdesc = {"scrypt": wscrypt, "importIds": import_ids, "allIds": all_ids}
    n = 0
    dead = set()
    for o in obs:
        if o["path"] in dead:
            continue
        p = paths[o["path"]]
        if o["step"] == 0:
            act, to = {"name": "Init", "res": "init"}, p["init"]
        else:
            st = p["steps"][o["step"] - 1]
            act, to = st["act"], st["to"]
        rp = {"config": cfgdesc, "steps": [s["act"] for s in p["steps"][:o["step"]]]}
        n += 1
        name = act["name"]
        if len(ctx.violations) > 40:
            break
        if o["res"] == "panic" or o.get("re") is None:
            ctx.violation("%s:crash-or-unreadable-file" % name, o.get("err"), rp)
            continue
        mv, fv = mem_view(to, all_ids, pwds, wscrypt), file_view(to, all_ids, pwds, wscrypt)
        live, re = o["live"], o["re"]
        # ---- property, directly on the real observations ------------------------------------------
        # (P1) save + reload lists the same accounts with the same metadata
        a, b = dict(live), dict(re)
        if not opens_live:
            a.pop("opens"), b.pop("opens")
        if a != b:
            k = first_diff(a, b)[0]
            if mv != fv and dev["DupAddrImport"]:
                # the model of the code as found predicts it: an address imported twice, then deleted
                ctx.violation("Persist:ImportAccount-accepts-listed-address:reload-differs",
                              {"after": name, "field": k, "live": a[k], "reloaded": b[k]}, rp)
            else:
                ctx.violation("Persist:%s:%s" % (name, k), {"live": a[k], "reloaded": b[k]}, rp)
        # (P2) each account opens with exactly its current password and yields its key
        for x in all_ids:
            oid = to["addrIdx"][x - 1]
            if not oid:
                continue
            rec = to["objs"][oid - 1]
            got = sorted(re["opens"][str(x)])
            if got != [rec["pwd"]]:
                if rec["enc"] != wscrypt and got == [] and dev["NewIgnoresWalletScrypt"]:
                    ctx.violation("Opens:NewAccount-ignores-wallet-scrypt:current-password-rejected",
                                  {"account": x, "current_password": rec["pwd"], "opened_by": got, "wallet_scrypt": wscrypt}, rp)
                else:
                    ctx.violation("Opens:%s:opened-by-%s" % (name, "+".join(got) or "none"),
                                  {"account": x, "current_password": rec["pwd"], "opened_by": got}, rp)
        # ---- the real client against the model of the operation --------------------------------------
        d = first_diff(strip(live, opens_live), {k: v for k, v in mv.items() if opens_live or k != "opens"})
        if d:
            ctx.violation("Model:%s:live-%s" % (name, d[0]), d[1], rp)
            dead.add(o["path"])   # the rest of this path is no longer comparable
            continue
        d = first_diff(strip(re), fv)
        if d:
            ctx.violation("Model:%s:reloaded-%s" % (name, d[0]), d[1], rp)
            dead.add(o["path"])
            continue
        if o["step"] > 0 and o["res"] != act["res"]:
            # same state, different answer: not a statement of C38 -> the model misdescribes the code
            ctx.infra("model drift: %s answered %s (%s), model %s; path %s" % (name, o["res"], o.get("err"), act["res"], rp["steps"]))
    return n
