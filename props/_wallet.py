"""Shared machinery for C38 (spec/Wallet.tla): TLC runs, view computation, replay on the real ClientImpl."""
import json
import os
import vf
import _tlccache

LOW = {"n": 16, "r": 1, "p": 1, "dkLen": 64}
SCHEMES = ["SHA256withECDSA", "SHA3-256withECDSA"]
NULLM = {"id": 0, "label": "", "dflt": False, "scheme": ""}
ALL_ACTS = ["New", "Import", "Delete", "SetDefault", "SetLabel", "ChangePassword", "ChangeScheme", "Reload"]
FAULTS = ["SetFault", "ClearFault"]


def cfg_text(import_ids, new_ids, labels, wscrypt, max_obj, max_ops, acts, dev_new, dev_dup, invariants, export, schemes=None, props=True,
             threads=(1,), split=(), oneshot=False, init=None):
    def s(xs):
        return "{" + ", ".join(json.dumps(x) for x in xs) + "}"
    lines = (["INIT %s" % init, "NEXT Next"] if init else ["SPECIFICATION Spec"]) + ["CONSTANTS",
             "  ImportIds = {%s}" % ", ".join(str(i) for i in import_ids),
             "  NewIdSeq <- NewSeq%s" % "".join(str(i) for i in new_ids),
             "  ArgLabels = %s" % s(labels),
             '  Pwds = {"p", "q"}',
             "  Schemes = %s" % s(schemes or SCHEMES),
             '  BadScheme = "SM3withSM2"',
             '  WScrypt = "%s"' % wscrypt,
             "  MaxObj = %d" % max_obj,
             "  MaxOps = %d" % max_ops,
             "  Acts = %s" % s(acts),
             "  NewIgnoresWalletScrypt = %s" % ("TRUE" if dev_new else "FALSE"),
             "  DupAddrImport = %s" % ("TRUE" if dev_dup else "FALSE"),
             "  Threads = {%s}" % ", ".join(str(t) for t in threads),
             "  Split = %s" % s(list(split)),
             "  OneShot = %s" % ("TRUE" if oneshot else "FALSE"),
             "VIEW viewn" if oneshot else "VIEW view",
             "INVARIANTS " + " ".join(invariants)]
    if props:
        # AuthCurrent is trivial for a single thread (check and act of a call are one step)
        lines.append("PROPERTIES FailNoChange AuthCurrent" if len(threads) > 1 else "PROPERTIES FailNoChange")
    if export:
        lines += ["CONSTRAINT InitOutN", "ACTION_CONSTRAINT EdgeN"] if oneshot else ["CONSTRAINT InitOut", "ACTION_CONSTRAINT Edge"]
    lines.append("CHECK_DEADLOCK FALSE")
    return "\n".join(lines) + "\n"


def meta(r):
    return {k: r[k] for k in ("id", "label", "dflt", "scheme")}


def view_of(accts, objs, ai, li, dp, all_ids, pwds, wscrypt):
    ob = lambda o: objs[o - 1]
    v = {"list": [meta(ob(o)) for o in accts],
         "byAddr": {str(x): (meta(ob(ai[x - 1])) if ai[x - 1] else NULLM) for x in all_ids},
         "byLabel": {l: (ob(li[l])["id"] if li[l] else 0) for l in li if l != ""},
         "dflt": meta(ob(dp)) if dp else NULLM,
         "num": sum(1 for x in all_ids if ai[x - 1]),
         "opens": {str(x): sorted(p for p in pwds if ai[x - 1] and ob(ai[x - 1])["pwd"] == p and ob(ai[x - 1])["enc"] == wscrypt)
                   for x in all_ids}}
    return v


def mem_view(st, all_ids, pwds, wscrypt):
    return view_of(st["accts"], st["objs"], st["addrIdx"], st["labelIdx"], st["dfltPtr"], all_ids, pwds, wscrypt)


def file_view(st, all_ids, pwds, wscrypt):
    f = [st["objs"][o - 1] for o in st["accts"]]
    n = len(f)
    last = lambda pred: max([i + 1 for i in range(n) if pred(f[i])] or [0])
    ai = [last(lambda r, x=x: r["id"] == x) for x in all_ids]
    li = {l: (0 if l == "" else last(lambda r, l=l: r["label"] == l)) for l in st["labelIdx"]}
    dp = last(lambda r: r["dflt"])
    return view_of(list(range(1, n + 1)), f, ai, li, dp, all_ids, pwds, wscrypt)


def strip(v, opens=True):
    """real view -> comparable with a model view (drop the metadata digests)"""
    m = lambda e: {k: e[k] for k in ("id", "label", "dflt", "scheme")}
    out = {"list": [m(e) for e in v["list"]], "byAddr": {k: m(e) for k, e in v["byAddr"].items()},
           "byLabel": v["byLabel"], "dflt": m(v["dflt"]), "num": v["num"]}
    if opens:
        out["opens"] = {k: sorted(x) for k, x in v["opens"].items()}
    return out


def first_diff(a, b):
    for k in a:
        if a[k] != b.get(k):
            return k, {"real": a[k], "model": b.get(k)}
    return None


def probe(ctx, binary):
    fout = os.path.join(ctx.scratch, "probe.ndjson")
    rc, out = ctx.run_bin(binary, "TestVerifWalletProbe", env={"VERIF_OUT": fout}, timeout=300)
    if rc != 0:
        ctx.infra("wallet probe failed rc=%s" % rc)
        return None
    r = vf.read_ndjson(fout)[0]
    if "error" in r:
        ctx.infra("wallet probe: %s" % r["error"])
        return None
    return r


def tlc_design(ctx, name, **kw):
    """the design (all deviation switches off) must satisfy the property invariants"""
    txt = cfg_text(dev_new=False, dev_dup=False, export=False,
                   invariants=["TypeOK", "Saved", "Persist", "Opens", "OneDefault", "DefaultListed"], **kw)
    r = _tlccache.run(ctx, "Wallet_MC", "Wallet", name, txt, tags_needed=False)
    if r.status != "ok":
        ctx.infra("TLC did not verify the wallet design (%s): %s %s %s" % (name, r.status, r.violated, r.errors[:2]))
        return None
    ctx.log("TLC design %s: %d generated, %d distinct, depth %d, %.1fs" % (name, r.generated, r.distinct, r.depth, r.wall))
    return r


def tlc_asis(ctx, name, dev, simulate=None, depth=None, **kw):
    """the code as found (deviation switches as probed), with edge export"""
    inv = ["TypeOK", "Saved"]
    if not dev["DupAddrImport"]:
        inv += ["Persist", "OneDefault", "DefaultListed"]
    if not (dev["NewIgnoresWalletScrypt"] and kw["wscrypt"] != "def" and kw["new_ids"]):
        inv.append("Opens")
    txt = cfg_text(dev_new=dev["NewIgnoresWalletScrypt"], dev_dup=dev["DupAddrImport"], export=True, invariants=inv, props=not simulate, **kw)
    r = _tlccache.run(ctx, "Wallet_MC", "Wallet", name, txt, simulate=simulate, depth=depth, workers=1)
    if r.status != "ok" and not (simulate and r.status == "error" and not r.errors):
        ctx.infra("TLC failed on %s: %s %s %s" % (name, r.status, r.violated, r.errors[:2]))
        return None
    edges = r.prints.get("EDGE", [])
    inits = r.prints.get("INIT", [])
    names = {e["act"]["name"] for e in edges}
    missing = [a for a in kw["acts"] if a not in names]
    if missing:
        ctx.infra("vacuous model run %s: actions never taken: %s" % (name, missing))
    ctx.log("TLC as-is %s: %d generated, %d distinct, depth %d, %d edges, %.1fs" % (name, r.generated, r.distinct, r.depth, len(edges), r.wall))
    return r, edges, inits


def replay(ctx, binary, paths, tag, import_ids, all_ids, labels, wscrypt, dev, opens_live=True, timeout=1500):
    """run the paths on the real wallet and compare every step with the model.  Returns number of steps compared."""
    pwds = ["p", "q"]
    inp = {"scrypt": LOW if wscrypt == "low" else None, "importIds": import_ids, "allIds": all_ids,
           "labels": [l for l in labels if l != ""], "pwds": pwds, "opensLive": opens_live,
           "workers": int(os.environ.get("VERIF_WORKERS", "0")),
           "paths": [[s["act"] for s in p["steps"]] for p in paths]}
    fin = os.path.join(ctx.scratch, "replay-%s.in.json" % tag)
    fout = os.path.join(ctx.scratch, "replay-%s.out.ndjson" % tag)
    vf.write_json(fin, inp)
    rc, out = ctx.run_bin(binary, "TestVerifWalletReplay", env={"VERIF_IN": fin, "VERIF_OUT": fout}, timeout=timeout)
    if rc != 0:
        ctx.infra("wallet replay harness failed rc=%s" % rc)
        return 0
    obs = vf.read_ndjson(fout)
    expected = sum(len(p["steps"]) + 1 for p in paths)
    if len(obs) != expected:
        ctx.infra("wallet replay produced %d observations, expected %d" % (len(obs), expected))
    cfgdesc = {"scrypt": wscrypt, "importIds": import_ids, "allIds": all_ids}
    n = 0
    dead = set()
    for o in obs:
        if o["path"] in dead:
            continue
        p = paths[o["path"]]
        if o["step"] == 0:
            act, to = {"name": "Init", "res": "init"}, p["init"]
        else:
            st = p["steps"][o["step"] - 1]
            act, to = st["act"], st["to"]
        rp = {"config": cfgdesc, "steps": [s["act"] for s in p["steps"][:o["step"]]]}
        n += 1
        name = act["name"]
        if len(ctx.violations) > 40:
            break
        if o["res"] == "panic" or o.get("re") is None:
            ctx.violation("%s:crash-or-unreadable-file" % name, o.get("err"), rp)
            continue
        mv, fv = mem_view(to, all_ids, pwds, wscrypt), file_view(to, all_ids, pwds, wscrypt)
        live, re = o["live"], o["re"]
        # ---- property, directly on the real observations ------------------------------------------
        # (P1) save + reload lists the same accounts with the same metadata
        a, b = dict(live), dict(re)
        if not opens_live:
            a.pop("opens"), b.pop("opens")
        if a != b:
            k = first_diff(a, b)[0]
            if mv != fv and dev["DupAddrImport"]:
                # the model of the code as found predicts it: an address imported twice, then deleted
                ctx.violation("Persist:ImportAccount-accepts-listed-address:reload-differs",
                              {"after": name, "field": k, "live": a[k], "reloaded": b[k]}, rp)
            else:
                ctx.violation("Persist:%s:%s" % (name, k), {"live": a[k], "reloaded": b[k]}, rp)
        # (P2) each account opens with exactly its current password and yields its key
        for x in all_ids:
            oid = to["addrIdx"][x - 1]
            if not oid:
                continue
            rec = to["objs"][oid - 1]
            got = sorted(re["opens"][str(x)])
            if got != [rec["pwd"]]:
                if rec["enc"] != wscrypt and got == [] and dev["NewIgnoresWalletScrypt"]:
                    ctx.violation("Opens:NewAccount-ignores-wallet-scrypt:current-password-rejected",
                                  {"account": x, "current_password": rec["pwd"], "opened_by": got, "wallet_scrypt": wscrypt}, rp)
                else:
                    ctx.violation("Opens:%s:opened-by-%s" % (name, "+".join(got) or "none"),
                                  {"account": x, "current_password": rec["pwd"], "opened_by": got}, rp)
        # ---- the real client against the model of the operation --------------------------------------
        d = first_diff(strip(live, opens_live), {k: v for k, v in mv.items() if opens_live or k != "opens"})
        if d:
            ctx.violation("Model:%s:live-%s" % (name, d[0]), d[1], rp)
            dead.add(o["path"])   # the rest of this path is no longer comparable
            continue
        d = first_diff(strip(re), fv)
        if d:
            ctx.violation("Model:%s:reloaded-%s" % (name, d[0]), d[1], rp)
            dead.add(o["path"])
            continue
        if o["step"] > 0 and o["res"] != act["res"]:
            # same state, different answer: not a statement of C38 -> the model misdescribes the code
            ctx.infra("model drift: %s answered %s (%s), model %s; path %s" % (name, o["res"], o.get("err"), act["res"], rp["steps"]))
    return n


# ------------------------------------------------------------------------------------------------------------------
# two client threads on one ClientImpl (spec/Wallet.tla: Threads, Split, pend, OneShot; harness conc_test.go)
# ------------------------------------------------------------------------------------------------------------------
CONC_ACTS = ["New", "Import", "Delete", "SetDefault", "SetLabel", "ChangePassword", "ChangeScheme", "Open"]
CONC_SCRYPT = {"n": 2048, "r": 8, "p": 1, "dkLen": 64}   # one key derivation ~ 5-10 ms: the width of a check segment
NULLOBJ = {"id": 0, "label": "", "dflt": False, "scheme": "", "pwd": "", "enc": ""}
CORE = ("accts", "objs", "addrIdx", "labelIdx", "dfltPtr", "nnew", "fault")
ARGS = ("name", "id", "label", "scheme", "pwd", "old", "new")


def tla(x):
    """python value (as exported by ToJson) -> TLA+ expression"""
    if isinstance(x, bool):
        return "TRUE" if x else "FALSE"
    if isinstance(x, int):
        return str(x)
    if isinstance(x, str):
        return json.dumps(x)
    if isinstance(x, list):
        return "<<" + ", ".join(tla(e) for e in x) + ">>"
    if isinstance(x, dict):
        return "[" + ", ".join("%s |-> %s" % (k, tla(v)) for k, v in x.items()) + "]"
    raise ValueError(x)


def seed_tla(st, max_obj):
    objs = list(st["objs"]) + [NULLOBJ] * (max_obj - len(st["objs"]))
    li = "(" + " @@ ".join("%s :> %d" % (json.dumps(l), o) for l, o in sorted(st["labelIdx"].items())) + ")"
    return ("[accts |-> %s, objs |-> %s, addrIdx |-> %s, labelIdx |-> %s, dfltPtr |-> %d, nnew |-> %d, fault |-> %s]"
            % (tla(st["accts"]), tla(objs), tla(st["addrIdx"]), li, st["dfltPtr"], st["nnew"], tla(st["fault"])))


def core(st, max_obj=None):
    d = {k: st[k] for k in CORE}
    if max_obj:
        d["objs"] = list(st["objs"]) + [NULLOBJ] * (max_obj - len(st["objs"]))
    return d


def pick_seeds(ctx, edges, inits, k, rng):
    """k prepared wallets for the two-thread run: reachable states of a sequential run (with the shortest call sequence
    that leads there).  Always: the empty wallet and the smallest two-account wallets with either account as the
    default; the rest is drawn with the run's seed."""
    graph, states = {}, {}
    for e in edges:
        graph.setdefault(vf.canon(core(e["from"])), []).append(e)
    dist = {}
    queue = []
    for s0 in inits:
        c = vf.canon(core(s0))
        dist[c] = []
        states[c] = s0
        queue.append(c)
    while queue:
        c = queue.pop(0)
        for e in graph.get(c, []):
            c2 = vf.canon(core(e["to"]))
            if c2 not in dist:
                dist[c2] = dist[c] + [e["act"]]
                states[c2] = e["to"]
                queue.append(c2)
    cands = sorted((c for c in dist if not states[c]["fault"]), key=lambda c: (len(dist[c]), c))
    sig = lambda st: (len(st["accts"]), st["objs"][st["dfltPtr"] - 1]["id"] if st["dfltPtr"] else 0)
    fixed, seen = [], set()
    for c in cands:
        g = sig(states[c])
        if g not in seen and (g[0] in (0, 2)):
            seen.add(g)
            fixed.append(c)
    rest = [c for c in cands if c not in fixed]
    rng.shuffle(rest)
    # one wallet per shape (listed accounts with label, password, default flag; scheme and list order ignored), wallets
    # with two accounts first (more calls are enabled, more pairs interfere)
    shape = lambda st: tuple(sorted((st["objs"][o - 1]["id"], st["objs"][o - 1]["label"], st["objs"][o - 1]["pwd"], st["objs"][o - 1]["dflt"]) for o in st["accts"]))
    shapes = {shape(states[c]) for c in fixed}
    uniq = []
    for c in rest:
        if shape(states[c]) not in shapes:
            shapes.add(shape(states[c]))
            uniq.append(c)
    uniq.sort(key=lambda c: -len(states[c]["accts"]))
    chosen = (fixed + uniq)[:k]
    return [{"state": states[c], "prefix": dist[c]} for c in chosen]


def conc_cfg(kw, split, export, dev):
    inv = ["TypeOK", "Saved", "Persist", "Opens", "OneDefault", "DefaultListed"]
    return cfg_text(dev_new=dev["NewIgnoresWalletScrypt"], dev_dup=dev["DupAddrImport"], export=export, invariants=inv, props=True,
                    threads=(1, 2), split=split, oneshot=True, init="InitSeeds", max_ops=2, acts=CONC_ACTS, **kw)


def seeds_module(seeds, max_obj):
    return ("---- MODULE Wallet_Seeds ----\nEXTENDS Wallet_MC\nSeedStates == {\n  %s }\nInitSeeds == InitFrom(SeedStates)\n====\n"
            % ",\n  ".join(seed_tla(sd["state"], max_obj) for sd in seeds))


def tlc_conc(ctx, seeds, dev, kw):
    """two client threads, one call each, from every prepared wallet: TLC checks Persist / Opens / OneDefault /
    DefaultListed / AuthCurrent over every interleaving of the lock segments and exports the edges."""
    files = {"Wallet_conc.cfg": conc_cfg(kw, ["Import"], True, dev), "Wallet_Seeds.tla": seeds_module(seeds, kw["max_obj"])}
    r = ctx.tlc("Wallet_Seeds", cfg="Wallet_conc.cfg", files=files, workers=1, timeout=1700)
    if r.status != "ok":
        ctx.infra("TLC failed on the two-thread wallet model: %s %s %s" % (r.status, r.violated, r.errors[:2]))
        return None
    edges = r.prints.get("EDGE", [])
    names = {e["act"]["name"] for e in edges}
    missing = [a for a in CONC_ACTS if a not in names]
    if missing or not any(e["act"].get("ph") == "act" for e in edges):
        ctx.infra("vacuous two-thread model run: %s never taken / no split call" % missing)
    ctx.log("TLC two threads: %d seeds, %d generated, %d distinct, depth %d, %d edges, %.1fs" % (len(seeds), r.generated, r.distinct, r.depth, len(edges), r.wall))
    return r, edges, r.prints.get("INIT", [])


def split_selftest(ctx, seeds, dev, kw, ops):
    """the spec can tell a lock-narrowed operation from the design: with the check and the act segment of `op` separated
    TLC must find an interleaving that violates a C38 invariant (otherwise the two-thread model is toothless)"""
    found = {}
    for op in ops:
        files = {"Wallet_split.cfg": conc_cfg(kw, ["Import", op], False, dev), "Wallet_Seeds.tla": seeds_module(seeds, kw["max_obj"])}
        r = ctx.tlc("Wallet_Seeds", cfg="Wallet_split.cfg", files=files, timeout=900)
        if r.status != "violation" or r.violated not in ("Persist", "DefaultListed", "AuthCurrent", "Opens", "OneDefault"):
            ctx.infra("spec self-test: Split={Import,%s} is not rejected by TLC (%s %s %s)" % (op, r.status, r.violated, r.errors[:2]))
        found[op] = r.violated
    ctx.log("spec self-test: separated check/act segments are rejected by TLC: %s" % found)
    return found


def call_of(act):
    return {k: act[k] for k in ARGS if k in act}


def conc_graph(edges):
    """canonical state -> [(who, canonical call, answer or None while pending, canonical successor)], and the states"""
    g, states, memo = {}, {}, {}

    def cn(st):
        k = id(st)
        if k not in memo:
            memo[k] = vf.canon(st)
        return memo[k]
    for e in edges:
        cf, ct = cn(e["from"]), cn(e["to"])
        states.setdefault(cf, e["from"])
        states.setdefault(ct, e["to"])
        res = e["act"]["res"]
        g.setdefault(cf, []).append((e["who"], vf.canon(call_of(e["act"])), None if res == "pending" else res, ct))
    return g, states


def outcomes_12(g, c0, ca, cb):
    """all outcomes of thread 1 making call ca and thread 2 making call cb from state c0 (thread 1's first segment runs
    first -- OneShot).  Returns {(resA, resB, canonical final state)} or None if the bounded model cannot make the calls."""
    out = set()
    stack = [(c0, None, None)]
    while stack:
        cur, ra, rb = stack.pop()
        if ra is not None and rb is not None:
            out.add((ra, rb, cur))
            continue
        moved = False
        for who, c, res, to in g.get(cur, []):
            if who == 1 and ra is None and c == ca:
                stack.append((to, res, rb))
                moved = True
            elif who == 2 and rb is None and c == cb:
                stack.append((to, ra, res))
                moved = True
        if not moved:
            return None   # a call that the bounded model cannot make / complete here
    return out


def long_first_segment(st, a):
    """the model's answer to: does the first lock segment of call a contain a key derivation (scrypt)?"""
    if a["name"] not in ("Delete", "ChangePassword", "Open"):
        return False
    o = st["addrIdx"][a["id"] - 1]
    if not o:
        return False
    if a["name"] == "Delete":
        return not st["objs"][o - 1]["dflt"]
    if a["name"] == "ChangePassword":
        return a["old"] != a["new"]
    return True


def conc_cases(ctx, seeds, edges, inits, budget, rng):
    """ordered pairs (A issued first, B issued while A is in flight) to run on the real wallet.  A pair is kept when the
    two calls interfere in the model (A;B and B;A differ), plus a seeded sample of the commuting ones; every ordered pair
    of operation names is wanted."""
    g, states = conc_graph(edges)
    inter, commute = [], []
    for si, sd in enumerate(seeds):
        # the exported start state of this seed
        st0 = None
        for s0 in inits:
            if vf.canon(core(s0)) == vf.canon(core(sd["state"], len(s0["objs"]))):
                st0 = s0
                break
        if st0 is None:
            ctx.infra("two-thread model: prepared wallet %d not among the exported initial states" % si)
            continue
        c0 = vf.canon(st0)
        calls = sorted({c for who, c, _, _ in g.get(c0, []) if who == 1})
        outs = {(ca, cb): outcomes_12(g, c0, ca, cb) for ca in calls for cb in calls}
        for ca in calls:
            a = json.loads(ca)
            for cb in calls:
                b = json.loads(cb)
                if a["name"] == "New" and b["name"] == "New":
                    continue   # the harness names a created account by the model's id, which depends on the order
                o_ab, o_ba = outs[(ca, cb)], outs[(cb, ca)]
                if o_ab is None or o_ba is None:
                    continue
                allowed = {}
                for ra, rb, fin in o_ab:
                    allowed[(ra, rb, vf.canon(core(states[fin])))] = (ra, rb, states[fin])
                for rb, ra, fin in o_ba:
                    allowed[(ra, rb, vf.canon(core(states[fin])))] = (ra, rb, states[fin])
                case = {"seed": si, "a": a, "b": b, "allowed": allowed, "long": long_first_segment(st0, a), "st0": st0}
                (inter if len(allowed) > 1 else commute).append(case)
    rng.shuffle(inter)
    rng.shuffle(commute)
    # every ordered pair of operation names first, interfering pairs before commuting ones, long-first-segment first
    chosen, names = [], set()
    pool = sorted(inter, key=lambda c: not c["long"]) + commute
    for c in pool:
        k = (c["a"]["name"], c["b"]["name"])
        if k not in names:
            names.add(k)
            chosen.append(c)
    ids = {id(c) for c in chosen}
    for c in pool:
        if len(chosen) >= budget:
            break
        if id(c) not in ids:
            chosen.append(c)
    return chosen[:max(budget, len(names))], len(inter), len(commute), names


def replay_conc(ctx, binary, seeds, cases, kw, timeout=1500):
    """run the pairs on the real ClientImpl from two goroutines and judge every attempt"""
    pwds = ["p", "q"]
    all_ids = sorted(kw["import_ids"] + kw["new_ids"])
    labels = sorted(set(kw["labels"]) | {l + "_1" for l in kw["labels"] if l})
    wscrypt = kw["wscrypt"]
    inp = {"scrypt": CONC_SCRYPT, "importIds": kw["import_ids"], "allIds": all_ids, "labels": [l for l in labels if l != ""],
           "pwds": pwds, "opensLive": True, "workers": min(4, int(os.environ.get("VERIF_WORKERS", "4"))), "paths": [], "tries": 3,
           "cases": [{"prefix": [call_of(x) for x in seeds[c["seed"]]["prefix"]], "want": [x["res"] for x in seeds[c["seed"]]["prefix"]],
                      "a": c["a"], "b": c["b"], "long": c["long"]} for c in cases]}
    fin = os.path.join(ctx.scratch, "conc.in.json")
    fout = os.path.join(ctx.scratch, "conc.out.ndjson")
    vf.write_json(fin, inp)
    rc, out = ctx.run_bin(binary, "TestVerifWalletConc", env={"VERIF_IN": fin, "VERIF_OUT": fout}, timeout=timeout)
    stat = {"pairs": len(cases), "attempts": 0, "long_pairs": 0, "forced_overlap": 0, "overlapped": 0, "name_pairs": 0}
    if rc != 0:
        if "fatal error: concurrent map" in out:
            # the Go runtime itself saw two wallet calls inside the same critical section
            ctx.violation("Conc:fatal-concurrent-map-access", out[out.find("fatal error"):][:400], {"cases": "see harness output"})
        else:
            ctx.infra("two-thread wallet harness failed rc=%s" % rc)
        return stat
    obs = vf.read_ndjson(fout)
    if obs and obs[0].get("case") == -1:
        ctx.infra("two-thread wallet harness: %s" % obs[0].get("err"))
        return stat
    done = set()
    forced = set()
    for o in obs:
        c = cases[o["case"]]
        an, bn = c["a"]["name"], c["b"]["name"]
        pair = "%s|%s" % (an, bn)
        rp = {"config": {"scrypt": CONC_SCRYPT, "importIds": kw["import_ids"], "allIds": all_ids},
              "prefix": inp["cases"][o["case"]]["prefix"], "thread1": c["a"], "thread2_issued_while_1_in_flight": c["b"],
              "observed": {k: o.get(k) for k in ("resA", "errA", "resB", "errB", "overlapped", "first", "modeStart", "modeSeen", "seenUs", "dkUs")}}
        if o.get("drift"):
            ctx.infra("two-thread replay: %s" % o["drift"])
            continue
        stat["attempts"] += 1
        done.add(o["case"])
        if o["first"]:
            forced.add(o["case"])
        if len(ctx.violations) > 40:
            continue
        if "panic" in (o["resA"], o["resB"]) or o.get("re") is None:
            ctx.violation("Conc:%s:crash-or-unreadable-file" % pair, {"errA": o.get("errA"), "errB": o.get("errB"), "err": o.get("err")}, rp)
            continue
        live, re = o["live"], o["re"]
        # ---- the property, directly on what the real wallet shows after both calls returned ------------------
        # (P1) the wallet reopened from its file lists the same accounts with the same metadata (incl. encrypted keys)
        a_, b_ = dict(live), dict(re)
        a_.pop("opens"), b_.pop("opens")
        if a_ != b_:
            k = first_diff(a_, b_)[0]
            ctx.violation("Conc:Persist:%s:%s" % (pair, k), {"live": a_[k], "reloaded": b_[k], "resA": o["resA"], "resB": o["resB"]}, rp)
        # (P2) the default account is a listed account, in memory and in the file; what GetDefaultAccount opens is listed
        for nm, v in (("live", live), ("reloaded", re)):
            ids = [m["id"] for m in v["list"]]
            if (v["dflt"]["id"] != 0 and v["dflt"]["id"] not in ids) or (ids and v["dflt"]["id"] == 0):
                ctx.violation("Conc:DefaultListed:%s:%s" % (pair, nm), {"default": v["dflt"], "listed": ids}, rp)
        if not o["dfltListed"]:
            ctx.violation("Conc:DefaultListed:%s:GetDefaultAccount-opens-unlisted-account" % pair, {"passwords": o["dfltOpens"]}, rp)
        # (P3) a listed account opens with exactly one password, an unlisted (deleted) one with none
        ids = [m["id"] for m in live["list"]]
        for x in all_ids:
            got = live["opens"][str(x)]
            if (x in ids and (len(got) != 1 or got[0].startswith("WRONGKEY"))) or (x not in ids and got):
                ctx.violation("Conc:Opens:%s:%s-opened-by-%s" % (pair, "listed" if x in ids else "unlisted", "+".join(got) or "none"),
                              {"account": x, "opened_by": got, "listed": ids}, rp)
        # ---- the real wallet against the two-thread model: answers + final view must be one of the model's outcomes
        real = strip(live)
        hit = None
        for ra, rb, fin in c["allowed"].values():
            if ra == o["resA"] and rb == o["resB"] and mem_view(fin, all_ids, pwds, wscrypt) == real:
                hit = fin
                break
        if hit is None:
            views = [(ra, rb) for ra, rb, _ in c["allowed"].values()]
            same_view = [(ra, rb) for ra, rb, fin in c["allowed"].values() if mem_view(fin, all_ids, pwds, wscrypt) == real]
            # e.g. a delete / password change that was authorised by a password which was no longer current when it took effect
            ctx.violation("Conc:NotLinearizable:%s" % pair,
                          {"answers": [o["resA"], o["resB"]], "model_answers": views, "model_answers_with_this_final_view": same_view,
                           "live_default": live["dflt"], "live_list": live["list"], "opens": live["opens"]}, rp)
        elif strip(re, False) != {k: v for k, v in file_view(hit, all_ids, pwds, wscrypt).items() if k != "opens"}:
            ctx.violation("Conc:Persist:%s:reloaded-differs-from-model" % pair, {"reloaded": strip(re, False)}, rp)
    for ci in done:
        if cases[ci]["long"]:
            stat["long_pairs"] += 1
            if ci in forced:
                stat["forced_overlap"] += 1
    stat["overlapped"] = len({o["case"] for o in obs if o.get("overlapped")})
    stat["name_pairs"] = len({(cases[ci]["a"]["name"], cases[ci]["b"]["name"]) for ci in done})
    if len(done) != len(cases):
        ctx.infra("two-thread replay: %d of %d pairs produced an observation" % (len(done), len(cases)))
    if stat["long_pairs"] and stat["forced_overlap"] * 2 < stat["long_pairs"]:
        ctx.infra("two-thread replay: the second call was engaged during the first call's check segment in only %d of %d pairs"
                  % (stat["forced_overlap"], stat["long_pairs"]))
    return stat
