"""C13 machinery: NeoVM integer opcodes (spec/NeoVMInt.tla, spec/NeoVMInt_MC.tla).

Flow
  1. TLC model-checks the laws of the result functions on a small VM (NeoVMInt_Laws*.cfg).
  2. TLC enumerates the (opcode, operand class, operand class) rows (NeoVMInt_Rows*.cfg); seeded random
     operand pairs around the boundaries are added.
  3. The Go harnesses execute every row on the real Executor (operands as native values and as byte arrays)
     and on IntValue directly (normal form and forced big.Int form).
  4. TLC evaluates the bitwise rows digit-wise (16-bit limbs).
  5. Apalache (unbounded integers) evaluates the specification's Res* functions on the recorded table:
     a python mirror of the functions only SCHEDULES the work (rows on which Go and the mirror agree are
     batched 100 per module and must all conform; rows on which they disagree are batched per structural
     key and must all be refuted by the specification before they are reported).  The verdict is always
     Apalache's evaluation of the TLA+ definitions.
"""
import concurrent.futures
import json
import os
import shutil
import subprocess
import time

import vf

B = 2 ** 256
BINOPS = ["ADD", "SUB", "MUL", "DIV", "MOD", "MAX", "MIN", "AND", "OR", "XOR", "SHL", "SHR",
          "NUMEQUAL", "NUMNOTEQUAL", "LT", "GT", "LTE", "GTE"]
UNOPS = ["INC", "DEC", "SIGN", "NEGATE", "ABS", "INVERT", "NZ"]
BITOPS = ("AND", "OR", "XOR")
CMP_BIG = ("LT", "GT", "LTE", "GTE")
CMP_BYTES = ("NUMEQUAL", "NUMNOTEQUAL")
I64MIN, I64MAX = -2 ** 63, 2 ** 63 - 1


def fits(v):
    return -B < v < B


# ----------------------------------------------------------------------------- python mirror (scheduling only)
def mirror(op, args, cmp_unbounded=False, invert_unchecked=False):
    """(fault, value) — mirrors spec/NeoVMInt.tla; never used as the oracle."""
    def bounded(v):
        return (False, v) if fits(v) else (True, 0)
    if op == "WITHIN":
        x, a, b = args
        if not (fits(x) and fits(a) and fits(b)):
            return (True, 0)
        return (False, int(a <= x < b))
    if op in UNOPS:
        a = args[0]
        if not fits(a):
            return (True, 0)
        if op == "INC":
            return bounded(a + 1)
        if op == "DEC":
            return bounded(a - 1)
        if op == "SIGN":
            return (False, (a > 0) - (a < 0))
        if op == "NEGATE":
            return bounded(-a)
        if op == "ABS":
            return bounded(abs(a))
        if op == "INVERT":
            return (False, -a - 1) if invert_unchecked else bounded(-a - 1)
        if op == "NZ":
            return (False, int(a != 0))
    a, b = args
    if op in CMP_BIG + CMP_BYTES:
        if not cmp_unbounded and not (fits(a) and fits(b)):
            return (True, 0)
        return (False, int({"NUMEQUAL": a == b, "NUMNOTEQUAL": a != b, "LT": a < b, "GT": a > b, "LTE": a <= b, "GTE": a >= b}[op]))
    if not (fits(a) and fits(b)):
        return (True, 0)
    if op == "ADD":
        return bounded(a + b)
    if op == "SUB":
        return bounded(a - b)
    if op == "MUL":
        return bounded(a * b)
    if op in ("DIV", "MOD"):
        if b == 0:
            return (True, 0)
        q = abs(a) // abs(b)
        if (a < 0) != (b < 0):
            q = -q
        return bounded(q if op == "DIV" else a - b * q)
    if op == "MAX":
        return (False, max(a, b))
    if op == "MIN":
        return (False, min(a, b))
    if op == "SHL":
        if b < 0 or b > 256:
            return (True, 0)
        return bounded(a << b)
    if op == "SHR":
        if b < 0 or b > 2 ** 64 - 1:
            return (True, 0)
        return (False, a >> min(b, 1000))
    if op == "AND":
        return bounded(a & b)
    if op == "OR":
        return bounded(a | b)
    if op == "XOR":
        return bounded(a ^ b)
    raise ValueError(op)


# ----------------------------------------------------------------------------- rows
def class_val(c):
    return c["s"] * (2 ** c["k"]) + c["d"]


def rows_from_tlc(ctx, cfg):
    r = ctx.tlc("NeoVMInt_MC", cfg=cfg, workers=1, timeout=600)
    if r.status != "ok":
        ctx.infra("TLC row enumeration failed: %s %s" % (r.status, r.errors[:2]))
        return []
    seen = set()
    rows = []
    for o in r.prints.get("ROW", []):
        k = vf.canon(o)
        if k in seen:
            continue
        seen.add(k)
        cl = [o[x] for x in ("a", "b", "c") if x in o]
        rows.append({"op": o["op"], "arg": [class_val(c) for c in cl], "cls": [c["n"] for c in cl], "src": "tlc",
                     "kind": o["kind"], "keep": o.get("keep")})
    ctx.log("TLC %s: %d rows enumerated (%d states)" % (cfg, len(rows), r.distinct))
    return rows


def random_rows(rng, n):
    ks = [0, 1, 7, 8, 31, 32, 62, 63, 64, 65, 127, 128, 254, 255, 256]

    def val():
        m = rng.random()
        if m < 0.15:
            return rng.randint(-300, 300)
        if m < 0.3:
            return rng.randint(-2 ** 64, 2 ** 64)
        if m < 0.4:
            return rng.randint(-B + 1, B - 1)
        return rng.choice([-1, 1]) * 2 ** rng.choice(ks) + rng.randint(-2, 2)
    rows = []
    for _ in range(n):
        op = rng.choice(BINOPS + UNOPS + ["WITHIN"])
        k = 1 if op in UNOPS else 3 if op == "WITHIN" else 2
        args = [val() for _ in range(k)]
        if op in ("SHL", "SHR") and rng.random() < 0.8:
            args[1] = rng.choice([0, 1, 2, 7, 8, 62, 63, 64, 65, 127, 128, 191, 192, 193, 254, 255, 256, 257, 300, -1])
        if op in ("DIV", "MOD") and rng.random() < 0.3:
            args[1] = rng.choice([-1, 1, -2, 2, 3, -3, 2 ** 63, -2 ** 63, 0])
        rows.append({"op": op, "arg": args, "cls": ["rnd"] * k, "src": "random", "kind": "rnd", "keep": None})
    return rows


# ----------------------------------------------------------------------------- Go
def run_go(ctx, binary, test, rows, tag):
    fin = os.path.join(ctx.scratch, "int-%s.in.json" % tag)
    fout = os.path.join(ctx.scratch, "int-%s.out.ndjson" % tag)
    vf.write_json(fin, {"rows": [{"id": r["id"], "op": r["op"], "arg": [str(a) for a in r["arg"]]} for r in rows]})
    rc, out = ctx.run_bin(binary, test, env={"VERIF_IN": fin, "VERIF_OUT": fout}, timeout=600)
    if rc != 0:
        ctx.infra("harness %s failed rc=%s" % (test, rc))
        return []
    obs = vf.read_ndjson(fout)
    if len(obs) != 2 * len(rows):
        ctx.infra("harness %s produced %d observations for %d rows" % (test, len(obs), len(rows)))
    return obs


# ----------------------------------------------------------------------------- keys
def class_of(v):
    if v == I64MIN:
        return "MinInt64"
    if v == I64MAX:
        return "MaxInt64"
    if not fits(v):
        return "oversize"
    if I64MIN <= v <= I64MAX:
        return "i64" if abs(v) > 3 else str(v)
    return "big"


def finding_key(row, rep, gf, gv, ef, ev):
    op, args = row["op"], row["arg"]
    kind = "missing-fault" if (ef and not gf) else "spurious-fault" if (gf and not ef) else "wrong-value"
    if op == "DIV" and args == [I64MIN, -1] and not gf and gv == I64MIN:
        return "DIV:MinInt64/-1:int64-fastpath"
    if kind == "missing-fault" and any(not fits(a) for a in args):
        if op in CMP_BIG:
            return "CMP-AsBigInt:oversize-operand:no-fault"
        if op in CMP_BYTES:
            return "NUMEQUAL-bytes:oversize-operand:no-fault"
    if op == "INVERT" and kind == "missing-fault" and fits(args[0]) and not fits(-args[0] - 1):
        return "INVERT:result-exceeds-bound:no-fault"
    return "%s:%s:%s" % (op, "/".join(class_of(a) for a in args), kind)


DEVIATION_KEYS = ("CMP-AsBigInt:oversize-operand:no-fault", "NUMEQUAL-bytes:oversize-operand:no-fault",
                  "INVERT:result-exceeds-bound:no-fault")


# ----------------------------------------------------------------------------- limbs (bitwise rows)
def limbs(v):
    m = v % (1 << 288)
    return [(m >> (16 * i)) & 0xFFFF for i in range(18)]


def tlc_limb_rows(ctx, tuples):
    """tuples: list of (op, a, b) with fitting operands.  Returns {(op,a,b): result digits} computed by TLC."""
    if not tuples:
        return {}, None
    def seq(xs):
        return "<<" + ", ".join(str(x) for x in xs) + ">>"
    rows = ",\n  ".join('[op |-> "%s", A |-> %s, B |-> %s]' % (op, seq(limbs(a)), seq(limbs(b))) for (op, a, b) in tuples)
    mod = """---- MODULE NeoVMIntBit ----
(* generated: digit-wise evaluation of the recorded bitwise rows (16-bit limbs, least significant first) *)
EXTENDS NeoVMInt_MC
BitRows == <<
  %s >>
InitBit == row \\in [i : DOMAIN BitRows]
BitOut == PrintT(<<"ROW", ToJson([i |-> row.i, R |-> LimbsOp(BitRows[row.i].op, BitRows[row.i].A, BitRows[row.i].B, 16)])>>)
LimbsOK == \\A j \\in 1..18 : LimbsOp(BitRows[row.i].op, BitRows[row.i].A, BitRows[row.i].B, 16)[j] \\in 0..65535
====
""" % rows
    cfg = """INIT InitBit
NEXT Stutter
CONSTANTS
  SmallBound = 16
  SmallShift = 4
  SmallShrCount = 12
  Range <- RangeTiny
  ClassSet <- ClassesCore
  AliasSet <- ClassesAlias
  CoreSet <- CoreTiny
INVARIANT LimbsOK
CONSTRAINT BitOut
CHECK_DEADLOCK FALSE
"""
    r = ctx.tlc("NeoVMIntBit", cfg="NeoVMIntBit.cfg", workers=1, timeout=900, files={"NeoVMIntBit.tla": mod, "NeoVMIntBit.cfg": cfg})
    if r.status != "ok":
        ctx.infra("TLC limb evaluation failed: %s %s" % (r.status, r.errors[:2]))
        return {}, r
    res = {}
    for o in r.prints.get("ROW", []):
        res[tuples[o["i"] - 1]] = o["R"]
    if len(res) != len(tuples):
        ctx.infra("TLC limb evaluation returned %d of %d rows" % (len(res), len(tuples)))
    return res, r


# ----------------------------------------------------------------------------- Apalache tables
def lit(v):
    return "(%d)" % v if v < 0 else str(v)


def tla_bool(b):
    return "TRUE" if b else "FALSE"


def row_expr(t, limb_res):
    """t = (op, args tuple, gf, gv)"""
    op, args, gf, gv = t
    if op == "KEPT":        # "operands are values": the kept reference still denotes the operand
        return "Kept(%s, %s)" % (lit(args[0]), lit(gv))
    if op in BITOPS:
        a, b = args
        if fits(a) and fits(b):
            R = limb_res[(op, a, b)]
            vr = "LimbVal18(65536, %s)" % ", ".join(str(x) for x in R)
        else:
            vr = "0"
        return "ConfBit(%s, %s, %s, %s, %s)" % (lit(a), lit(b), vr, tla_bool(gf), lit(gv))
    if op == "WITHIN":
        return "Conf(ResWithin(%s, %s, %s), %s, %s)" % (lit(args[0]), lit(args[1]), lit(args[2]), tla_bool(gf), lit(gv))
    return "Conf(Res%s(%s), %s, %s)" % (op, ", ".join(lit(a) for a in args), tla_bool(gf), lit(gv))


def limb_dict_exprs(values):
    return ["LimbVal18(65536, %s) = %s" % (", ".join(str(x) for x in limbs(v)), lit(v)) for v in values]


def apalache_module(name, exprs, negate=False, deviation=False):
    dev = "TRUE" if deviation else "FALSE"
    out = ["---- MODULE %s ----" % name,
           "(* generated table: outcomes recorded from the real NeoVM Executor, evaluated against NeoVMInt *)",
           "EXTENDS Integers, Sequences",
           "VARIABLE",
           "  \\* @type: Int;",
           "  dummy",
           "INSTANCE NeoVMInt WITH Bound <- 2^256, MaxShift <- 256, MaxShrCount <- 18446744073709551615, CmpUnbounded <- %s, InvertUnchecked <- %s" % (dev, dev)]
    for i, e in enumerate(exprs):
        out.append("Row%d == %s" % (i, e))
    out.append("Init == dummy = 0")
    out.append("Next == dummy' = dummy")
    conj = " /\\ ".join(("~Row%d" if negate else "Row%d") % i for i in range(len(exprs)))
    out.append("Inv == " + conj)
    out.append("====")
    return "\n".join(out) + "\n"


def run_apalache_jobs(ctx, jobs, workers):
    """jobs: list of dicts {name, text}; returns {name: status} with status ok|violation|error|timeout"""
    base = os.path.join(ctx.scratch, "apa")
    os.makedirs(base, exist_ok=True)
    spec = os.path.join(vf.VERIF, "spec", "NeoVMInt.tla")

    def one(job):
        d = os.path.join(base, job["name"])
        shutil.rmtree(d, ignore_errors=True)
        os.makedirs(d)
        shutil.copy(spec, os.path.join(d, "NeoVMInt.tla"))
        with open(os.path.join(d, job["name"] + ".tla"), "w") as f:
            f.write(job["text"])
        cmd = ["apalache-mc", "check", "--inv=Inv", "--length=0", "--out-dir=" + os.path.join(d, "out"),
               "--run-dir=" + os.path.join(d, "run"), job["name"] + ".tla"]
        env = dict(os.environ)
        env.setdefault("JVM_ARGS", "-Xmx2g")
        t = time.time()
        try:
            p = subprocess.run(cmd, cwd=d, stdout=subprocess.PIPE, stderr=subprocess.STDOUT, timeout=1500, text=True, env=env)
            out, rc = p.stdout, p.returncode
        except subprocess.TimeoutExpired:
            return job["name"], "timeout", time.time() - t, " ".join(cmd)
        with open(os.path.join(d, "apalache.out"), "w") as f:
            f.write(out)
        if rc == 0 and "The outcome is: NoError" in out:
            st = "ok"
        elif rc == 12 and "The outcome is: Error" in out:
            st = "violation"
        else:
            st = "error"
        shutil.rmtree(os.path.join(d, "out"), ignore_errors=True)
        shutil.rmtree(os.path.join(d, "run"), ignore_errors=True)
        return job["name"], st, time.time() - t, " ".join(cmd)

    res = {}
    with concurrent.futures.ThreadPoolExecutor(max_workers=max(1, workers)) as ex:
        for name, st, wall, cmd in ex.map(one, jobs):
            res[name] = (st, wall, cmd)
    return res


def run_alias(ctx, binary, rows):
    fin = os.path.join(ctx.scratch, "int-alias.in.json")
    fout = os.path.join(ctx.scratch, "int-alias.out.ndjson")
    vf.write_json(fin, {"rows": [{"id": r["id"], "op": r["op"], "arg": [str(a) for a in r["arg"]], "keep": r["keep"]} for r in rows]})
    rc, out = ctx.run_bin(binary, "TestVerifIntAlias", env={"VERIF_IN": fin, "VERIF_OUT": fout}, timeout=600)
    if rc != 0:
        ctx.infra("harness TestVerifIntAlias failed rc=%s" % rc)
        return []
    obs = vf.read_ndjson(fout)
    if len(obs) != len(rows):
        ctx.infra("harness TestVerifIntAlias produced %d observations for %d rows" % (len(obs), len(rows)))
    return obs
