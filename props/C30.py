"""C30 — the chain configuration is a deterministic function of the stake set
(consensus/vbft/config/genesis.go GenesisChainConfig, consensus/vbft/utils.go GetPeersConfig/getChainConfig)."""
import _chaincfg as cc


def run(ctx):
    vbin = ctx.go_test_bin("consensus/vbft/config", harness="c30_vconfig")
    if not vbin:
        return ctx.finish("model_checking", {"states": 0, "transitions": 0, "traces_validated_against_impl": 0}, [])
    if ctx.replay_in:
        bbin = ctx.go_test_bin("consensus/vbft", harness="c29_vbft")
        cc.replay_file(ctx, vbin, bbin)
        return ctx.finish("model_checking", {"states": 0, "transitions": 0, "traces_validated_against_impl": 1}, ["replay only"])
    hashmod = cc.hash_module(ctx, vbin)
    cfgs = ["ChainConfig_C30.cfg", "ChainConfig_C30v.cfg"] + (["ChainConfig_C30t.cfg", "ChainConfig_C30u.cfg"] if ctx.thorough else [])
    n_rp = n_prod = n_orders = 0
    tv = None
    per_cfg = {}
    if hashmod:
        # TLC runs (one JVM each, edge export => 1 worker each) in parallel with the ledger-sized vbft harness build
        jobs = [lambda c=c: cc.model_check(ctx, c, hashmod, ["Configure"], workers=1) for c in cfgs]
        jobs.append(lambda: ctx.go_test_bin("consensus/vbft", harness="c29_vbft"))
        # code -> spec: random stake sets / keys / hashes beyond the model's universe
        jobs.append(lambda: cc.genesis_trace(ctx, vbin, 150 if ctx.thorough else 40, 10, [2, 3, 4, 8, 16], "c30"))
        res = cc.parallel(jobs)
        bbin, tv = res[-2], res[-1]
        allgroups = {}
        for c, mc in zip(cfgs, res[:-2]):
            if not mc:
                continue
            r, edges = mc
            n, groups = cc.replay_configure(ctx, vbin, edges, c[12:-4])
            n_rp += n
            per_cfg[c] = {"generated": r.generated, "distinct": r.distinct, "configure_edges": n, "stake_sets": len(groups)}
            allgroups.update(groups)
            if edges and len(ctx.samples) < 3:
                e = edges[len(edges) // 2]
                ctx.samples.append({"edge": {"pool": cc.pool_list(e["from"]["pool"]), "conf": e["from"]["conf"], "list": e["act"]["list"],
                                             "chain": e["to"]["chain"]}})
        if bbin and allgroups:
            n_prod, n_orders = cc.replay_chaincfg(ctx, bbin, allgroups, 12 if ctx.thorough else 6, "prod",
                                                  max_groups=None if ctx.thorough else 400)
            if n_orders < 20:
                ctx.infra("vacuous: Go map iteration produced only %d distinct peer orders" % n_orders)
        if tv:
            ctx.samples.append({"trace_event": cc.slim(cc.vf.read_ndjson(tv["path"])[1])})
    ctx.finish("model_checking", {
        "states": ctx.stats["states"], "transitions": ctx.stats["transitions"],
        "traces_validated_against_impl": n_rp + n_prod + (tv["cases"] if tv else 0),
        "configure_edges_replayed_on_GenesisChainConfig": n_rp,
        "getChainConfig_calls_replayed": n_prod, "map_iteration_orders_seen": n_orders,
        "trace_events": tv["events"] if tv else 0, "trace_matched": tv["v"]["matched"] if tv else 0,
        "per_cfg": per_cfg, "exhaustive": True,
    }, ["shuffle_hash (fnv64a of a JSON document) is uninterpreted in the specification; TLC is run on tables of its real values",
        "FloatCeilExact: stakes < 2^31/L so that the float64 ceiling of genesis.go equals the exact integer ceiling",
        "peers have distinct public keys and distinct indices; K <= number of eligible peers; L % K = 0, L >= 2K",
        "model bounds: 4..10 peers, K in {4,7}, L in {2K..8K}; every permutation for <= 7 peers (thorough) / <= 6 peers (quick)"])
