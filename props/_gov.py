"""Shared machinery of C10 / C11 (spec/Governance.tla, harness/c10_gov)."""
import json
import os

import vf

PKG = "core/store/ledgerstore"
HARNESS = "c10_gov"
ADDRS = ["og", "o1", "o2", "a1", "a2"]
DEF_ATTR = [100, 100, 100, 0, 0, 0, 0]

# one source of truth for the model constants and the harness set-up
BASE = {
    "K": 7, "PosLimit": 20, "Penalty": 5, "A": 50, "B": 50, "MinInitStake": 10000, "MinAuth": 500, "DappFee": 0, "SplitNum": 49,
    "HasDapp": False, "GenesisMax": 100000,
    "GenesisPos": {"g1": 10000, "g2": 10000, "g3": 10500, "g4": 11000, "g5": 12000, "g6": 15000, "g7": 20000},
    "Fund": 100000, "Cand": ["p1"], "Authorizers": ["a1", "a2"], "AuthTargets": ["g1", "g7", "p1"], "OpTargets": ["g1", "g7", "p1"],
    "RegPos": [16000], "AuthPos": [1000], "UnAuthPos": [500, 1000], "WdPos": [500, 1000], "InitDelta": [1000],
    "FeeVals": [100003], "CostVals": [[20, 30]], "MaxVals": [100000], "GasVals": [1],
    # updateGlobalParam2 <<DappFee, CandidateFeeSplitNum>> / updateGlobalParam <<A, B, CandidateNum>> argument domains; deviations
    "Param2Vals": [[20, 49]], "ParamVals": [[50, 50, 49]], "CandNum": 49, "Dev": [],
    "Acts": ["Register", "SetMax", "Authorize", "UnAuthorize", "Withdraw", "Quit", "Black", "White", "Commit", "AddInit", "ReduceInit",
             "SetCost", "Fee", "WithdrawFee", "TransferPenalty"],
    "WithInvalid": True, "MaxOps": 3, "Script": [], "GenesisOwners": {}, "UnAuthEdges": False,
    "invariants": "TypeOK Backed NoOverWithdraw TotalPosOK Withdrawable NoWrap",
}
ALL_ACTS = list(BASE["Acts"])


def conf(**kw):
    c = json.loads(json.dumps(BASE))
    c.update(kw)
    return c


def tla(v):
    if isinstance(v, bool):
        return "TRUE" if v else "FALSE"
    if isinstance(v, int):
        return str(v)
    if isinstance(v, str):
        return '"%s"' % v
    if isinstance(v, (list, tuple)):
        return "<<" + ", ".join(tla(x) for x in v) + ">>"
    if isinstance(v, dict):
        return "[" + ", ".join("%s |-> %s" % (k, tla(x)) for k, x in v.items()) + "]"
    raise ValueError(v)


def tset(xs):
    return "{" + ", ".join(tla(x) for x in xs) + "}"


def act_rec(a):
    """call record as the spec wants it (every record carries ok)"""
    r = {k: v for k, v in a.items()}
    r.setdefault("ok", True)
    return r


def owners(c):
    o = {"g%d" % i: "og" for i in range(1, 8)}
    o.update({"p1": "o1", "p2": "o2"})
    o.update(c.get("GenesisOwners", {}))
    return o


def gen_files(c, edges=True):
    """Governance_Gen.tla / .cfg for configuration c"""
    peers = ["g%d" % i for i in range(1, 8)] + c["Cand"]
    mod = """--------------------------- MODULE Governance_Gen ---------------------------
EXTENDS Governance_MC
G_Cand == %s
G_OwnerOf == [p \in MC_GenPeers \cup MC_Cand2 |-> %s]
G_Authorizers == %s
G_AuthTargets == %s
G_OpTargets == %s
G_GenesisPos == [p \\in MC_GenPeers |-> %s]
G_Fund == [a \\in MC_Addrs |-> %d]
G_RegPos == %s
G_AuthPos == %s
G_UnAuthPos == %s
G_WdPos == %s
G_InitDelta == %s
G_FeeVals == %s
G_CostVals == %s
G_MaxVals == %s
G_GasVals == %s
G_Param2Vals == %s
G_ParamVals == %s
G_Dev == %s
G_Acts == %s
G_Script == %s
=============================================================================
""" % (tset(c["Cand"]),
       " ".join(("CASE " if i == 0 else "[] ") + 'p = "%s" -> "%s"' % (q, o) for i, (q, o) in enumerate(sorted(owners(c).items()))),
       tset(c["Authorizers"]), tset(c["AuthTargets"]), tset(c["OpTargets"]),
       " ".join(("CASE " if i == 0 else "[] ") + 'p = "%s" -> %d' % (g, v) for i, (g, v) in enumerate(sorted(c["GenesisPos"].items()))),
       c["Fund"], tset(c["RegPos"]), tset(c["AuthPos"]), tset(c["UnAuthPos"]), tset(c["WdPos"]), tset(c["InitDelta"]),
       tset(c["FeeVals"]), tset(c["CostVals"]), tset(c["MaxVals"]), tset(c["GasVals"]), tset(c["Param2Vals"]), tset(c["ParamVals"]),
       tset(c["Dev"]), tset(c["Acts"]),
       tla([act_rec(a) for a in c["Script"]]))
    cfg = """SPECIFICATION Spec
CONSTANTS
  GenPeers <- MC_GenPeers
  CandPeers <- G_Cand
  Addrs <- MC_Addrs
  OwnerOf <- G_OwnerOf
  PkRank <- MC_PkRank
  K = %d
  PosLimit = %d
  Penalty = %d
  A = %d
  B = %d
  MinInitStake = %d
  MinAuth = %d
  DappFee = %d
  SplitNum = %d
  HasDapp = %s
  GenesisPos <- G_GenesisPos
  GenesisMax = %d
  Fund <- G_Fund
  RegPos <- G_RegPos
  AuthPos <- G_AuthPos
  UnAuthPos <- G_UnAuthPos
  WdPos <- G_WdPos
  InitDelta <- G_InitDelta
  FeeVals <- G_FeeVals
  CostVals <- G_CostVals
  MaxVals <- G_MaxVals
  GasVals <- G_GasVals
  Param2Vals <- G_Param2Vals
  ParamVals <- G_ParamVals
  Dev <- G_Dev
  CandNum = %d
  P2Stored = %s
  Authorizers <- G_Authorizers
  AuthTargets <- G_AuthTargets
  OpTargets <- G_OpTargets
  Acts <- G_Acts
  Script <- G_Script
  WithInvalid = %s
  MaxOps = %d
  UnAuthEdges = %s
VIEW view
INVARIANTS %s
PROPERTIES SplitBounded
CHECK_DEADLOCK FALSE
""" % (c["K"], c["PosLimit"], c["Penalty"], c["A"], c["B"], c["MinInitStake"], c["MinAuth"], c["DappFee"], c["SplitNum"],
       tla(c["HasDapp"]), c["GenesisMax"], c["CandNum"], tla(p2_stored(c)), tla(c["WithInvalid"]), c["MaxOps"], tla(c["UnAuthEdges"]), c["invariants"])
    if edges:
        cfg += "CONSTRAINT XInitOut\nACTION_CONSTRAINT XEdge\n"
    return {"Governance_Gen.tla": mod, "Governance_Gen.cfg": cfg}


def p2_stored(c):
    """the set-up stores a GlobalParam2 record only when the configuration differs from the defaults of getGlobalParam2"""
    return not (c["MinAuth"] == 500 and c["DappFee"] == 0 and c["SplitNum"] == 49)


def harness_cfg(c):
    return {"A": c["A"], "B": c["B"], "penalty": c["Penalty"], "posLimit": c["PosLimit"], "minInitStake": c["MinInitStake"],
            "minAuthorizePos": c["MinAuth"] if p2_stored(c) else 0,
            "dappFee": c["DappFee"], "splitNum": c["SplitNum"], "candidateNum": c["CandNum"],
            "genesisInitPos": [c["GenesisPos"]["g%d" % i] for i in range(1, 8)], "genesisMaxAuthorize": c["GenesisMax"],
            "genesisOwners": [owners(c)["g%d" % i] for i in range(1, 8)],
            "pkorder": ["g1", "g2", "g3", "g4", "g5", "g6", "g7", "p1", "p2"],
            "fund": {a: c["Fund"] for a in ADDRS}, "setupCommits": 6}


# ------------------------------------------------------------------ canonical states
def canon_model(x):
    """sparse XState of the model -> canonical comparable dict"""
    return {
        "pool": {r[0]: r[1:4] for r in x["pool"]},
        "prev": {r[0]: r[1:4] for r in x["prev"]},
        "au": {r[0] + "/" + r[1]: r[2:8] for r in x["au"]},
        "stake": {r[0]: r[1] for r in x["stake"]},
        "pen": {r[0]: r[1] for r in x["pen"]},
        "ont": {r[0]: r[1] for r in x["ont"]},
        "ong": {r[0]: r[1] for r in x["ong"]},
        "fee": {r[0]: r[1] for r in x["fee"]},
        "splitFee": x["splitFee"],
        "attr": {r[0]: r[1:8] for r in x["attr"]},
        "black": sorted(x["black"]),
        "dappFee": x["dappFee"], "hasDapp": x["hasDapp"],
        "splitNum": x["splitNum"], "pA": x["pA"], "pB": x["pB"], "candNum": x["candNum"],
    }


def canon_obs(o):
    """what the harness read back from the real contract -> the same canonical dict"""
    nz = lambda d: {k: v for k, v in d.items() if v != 0}
    return {
        "pool": {p: [v["st"], v["init"], v["total"]] for p, v in o["pool"].items()},
        "prev": {p: [v["st"], v["init"], v["total"]] for p, v in o["prev"].items()},
        "au": {r["p"] + "/" + r["a"]: [r["c"], r["d"], r["n"], r["wc"], r["wd"], r["wu"]] for r in o["au"]
               if any(r[k] for k in ("c", "d", "n", "wc", "wd", "wu"))},
        "stake": nz(o["stake"]), "pen": nz(o["pen"]),
        "ont": nz({k: v for k, v in o["ont"].items() if k != "dapp"}),
        "ong": nz(o["ong"]), "fee": nz(o["fee"]), "splitFee": o["splitFee"],
        "attr": {p: [v["t"], v["t1"], v["t2"], v["s"], v["s1"], v["s2"], v["max"]] for p, v in o["attr"].items()
                 if [v["t"], v["t1"], v["t2"], v["s"], v["s1"], v["s2"], v["max"]] != DEF_ATTR},
        "black": sorted(o["black"]),
        "dappFee": o["dappFee"], "hasDapp": o["hasDapp"],
        "splitNum": o["splitNum"], "pA": o["pA"], "pB": o["pB"], "candNum": o["candNum"],
    }


STAKE_FIELDS = ["pool", "prev", "au", "stake", "pen", "ont", "black"]
FEE_FIELDS = ["ong", "fee", "splitFee", "attr", "dappFee", "hasDapp", "splitNum", "pA", "pB", "candNum"]


def diff(m, r, fields):
    return [f for f in fields if m[f] != r[f]]


# ------------------------------------------------------------------ TLC
def model_check(ctx, c, timeout=3000):
    r = ctx.tlc("Governance_Gen", cfg="Governance_Gen.cfg", workers=1, files=gen_files(c), timeout=timeout)
    if r.status != "ok":
        ctx.infra("TLC did not verify Governance (%s): status=%s violated=%s %s" % (c.get("tag", ""), r.status, r.violated, r.errors[:2]))
        return None
    edges = r.prints.get("EDGE", [])
    inits = r.prints.get("INIT", [])
    for e in edges:
        e["from"] = canon_model(e["from"])
        e["to"] = canon_model(e["to"])
    inits = [canon_model(i) for i in inits]
    ctx.log("TLC Governance %s: %d generated, %d distinct, depth %d, %d edges, %.0fs" % (
        c.get("tag", ""), r.generated, r.distinct, r.depth, len(edges), r.wall))
    return r, edges, inits


def to_step(a):
    return {"name": a["name"], "a": a.get("a", ""), "p": a.get("p", ""), "x": a.get("x", 0), "y": a.get("y", 0), "z": a.get("z", 0)}


def replay(ctx, binary, c, paths, tag):
    inp = {"cfg": harness_cfg(c), "paths": [{"steps": [to_step(s["act"]) for s in p["steps"]]} for p in paths]}
    fin = os.path.join(ctx.scratch, "replay-%s.in.json" % tag)
    fout = os.path.join(ctx.scratch, "replay-%s.out.ndjson" % tag)
    vf.write_json(fin, inp)
    rc, out = ctx.run_bin(binary, "TestVerifGov", env={"VERIF_IN": fin, "VERIF_OUT": fout}, timeout=3000)
    if rc != 0:
        ctx.infra("governance harness failed rc=%s" % rc)
        return None
    obs = [o for o in vf.read_ndjson(fout) if "kind" not in o]
    exp = sum(len(p["steps"]) + 1 for p in paths)
    if len(obs) != exp:
        ctx.infra("replay produced %d observations, expected %d" % (len(obs), exp))
        return None
    return obs


# ------------------------------------------------------------------ oracles on what the real contract did
def genesis_deposits(c):
    d = {}
    for q, v in c["GenesisPos"].items():
        d[owners(c)[q]] = d.get(owners(c)[q], 0) + v
    return d


class Oracle:
    """property-level checks on the observed real states (independent of the model's prediction)"""

    def __init__(self, ctx, prop, genesis_total):
        self.ctx, self.prop, self.gen = ctx, prop, genesis_total
        self.counts = {"backed": 0, "splits": 0, "withdrawals": 0, "withdrawfee": 0, "steps": 0}

    def start(self, o):
        self.dep = {a: 0 for a in ADDRS}
        for a, v in (self.gen.items() if isinstance(self.gen, dict) else [("og", self.gen)]):
            self.dep[a] += v
        self.wd = {a: 0 for a in ADDRS}
        self.prev = o
        self.check_state(o, {"name": "Init"}, [])

    def viol(self, key, detail, hist):
        self.ctx.violation(key, detail, {"steps": hist})

    def check_state(self, o, act, hist):
        name = act["name"]
        self.counts["steps"] += 1
        if self.prop == "C11":
            self.counts["backed"] += 1
            tot = sum(o["stake"].values()) + sum(o["pen"].values())
            if o["ont"]["gov"] != tot:
                self.viol("Backed:after-%s" % name, {"ont_gov": o["ont"]["gov"], "sum_total_stake": sum(o["stake"].values()),
                                                     "sum_penalty": sum(o["pen"].values()), "act": act}, hist)
            for a in ADDRS:
                if self.wd[a] > self.dep[a]:
                    self.viol("NoOverWithdraw:%s:withdrawn-exceeds-deposited" % name, {"addr": a, "withdrawn": self.wd[a], "deposited": self.dep[a]}, hist)
                claim = sum(r["c"] + r["d"] + r["n"] + r["wc"] + r["wd"] + r["wu"] for r in o["au"] if r["a"] == a) + \
                    sum(v["init"] for v in o["pool"].values() if v["owner"] == a)
                if claim > o["stake"].get(a, 0):
                    self.viol("NoOverWithdraw:%s:claims-exceed-recorded-stake" % name,
                              {"addr": a, "buckets_plus_initpos": claim, "total_stake": o["stake"].get(a, 0)}, hist)
        else:
            fees = sum(o["fee"].values())
            if fees > o["ong"]["gov"] or o["splitFee"] > o["ong"]["gov"]:
                self.viol("Withdrawable:after-%s" % name, {"sum_credited": fees, "splitFee": o["splitFee"], "ong_gov": o["ong"]["gov"]}, hist)
            for a, v in o["fee"].items():
                if v >= 2 ** 63:
                    self.viol("CreditWrap:%s" % name, {"addr": a, "amount": v}, hist)

    def step(self, o, act, hist):
        p = self.prev
        ok = o["res"] == "ok"
        name = act["name"]
        if self.prop == "C11" and ok:
            for a in ADDRS:
                d = p["ont"][a] - o["ont"][a]
                if name in ("Register", "Authorize", "AddInit") and d > 0:
                    self.dep[a] += d
                elif name == "Withdraw" and d < 0:
                    self.wd[a] += -d
                    self.counts["withdrawals"] += 1
                    wu = sum(r["wu"] for r in p["au"] if r["a"] == a and r["p"] == act.get("p"))
                    if -d > wu:
                        self.viol("Withdraw:beyond-unfrozen", {"addr": a, "peer": act.get("p"), "withdrawn": -d, "unfrozen_before": wu}, hist)
        if self.prop == "C10":
            if ok and name in ("Commit", "Black"):
                income = p["ong"]["gov"] - p["splitFee"]
                credited = sum(o["fee"].get(a, 0) - p["fee"].get(a, 0) for a in set(o["fee"]) | set(p["fee"]))
                dapp = o["ong"].get("dapp", 0) - p["ong"].get("dapp", 0)
                if o["view"] != p["view"]:
                    self.counts["splits"] += 1
                    if credited + dapp > income:
                        self.viol("SplitBounded:%s" % name, {"income": income, "credited": credited, "dapp": dapp}, hist)
                    for a in p["fee"]:
                        if o["fee"].get(a, 0) < p["fee"][a]:
                            self.viol("SplitBounded:%s:credit-decreased" % name, {"addr": a, "before": p["fee"][a], "after": o["fee"].get(a, 0)}, hist)
            if name == "WithdrawFee":
                self.counts["withdrawfee"] += 1
                a = act.get("a")
                owed = p["fee"].get(a, 0)
                if not ok and owed > 0:
                    self.viol("WithdrawFee:credited-amount-not-withdrawable", {"addr": a, "credited": owed, "err": o.get("err"),
                                                                              "ong_gov": p["ong"]["gov"], "splitFee": p["splitFee"]}, hist)
                elif ok and o["ong"].get(a, 0) - p["ong"].get(a, 0) != owed:
                    self.viol("WithdrawFee:paid-differs-from-credit", {"addr": a, "credited": owed,
                                                                      "paid": o["ong"].get(a, 0) - p["ong"].get(a, 0)}, hist)
        if o["res"] == "panic":
            self.viol("%s:panic" % name, {"err": o.get("err"), "act": act}, hist)
        self.check_state(o, act, hist)
        self.prev = o


def compare_paths(ctx, prop, c, paths, obs, oracle, fields):
    """walk the replayed paths: oracles on the real states, then model vs real (a difference that is not a property
    failure is model drift = no verdict)"""
    i = 0
    nsteps = 0
    drift = 0
    nxt = 0
    for p in paths:
        i = nxt
        nxt = i + 1 + len(p["steps"])  # the observations of this path are obs[i:nxt], whatever happens below
        o = obs[i]
        i += 1
        oracle.start(o)
        hist = []
        d = diff(p["init"], canon_obs(o), fields)
        if d:
            drift += 1
            if drift <= 3:
                ctx.infra("MODEL-DRIFT set-up state differs from Init in %s: model %s real %s" % (
                    d, {f: p["init"][f] for f in d}, {f: canon_obs(o)[f] for f in d}))
        for s in p["steps"]:
            o = obs[i]
            i += 1
            nsteps += 1
            hist = hist + [to_step(s["act"])]
            nviol = len(ctx.violations) + len(ctx.known_hits)
            oracle.step(o, s["act"], hist)
            okm = s["act"].get("ok", True)
            okr = o["res"] == "ok"
            co = canon_obs(o)
            d = diff(s["to"], co, fields)
            if prop == "C11" and okr and (d or not okm):
                # "has unfrozen" is defined by the epoch rules of the specification: the real contract unfreezing more than
                # the rules allow, or paying out a withdrawal the rules refuse, is a property-level difference
                name = s["act"]["name"]
                if name == "Withdraw" and not okm:
                    oracle.viol("Withdraw:beyond-unfrozen", {"act": s["act"], "model": "refused (unfrozen pos too small)", "real": "paid"}, hist)
                else:
                    for k, rv in co["au"].items():
                        mv = s["to"]["au"].get(k, [0] * 6)
                        if rv[5] > mv[5]:
                            oracle.viol("Unfreeze:%s:unfrozen-exceeds-epoch-rule" % name,
                                        {"record": k, "real_buckets_c_d_n_wc_wd_wu": rv, "model_buckets": mv, "act": s["act"]}, hist)
                            break
            if okm != okr or d:
                if len(ctx.violations) + len(ctx.known_hits) > nviol:
                    break  # explained by a reported property violation; the rest of this path is off the model
                drift += 1
                if drift <= 3:
                    ctx.infra("MODEL-DRIFT after %s: model ok=%s real res=%s (%s); differing %s: model %s real %s" % (
                        s["act"], okm, o["res"], o.get("err", "")[-160:], d, {f: s["to"][f] for f in d}, {f: co[f] for f in d}))
                break
    return nsteps, drift


# ------------------------------------------------------------------ trace validation (code -> spec)
def sparse_obs(o):
    """the harness observation in the sparse XState form of Governance_MC (what Governance_Trace compares)"""
    c = canon_obs(o)
    return {
        "pool": [[p] + v for p, v in sorted(c["pool"].items())],
        "prev": [[p] + v for p, v in sorted(c["prev"].items())],
        "au": [k.split("/") + v for k, v in sorted(c["au"].items())],
        "stake": [[k, v] for k, v in sorted(c["stake"].items())],
        "pen": [[k, v] for k, v in sorted(c["pen"].items())],
        "ont": [[k, v] for k, v in sorted(c["ont"].items())],
        "ong": [[k, v] for k, v in sorted(c["ong"].items())],
        "fee": [[k, v] for k, v in sorted(c["fee"].items())],
        "splitFee": c["splitFee"],
        "attr": [[p] + v for p, v in sorted(c["attr"].items())],
        "black": c["black"], "dappFee": c["dappFee"], "hasDapp": c["hasDapp"],
        "splitNum": c["splitNum"], "pA": c["pA"], "pB": c["pB"], "candNum": c["candNum"],
    }


def trace_cfg(c):
    cfg = gen_files(c, edges=False)["Governance_Gen.cfg"]
    cfg = cfg.replace("SPECIFICATION Spec", "SPECIFICATION TSpec").replace("VIEW view\n", "").replace("PROPERTIES SplitBounded\n", "")
    cfg = cfg.replace("INVARIANTS %s" % c["invariants"], "INVARIANTS TypeOK Backed NoOverWithdraw TotalPosOK Withdrawable")
    return cfg + "CONSTRAINT HW\nPOSTCONDITION Accepted\n"


def trace_run(ctx, binary, c, ntraces, nsteps, tag, prefix=()):
    peers = ["g1", "g2", "g5", "g7", "g7", "p1", "p1", "p2"]
    inp = {"cfg": harness_cfg(c), "ntraces": ntraces, "nsteps": nsteps, "peers": peers,
           "amounts": [500, 500, 1000, 1000, 1500, 2000, 5000, 250, 0], "fees": [100003, 7, 999999, 50], "prefix": list(prefix)}
    fin = os.path.join(ctx.scratch, "trace-%s.in.json" % tag)
    fout = os.path.join(ctx.scratch, "trace-%s.out.ndjson" % tag)
    vf.write_json(fin, inp)
    rc, out = ctx.run_bin(binary, "TestVerifGovTrace", env={"VERIF_IN": fin, "VERIF_OUT": fout}, timeout=3000)
    if rc != 0:
        ctx.infra("governance trace driver failed rc=%s" % rc)
        return None
    traces = []
    cur = None
    pend = None
    for o in vf.read_ndjson(fout):
        if o.get("kind") == "act":
            pend = o["act"]
        elif o.get("res") == "init":
            cur = {"init": o, "steps": []}
            traces.append(cur)
        else:
            cur["steps"].append((pend, o))
    return traces


def trace_check(ctx, prop, c, traces, tag):
    """oracles on every observed state + TLC validation of the whole record against Governance_Trace"""
    oracle = Oracle(ctx, prop, genesis_deposits(c))
    events = [{"event": "Header"}]
    index = []  # event index -> (trace, step)
    for ti, t in enumerate(traces):
        oracle.start(t["init"])
        events.append({"event": "Reset", "state": sparse_obs(t["init"])})
        index.append((ti, 0))
        hist = []
        for si, (a, o) in enumerate(t["steps"]):
            hist = hist + [a]
            oracle.step(o, a, hist)
            if o["res"] == "panic":
                break
            events.append({"event": "Call", "act": {"name": a["name"], "a": a.get("a", ""), "p": a.get("p", ""), "x": a.get("x", 0),
                                                    "y": a.get("y", 0), "z": a.get("z", 0), "ok": True},
                           "ok": o["res"] == "ok", "state": sparse_obs(o)})
            index.append((ti, si + 1))
    path = os.path.join(ctx.scratch, "trace-%s.ndjson" % tag)
    with open(path, "w") as f:
        for e in events:
            f.write(json.dumps(e) + "\n")
    files = gen_files(c, edges=False)
    files["Governance_TraceGen.cfg"] = trace_cfg(c)
    v = ctx.trace_validate("Governance_Trace", path, cfg="Governance_TraceGen.cfg", files=files, timeout=3000)
    r = v["result"]
    ctx.log("trace validation %s: %d/%d events matched (%s)" % (tag, v["matched"], v["total"], r.status))
    if v["accepted"]:
        return v, oracle, path
    if r.status == "violation":
        # a property invariant of the specification is false on a state that equals what the real contract holds
        k = max(0, min(v["matched"], len(index)) - 1)
        ti, si = index[k]
        ctx.violation("trace:invariant-%s" % r.violated, {"trace": ti, "step": si, "event": events[k + 1].get("act")},
                      {"steps": [a for a, _ in traces[ti]["steps"][:si]]})
    elif r.status in ("timeout",) or v["matched"] < 1 or (r.status == "error" and "ostcondition" not in " ".join(r.errors)):
        ctx.infra("trace validation did not run to the end: %s %s" % (r.status, r.errors[:2]))
    else:
        # first event no specification behaviour explains: model drift unless an oracle above already reported a violation
        k = max(0, min(v["matched"] - 1, len(index) - 1))  # events[0] is the header; events[matched] is the first unexplained one
        ti, si = index[k]
        ev = events[k + 1]
        if not (ctx.violations or ctx.known_hits):
            ctx.infra("MODEL-DRIFT trace %d step %d: no specification step explains %s ok=%s (err %s)" % (
                ti, si, ev.get("act"), ev.get("ok"), traces[ti]["steps"][si - 1][1].get("err", "")[-160:] if si else ""))
    return v, oracle, path


# ------------------------------------------------------------------ the two checks
def full(a):
    return {"name": a["name"], "a": a.get("a", ""), "p": a.get("p", ""), "x": a.get("x", 0), "y": a.get("y", 0), "z": a.get("z", 0)}


C10_PREFIX = [
    {"name": "Register", "p": "p1", "a": "o1", "x": 16000}, {"name": "SetMax", "p": "p1", "a": "o1", "x": 100000},
    {"name": "Authorize", "a": "a1", "p": "p1", "x": 1000}, {"name": "Authorize", "a": "a2", "p": "g7", "x": 1000},
    {"name": "Authorize", "a": "a1", "p": "g7", "x": 1500},
    {"name": "SetCost", "p": "p1", "a": "o1", "x": 20, "y": 30}, {"name": "SetCost", "p": "g7", "a": "og", "x": 0, "y": 0},
    {"name": "Commit"}, {"name": "Fee", "x": 100003}, {"name": "Commit"}, {"name": "Fee", "x": 99991},
]
C10_ACTS = ["Authorize", "UnAuthorize", "Withdraw", "Quit", "Black", "Commit", "SetCost", "Fee", "WithdrawFee", "ReduceInit"]


C11_PREFIX = [
    {"name": "Register", "p": "p1", "a": "o1", "x": 16000}, {"name": "SetMax", "p": "p1", "a": "o1", "x": 100000},
    {"name": "Authorize", "a": "a1", "p": "p1", "x": 1000}, {"name": "Authorize", "a": "a2", "p": "g7", "x": 1000},
    {"name": "AddInit", "p": "p1", "a": "o1", "x": 1000}, {"name": "Commit"},
]
C11_EPOCH_ACTS = ["UnAuthorize", "Withdraw", "Quit", "Black", "Commit", "ReduceInit", "Authorize"]


DEMOTE_POS = {"g1": 10000, "g2": 13000, "g3": 13000, "g4": 13000, "g5": 13000, "g6": 15000, "g7": 20000}
# C11: g1 (consensus, weakest) has two holders; p1 registers with more stake; then free: un-authorize from g1 / commit (demotes g1) / ...
C11_DEMOTE_PREFIX = [
    {"name": "Authorize", "a": "a1", "p": "g1", "x": 1000}, {"name": "Authorize", "a": "a2", "p": "g1", "x": 1000}, {"name": "Commit"},
    {"name": "Register", "p": "p1", "a": "o1", "x": 16000},
]
# C10: the same with cost percentages 0 in effect on g1, the un-authorization in the view before the demoting commit, fee income
# before and after it; then free: the settlement that pays g1 as a peer that was consensus in the previous view and is candidate now
C10_DEMOTE_PREFIX = [
    {"name": "Authorize", "a": "a1", "p": "g1", "x": 1000}, {"name": "Authorize", "a": "a2", "p": "g1", "x": 1000},
    {"name": "SetCost", "p": "g1", "a": "o2", "x": 0, "y": 0}, {"name": "Commit"}, {"name": "Fee", "x": 100003}, {"name": "Commit"},
    {"name": "Register", "p": "p1", "a": "o1", "x": 16000}, {"name": "UnAuthorize", "a": "a1", "p": "g1", "x": 500},
    {"name": "Fee", "x": 100003}, {"name": "Commit"}, {"name": "Fee", "x": 99991},
]


# C10, global parameters as state: nine peers in the pool of the previous view (g1..g7, p1 with a holder, p2), the gas address set,
# income waiting; then free: updateGlobalParam2 (CandidateFeeSplitNum below / equal to / above the pool size, = K, < K; DappFee),
# updateGlobalParam (A / B / CandidateNum), commitDpos, withdrawFee
C10_PARAMS_PREFIX = [
    {"name": "Register", "p": "p1", "a": "o1", "x": 16000}, {"name": "SetMax", "p": "p1", "a": "o1", "x": 100000},
    {"name": "Authorize", "a": "a1", "p": "p1", "x": 1000}, {"name": "Authorize", "a": "a2", "p": "g7", "x": 1000},
    {"name": "Register", "p": "p2", "a": "o2", "x": 10000}, {"name": "SetCost", "p": "p1", "a": "o1", "x": 20, "y": 30},
    {"name": "SetGas", "x": 1}, {"name": "Commit"}, {"name": "Fee", "x": 100003},
]
PARAM_CLASSES = ["pool-above-splitnum", "pool-equals-splitnum", "pool-below-splitnum", "splitnum-equals-K"]


def split_class(st, K):
    """which relation between the peer pool of the previous view and CandidateFeeSplitNum a settlement from state st meets"""
    n = sum(1 for v in st["prev"].values() if v[0] in (1, 2))
    eff = st["splitNum"] if st["splitNum"] >= 0 else st["candNum"]
    if eff == K:
        return "splitnum-equals-K"
    return "pool-above-splitnum" if n > eff else "pool-equals-splitnum" if n == eff else "pool-below-splitnum"


def sensitivity(ctx, c):
    """the specification's C10 properties must notice the named deviation (pays beyond CandidateFeeSplitNum): TLC has to
    find a counterexample in the SPEC with the deviation switched on -- otherwise the model never meets the circumstance"""
    d = conf(**dict(c, tag=c["tag"] + "+dev", Dev=["PayBeyondSplitNum"]))
    r = ctx.tlc("Governance_Gen", cfg="Governance_Gen.cfg", workers=1, files=gen_files(d, edges=False), timeout=3000)
    ctx.log("TLC Governance %s: status %s violated %s, %d generated, %.0fs" % (d["tag"], r.status, r.violated, r.generated, r.wall))
    if r.status != "violation":
        ctx.infra("sensitivity run %s: the deviation PayBeyondSplitNum is not noticed by the specification's properties (%s)" % (d["tag"], r.status))
        return None
    return r.violated


# C11, un-authorize amounts at the boundaries of the addressed record: a1 holds committed pos on g1 (consensus, then demoted to
# candidate by p1: CandidatePos) and on g7 (consensus: ConsensusPos); then free: authorize fresh pos / un-authorize the boundary
# amounts of UnAuthBoundary (below / exactly / beyond the fresh NewPos, up to and beyond NewPos + committed pos) / commit / withdraw
C11_STRADDLE_PREFIX = [
    {"name": "Authorize", "a": "a1", "p": "g1", "x": 1000}, {"name": "Authorize", "a": "a1", "p": "g7", "x": 1000}, {"name": "Commit"},
    {"name": "Register", "p": "p1", "a": "o1", "x": 16000}, {"name": "Commit"},
]
UNAUTH_CLASSES = ["straddle-consensus-node", "straddle-candidate-node", "fresh-only", "fresh-exactly", "fresh-plus-all-committed"]


def unauth_classes(e):
    """which boundary classes of unAuthorizeForPeer a successful UnAuthorize edge meets (record and node status before the call)"""
    a = e["act"]
    c, d, n = e["from"]["au"].get(a["p"] + "/" + a["a"], [0] * 6)[:3]
    st = e["from"]["pool"].get(a["p"], [-1])[0]
    com = c if st == 2 else d
    x = a["x"]
    out = []
    if n > 0 and com > 0 and n < x <= n + com:
        out.append("straddle-consensus-node" if st == 2 else "straddle-candidate-node")
    if n > 0 and x < n:
        out.append("fresh-only")
    if n > 0 and x == n:
        out.append("fresh-exactly")
    if n > 0 and com > 0 and x == n + com:
        out.append("fresh-plus-all-committed")
    return out


def configs(prop, thorough):
    """(tag, configuration, do_edge_replay) list"""
    if prop == "C11":
        straddle = dict(Script=[full(a) for a in C11_STRADDLE_PREFIX], GenesisPos=DEMOTE_POS, Authorizers=["a1"], AuthTargets=["g1", "g7"],
                        OpTargets=["g1", "g7"], Acts=["Authorize", "UnAuthorize", "Commit", "Withdraw"], AuthPos=[1000], UnAuthPos=[500],
                        WdPos=[500], UnAuthEdges=True)
        epoch = dict(Script=[full(a) for a in C11_PREFIX], Acts=C11_EPOCH_ACTS, AuthTargets=["g7", "p1"], OpTargets=["g7", "p1"],
                     UnAuthPos=[500], WdPos=[500])
        demote = dict(Script=[full(a) for a in C11_DEMOTE_PREFIX], GenesisPos=DEMOTE_POS, AuthTargets=["g1", "p1"], OpTargets=["g1", "p1"],
                      Acts=["UnAuthorize", "Withdraw", "Commit", "Authorize", "Quit", "ReduceInit"], UnAuthPos=[500, 1000], WdPos=[500])
        cs = [conf(tag="stake-d3", MaxOps=3), conf(tag="epochs-d2", MaxOps=2, **epoch), conf(tag="demotion-d2", MaxOps=2, **demote),
              conf(tag="unauth-boundary-d2", MaxOps=2, **straddle)]
        if thorough:
            cs = [conf(tag="stake-d3-wide", MaxOps=3, AuthPos=[500, 1500], Acts=[a for a in ALL_ACTS if a not in ("SetCost", "Fee", "WithdrawFee")],
                       invariants=BASE["invariants"] + " NoWrapBlack"),
                  conf(tag="stake-2cand-d3", MaxOps=3, Cand=["p1", "p2"], AuthTargets=["g1", "p1", "p2"], OpTargets=["g7", "p1", "p2"],
                       RegPos=[10000, 16000], Penalty=7),
                  conf(tag="epochs-d4", MaxOps=4, WithInvalid=False, **epoch),
                  conf(tag="demotion-d4", MaxOps=4, WithInvalid=False, **demote),
                  conf(tag="unauth-boundary-d3", MaxOps=3, **dict(straddle, AuthPos=[500, 1000]))]
        return cs
    script = [full(a) for a in C10_PREFIX]
    base = dict(Script=script, Acts=C10_ACTS, FeeVals=[7, 100003], UnAuthPos=[500], WdPos=[500], CostVals=[[0, 100]],
                AuthTargets=["g7", "p1"], OpTargets=["g7", "p1"])
    demote = dict(base, Script=[full(a) for a in C10_DEMOTE_PREFIX], GenesisPos=DEMOTE_POS, GenesisOwners={"g1": "o2"}, AuthTargets=["g1", "p1"], OpTargets=["g1", "p1"])
    # gas address and DappFee as admin actions (setGasAddress, updateGlobalParam2): executeSplit2's dapp step
    dapp = dict(base, Script=script + [full({"name": "SetGas", "x": 1})], GasVals=[0, 1], Param2Vals=[[0, 49], [20, 49], [50, 49]],
                Acts=["Commit", "Fee", "WithdrawFee", "SetGas", "SetParam2"], FeeVals=[100003])
    params = dict(base, Script=[full(a) for a in C10_PARAMS_PREFIX], Cand=["p1", "p2"], Acts=["Commit", "WithdrawFee", "SetParam2", "SetParam"],
                  Param2Vals=[[0, 8], [20, 9], [0, 7], [0, 6]], ParamVals=[[0, 100, 28]], sensitivity=True)
    cs = [conf(tag="split-d2", MaxOps=2, **base), conf(tag="demotion-split-d2", MaxOps=2, **demote), conf(tag="dapp-d3", MaxOps=3, **dapp),
          conf(tag="params-d3", MaxOps=3, **params)]
    if thorough:
        cs = [conf(tag="split-d3", MaxOps=3, invariants=BASE["invariants"] + " NoWrapBlack", **base),
              conf(tag="split-A100-dapp", MaxOps=2, A=100, B=0, DappFee=50, HasDapp=True, **base),
              conf(tag="split-A0-num8", MaxOps=2, A=0, B=100, SplitNum=8, Penalty=100, **base),
              conf(tag="demotion-split-d3", MaxOps=3, **demote),
              conf(tag="dapp-d4", MaxOps=4, WithInvalid=False, **dapp),
              conf(tag="params-d4", MaxOps=4, WithInvalid=False, **dict(params, ParamVals=[[0, 100, 28], [100, 0, 49]])),
              conf(tag="params-epochs-d3", MaxOps=3, **dict(
                  params, Script=[full(a) for a in C10_PARAMS_PREFIX + [{"name": "SetParam2", "x": 0, "y": 8}, {"name": "Commit"},
                                                                         {"name": "Fee", "x": 99991}]],
                  Param2Vals=[[0, 9], [0, 7], [50, 8]], ParamVals=[[30, 70, 28], [60, 50, 49], [50, 50, 27]], sensitivity=False)),
              conf(tag="params-stored-num8", MaxOps=3, SplitNum=8, A=30, B=70, CandNum=28, **dict(
                  params, Param2Vals=[[0, 9], [20, 8]], ParamVals=[[100, 0, 28]], sensitivity=False))]
    return cs


def self_test(ctx, c, traces, tag):
    """binding self-test: a corrupted field and a dropped event must both be rejected by Governance_Trace"""
    t = traces[0]
    events = [{"event": "Header"}, {"event": "Reset", "state": sparse_obs(t["init"])}]
    for a, o in t["steps"][:25]:
        events.append({"event": "Call", "act": dict(full(a), ok=True), "ok": o["res"] == "ok", "state": sparse_obs(o)})
    # an event that changed the stake table: corrupt one number there / drop the event
    idx = next((i for i in range(2, len(events)) if events[i]["ok"] and events[i]["state"]["stake"] != events[i - 1]["state"]["stake"]), None)
    if idx is None:
        ctx.infra("binding self-test: no stake-changing event in the first trace")
        return False
    bad1 = json.loads(json.dumps(events))
    bad1[idx]["state"]["stake"][0][1] += 1
    bad2 = events[:idx] + events[idx + 1:]
    ok = True
    for name, ev in (("corrupt", bad1), ("drop", bad2)):
        p = os.path.join(ctx.scratch, "selftest-%s-%s.ndjson" % (tag, name))
        with open(p, "w") as f:
            for e in ev:
                f.write(json.dumps(e) + "\n")
        files = gen_files(c, edges=False)
        files["Governance_TraceGen.cfg"] = trace_cfg(c)
        v = ctx.trace_validate("Governance_Trace", p, cfg="Governance_TraceGen.cfg", files=files, timeout=1200)
        if v["accepted"]:
            ok = False
            ctx.infra("binding self-test: %s trace was accepted" % name)
        if not ctx.thorough:
            break
    return ok


def run_check(ctx, prop):
    fields = STAKE_FIELDS + (FEE_FIELDS if prop == "C10" else [])
    binary = ctx.go_test_bin(PKG, harness=HARNESS, hide_own_tests=True)
    cov = {"states": 0, "transitions": 0, "traces_validated_against_impl": 0}
    assumptions = ["governance set up by the real genesis (7-peer VBFT, all genesis peers owned by one address), network id 3 (all height switches 0)",
                   "C11 premise: the governance address is funded with the genesis peers' InitPos during set-up",
                   "block time = genesis time (no ONG unbinding); governance income = ONG transferred to the governance address (Fee action); candidate fee set to 0",
                   "view >= 7 (executeCommitDpos2/executeSplit2); one peer per call; registration only by the designated owner",
                   "bounds: the constants of each configuration (recorded below); random histories: the seeded driver of TestVerifGovTrace"]
    if not binary:
        ctx.finish("model_checking", cov, assumptions)
    npaths = nsteps = ntraces = nevents = 0
    per_cfg = []
    acts_seen = set()
    oracle_counts = {}
    # edge export needs single-worker TLC runs: the configurations are model-checked concurrently (one TLC each),
    # the replays on the real contract follow one after the other
    import concurrent.futures
    import threading
    cfgs = configs(prop, ctx.thorough)
    lock = threading.Lock()
    stage = ctx.stage_specs

    def locked_stage(files=None):
        with lock:
            return stage(files)
    ctx.stage_specs = locked_stage  # ctx.stage_specs hands out numbered directories and is not thread-safe by itself
    sens = [c for c in cfgs if c.get("sensitivity")]
    with concurrent.futures.ThreadPoolExecutor(max_workers=max(1, min(len(cfgs) + len(sens), vf.NCPU // 2))) as ex:
        fs = [ex.submit(sensitivity, ctx, c) for c in sens]
        mcs = list(ex.map(lambda c: model_check(ctx, c), cfgs))
        sens_res = [f.result() for f in fs]
    ctx.stage_specs = stage
    classes = {}
    for c, mc in zip(cfgs, mcs):
        if not mc:
            continue
        r, edges, inits = mc
        acts_seen |= {(e["act"]["name"], e["act"].get("ok", True)) for e in edges}
        for e in edges:
            # settlements that split real income, by the relation pool size / CandidateFeeSplitNum they meet
            if e["act"]["name"] == "Commit" and e["act"].get("ok", True) and e["from"]["ong"].get("gov", 0) > e["from"]["splitFee"]:
                k = split_class(e["from"], c["K"])
                classes[k] = classes.get(k, 0) + 1
            if e["act"]["name"] == "UnAuthorize" and e["act"].get("ok", True):
                for k in unauth_classes(e):
                    classes[k] = classes.get(k, 0) + 1
        paths, ncov = ctx.cover(edges, inits, max_len=len(c["Script"]) + c["MaxOps"] + 2)
        if ncov != len(edges):
            ctx.infra("cover reached %d of %d edges" % (ncov, len(edges)))
        obs = replay(ctx, binary, c, paths, c["tag"])
        if obs is None:
            continue
        oracle = Oracle(ctx, prop, genesis_deposits(c))
        ns, drift = compare_paths(ctx, prop, c, paths, obs, oracle, fields)
        ctx.log("replay %s: %d paths, %d steps on the real contract, drift %d, oracle %s" % (c["tag"], len(paths), ns, drift, oracle.counts))
        npaths += len(paths)
        nsteps += ns
        for k, v in oracle.counts.items():
            oracle_counts[k] = oracle_counts.get(k, 0) + v
        per_cfg.append({"tag": c["tag"], "generated": r.generated, "distinct": r.distinct, "edges": len(edges), "paths": len(paths),
                        "replayed_steps": ns, "MaxOps": c["MaxOps"], "script_len": len(c["Script"])})
        if paths and len(ctx.samples) < 2:
            ctx.samples.append({"replayed_path": [to_step(s["act"]) for s in paths[len(paths) // 2]["steps"]]})
    # every action of the specification must have been taken (successfully) somewhere
    need = ([a for a in C10_ACTS if a != "ReduceInit"] + ["SetGas", "SetParam2", "SetParam"] if prop == "C10" else [a for a in ALL_ACTS if a not in ("SetCost", "Fee", "WithdrawFee") or not ctx.thorough])
    missing = [a for a in need if (a, True) not in acts_seen]
    if missing and not ctx.infra_errors:
        ctx.infra("vacuous model run: actions never taken successfully: %s" % missing)
    if prop == "C10":
        cov["settlement_classes"] = {k: classes.get(k, 0) for k in PARAM_CLASSES}
        cov["sensitivity_runs"] = [v for v in sens_res if v]
        lacking = [k for k in PARAM_CLASSES if not classes.get(k)]
        if lacking and not ctx.infra_errors:
            ctx.infra("vacuous model run: no settlement with income explored for %s" % lacking)
    else:
        cov["unauthorize_classes"] = {k: classes.get(k, 0) for k in UNAUTH_CLASSES}
        lacking = [k for k in UNAUTH_CLASSES if not classes.get(k)]
        if lacking and not ctx.infra_errors:
            ctx.infra("vacuous model run: no successful un-authorize explored for %s" % lacking)
    # code -> spec: seeded random histories on the real contract, validated by TLC
    ct = conf(tag="trace", Cand=["p1", "p2"])
    nt, nst = (16, 120) if ctx.thorough else (5, 70)
    prefix = [full(a) for a in C10_PREFIX] if prop == "C10" else []
    if binary:
        traces = trace_run(ctx, binary, ct, nt, nst, "tv", prefix=prefix)
        if traces:
            v, oracle, path = trace_check(ctx, prop, ct, traces, "tv")
            ntraces, nevents = len(traces), v["total"]
            for k, x in oracle.counts.items():
                oracle_counts[k] = oracle_counts.get(k, 0) + x
            ok_calls = sum(1 for t in traces for a, o in t["steps"] if o["res"] == "ok")
            cov["trace_calls_ok"] = ok_calls
            cov["trace_calls_failed"] = sum(len(t["steps"]) for t in traces) - ok_calls
            cov["trace_events_matched"] = v["matched"]
            a, o = traces[0]["steps"][min(len(prefix) + 3, len(traces[0]["steps"]) - 1)]
            ctx.samples.append({"trace_event": {"call": a, "res": o["res"], "stake": o["stake"], "ont_gov": o["ont"]["gov"], "fee": o["fee"]}})
            if not (ctx.violations or ctx.infra_errors):
                cov["binding_self_test"] = self_test(ctx, ct, traces, "tv")
    cov.update({"states": ctx.stats["states"], "transitions": ctx.stats["transitions"],
                "traces_validated_against_impl": npaths + ntraces, "replayed_paths": npaths, "replayed_steps": nsteps,
                "random_traces": ntraces, "trace_events": nevents, "configurations": per_cfg, "oracle_checks": oracle_counts,
                "exhaustive": True})
    ctx.finish("model_checking", cov, assumptions)
