package validation

// Harness of spec/Replica.tla (C02).  Two kinds of nodes run in SEPARATE PROCESSES:
//   role A (TestVerifReplicaA): builds the transactions, passes every one through VerifyTransaction (so that
//          Transaction.SignedAddr is what the validator computed), seals them into blocks, executes the blocks on its own
//          ledger and writes Block.ToArray() bytes plus a digest of the execution result;
//   role B (TestVerifReplicaB): knows only the bookkeeper's public key and the block BYTES: it decodes them with
//          BlockFromRawBytes (SignedAddr is then derived lazily from the raw verification scripts) and executes them
//          on its own, independently created ledger.
// The python side compares the digests of A with two independent B processes.

import (
	"crypto/ecdsa"
	"crypto/sha256"
	"encoding/hex"
	"encoding/json"
	"fmt"
	"math/big"
	"os"
	"path/filepath"
	"sort"
	"testing"

	ethcom "github.com/ethereum/go-ethereum/common"
	ethtypes "github.com/ethereum/go-ethereum/core/types"
	ethcrypto "github.com/ethereum/go-ethereum/crypto"
	"github.com/ontio/ontology-crypto/keypair"
	osig "github.com/ontio/ontology-crypto/signature"
	"github.com/ontio/ontology/account"
	"github.com/ontio/ontology/common"
	"github.com/ontio/ontology/common/config"
	"github.com/ontio/ontology/common/constants"
	"github.com/ontio/ontology/common/log"
	"github.com/ontio/ontology/core/genesis"
	"github.com/ontio/ontology/core/payload"
	"github.com/ontio/ontology/core/program"
	"github.com/ontio/ontology/core/signature"
	"github.com/ontio/ontology/core/store"
	"github.com/ontio/ontology/core/store/ledgerstore"
	"github.com/ontio/ontology/core/types"
	cutils "github.com/ontio/ontology/core/utils"
	ontErrors "github.com/ontio/ontology/errors"
	"github.com/ontio/ontology/smartcontract/service/native/ont"
	"github.com/ontio/ontology/smartcontract/service/native/global_params"
	nutils "github.com/ontio/ontology/smartcontract/service/native/utils"
	oneovm "github.com/ontio/ontology/smartcontract/service/neovm"
	"github.com/ontio/ontology/vm/neovm"
)

const (
	rpGasPrice = uint64(500)
	rpGasLimit = uint64(200000)
)

type rpTxDesc struct {
	Kind string `json:"kind"` // transfer | witness0 | deploy0 | evm
	Sv   string `json:"sv"`   // signer variant
}

type rpIn struct {
	Variants []string     `json:"variants"`
	Blocks   [][]rpTxDesc `json:"blocks"` // independent single blocks, executed (not committed) on the bootstrapped state
	Chains   [][]rpItem   `json:"chains"` // sequences of blocks (and restart markers), committed one after the other on a fresh copy
	AFile    string       `json:"afile"`  // role B: output of role A
	Name     string       `json:"name"`   // role B: replica name (its ledgers live under <tmp>/<name> across its processes)
	Phase    int          `json:"phase"`  // role B: which segment of every chain this process runs (segments end at restart markers)
	Honor    bool         `json:"honor"`  // role B: does this replica restart (exit, new process) at the restart markers
}

// rpItem: one step of a chain: a block (Txs) or a restart marker of the restarting replica
type rpItem struct {
	Txs     []rpTxDesc `json:"txs"`
	Restart bool       `json:"restart"`
	Path    string     `json:"path"` // how replica B ingests this block: "" / addblock | exec-submit | headers-addblock
}

// ------------------------------------------------------------------------------------------------ ledger

func rpSetConfig(bookkeeper keypair.PublicKey) *types.Block {
	log.InitLog(log.ErrorLog, log.Stdout)
	config.DefConfig.Genesis.ConsensusType = "solo"
	config.DefConfig.Genesis.SOLO.GenBlockTime = 3
	config.DefConfig.Genesis.SOLO.Bookkeepers = []string{hex.EncodeToString(keypair.SerializePublicKey(bookkeeper))}
	config.DefConfig.P2PNode.NetworkId = config.NETWORK_ID_SOLO_NET
	config.DefConfig.Common.EnableEventLog = true
	gb, err := genesis.BuildGenesisBlock([]keypair.PublicKey{bookkeeper}, config.DefConfig.Genesis)
	vhMust(err)
	return gb
}

func rpBase() string {
	base := os.Getenv("VERIF_LEDGER_TMP")
	if base == "" {
		base = os.Getenv("VERIF_SCRATCH")
	}
	if base == "" {
		base = os.TempDir()
	}
	d := filepath.Join(base, fmt.Sprintf("b-replica-%d", os.Getpid()))
	vhMust(os.MkdirAll(d, 0o755))
	return d
}

var rpCount int

func rpOpen(gb *types.Block, bookkeeper keypair.PublicKey) (*ledgerstore.LedgerStoreImp, string) {
	rpCount++
	dir := filepath.Join(rpBase(), fmt.Sprintf("l%d", rpCount))
	ls, err := ledgerstore.NewLedgerStore(dir, 0)
	vhMust(err)
	vhMust(ls.InitLedgerStoreWithGenesisBlock(gb, []keypair.PublicKey{bookkeeper}))
	return ls, dir
}

func rpMakeBlock(ls *ledgerstore.LedgerStoreImp, keeper *account.Account, txs []*types.Transaction) *types.Block {
	height, prevHash := ls.GetCurrentBlock()
	prevHdr, err := ls.GetHeaderByHash(prevHash)
	vhMust(err)
	var hashes []common.Uint256
	for _, t := range txs {
		hashes = append(hashes, t.Hash())
	}
	txRoot := common.ComputeMerkleRoot(hashes)
	next, err := types.AddressFromBookkeepers([]keypair.PublicKey{keeper.PublicKey})
	vhMust(err)
	hdr := &types.Header{PrevBlockHash: prevHash, TransactionsRoot: txRoot,
		BlockRoot: ls.GetBlockRootWithNewTxRoots(height+1, []common.Uint256{txRoot}),
		Timestamp: prevHdr.Timestamp + 1, Height: height + 1, ConsensusData: uint64(height + 1), NextBookkeeper: next}
	blk := &types.Block{Header: hdr, Transactions: txs}
	h := blk.Hash()
	sig, err := signature.Sign(keeper, h[:])
	vhMust(err)
	hdr.Bookkeepers = []keypair.PublicKey{keeper.PublicKey}
	hdr.SigData = [][]byte{sig}
	return blk
}

// digest of an execution result: everything the property lists
func rpDigest(res store.ExecuteResult, txs []*types.Transaction) map[string]interface{} {
	type kv struct{ k, v string }
	var kvs []kv
	res.WriteSet.ForEach(func(key, val []byte) { kvs = append(kvs, kv{hex.EncodeToString(key), hex.EncodeToString(val)}) })
	sort.Slice(kvs, func(i, j int) bool { return kvs[i].k < kvs[j].k })
	h := sha256.New()
	for _, e := range kvs {
		h.Write([]byte(e.k + "=" + e.v + ";"))
	}
	var notes []map[string]interface{}
	for _, n := range res.Notify {
		b, _ := json.Marshal(n.Notify)
		nh := sha256.Sum256(b)
		note := map[string]interface{}{"tx": n.TxHash.ToHexString()[:12], "state": n.State, "gas": n.GasConsumed, "n": len(n.Notify),
			"events": hex.EncodeToString(nh[:8]), "created": n.CreatedContract.ToHexString()}
		if len(b) <= 400 {
			note["ev"] = string(b)
		}
		notes = append(notes, note)
	}
	return map[string]interface{}{"hash": res.Hash.ToHexString(), "root": res.MerkleRoot.ToHexString(), "nwrites": len(kvs),
		"writes": hex.EncodeToString(h.Sum(nil))[:24], "notify": notes}
}

// ------------------------------------------------------------------------------------------------ signer variants (role A only)

type rpSigner struct {
	name   string
	keys   []*account.Account // signing accounts
	m      int
	verify []byte         // the RAW verification script put on the wire
	addrA  common.Address // what the validator computes (payer)
	addrB  common.Address // hash of the raw script (informational; the probe asks the real GetSignatureAddresses)
	err    string
}

func rpAcct(scheme string) *account.Account { return account.NewAccount(scheme) }

func rpSingleProgram(pk keypair.PublicKey, pushdata1 bool) []byte {
	if !pushdata1 {
		return program.ProgramFromPubKey(pk)
	}
	kb := keypair.SerializePublicKey(pk)
	out := []byte{byte(neovm.PUSHDATA1), byte(len(kb))}
	out = append(out, kb...)
	return append(out, byte(neovm.CHECKSIG))
}

func rpMultiProgram(pks []keypair.PublicKey, m int) []byte {
	b := program.NewProgramBuilder()
	b.PushNum(uint16(m))
	for _, pk := range pks {
		b.PushPubKey(pk)
	}
	b.PushNum(uint16(len(pks)))
	b.PushOpCode(neovm.CHECKMULTISIG)
	return b.Finish()
}

func rpNewSigner(name string) (s *rpSigner) {
	s = &rpSigner{name: name, m: 1}
	defer func() {
		if r := recover(); r != nil {
			s.err = fmt.Sprint(r)
		}
	}()
	pub := func(as []*account.Account) []keypair.PublicKey {
		var out []keypair.PublicKey
		for _, a := range as {
			out = append(out, a.PublicKey)
		}
		return out
	}
	switch name {
	case "p256", "p256-pd1":
		s.keys = []*account.Account{rpAcct("")}
		s.verify = rpSingleProgram(s.keys[0].PublicKey, name == "p256-pd1")
		s.addrA = types.AddressFromPubKey(s.keys[0].PublicKey)
	case "sm2":
		s.keys = []*account.Account{rpAcct("SM3withSM2")}
		s.verify = rpSingleProgram(s.keys[0].PublicKey, false)
		s.addrA = types.AddressFromPubKey(s.keys[0].PublicKey)
	case "ed25519":
		s.keys = []*account.Account{rpAcct("SHA512withEdDSA")}
		s.verify = rpSingleProgram(s.keys[0].PublicKey, false)
		s.addrA = types.AddressFromPubKey(s.keys[0].PublicKey)
	case "p384":
		s.keys = []*account.Account{rpAcct("SHA384withECDSA")}
		s.verify = rpSingleProgram(s.keys[0].PublicKey, false)
		s.addrA = types.AddressFromPubKey(s.keys[0].PublicKey)
	case "eth": // Ethereum-type (secp256k1/keccak) key used in an ordinary transaction signature
		pri, pubk, err := keypair.GenerateKeyPair(keypair.PK_ETHECDSA, nil)
		vhMust(err)
		acct := &account.Account{PrivateKey: pri, PublicKey: pubk, Address: types.AddressFromPubKey(pubk), SigScheme: osig.KECCAK256WithECDSA}
		s.keys = []*account.Account{acct}
		s.verify = rpSingleProgram(pubk, false)
		s.addrA = types.AddressFromPubKey(pubk)
	default:
		// "multi<m><n>[-rev|-mixed]": m-of-n multi-signature; -rev lists the keys in non-sorted order in the raw script,
		// -mixed uses an Ed25519 key among P-256 keys
		var m, n int
		var suffix string
		if k, _ := fmt.Sscanf(name, "multi%1d%1d%s", &m, &n, &suffix); k < 2 || m < 1 || m > n || n < 2 || n > 3 {
			panic("unknown signer variant " + name)
		}
		var ks []*account.Account
		for i := 0; i < n; i++ {
			ks = append(ks, rpAcct(""))
		}
		if suffix == "-mixed" {
			ks[1] = rpAcct("SHA512withEdDSA")
		}
		sorted := keypair.SortPublicKeys(pub(ks))
		var ordered []*account.Account
		for _, pk := range sorted {
			for _, a := range ks {
				if keypair.ComparePublicKey(pk, a.PublicKey) {
					ordered = append(ordered, a)
				}
			}
		}
		if suffix == "-rev" {
			ordered[0], ordered[n-1] = ordered[n-1], ordered[0]
		}
		s.keys, s.m = ordered, m
		s.verify = rpMultiProgram(pub(ordered), m)
		a, err := types.AddressFromMultiPubKeys(pub(ordered), m)
		vhMust(err)
		s.addrA = a
	}
	s.addrB = common.AddressFromVmCode(s.verify)
	return s
}

// rpRawTx assembles the wire bytes of a transaction whose single signature uses the signer's raw verification script.
func rpRawTx(mt *types.MutableTransaction, s *rpSigner) (*types.Transaction, error) {
	mt.Payer = s.addrA
	mt.Sigs = nil
	unsignedTx, err := mt.IntoImmutable()
	if err != nil {
		return nil, err
	}
	raw := unsignedTx.ToArray()
	unsignedRaw := raw[:len(raw)-1] // drop the var-uint 0 (no signatures)
	h := unsignedTx.Hash()
	var sigs [][]byte
	for i := 0; i < s.m; i++ {
		sg, err := signature.Sign(s.keys[i], h[:])
		if err != nil {
			return nil, err
		}
		sigs = append(sigs, sg)
	}
	sink := common.NewZeroCopySink(nil)
	sink.WriteBytes(unsignedRaw)
	sink.WriteVarUint(1)
	sink.WriteVarBytes(program.ProgramFromParams(sigs))
	sink.WriteVarBytes(s.verify)
	tx, err := types.TransactionFromRawBytes(sink.Bytes())
	if err != nil {
		return nil, err
	}
	if tx.Hash() != h {
		return nil, fmt.Errorf("hash changed")
	}
	return tx, nil
}

func rpNativeTx(contract common.Address, method string, params []interface{}, nonce uint32, gasPrice uint64) *types.MutableTransaction {
	code, err := cutils.BuildNativeInvokeCode(contract, 0, method, params)
	vhMust(err)
	return &types.MutableTransaction{GasPrice: gasPrice, GasLimit: rpGasLimit, TxType: types.InvokeNeo, Nonce: nonce, Payload: &payload.InvokeCode{Code: code}}
}

func rpSimpleSigned(mt *types.MutableTransaction, a *account.Account) *types.Transaction {
	mt.Payer = a.Address
	h := mt.Hash()
	sg, err := signature.Sign(a, h[:])
	vhMust(err)
	mt.Sigs = []types.Sig{{PubKeys: []keypair.PublicKey{a.PublicKey}, M: 1, SigData: [][]byte{sg}}}
	tx, err := mt.IntoImmutable()
	vhMust(err)
	return tx
}

func rpGwei(v uint64) *big.Int { return new(big.Int).Mul(big.NewInt(int64(v)), big.NewInt(constants.GWei)) }

func rpEvmTransfer(key *ecdsa.PrivateKey, nonce uint64, to ethcom.Address, amount uint64) *types.Transaction {
	chainId := big.NewInt(int64(config.DefConfig.P2PNode.EVMChainId))
	etx := ethtypes.NewTransaction(nonce, to, rpGwei(amount), rpGasLimit, rpGwei(rpGasPrice), nil)
	signed, err := ethtypes.SignTx(etx, ethtypes.NewEIP155Signer(chainId), key)
	vhMust(err)
	tx, err := types.TransactionFromEIP155(signed)
	vhMust(err)
	return tx
}

// ------------------------------------------------------------------------------------------------ role A

type rpA struct {
	keeper  *account.Account
	gb      *types.Block
	ls      *ledgerstore.LedgerStoreImp
	signers map[string]*rpSigner
	ethKey  *ecdsa.PrivateKey
	sink    common.Address
	nonce   uint32
	paramCount int
}

func (a *rpA) buildTx(d rpTxDesc, evmNonce *uint64) (*types.Transaction, string) {
	a.nonce++
	s := a.signers[d.Sv]
	switch d.Kind {
	case "transfer": // native ONT transfer out of the signer's account, with a fee
		st := &ont.TransferState{From: s.addrA, To: a.sink, Value: 1}
		tx, err := rpRawTx(rpNativeTx(nutils.OntContractAddress, "transfer", []interface{}{[]*ont.TransferState{st}}, a.nonce, rpGasPrice), s)
		if err != nil {
			return nil, err.Error()
		}
		return tx, ""
	case "witness0": // NeoVM script: CheckWitness(payer) must hold, no fee
		code := append([]byte{0x14}, s.addrA[:]...)
		code = append(code, 0x68, byte(len("System.Runtime.CheckWitness")))
		code = append(code, []byte("System.Runtime.CheckWitness")...)
		code = append(code, 0xf1) // THROWIFNOT
		mt := &types.MutableTransaction{GasLimit: rpGasLimit, TxType: types.InvokeNeo, Nonce: a.nonce, Payload: &payload.InvokeCode{Code: code}}
		tx, err := rpRawTx(mt, s)
		if err != nil {
			return nil, err.Error()
		}
		return tx, ""
	case "deploy0": // contract deployment without a fee: does not depend on any witness
		code := []byte{0x51, 0x66, byte(a.nonce), byte(a.nonce >> 8), 0x61}
		mt, err := cutils.NewDeployTransaction(code, "c", "1", "verif", "", "replica", payload.NEOVM_TYPE)
		vhMust(err)
		mt.Nonce = a.nonce
		mt.GasLimit = rpGasLimit
		tx, err := rpRawTx(mt, s)
		if err != nil {
			return nil, err.Error()
		}
		return tx, ""
	case "envhash", "envctx", "envhdr": // NeoVM scripts that publish what they read from the execution environment of their block
		sys := func(names ...string) (out []byte) {
			for _, n := range names {
				out = append(append(out, 0x68, byte(len(n))), []byte(n)...)
			}
			return
		}
		var code []byte
		switch d.Kind {
		case "envhash":
			code = sys(oneovm.RUNTIME_GETCURRENTBLOCKHASH_NAME, oneovm.RUNTIME_NOTIFY_NAME)
		case "envctx":
			code = sys(oneovm.RUNTIME_GETTIME_NAME, oneovm.RUNTIME_NOTIFY_NAME, oneovm.BLOCKCHAIN_GETHEIGHT_NAME, oneovm.RUNTIME_NOTIFY_NAME,
				oneovm.GETSCRIPTCONTAINER_NAME, oneovm.TRANSACTION_GETHASH_NAME, oneovm.RUNTIME_NOTIFY_NAME)
		case "envhdr":
			code = sys(oneovm.BLOCKCHAIN_GETHEIGHT_NAME, oneovm.BLOCKCHAIN_GETHEADER_NAME, oneovm.HEADER_GETHASH_NAME, oneovm.RUNTIME_NOTIFY_NAME)
		}
		mt := &types.MutableTransaction{GasLimit: rpGasLimit, TxType: types.InvokeNeo, Nonce: a.nonce, Payload: &payload.InvokeCode{Code: code}}
		tx, err := rpRawTx(mt, s)
		if err != nil {
			return nil, err.Error()
		}
		return tx, ""
	case "evm":
		tx := rpEvmTransfer(a.ethKey, *evmNonce, ethcom.BytesToAddress([]byte{0x77}), 3)
		*evmNonce++
		return tx, ""
	}
	panic("unknown kind " + d.Kind)
}

func (a *rpA) buildBlock(ls *ledgerstore.LedgerStoreImp, descs []rpTxDesc) (*types.Block, []string, string) {
	acc, err := ls.GetEthAccount(ethcrypto.PubkeyToAddress(a.ethKey.PublicKey))
	vhMust(err)
	en := acc.Nonce
	var txs []*types.Transaction
	var verdicts []string
	for _, d := range descs {
		if d.Kind == "setparam" {
			// governance raises the price of a native call through the real global_params contract: setGlobalParam +
			// createSnapshot, signed by the administrator (the bookkeeper); effective from the next block's refresh
			a.paramCount++
			for k, mt := range []*types.MutableTransaction{
				rpNativeTx(nutils.ParamContractAddress, global_params.SET_GLOBAL_PARAM_NAME,
					[]interface{}{global_params.Params{{Key: oneovm.NATIVE_INVOKE_NAME, Value: fmt.Sprint(100000 * a.paramCount)}}}, 0, 0),
				rpNativeTx(nutils.ParamContractAddress, global_params.CREATE_SNAPSHOT_NAME, []interface{}{""}, 0, 0)} {
				a.nonce++
				mt.Nonce = a.nonce + uint32(k)
				tx := rpSimpleSigned(mt, a.keeper)
				code := VerifyTransaction(tx)
				verdicts = append(verdicts, code.Error())
				if code != ontErrors.ErrNoError {
					return nil, verdicts, "VerifyTransaction: " + code.Error()
				}
				txs = append(txs, tx)
			}
			a.nonce++
			continue
		}
		tx, e := a.buildTx(d, &en)
		if tx == nil {
			return nil, nil, "build: " + e
		}
		// the consensus member validates first: SignedAddr is now what the validator computed
		code := VerifyTransaction(tx)
		verdicts = append(verdicts, code.Error())
		if code != ontErrors.ErrNoError {
			return nil, verdicts, "VerifyTransaction: " + code.Error()
		}
		txs = append(txs, tx)
	}
	return rpMakeBlock(ls, a.keeper, txs), verdicts, ""
}

func TestVerifReplicaA(t *testing.T) {
	var in rpIn
	vhIn(&in)
	out := vhOpenOut()
	defer out.Close()
	defer os.RemoveAll(rpBase())
	a := &rpA{keeper: account.NewAccount(""), signers: map[string]*rpSigner{}}
	a.gb = rpSetConfig(a.keeper.PublicKey)
	var err error
	a.ethKey, err = ethcrypto.GenerateKey()
	vhMust(err)
	a.sink = account.NewAccount("").Address
	probes := map[string]interface{}{}
	for _, v := range in.Variants {
		s := rpNewSigner(v)
		a.signers[v] = s
		pr := map[string]interface{}{"err": s.err, "addrA": s.addrA.ToHexString(), "addrB": s.addrB.ToHexString(), "same": s.addrA == s.addrB && s.err == ""}
		if s.err == "" {
			// is a transaction signed this way accepted by the validator at all ?
			var en uint64
			tx, e := a.buildTx(rpTxDesc{Kind: "witness0", Sv: v}, &en)
			if tx == nil {
				pr["accepted"], pr["err"] = false, e
			} else {
				// what a node that only DECODED the transaction derives (the real GetSignatureAddresses, on a fresh copy)
				if tx2, err := types.TransactionFromRawBytes(tx.ToArray()); err == nil {
					lazy := tx2.GetSignatureAddresses()
					pr["same"] = len(lazy) == 1 && lazy[0] == s.addrA
					if len(lazy) == 1 {
						pr["addrB"] = lazy[0].ToHexString()
					}
				} else {
					pr["same"] = false
				}
				code := VerifyTransaction(tx)
				pr["accepted"] = code == ontErrors.ErrNoError
				pr["verdict"] = code.Error()
			}
		} else {
			pr["accepted"] = false
		}
		probes[v] = pr
	}
	ls, dir := rpOpen(a.gb, a.keeper.PublicKey)
	a.ls = ls
	// bootstrap: fund every signer's account (the address the validator computes) and the EVM account
	var boot []*types.Transaction
	for _, v := range in.Variants {
		s := a.signers[v]
		if s.err != "" {
			continue
		}
		a.nonce++
		st := &ont.TransferState{From: a.keeper.Address, To: s.addrA, Value: 1000}
		boot = append(boot, rpSimpleSigned(rpNativeTx(nutils.OntContractAddress, "transfer", []interface{}{[]*ont.TransferState{st}}, a.nonce, 0), a.keeper))
		a.nonce++
		st2 := &ont.TransferState{From: a.keeper.Address, To: s.addrA, Value: 1_000_000_000_000}
		boot = append(boot, rpSimpleSigned(rpNativeTx(nutils.OngContractAddress, "transfer", []interface{}{[]*ont.TransferState{st2}}, a.nonce, 0), a.keeper))
	}
	a.nonce++
	st := &ont.TransferState{From: a.keeper.Address, To: common.Address(ethcrypto.PubkeyToAddress(a.ethKey.PublicKey)), Value: 1_000_000_000_000}
	boot = append(boot, rpSimpleSigned(rpNativeTx(nutils.OngContractAddress, "transfer", []interface{}{[]*ont.TransferState{st}}, a.nonce, 0), a.keeper))
	for _, tx := range boot { // node A is a consensus member: it validates everything it seals
		if code := VerifyTransaction(tx); code != ontErrors.ErrNoError {
			panic("bootstrap transaction refused by the validator: " + code.Error())
		}
	}
	bb := rpMakeBlock(ls, a.keeper, boot)
	res, err := ls.ExecuteBlock(bb)
	vhMust(err)
	for _, n := range res.Notify {
		if n.State != 1 {
			panic("bootstrap transaction failed")
		}
	}
	vhMust(ls.SubmitBlock(bb, nil, res))
	out.Emit(map[string]interface{}{"event": "Header", "bookkeeper": hex.EncodeToString(keypair.SerializePublicKey(a.keeper.PublicKey)),
		"boot": hex.EncodeToString(bb.ToArray()), "bootRoot": res.MerkleRoot.ToHexString(), "probes": probes})
	// independent single blocks on the bootstrapped state (executed, never committed)
	for i, descs := range in.Blocks {
		blk, verdicts, e := a.buildBlock(ls, descs)
		if blk == nil {
			out.Emit(map[string]interface{}{"event": "Block", "i": i, "skip": e, "verdicts": verdicts})
			continue
		}
		res, err := ls.ExecuteBlock(blk)
		rec := map[string]interface{}{"event": "Block", "i": i, "bytes": hex.EncodeToString(blk.ToArray()), "verdicts": verdicts}
		if err != nil {
			rec["err"] = err.Error()
		} else {
			rec["digest"] = rpDigest(res, blk.Transactions)
		}
		out.Emit(rec)
	}
	vhMust(ls.Close())
	// chains: committed block after block on a copy of the bootstrapped ledger
	for ci, chain := range in.Chains {
		cdir := filepath.Join(rpBase(), fmt.Sprintf("chain%d", ci))
		rpCopyDir(dir, cdir)
		cls, err := ledgerstore.NewLedgerStore(cdir, 0)
		vhMust(err)
		vhMust(cls.InitLedgerStoreWithGenesisBlock(a.gb, []keypair.PublicKey{a.keeper.PublicKey}))
		a.paramCount = 0
		for bi, item := range chain {
			if item.Restart {
				continue // node A never restarts
			}
			descs := item.Txs
			blk, verdicts, e := a.buildBlock(cls, descs)
			if blk == nil {
				out.Emit(map[string]interface{}{"event": "ChainBlock", "c": ci, "b": bi, "skip": e, "verdicts": verdicts})
				break
			}
			res, err := cls.ExecuteBlock(blk)
			rec := map[string]interface{}{"event": "ChainBlock", "c": ci, "b": bi, "bytes": hex.EncodeToString(blk.ToArray()), "verdicts": verdicts}
			if err != nil {
				rec["err"] = err.Error()
				out.Emit(rec)
				break
			}
			rec["digest"] = rpDigest(res, blk.Transactions)
			vhMust(cls.SubmitBlock(blk, nil, res))
			sr, _ := cls.GetStateMerkleRoot(blk.Header.Height)
			rec["stateRoot"] = sr.ToHexString()
			out.Emit(rec)
		}
		cls.Close()
	}
}

// ------------------------------------------------------------------------------------------------ role B

// segOf: the segment (number of restart markers before it) of item bi of a chain, for a replica that honours them
func segOf(chain []rpItem, bi int, honor bool) int {
	if !honor {
		return 0
	}
	n := 0
	for i := 0; i < bi; i++ {
		if chain[i].Restart {
			n++
		}
	}
	return n
}

func TestVerifReplicaB(t *testing.T) {
	var in rpIn
	vhIn(&in)
	out := vhOpenOut()
	defer out.Close()
	// the ledgers of this replica survive its processes: <tmp>/<name>/...  (removed by the python side)
	base := filepath.Join(os.Getenv("VERIF_LEDGER_TMP"), "replica-"+in.Name)
	vhMust(os.MkdirAll(base, 0o755))
	f, err := os.Open(in.AFile)
	vhMust(err)
	defer f.Close()
	dec := json.NewDecoder(f)
	var hdr map[string]interface{}
	vhMust(dec.Decode(&hdr))
	kb, err := hex.DecodeString(hdr["bookkeeper"].(string))
	vhMust(err)
	bk, err := keypair.DeserializePublicKey(kb)
	vhMust(err)
	gb := rpSetConfig(bk)
	open := func(dir string) *ledgerstore.LedgerStoreImp {
		ls, err := ledgerstore.NewLedgerStore(dir, 0)
		vhMust(err)
		vhMust(ls.InitLedgerStoreWithGenesisBlock(gb, []keypair.PublicKey{bk}))
		return ls
	}
	decode := func(h string) *types.Block {
		raw, err := hex.DecodeString(h)
		vhMust(err)
		blk, err := types.BlockFromRawBytes(raw)
		vhMust(err)
		return blk
	}
	baseDir := filepath.Join(base, "base")
	var ls *ledgerstore.LedgerStoreImp
	if in.Phase == 0 {
		ls = open(baseDir)
		bb := decode(hdr["boot"].(string))
		root, _ := common.Uint256FromHexString(hdr["bootRoot"].(string))
		if err := ls.AddBlock(bb, nil, root); err != nil {
			out.Emit(map[string]interface{}{"event": "Header", "err": err.Error()})
			return
		}
	}
	out.Emit(map[string]interface{}{"event": "Header", "phase": in.Phase})
	closed := ls == nil
	chains := map[int]*ledgerstore.LedgerStoreImp{}
	dead := map[int]bool{}
	for dec.More() {
		var rec map[string]interface{}
		vhMust(dec.Decode(&rec))
		bytesHex, has := rec["bytes"].(string)
		switch rec["event"] {
		case "Block":
			if in.Phase != 0 {
				continue
			}
			o := map[string]interface{}{"event": "Block", "i": rec["i"]}
			if !has {
				o["skip"] = rec["skip"]
				out.Emit(o)
				continue
			}
			blk := decode(bytesHex)
			res, err := ls.ExecuteBlock(blk)
			if err != nil {
				o["err"] = err.Error()
			} else {
				o["digest"] = rpDigest(res, blk.Transactions)
			}
			out.Emit(o)
		case "ChainBlock":
			if !closed {
				vhMust(ls.Close())
				closed = true
			}
			ci, bi := int(rec["c"].(float64)), int(rec["b"].(float64))
			if segOf(in.Chains[ci], bi, in.Honor) != in.Phase {
				continue // another process of this replica runs that part of the chain
			}
			o := map[string]interface{}{"event": "ChainBlock", "c": ci, "b": bi, "phase": in.Phase}
			if !has || dead[ci] {
				o["skip"] = true
				out.Emit(o)
				continue
			}
			cls := chains[ci]
			if cls == nil {
				cdir := filepath.Join(base, fmt.Sprintf("chain%d", ci))
				if _, err := os.Stat(cdir); err != nil {
					rpCopyDir(baseDir, cdir) // first block of the chain: a copy of the bootstrapped ledger
				}
				cls = open(cdir) // later segments: the data directory an earlier process of this replica left
				chains[ci] = cls
			}
			blk := decode(bytesHex)
			path := in.Chains[ci][bi].Path
			o["path"] = path
			if path == "headers-addblock" { // p2p header-first sync: the header reaches the ledger before the block
				if err := cls.AddHeaders([]*types.Header{blk.Header}); err != nil {
					o["addErr"] = "AddHeaders: " + err.Error()
					dead[ci] = true
					out.Emit(o)
					continue
				}
			}
			res, err := cls.ExecuteBlock(blk)
			if err != nil {
				o["err"] = err.Error()
				dead[ci] = true
				out.Emit(o)
				continue
			}
			o["digest"] = rpDigest(res, blk.Transactions)
			if path == "exec-submit" { // another consensus member: commits its own execution result
				if err := cls.SubmitBlock(blk, nil, res); err != nil {
					o["addErr"] = "SubmitBlock: " + err.Error()
					dead[ci] = true
				} else {
					sr, _ := cls.GetStateMerkleRoot(blk.Header.Height)
					o["stateRoot"] = sr.ToHexString()
				}
				out.Emit(o)
				continue
			}
			// the syncing node commits with the state root the proposer announced
			var aroot common.Uint256
			if dg, ok := rec["digest"].(map[string]interface{}); ok {
				aroot, _ = common.Uint256FromHexString(dg["root"].(string))
			}
			if err := cls.AddBlock(blk, nil, aroot); err != nil {
				o["addErr"] = err.Error()
				dead[ci] = true
			} else {
				sr, _ := cls.GetStateMerkleRoot(blk.Header.Height)
				o["stateRoot"] = sr.ToHexString()
			}
			out.Emit(o)
		}
	}
	for _, c := range chains {
		c.Close()
	}
	if !closed {
		ls.Close()
	}
}

func rpCopyDir(src, dst string) {
	vhMust(filepath.Walk(src, func(p string, info os.FileInfo, err error) error {
		if err != nil {
			return err
		}
		rel, _ := filepath.Rel(src, p)
		t := filepath.Join(dst, rel)
		if info.IsDir() {
			return os.MkdirAll(t, 0o755)
		}
		if info.Name() == "LOCK" {
			return nil
		}
		b, err := os.ReadFile(p)
		if err != nil {
			return err
		}
		return os.WriteFile(t, b, 0o644)
	}))
}
