package validation

// Conformance harness for spec/SigScript.tla (C23): program.ProgramFromPubKey / ProgramFromMultiPubKey,
// types.AddressFromPubKey / AddressFromMultiPubKeys and program.GetProgramInfo on TLC-generated key lists,
// thresholds and token scripts, plus seeded random / mutated byte strings.

import (
	"bytes"
	"encoding/json"
	"encoding/hex"
	"fmt"
	"testing"

	"github.com/ontio/ontology-crypto/keypair"
	"github.com/ontio/ontology/common"
	"github.com/ontio/ontology/core/program"
	"github.com/ontio/ontology/core/types"
	"github.com/ontio/ontology/vm/neovm"
)

type ssTok struct {
	T    string
	V    int
	Enc  string
	Push string
}

func (t *ssTok) UnmarshalJSON(b []byte) error {
	var raw []interface{}
	if err := json.Unmarshal(b, &raw); err != nil {
		return err
	}
	t.T = raw[0].(string)
	t.V = int(raw[1].(float64))
	t.Enc = raw[2].(string)
	t.Push = raw[3].(string)
	return nil
}

type ssBuild struct {
	Keys   []int   `json:"keys"`
	M      int     `json:"m"`
	Script []ssTok `json:"script"` // the model's script when the model builds one
}
type ssInput struct {
	KTypes  []string  `json:"ktypes"`
	Builds  []ssBuild `json:"builds"`
	Scripts [][]ssTok `json:"scripts"`
	Fuzz    int       `json:"fuzz"`
}

func (w *sgWorld) realize(toks []ssTok) []byte {
	sink := common.NewZeroCopySink(nil)
	for _, t := range toks {
		switch t.T {
		case "num":
			if t.Enc == "op" && t.V > 16 {
				sgNum(sink, t.V, "b1")
			} else {
				sgNum(sink, t.V, t.Enc)
			}
		case "key":
			sgPush(sink, w.encode(t.V, t.Enc), t.Push)
		case "junk":
			sgPush(sink, []byte{0xFF, 0xEE, 0xDD, 0x01}, "direct")
		case "op":
			switch t.Enc {
			case "CHECKSIG":
				sink.WriteByte(byte(neovm.CHECKSIG))
			case "CHECKMULTISIG":
				sink.WriteByte(byte(neovm.CHECKMULTISIG))
			default:
				sink.WriteByte(byte(neovm.NOP))
			}
		default:
			panic("unknown token " + t.T)
		}
	}
	return sink.Bytes()
}

type ssParse struct {
	Ok    bool   `json:"ok"`
	Keys  []int  `json:"keys"` // abstract indices of the returned keys (0 = not one of ours)
	M     int    `json:"m"`
	Panic string `json:"panic,omitempty"`
}

func (w *sgWorld) parse(prog []byte) (res ssParse) {
	defer func() {
		if r := recover(); r != nil {
			res = ssParse{Panic: fmt.Sprint(r), Keys: []int{}}
		}
	}()
	res.Keys = []int{}
	info, err := program.GetProgramInfo(prog)
	if err != nil {
		return
	}
	res.Ok = true
	res.M = int(info.M)
	for _, pk := range info.PubKeys {
		idx := 0
		for i, k := range w.keys {
			if keypair.ComparePublicKey(k.pub, pk) {
				idx = i + 1
			}
		}
		res.Keys = append(res.Keys, idx)
	}
	return
}

type ssBuildObs struct {
	I        int     `json:"i"`
	Ok       bool    `json:"ok"`       // ProgramFromPubKey / ProgramFromMultiPubKey succeeded
	AddrOk   bool    `json:"addrOk"`   // AddressFromPubKey / AddressFromMultiPubKeys succeeded
	Addr     string  `json:"addr"`     // that address
	AddrIsH  bool    `json:"addrIsH"`  // address == AddressFromVmCode(built script)
	ScriptEq bool    `json:"scriptEq"` // built bytes == the model's token script realised byte by byte
	Script   string  `json:"script"`
	Parse    ssParse `json:"parse"` // GetProgramInfo(built bytes)
	Panic    string  `json:"panic,omitempty"`
	ArgOrder []int   `json:"argOrder"` // the caller's key slice after the calls (the library sorts in place)
	Changed  []int   `json:"changed,omitempty"` // earlier builds whose RETAINED script bytes differ now (spec: HeldStable)
}

// scripts returned by earlier builds, kept exactly as returned (not copied), with a private copy of what they were
type ssHeld struct {
	i    int
	live []byte
	was  []byte
}

var ssHeldScripts []ssHeld

const ssHeldWindow = 96

// ssCheckHeld: every retained script must still be what the builder returned (HeldStable)
func ssCheckHeld() (changed []int) {
	for _, h := range ssHeldScripts {
		if !bytes.Equal(h.live, h.was) {
			changed = append(changed, h.i)
		}
	}
	return
}

func (w *sgWorld) buildObs(i int, b *ssBuild) (o *ssBuildObs) {
	o = &ssBuildObs{I: i, ArgOrder: []int{}}
	defer func() {
		if r := recover(); r != nil {
			o.Panic = fmt.Sprint(r)
		}
	}()
	var prog []byte
	if len(b.Keys) == 1 && b.M == 1 && len(b.Script) == 2 {
		pk := w.key(b.Keys[0]).pub
		prog = program.ProgramFromPubKey(pk)
		o.Ok = true
		a := types.AddressFromPubKey(pk)
		o.AddrOk, o.Addr = true, hex.EncodeToString(a[:])
		o.AddrIsH = a == common.AddressFromVmCode(prog)
	} else {
		pubs := make([]keypair.PublicKey, len(b.Keys))
		for j, k := range b.Keys {
			pubs[j] = w.key(k).pub
		}
		p, err := program.ProgramFromMultiPubKey(append([]keypair.PublicKey{}, pubs...), b.M)
		if err == nil {
			o.Ok = true
			prog = p
		}
		a, err := types.AddressFromMultiPubKeys(append([]keypair.PublicKey{}, pubs...), b.M)
		if err == nil {
			o.AddrOk, o.Addr = true, hex.EncodeToString(a[:])
			o.AddrIsH = prog != nil && a == common.AddressFromVmCode(prog)
		}
	}
	if o.Ok {
		o.Script = hex.EncodeToString(prog)
		if len(b.Script) > 0 {
			o.ScriptEq = bytes.Equal(prog, w.realize(b.Script))
		}
		o.Parse = w.parse(prog)
	}
	// the history part: what earlier builds returned must not have changed by this build (or anything since)
	o.Changed = ssCheckHeld()
	if len(o.Changed) > 0 {
		// report each corruption once: re-base the retained copies
		for k := range ssHeldScripts {
			ssHeldScripts[k].was = append([]byte{}, ssHeldScripts[k].live...)
		}
	}
	if o.Ok {
		ssHeldScripts = append(ssHeldScripts, ssHeld{i: i, live: prog, was: append([]byte{}, prog...)})
		if len(ssHeldScripts) > ssHeldWindow {
			ssHeldScripts = ssHeldScripts[1:]
		}
	}
	return o
}

// TestVerifSigScript: C23 observations.
func TestVerifSigScript(t *testing.T) {
	var in ssInput
	vhIn(&in)
	out := vhOpenOut()
	defer out.Close()
	w := sgNewWorld(in.KTypes)
	var ktl []string
	for _, k := range w.keys {
		ktl = append(ktl, k.typ)
	}
	out.Emit(map[string]interface{}{"meta": true, "ktypes": ktl})
	for i := range in.Builds {
		out.Emit(w.buildObs(i, &in.Builds[i]))
	}
	for i, sc := range in.Scripts {
		p := w.parse(w.realize(sc))
		out.Emit(map[string]interface{}{"s": i, "ok": p.Ok, "keys": p.Keys, "m": p.M, "panic": p.Panic})
	}
	// all byte strings as scripts: seeded random strings and byte mutations of valid scripts; whatever the parser
	// accepts must have 1 <= M <= len(PubKeys) <= 16 (and >= 2 keys behind CHECKMULTISIG), and it must not panic
	rnd := vhRand()
	var seeds [][]byte
	seeds = append(seeds, program.ProgramFromPubKey(w.key(1).pub))
	for _, n := range []int{2, 3, 5, 16} {
		var pubs []keypair.PublicKey
		for k := 1; k <= n && k <= len(w.keys); k++ {
			pubs = append(pubs, w.key(k).pub)
		}
		if len(pubs) >= 2 {
			p, err := program.ProgramFromMultiPubKey(pubs, 1+rnd.Intn(len(pubs)))
			vhMust(err)
			seeds = append(seeds, p)
		}
	}
	tried, accepted := 0, 0
	var bad []string
	for n := 0; n < in.Fuzz; n++ {
		var b []byte
		switch n % 4 {
		case 0: // random bytes ending in one of the two opcodes
			b = make([]byte, 1+rnd.Intn(80))
			rnd.Read(b)
			if rnd.Intn(2) == 0 {
				b[len(b)-1] = byte(neovm.CHECKSIG)
			} else {
				b[len(b)-1] = byte(neovm.CHECKMULTISIG)
			}
		case 1, 2: // 1..3 byte substitutions in a valid script
			b = append([]byte{}, seeds[rnd.Intn(len(seeds))]...)
			for c := 1 + rnd.Intn(3); c > 0; c-- {
				b[rnd.Intn(len(b))] = byte(rnd.Intn(256))
			}
		default: // truncation / duplication of a slice
			s := seeds[rnd.Intn(len(seeds))]
			cut := rnd.Intn(len(s))
			b = append(append([]byte{}, s[:cut]...), s[rnd.Intn(len(s)):]...)
		}
		tried++
		p := w.parse(b)
		if p.Panic != "" {
			bad = append(bad, "panic:"+hex.EncodeToString(b))
			continue
		}
		if !p.Ok {
			continue
		}
		accepted++
		nk := len(p.Keys)
		multi := b[len(b)-1] == byte(neovm.CHECKMULTISIG)
		if !(1 <= p.M && p.M <= nk && nk <= 16) || (multi && nk < 2) || (!multi && (nk != 1 || p.M != 1)) {
			bad = append(bad, fmt.Sprintf("m=%d,n=%d:%s", p.M, nk, hex.EncodeToString(b)))
		}
	}
	out.Emit(map[string]interface{}{"fuzz": true, "tried": tried, "accepted": accepted, "bad": bad})
	out.Emit(map[string]interface{}{"done": true})
}
