package validation

// Conformance harness for spec/SigTx.tla (C16, C17): realises TLC-generated abstract transactions as
// real bytes (real keys, real signatures, scripts assembled at byte level so that nothing is
// normalised by the repository's builders), runs types.TransactionFromRawBytes + VerifyTransaction,
// and reports the observed verdict, the validator's SignedAddr, and what a freshly decoded copy of the
// same bytes reports through GetSignatureAddresses / SmartContract.CheckWitness.

import (
	"bytes"
	"crypto/sha256"
	"encoding/hex"
	"fmt"
	"sort"
	"testing"

	"github.com/ontio/ontology-crypto/ec"
	"github.com/ontio/ontology-crypto/keypair"
	s "github.com/ontio/ontology-crypto/signature"
	"github.com/ontio/ontology/common"
	"github.com/ontio/ontology/common/log"
	"github.com/ontio/ontology/core/program"
	"github.com/ontio/ontology/core/types"
	ontErrors "github.com/ontio/ontology/errors"
	"github.com/ontio/ontology/smartcontract"
	"github.com/ontio/ontology/vm/neovm"
	"golang.org/x/crypto/ed25519"
)

type sgKeyD struct {
	V    int    `json:"v"`
	Enc  string `json:"enc"`
	Push string `json:"push"`
}
type sgSigD struct {
	Kind string `json:"kind"`
	By   int    `json:"by"`
}
type sgSetD struct {
	Form string   `json:"form"`
	Keys []sgKeyD `json:"keys"`
	M    int      `json:"m"`
	MEnc string   `json:"menc"`
	N    int      `json:"n"`
	NEnc string   `json:"nenc"`
	Sigs []sgSigD `json:"sigs"`
}
type sgPayer struct {
	Kind string `json:"kind"`
	I    int    `json:"i"`
}
// an account of the model's signer-account set (SigTx facts.accts): the single key's account or the
// account of the m-of-n script over the (sorted) keys
type sgAcct struct {
	Form string `json:"form"`
	Keys []int  `json:"keys"`
	M    int    `json:"m"`
}
type sgTxD struct {
	Payer sgPayer  `json:"payer"`
	Sets  []sgSetD `json:"sets"`
	// the specification's signer accounts of this transaction (optional; realised with the bound keys and
	// reported next to the validator's and the fresh decode's signer sets)
	Accts []sgAcct `json:"accts"`
	// history of the Transaction object before the observed VerifyTransaction: "" / "fresh" (decoded, nothing else),
	// "queried" (GetSignatureAddresses was called on it first), "reverify" (a first VerifyTransaction ran on it)
	Pre string `json:"pre"`
}
type sgMut struct {
	Tx   sgTxD  `json:"tx"`
	Name string `json:"name"`
	I    int    `json:"i"`
	J    int    `json:"j"`
	Full bool   `json:"full"` // every byte position of the region instead of a seeded sample
}
type sgInput struct {
	KTypes []string `json:"ktypes"`
	Txs    []sgTxD  `json:"txs"`
	Muts   []sgMut  `json:"muts"`
	Sample int      `json:"sample"`
	// malformed signature blobs: every truncation length instead of the boundary lengths plus a seeded sample
	MalFull bool `json:"malfull"`
}

type sgKey struct {
	typ    string
	pri    keypair.PrivateKey
	pub    keypair.PublicKey
	scheme s.SignatureScheme
}

type sgWorld struct {
	keys    []*sgKey // abstract key k = keys[k-1]
	sigc    map[string][]byte
	malc    map[string][]sgBlob
	malFull bool
	nsign   int
	other   common.Address
	encBad  []string
}

// one concrete realisation of a malformed signature blob (SigBase!Malformed)
type sgBlob struct {
	name  string // e.g. "truncated:0b+2"
	class string // structural class used in finding keys
	data  []byte
}

var sgMalKinds = map[string]bool{"me": true, "mo": true, "mt": true, "ml": true, "mw": true}

// malBlobs realises the abstract blob [kind, by] over message msg: the concrete byte strings of that shape built
// from a GOOD signature of key `by` (scheme byte || value).  The lists are deterministic per world (cached).
func (w *sgWorld) malBlobs(kind string, by int, msg []byte) []sgBlob {
	ck := fmt.Sprintf("%s/%d/%x", kind, by, msg)
	if v, ok := w.malc[ck]; ok {
		return v
	}
	key := w.key(by)
	vs := w.sign(by, msg)
	sch := byte(key.scheme)
	val := vs[1:]
	bare := false // P-256: the serialized form is the bare 64-byte r||s, the scheme byte is implied
	if key.scheme == s.SHA256withECDSA && len(vs) == 64 {
		val, bare = vs, true
	}
	n := len(val)
	cat := func(parts ...[]byte) []byte {
		var b []byte
		for _, p := range parts {
			b = append(b, p...)
		}
		return b
	}
	schemes := []byte{0, 1, 2, 3, 4, 5, 6, 7, 8, 9, 10, 11, 0x7f, 0xff}
	var out []sgBlob
	switch kind {
	case "me":
		out = append(out, sgBlob{"empty", "empty", []byte{}})
	case "mo":
		for _, b := range []byte{sch, 1, 9, 10, 11, 0x7f} {
			if b == sch && len(out) > 0 {
				continue
			}
			out = append(out, sgBlob{fmt.Sprintf("scheme-byte-only:%02x", b), "scheme-byte-only", []byte{b}})
		}
	case "mt":
		lens := map[int]bool{}
		if w.malFull {
			for l := 1; l < n; l++ {
				lens[l] = true
			}
		} else {
			for _, l := range []int{1, 2, 3, n/2 - 1, n / 2, n/2 + 1, n - 2, n - 1} {
				if l >= 1 && l < n {
					lens[l] = true
				}
			}
			rnd := vhRand()
			for i := 0; i < 2; i++ {
				lens[1+rnd.Intn(n-1)] = true
			}
		}
		var ls []int
		for l := range lens {
			ls = append(ls, l)
		}
		sort.Ints(ls)
		for _, l := range ls {
			class := "truncated"
			if key.typ == "eth" && l == 64 {
				class = "truncated-by-recovery-id" // r||s complete, only the trailing recovery id is missing
			}
			out = append(out, sgBlob{fmt.Sprintf("truncated:%02x+%d/%d", sch, l, n), class, cat([]byte{sch}, val[:l])})
			if bare {
				out = append(out, sgBlob{fmt.Sprintf("truncated:bare+%d/%d", l, n), class, cat(val[:l])})
			}
		}
	case "ml":
		ff := bytes.Repeat([]byte{0xff}, 32)
		for _, ex := range [][]byte{{0}, {0, 0}, {val[0]}, ff, val} {
			out = append(out, sgBlob{fmt.Sprintf("overlong:%02x+%d+%d", sch, n, len(ex)), "overlong", cat([]byte{sch}, val, ex)})
			if bare {
				out = append(out, sgBlob{fmt.Sprintf("overlong:bare+%d+%d", n, len(ex)), "overlong", cat(val, ex)})
			}
		}
	case "mw":
		for _, b := range schemes {
			if b == sch {
				continue
			}
			out = append(out, sgBlob{fmt.Sprintf("wrong-scheme:%02x+%d/%d", b, n, n), "wrong-scheme-byte", cat([]byte{b}, val)})
		}
		// one scheme byte per family (ECDSA, SM2, EdDSA, Keccak-ECDSA) with a value of the wrong length as well
		for _, b := range []byte{1, 9, 10, 11} {
			if b == sch {
				continue
			}
			for _, l := range []int{1, n / 2, n - 1} {
				if l >= 1 && l < n {
					out = append(out, sgBlob{fmt.Sprintf("wrong-scheme:%02x+%d/%d", b, l, n), "wrong-scheme-byte+truncated", cat([]byte{b}, val[:l])})
				}
			}
			out = append(out, sgBlob{fmt.Sprintf("wrong-scheme:%02x+%d+1", b, n), "wrong-scheme-byte+overlong", cat([]byte{b}, val, []byte{0})})
		}
	default:
		panic("unknown malformed shape " + kind)
	}
	w.malc[ck] = out
	return out
}

func sgGenKey(typ string) *sgKey {
	var pri keypair.PrivateKey
	var pub keypair.PublicKey
	var err error
	var sch s.SignatureScheme
	switch typ {
	case "p224":
		pri, pub, err = keypair.GenerateKeyPair(keypair.PK_ECDSA, keypair.P224)
		sch = s.SHA224withECDSA
	case "p256":
		pri, pub, err = keypair.GenerateKeyPair(keypair.PK_ECDSA, keypair.P256)
		sch = s.SHA256withECDSA
	case "p384":
		pri, pub, err = keypair.GenerateKeyPair(keypair.PK_ECDSA, keypair.P384)
		sch = s.SHA384withECDSA
	case "p521":
		pri, pub, err = keypair.GenerateKeyPair(keypair.PK_ECDSA, keypair.P521)
		sch = s.SHA512withECDSA
	case "k1":
		pri, pub, err = keypair.GenerateKeyPair(keypair.PK_ECDSA, keypair.SECP256K1)
		sch = s.SHA256withECDSA
	case "sm2":
		pri, pub, err = keypair.GenerateKeyPair(keypair.PK_SM2, keypair.SM2P256V1)
		sch = s.SM3withSM2
	case "ed":
		pri, pub, err = keypair.GenerateKeyPair(keypair.PK_EDDSA, keypair.ED25519)
		sch = s.SHA512withEDDSA
	case "eth":
		pri, pub, err = keypair.GenerateKeyPair(keypair.PK_ETHECDSA, nil)
		sch = s.KECCAK256WithECDSA
	default:
		panic("unknown key type " + typ)
	}
	vhMust(err)
	return &sgKey{typ: typ, pri: pri, pub: pub, scheme: sch}
}

// sgNewWorld generates one real key per abstract key such that keypair.SortPublicKeys orders them
// like the abstract indices (the specification's key order).
func sgNewWorld(ktypes []string) *sgWorld {
	w := &sgWorld{sigc: map[string][]byte{}, malc: map[string][]sgBlob{}}
	for _, t := range ktypes {
		w.keys = append(w.keys, sgGenKey(t))
	}
	// sort same-typed neighbours by the library's own order; the type sequence itself must be sorted
	pubs := make([]keypair.PublicKey, len(w.keys))
	for i, k := range w.keys {
		pubs[i] = k.pub
	}
	sorted := keypair.SortPublicKeys(append([]keypair.PublicKey{}, pubs...))
	nk := make([]*sgKey, len(w.keys))
	for i, p := range sorted {
		for _, k := range w.keys {
			if keypair.ComparePublicKey(k.pub, p) {
				nk[i] = k
			}
		}
	}
	for i, k := range nk {
		if k.typ != ktypes[i] {
			panic(fmt.Sprintf("key type sequence %v is not in SortPublicKeys order (slot %d got %s)", ktypes, i, k.typ))
		}
	}
	w.keys = nk
	h := sha256.Sum256([]byte("b-sig unrelated account"))
	copy(w.other[:], h[:20])
	return w
}

func (w *sgWorld) key(k int) *sgKey {
	if k < 1 || k > len(w.keys) {
		panic(fmt.Sprintf("abstract key %d out of range", k))
	}
	return w.keys[k-1]
}

func (w *sgWorld) sign(k int, msg []byte) []byte {
	ck := fmt.Sprintf("%d/%x", k, msg)
	if v, ok := w.sigc[ck]; ok {
		return v
	}
	key := w.key(k)
	sig, err := s.Sign(key.scheme, key.pri, msg, nil)
	vhMust(err)
	b, err := s.Serialize(sig)
	vhMust(err)
	w.sigc[ck] = b
	w.nsign++
	return b
}

func sgXY(pub keypair.PublicKey) (curveLen int, x, y []byte, prefix []byte, ok bool) {
	p, isEc := pub.(*ec.PublicKey)
	if !isEc {
		return 0, nil, nil, nil, false
	}
	curveLen = (p.Params().BitSize + 7) >> 3
	x = make([]byte, curveLen)
	y = make([]byte, curveLen)
	xb, yb := p.X.Bytes(), p.Y.Bytes()
	copy(x[curveLen-len(xb):], xb)
	copy(y[curveLen-len(yb):], yb)
	canon := keypair.SerializePublicKey(pub)
	if len(canon) == curveLen+1 { // P-256 special case: no type/curve prefix
		prefix = nil
	} else {
		prefix = canon[:2]
	}
	return curveLen, x, y, prefix, true
}

// encode returns the bytes of public key k in the named encoding ("" if the key type has no such encoding)
func (w *sgWorld) encode(k int, enc string) []byte {
	key := w.key(k)
	canon := keypair.SerializePublicKey(key.pub)
	switch enc {
	case "c":
		return canon
	case "bad":
		b := append([]byte{}, canon...)
		b[0] = 0xFF
		return b
	case "x": // trailing byte after a complete EC point
		if _, _, _, _, ok := sgXY(key.pub); !ok {
			return nil
		}
		return append(append([]byte{}, canon...), 0x00)
	case "u": // uncompressed point
		_, x, y, prefix, ok := sgXY(key.pub)
		if !ok {
			return nil
		}
		b := append([]byte{}, prefix...)
		b = append(b, 0x04)
		b = append(b, x...)
		return append(b, y...)
	case "t": // P-256 with the explicit ECDSA type / curve label prefix
		_, _, _, prefix, ok := sgXY(key.pub)
		if !ok || prefix != nil {
			return nil
		}
		return append([]byte{byte(keypair.PK_ECDSA), keypair.P256}, canon...)
	}
	panic("unknown encoding " + enc)
}

func sgPush(sink *common.ZeroCopySink, data []byte, mode string) {
	if mode == "direct" && (len(data) > 75 || len(data) == 0) {
		mode = "d1"
		if len(data) > 255 {
			mode = "d2"
		}
	}
	switch mode {
	case "direct":
		sink.WriteByte(byte(len(data)))
	case "d1":
		sink.WriteByte(byte(neovm.PUSHDATA1))
		sink.WriteUint8(uint8(len(data)))
	case "d2":
		sink.WriteByte(byte(neovm.PUSHDATA2))
		sink.WriteUint16(uint16(len(data)))
	case "d4":
		sink.WriteByte(byte(neovm.PUSHDATA4))
		sink.WriteUint32(uint32(len(data)))
	default:
		panic("unknown push mode " + mode)
	}
	sink.WriteBytes(data)
}

func sgNum(sink *common.ZeroCopySink, v int, enc string) {
	switch enc {
	case "op":
		if v == 0 {
			sink.WriteByte(byte(neovm.PUSH0))
		} else if v <= 16 {
			sink.WriteByte(byte(neovm.PUSH1) + byte(v-1))
		} else {
			panic("op-encoded number > 16")
		}
	case "b1":
		sink.WriteBytes([]byte{0x01, byte(v)})
	case "b2":
		sink.WriteBytes([]byte{0x02, 0x00, byte(v)})
	case "d1":
		sink.WriteBytes([]byte{byte(neovm.PUSHDATA1), 0x01, byte(v)})
	default:
		panic("unknown number encoding " + enc)
	}
}

func (w *sgWorld) verifyScript(d *sgSetD) []byte {
	sink := common.NewZeroCopySink(nil)
	if d.Form == "single" {
		sgPush(sink, w.encode(d.Keys[0].V, d.Keys[0].Enc), d.Keys[0].Push)
		sink.WriteByte(byte(neovm.CHECKSIG))
		return sink.Bytes()
	}
	sgNum(sink, d.M, d.MEnc)
	for _, k := range d.Keys {
		sgPush(sink, w.encode(k.V, k.Enc), k.Push)
	}
	sgNum(sink, d.N, d.NEnc)
	sink.WriteByte(byte(neovm.CHECKMULTISIG))
	return sink.Bytes()
}

// the account the validator derives for a set (from the descriptor's keys, not through the parser)
func (w *sgWorld) setAddr(d *sgSetD) common.Address {
	if d.Form == "single" {
		return types.AddressFromPubKey(w.key(d.Keys[0].V).pub)
	}
	var pubs []keypair.PublicKey
	for _, k := range d.Keys {
		pubs = append(pubs, w.key(k.V).pub)
	}
	a, err := types.AddressFromMultiPubKeys(pubs, d.M)
	if err != nil {
		return w.other
	}
	return a
}

// acctAddr realises an account of the specification with the bound keys, without going through the validator or
// the script parser: the key's account, or the hash of the canonical m-of-n script the builder makes of the keys
func (w *sgWorld) acctAddr(a *sgAcct) string {
	if a.Form == "single" {
		x := types.AddressFromPubKey(w.key(a.Keys[0]).pub)
		return hex.EncodeToString(x[:])
	}
	var pubs []keypair.PublicKey
	for _, k := range a.Keys {
		pubs = append(pubs, w.key(k).pub)
	}
	code, err := program.ProgramFromMultiPubKey(pubs, a.M)
	if err != nil {
		return "error:" + err.Error()
	}
	x := common.AddressFromVmCode(code)
	return hex.EncodeToString(x[:])
}

type sgRegion struct {
	name       string
	start, end int
	ktype      string
}

type sgBuilt struct {
	raw     []byte
	regions []sgRegion
	nvar    int      // number of concrete variants of this abstract transaction (1 unless it holds malformed blobs)
	vname   []string // the variant realised: name/class/key type of each malformed blob
	vclass  []string
	vktype  []string
}

func sgVarUint(sink *common.ZeroCopySink, v uint64) { sink.WriteVarUint(v) }

// build assembles the transaction bytes (variant 0 of the abstract transaction)
func (w *sgWorld) build(d *sgTxD) *sgBuilt { return w.buildV(d, 0) }

// buildV: malformed blobs take their vi-th concrete realisation (modulo the number each has)
func (w *sgWorld) buildV(d *sgTxD, vi int) *sgBuilt {
	var payer common.Address
	switch d.Payer.Kind {
	case "set":
		if d.Payer.I >= 1 && d.Payer.I <= len(d.Sets) {
			payer = w.setAddr(&d.Sets[d.Payer.I-1])
		} else {
			payer = w.other
		}
	case "key":
		payer = types.AddressFromPubKey(w.key(d.Payer.I).pub)
	default:
		payer = w.other
	}
	sink := common.NewZeroCopySink(nil)
	sink.WriteByte(0)                     // version
	sink.WriteByte(byte(types.InvokeNeo)) // tx type
	sink.WriteUint32(7)                   // nonce
	sink.WriteUint64(500)                 // gas price
	sink.WriteUint64(20000)               // gas limit
	payerOff := int(sink.Size())
	sink.WriteBytes(payer[:])
	sink.WriteVarBytes([]byte{0x00, 0xc1, 0x04, 't', 'e', 's', 't'}) // InvokeCode payload
	sink.WriteVarUint(0)                                              // attributes
	unsignedLen := int(sink.Size())
	unsigned := append([]byte{}, sink.Bytes()...)
	h1 := sha256.Sum256(unsigned)
	hash := sha256.Sum256(h1[:])
	other := sha256.Sum256(hash[:]) // "another message" for stale signatures

	b := &sgBuilt{nvar: 1}
	b.regions = append(b.regions, sgRegion{"content", 0, unsignedLen, ""}, sgRegion{"payer", payerOff, payerOff + 20, ""})
	sink.WriteVarUint(uint64(len(d.Sets)))
	for si := range d.Sets {
		set := &d.Sets[si]
		inv := common.NewZeroCopySink(nil)
		type span struct{ a, b, j int; kt string }
		var spans []span
		for sj, sg := range set.Sigs {
			var data []byte
			kt := ""
			switch sg.Kind {
			case "g":
				data = w.sign(sg.By, hash[:])
				kt = w.key(sg.By).typ
			case "s":
				data = w.sign(sg.By, other[:])
			case "c":
				data = append([]byte{}, w.sign(sg.By, hash[:])...)
				data[len(data)/2] ^= 0x10
			case "x":
				data = []byte{0x01}
			default:
				if !sgMalKinds[sg.Kind] {
					panic("unknown signature kind " + sg.Kind)
				}
				blobs := w.malBlobs(sg.Kind, sg.By, hash[:])
				if len(blobs) > b.nvar {
					b.nvar = len(blobs)
				}
				bl := blobs[vi%len(blobs)]
				data = bl.data
				b.vname = append(b.vname, bl.name)
				b.vclass = append(b.vclass, bl.class)
				b.vktype = append(b.vktype, w.key(sg.By).typ)
			}
			sgPush(inv, data, "direct")
			end := int(inv.Size())
			spans = append(spans, span{end - len(data), end, sj + 1, kt})
		}
		invb := inv.Bytes()
		before := int(sink.Size())
		sink.WriteVarBytes(invb)
		hdr := int(sink.Size()) - before - len(invb)
		for _, sp := range spans {
			b.regions = append(b.regions, sgRegion{fmt.Sprintf("sig:%d:%d", si+1, sp.j), before + hdr + sp.a, before + hdr + sp.b, sp.kt})
		}
		sink.WriteVarBytes(w.verifyScript(set))
	}
	b.raw = sink.Bytes()
	return b
}

// outcome of one concrete variant of an abstract transaction holding malformed signature blobs
type sgVarObs struct {
	Name  []string `json:"name"`
	Class []string `json:"class"`
	KType []string `json:"ktype"`
	Code  int      `json:"code"`
	Acc   bool     `json:"acc"`
	Panic string   `json:"panic,omitempty"`
}
type sgObs struct {
	Vars    []sgVarObs `json:"vars,omitempty"`
	Model   []string   `json:"model"` // the specification's signer accounts realised with the bound keys
	I       int      `json:"i"`
	Dec     bool     `json:"dec"`
	Code    int      `json:"code"`
	Acc     bool     `json:"acc"`
	Panic   string   `json:"panic,omitempty"`
	Signed  []string `json:"signed"`
	Raw     []string `json:"raw"`
	CwFresh []bool   `json:"cwFresh"` // CheckWitness(validated signer) on a fresh decode
	CwVal   []bool   `json:"cwVal"`   // CheckWitness(raw signer) on the validator's object
	Payer   string   `json:"payer"`
}

func sgAddrs(a []common.Address) []string {
	out := make([]string, 0, len(a))
	for _, x := range a {
		out = append(out, hex.EncodeToString(x[:]))
	}
	sort.Strings(out)
	return out
}

// run the real pipeline on raw bytes: decode, VerifyTransaction
func sgVerify(raw []byte) (tx *types.Transaction, dec bool, code ontErrors.ErrCode, pan string) {
	return sgVerifyPre(raw, "")
}

// the same with an operation on the decoded object before the observed VerifyTransaction
func sgVerifyPre(raw []byte, pre string) (tx *types.Transaction, dec bool, code ontErrors.ErrCode, pan string) {
	defer func() {
		if r := recover(); r != nil {
			pan = fmt.Sprint(r)
		}
	}()
	tx, err := types.TransactionFromRawBytes(append([]byte{}, raw...))
	if err != nil {
		return nil, false, ontErrors.ErrUnknown, ""
	}
	switch pre {
	case "queried":
		_ = tx.GetSignatureAddresses() // what the tx pool does for its sender-limit check
	case "reverify":
		_ = VerifyTransaction(tx)
	}
	return tx, true, VerifyTransaction(tx), ""
}

func sgObserve(i int, raw []byte, withExec bool, pre string) *sgObs {
	o := &sgObs{I: i, Signed: []string{}, Raw: []string{}, CwFresh: []bool{}, CwVal: []bool{}, Model: []string{}}
	tx, dec, code, pan := sgVerifyPre(raw, pre)
	o.Dec, o.Code, o.Panic = dec, int(code), pan
	o.Acc = dec && pan == "" && code == ontErrors.ErrNoError
	if !o.Acc {
		return o
	}
	o.Payer = hex.EncodeToString(tx.Payer[:])
	o.Signed = sgAddrs(tx.SignedAddr)
	if withExec {
		fresh, err := types.TransactionFromRawBytes(append([]byte{}, raw...))
		vhMust(err)
		rawAddrs := append([]common.Address{}, fresh.GetSignatureAddresses()...)
		o.Raw = sgAddrs(rawAddrs)
		scF := &smartcontract.SmartContract{Config: &smartcontract.Config{Tx: fresh}}
		for _, a := range tx.SignedAddr {
			o.CwFresh = append(o.CwFresh, scF.CheckWitness(a))
		}
		scV := &smartcontract.SmartContract{Config: &smartcontract.Config{Tx: tx}}
		for _, a := range rawAddrs {
			o.CwVal = append(o.CwVal, scV.CheckWitness(a))
		}
	}
	return o
}

type sgMutHit struct {
	Pos    int    `json:"pos"`
	Xor    int    `json:"xor"`
	Region string `json:"region"`
	Rel    int    `json:"rel"`
	Len    int    `json:"len"`
	KType  string `json:"ktype"`
}
type sgMutObs struct {
	I        int        `json:"i"`
	BaseAcc  bool       `json:"baseAcc"`
	Tried    int        `json:"tried"`
	Accepted []sgMutHit `json:"accepted"`
	Regions  int        `json:"regions"`
}

// TestVerifSigTx: observations for abstract transactions and byte-level mutations of accepted ones.
func TestVerifSigTx(t *testing.T) {
	log.InitLog(log.FatalLog, log.Stdout) // VerifyTransaction logs every rejection at Info level
	var in sgInput
	vhIn(&in)
	out := vhOpenOut()
	defer out.Close()
	w := sgNewWorld(in.KTypes)
	// self-check of the encoding table: every non-"bad" encoding must deserialize to the same key
	for k := 1; k <= len(w.keys); k++ {
		for _, enc := range []string{"c", "u", "t", "x"} {
			b := w.encode(k, enc)
			if b == nil {
				continue
			}
			pk, err := keypair.DeserializePublicKey(b)
			if err != nil || !keypair.ComparePublicKey(pk, w.key(k).pub) {
				w.encBad = append(w.encBad, fmt.Sprintf("%d/%s", k, enc))
			}
		}
	}
	var ktl []string
	for _, k := range w.keys {
		ktl = append(ktl, k.typ)
	}
	out.Emit(map[string]interface{}{"meta": true, "encBad": w.encBad, "ktypes": ktl})
	w.malFull = in.MalFull
	for i := range in.Txs {
		d := &in.Txs[i]
		b := w.build(d)
		o := sgObserve(i, b.raw, true, d.Pre)
		// the model's signer accounts, derived from the account descriptors alone (builder + script hash)
		for _, a := range d.Accts {
			o.Model = append(o.Model, w.acctAddr(&a))
		}
		sort.Strings(o.Model)
		// an abstract transaction holding malformed signature blobs stands for all of their concrete realisations
		if len(b.vname) > 0 {
			for vi := 0; vi < b.nvar; vi++ {
				bv := w.buildV(d, vi)
				ov := sgObserve(i, bv.raw, false, d.Pre)
				if !ov.Dec && ov.Panic == "" {
					panic(fmt.Sprintf("tx %d variant %v does not decode", i, bv.vname))
				}
				o.Vars = append(o.Vars, sgVarObs{bv.vname, bv.vclass, bv.vktype, ov.Code, ov.Acc, ov.Panic})
			}
		}
		out.Emit(o)
	}
	rnd := vhRand()
	sample := in.Sample
	if sample <= 0 {
		sample = 4
	}
	for i := range in.Muts {
		m := &in.Muts[i]
		b := w.build(&m.Tx)
		mo := &sgMutObs{I: i, Accepted: []sgMutHit{}}
		_, dec, code, pan := sgVerify(b.raw)
		mo.BaseAcc = dec && pan == "" && code == ontErrors.ErrNoError
		var want string
		switch m.Name {
		case "MutateContent":
			want = "content"
		case "MutatePayer":
			want = "payer"
		case "MutateSig":
			want = fmt.Sprintf("sig:%d:%d", m.I, m.J)
		default:
			panic("unknown mutation " + m.Name)
		}
		for _, rg := range b.regions {
			if rg.name != want {
				continue
			}
			mo.Regions++
			var positions []int
			if m.Full || rg.end-rg.start <= sample {
				for p := rg.start; p < rg.end; p++ {
					positions = append(positions, p)
				}
			} else {
				// always the first two and the last byte (scheme / header / recovery bytes), plus a seeded sample
				positions = append(positions, rg.start, rg.start+1, rg.end-1)
				for n := 0; n < sample; n++ {
					positions = append(positions, rg.start+rnd.Intn(rg.end-rg.start))
				}
			}
			for _, p := range positions {
				xors := []int{0x01, 0x04, 0x80, 1 + rnd.Intn(255)}
				for _, x := range xors {
					mut := append([]byte{}, b.raw...)
					mut[p] ^= byte(x)
					if bytes.Equal(mut, b.raw) {
						continue
					}
					mo.Tried++
					_, dec, code, pan := sgVerify(mut)
					if pan != "" || (dec && code == ontErrors.ErrNoError) {
						mo.Accepted = append(mo.Accepted, sgMutHit{p, x, rg.name, p - rg.start, rg.end - rg.start, rg.ktype})
					}
				}
			}
			if want == "payer" {
				// the payer replaced as a whole by other accounts
				for _, a := range []common.Address{w.other, types.AddressFromPubKey(w.key(len(w.keys)).pub), {}} {
					mut := append([]byte{}, b.raw...)
					copy(mut[rg.start:rg.end], a[:])
					if bytes.Equal(mut, b.raw) {
						continue
					}
					mo.Tried++
					_, dec, code, pan := sgVerify(mut)
					if pan != "" || (dec && code == ontErrors.ErrNoError) {
						mo.Accepted = append(mo.Accepted, sgMutHit{rg.start, -1, rg.name, 0, 20, ""})
					}
				}
			}
		}
		out.Emit(mo)
	}
	out.Emit(map[string]interface{}{"done": true, "signatures": w.nsign})
}

var _ = ed25519.PublicKeySize
var _ = program.GetProgramInfo
