package ontid

// Conformance harness for spec/OntId.tla (C45): the real ontid contract over one OverlayDB (mem LevelDB);
// per call a fresh CacheDB + SmartContract + NativeService, committed on success and dropped on error; the
// signer set is installed through the transaction's SignedAddr (what CheckWitness reads).  After every step
// the storage of every identity is read back (state flag, key list with revoked / authentication flags,
// controller, recovery, attribute keys).
// Input field "pre": the calls run at block height config.GetNewOntIdHeight()-1 (the model's NewOntId = FALSE:
// only the old methods are registered, version-0 key records); the read-back always uses the new height, whose
// readers decode both storage versions.

import (
	"fmt"
	"runtime"
	"sort"
	"strings"
	"sync"
	"testing"

	"github.com/ontio/ontology-crypto/keypair"
	"github.com/ontio/ontology/account"
	"github.com/ontio/ontology/common"
	"github.com/ontio/ontology/common/config"
	"github.com/ontio/ontology/core/store/leveldbstore"
	"github.com/ontio/ontology/core/store/overlaydb"
	"github.com/ontio/ontology/core/types"
	"github.com/ontio/ontology/smartcontract"
	"github.com/ontio/ontology/smartcontract/context"
	"github.com/ontio/ontology/smartcontract/service/native/utils"
	"github.com/ontio/ontology/smartcontract/storage"
)

type oSigner struct {
	Id  string `json:"id"`
	Idx uint64 `json:"idx"`
}

type oProof struct {
	Kind string    `json:"kind"`
	Cid  string    `json:"cid"`
	Idx  uint64    `json:"idx"`
	Sg   []oSigner `json:"sg"`
}

type oBody struct { // controller / recovery value
	Kind    string   `json:"kind"`
	Id      string   `json:"id"`
	Key     string   `json:"key"`
	Members []string `json:"members"`
	T       uint64   `json:"t"`
}

type oOp struct {
	Form string `json:"form"`
	Key  string `json:"key"`
}

type oAct struct {
	Name    string    `json:"name"`
	Id      string    `json:"id"`
	Signers []string  `json:"signers"`
	Key     string    `json:"key"`
	Old     string    `json:"old"`
	Idx     uint64    `json:"idx"`
	Target  uint64    `json:"target"`
	Attr    string    `json:"attr"`
	Attrs   []string  `json:"attrs"`
	Op      *oOp      `json:"op"`
	Ctrl    *oBody    `json:"ctrl"`
	Group   *oBody    `json:"group"`
	Proof   *oProof   `json:"proof"`
	Sg      []oSigner `json:"sg"`
}

type oPath struct {
	Setup []oAct `json:"setup"`
	Steps []oAct `json:"steps"`
}

type oInput struct {
	Ids   []string `json:"ids"`
	Keys  []string `json:"keys"`
	Pre   bool     `json:"pre"`
	Paths []oPath  `json:"paths"`
}

type oKey struct {
	Key     string `json:"key"`
	Revoked bool   `json:"revoked"`
	Auth    bool   `json:"auth"`
	Pklist  bool   `json:"pklist"`
}

type oIdState struct {
	St    string   `json:"st"`
	Keys  []oKey   `json:"keys"`
	Ctrl  oBody    `json:"ctrl"`
	Rec   oBody    `json:"rec"`
	Attrs []string `json:"attrs"`
}

type oObs struct {
	Path int                 `json:"path"`
	Step int                 `json:"step"`
	Res  string              `json:"res"`
	Err  string              `json:"err,omitempty"`
	Ids  map[string]oIdState `json:"ids"`
}

type oWorld struct {
	in     *oInput
	ovl    *overlaydb.OverlayDB
	ontids map[string][]byte
	names  map[string]string // ont id -> model name
	accs   map[string]*account.Account
	pks    map[string][]byte
	byPk   map[string]string
	byAddr map[common.Address]string
}

var oInitDone = false
var oAccs = map[string]*account.Account{}

func newOWorld(in *oInput) *oWorld {
	if !oInitDone {
		Init()
		oInitDone = true
	}
	w := &oWorld{in: in, ontids: map[string][]byte{}, names: map[string]string{}, accs: map[string]*account.Account{},
		pks: map[string][]byte{}, byPk: map[string]string{}, byAddr: map[common.Address]string{}}
	w.ovl = overlaydb.NewOverlayDB(leveldbstore.NewMemLevelDBStore())
	for _, n := range in.Ids {
		id, err := account.CreateID([]byte("verif-ontid-" + n))
		vhMust(err)
		w.ontids[n] = []byte(id)
		w.names[id] = n
	}
	for _, k := range in.Keys {
		if oAccs[k] == nil {
			oAccs[k] = account.NewAccount("")
		}
		a := oAccs[k]
		w.accs[k] = a
		w.pks[k] = keypair.SerializePublicKey(a.PublicKey)
		w.byPk[string(w.pks[k])] = k
		w.byAddr[a.Address] = k
	}
	return w
}

func (w *oWorld) service(cache *storage.CacheDB, signers []common.Address, pushSelf bool) *smartcontract.SmartContract {
	height := config.GetNewOntIdHeight() + 100
	if w.in.Pre && !pushSelf { // pushSelf = the read-back service
		if config.GetNewOntIdHeight() == 0 {
			panic("no height below the new-ONT-ID fork height on this network id")
		}
		height = config.GetNewOntIdHeight() - 1
	}
	sc := &smartcontract.SmartContract{
		Config:  &smartcontract.Config{Time: 1600000000, Height: height, Tx: &types.Transaction{SignedAddr: signers}},
		CacheDB: cache, Gas: 1 << 60,
	}
	if pushSelf {
		sc.PushContext(&context.Context{ContractAddress: utils.OntIDContractAddress})
	}
	return sc
}

func (w *oWorld) call(method string, args []byte, signers []common.Address) (res string, errs string) {
	defer func() {
		if r := recover(); r != nil {
			res, errs = "panic", fmt.Sprint(r)
		}
	}()
	cache := storage.NewCacheDB(w.ovl)
	sc := w.service(cache, signers, false)
	ns, e := sc.NewNativeService()
	vhMust(e)
	ret, err := ns.NativeCall(utils.OntIDContractAddress, method, args)
	if err != nil {
		return "err", err.Error()
	}
	cache.Commit()
	if string(ret) != string(utils.BYTE_TRUE) {
		return "false", ""
	}
	return "ok", ""
}

func (w *oWorld) groupBytes(b *oBody) []byte {
	sink := common.NewZeroCopySink(nil)
	utils.EncodeVarUint(sink, uint64(len(b.Members)))
	for _, m := range b.Members {
		sink.WriteVarBytes(w.ontids[m])
	}
	utils.EncodeVarUint(sink, b.T)
	return sink.Bytes()
}

func (w *oWorld) signersBytes(sg []oSigner) []byte {
	ss := []Signer{}
	for _, s := range sg {
		ss = append(ss, Signer{Id: w.ontids[s.Id], Index: uint32(s.Idx)})
	}
	return SerializeSigners(ss)
}

func (w *oWorld) putProof(sink *common.ZeroCopySink, p *oProof) {
	if p.Kind == "idx" {
		utils.EncodeVarUint(sink, p.Idx)
	} else {
		sink.WriteVarBytes(w.signersBytes(p.Sg))
	}
}

func (w *oWorld) opBytes(op *oOp) []byte {
	if op.Form == "addr" {
		a := w.accs[op.Key].Address
		return a[:]
	}
	return w.pks[op.Key]
}

func oAttrs(sink *common.ZeroCopySink, names []string) {
	utils.EncodeVarUint(sink, uint64(len(names)))
	for _, name := range names {
		(&attribute{key: []byte(name), valueType: []byte("t"), value: []byte("v")}).Serialization(sink)
	}
}

func oAttr(sink *common.ZeroCopySink, name string) {
	oAttrs(sink, []string{name})
}

func (w *oWorld) apply(a oAct) (string, string) {
	signers := []common.Address{}
	for _, k := range a.Signers {
		signers = append(signers, w.accs[k].Address)
	}
	sink := common.NewZeroCopySink(nil)
	id := w.ontids[a.Id]
	sink.WriteVarBytes(id)
	var method string
	switch a.Name {
	case "RegPk":
		method = "regIDWithPublicKey"
		sink.WriteVarBytes(w.pks[a.Key])
	case "RegAttrs":
		method = "regIDWithAttributes"
		sink.WriteVarBytes(w.pks[a.Key])
		oAttrs(sink, a.Attrs)
	case "RegCtrl":
		method = "regIDWithController"
		if a.Ctrl.Kind == "id" {
			sink.WriteVarBytes(w.ontids[a.Ctrl.Id])
		} else {
			sink.WriteVarBytes(w.groupBytes(a.Ctrl))
		}
		w.putProof(sink, a.Proof)
	case "AddKeyIdx":
		method = "addKeyByIndex"
		sink.WriteVarBytes(w.pks[a.Key])
		utils.EncodeVarUint(sink, a.Idx)
	case "RemoveKeyIdx":
		method = "removeKeyByIndex"
		sink.WriteVarBytes(w.pks[a.Key])
		utils.EncodeVarUint(sink, a.Idx)
	case "AddNewAuthKey":
		method = "addNewAuthKey"
		sink = common.NewZeroCopySink(nil)
		(&AddNewAuthKeyParam{OntId: id, NewPublicKey: &NewPublicKey{key: w.pks[a.Key], controller: id}, SignIndex: uint32(a.Idx)}).Serialization(sink)
	case "SetAuthKey":
		method = "setAuthKey"
		sink = common.NewZeroCopySink(nil)
		(&SetAuthKeyParam{OntId: id, Index: uint32(a.Target), SignIndex: uint32(a.Idx)}).Serialization(sink)
	case "RemoveAuthKey":
		method = "removeAuthKey"
		sink = common.NewZeroCopySink(nil)
		(&RemoveAuthKeyParam{OntId: id, Index: uint32(a.Target), SignIndex: uint32(a.Idx)}).Serialization(sink)
	case "AddKeyPk":
		method = "addKey"
		sink.WriteVarBytes(w.pks[a.Key])
		sink.WriteVarBytes(w.opBytes(a.Op))
	case "RemoveKeyPk":
		method = "removeKey"
		sink.WriteVarBytes(w.pks[a.Key])
		sink.WriteVarBytes(w.opBytes(a.Op))
	case "AddAttrIdx":
		method = "addAttributesByIndex"
		oAttr(sink, a.Attr)
		utils.EncodeVarUint(sink, a.Idx)
	case "RemoveAttrIdx":
		method = "removeAttributeByIndex"
		sink.WriteVarBytes([]byte(a.Attr))
		utils.EncodeVarUint(sink, a.Idx)
	case "AddAttrPk":
		method = "addAttributes"
		oAttr(sink, a.Attr)
		sink.WriteVarBytes(w.opBytes(a.Op))
	case "SetRecovery":
		method = "setRecovery"
		sink.WriteVarBytes(w.groupBytes(a.Group))
		utils.EncodeVarUint(sink, a.Idx)
	case "UpdateRecovery":
		method = "updateRecovery"
		sink.WriteVarBytes(w.groupBytes(a.Group))
		sink.WriteVarBytes(w.signersBytes(a.Sg))
	case "RemoveRecovery":
		method = "removeRecovery"
		utils.EncodeVarUint(sink, a.Idx)
	case "AddRecoveryOld":
		method = "addRecovery"
		utils.EncodeAddress(sink, w.accs[a.Key].Address)
		sink.WriteVarBytes(w.opBytes(a.Op))
	case "ChangeRecoveryOld":
		method = "changeRecovery"
		utils.EncodeAddress(sink, w.accs[a.Key].Address)
		utils.EncodeAddress(sink, w.accs[a.Old].Address)
	case "AddKeyByRecovery":
		method = "addKeyByRecovery"
		sink.WriteVarBytes(w.pks[a.Key])
		sink.WriteVarBytes(w.signersBytes(a.Sg))
	case "RemoveKeyByRecovery":
		method = "removeKeyByRecovery"
		utils.EncodeVarUint(sink, a.Target)
		sink.WriteVarBytes(w.signersBytes(a.Sg))
	case "RemoveController":
		method = "removeController"
		utils.EncodeVarUint(sink, a.Idx)
	case "AddKeyByCtrl":
		method = "addKeyByController"
		sink.WriteVarBytes(w.pks[a.Key])
		w.putProof(sink, a.Proof)
	case "RemoveKeyByCtrl":
		method = "removeKeyByController"
		utils.EncodeVarUint(sink, a.Target)
		w.putProof(sink, a.Proof)
	case "AddAttrByCtrl":
		method = "addAttributesByController"
		oAttr(sink, a.Attr)
		w.putProof(sink, a.Proof)
	case "SetAuthKeyByCtrl":
		method = "setAuthKeyByController"
		utils.EncodeVarUint(sink, a.Target)
		w.putProof(sink, a.Proof)
	case "RevokeID":
		method = "revokeID"
		utils.EncodeVarUint(sink, a.Idx)
	case "RevokeByCtrl":
		method = "revokeIDByController"
		w.putProof(sink, a.Proof)
	case "VerifySig":
		method = "verifySignature"
		utils.EncodeVarUint(sink, a.Idx)
	default:
		panic("unknown action " + a.Name)
	}
	return w.call(method, sink.Bytes(), signers)
}

func (w *oWorld) body(val []byte, version byte, isRecovery bool) oBody {
	b := oBody{Kind: "none", Members: []string{}}
	if val == nil {
		return b
	}
	if isRecovery && version == _VERSION_0 {
		b.Kind = "old"
		addr, err := common.AddressParseFromBytes(val)
		if err != nil {
			b.Key = "?"
		} else if n, ok := w.byAddr[addr]; ok {
			b.Key = n
		} else {
			b.Key = "?" + addr.ToHexString()
		}
		return b
	}
	if !isRecovery && account.VerifyID(string(val)) {
		b.Kind = "id"
		b.Id = w.names[string(val)]
		return b
	}
	g, err := deserializeGroup(val)
	if err != nil {
		b.Kind = "undecodable"
		return b
	}
	b.Kind = "group"
	b.T = uint64(g.Threshold)
	for _, m := range g.Members {
		if id, ok := m.([]byte); ok {
			b.Members = append(b.Members, w.names[string(id)])
		} else {
			b.Members = append(b.Members, "subgroup")
		}
	}
	return b
}

func cp(b []byte, f byte) []byte {
	out := make([]byte, 0, len(b)+1)
	out = append(out, b...)
	return append(out, f)
}

func (w *oWorld) observe(pi, si int, res, errs string) (o oObs) {
	o = oObs{Path: pi, Step: si, Res: res, Err: errs, Ids: map[string]oIdState{}}
	defer func() {
		if r := recover(); r != nil {
			o.Err += fmt.Sprintf(" OBSERVE-PANIC: %v", r)
		}
	}()
	cache := storage.NewCacheDB(w.ovl)
	sc := w.service(cache, []common.Address{}, true)
	ns, e := sc.NewNativeService()
	vhMust(e)
	for _, n := range w.in.Ids {
		enc, err := encodeID(w.ontids[n])
		vhMust(err)
		s := oIdState{Keys: []oKey{}, Attrs: []string{}}
		switch checkIDState(ns, enc) {
		case flag_not_exist:
			s.St = "none"
		case flag_valid:
			s.St = "valid"
		case flag_revoke:
			s.St = "revoked"
		default:
			s.St = "?"
		}
		pks, err := getAllPk_Version1(ns, cp(enc, 0)[:len(enc)], cp(enc, FIELD_PK))
		vhMust(err)
		for _, p := range pks {
			name, ok := w.byPk[string(p.key)]
			if !ok {
				name = "?"
			}
			s.Keys = append(s.Keys, oKey{Key: name, Revoked: p.revoked, Auth: p.isAuthentication, Pklist: p.isPkList})
		}
		item, err := utils.GetStorageItem(ns.CacheDB, cp(enc, FIELD_CONTROLLER))
		vhMust(err)
		if item == nil {
			s.Ctrl = w.body(nil, 0, false)
		} else {
			s.Ctrl = w.body(item.Value, item.StateVersion, false)
		}
		item, err = utils.GetStorageItem(ns.CacheDB, cp(enc, FIELD_RECOVERY))
		vhMust(err)
		if item == nil {
			s.Rec = w.body(nil, 0, true)
		} else {
			s.Rec = w.body(item.Value, item.StateVersion, true)
		}
		attrs, err := getAllAttrJson(ns, cp(enc, 0)[:len(enc)])
		vhMust(err)
		for _, a := range attrs {
			k := a.Key // "<ont id>#<attribute key>"
			if i := strings.LastIndex(k, "#"); i >= 0 {
				k = k[i+1:]
			}
			s.Attrs = append(s.Attrs, k)
		}
		sort.Strings(s.Attrs)
		o.Ids[n] = s
	}
	return o
}

func TestVerifOntIdReplay(t *testing.T) {
	var in oInput
	vhIn(&in)
	out := vhOpenOut()
	defer out.Close()
	newOWorld(&in) // registers the contract and creates the shared key pairs before the workers start
	nw := vhEnvInt("VERIF_WORKERS", runtime.NumCPU())
	var mu sync.Mutex
	var wg sync.WaitGroup
	next := 0
	for k := 0; k < nw; k++ {
		wg.Add(1)
		go func() {
			defer wg.Done()
			for {
				mu.Lock()
				pi := next
				next++
				mu.Unlock()
				if pi >= len(in.Paths) {
					return
				}
				p := in.Paths[pi]
				mu.Lock()
				w := newOWorld(&in)
				mu.Unlock()
				for _, a := range p.Setup {
					if r, e := w.apply(a); r != "ok" {
						panic(fmt.Sprintf("setup step %+v failed: %s %s", a, r, e))
					}
				}
				obs := []oObs{w.observe(pi, 0, "init", "")}
				for si, a := range p.Steps {
					r, e := w.apply(a)
					obs = append(obs, w.observe(pi, si+1, r, e))
				}
				mu.Lock()
				for _, o := range obs {
					out.Emit(o)
				}
				mu.Unlock()
			}
		}()
	}
	wg.Wait()
}
