package types

import "encoding/json"

func vhJSON(v interface{}) []byte {
	b, err := json.Marshal(v)
	vhMust(err)
	return b
}
