package types

// C13 harness, IntValue level (spec/NeoVMInt.tla): the same rows as the Executor harness are run on
// IntValue's methods directly, once with operands in their normal form (int64 when they fit) and once
// with every operand FORCED into the big.Int representation (isbig = true), so that the overflow-checked
// int64 fast path and the big-integer slow path of intOp are compared on identical operands.

import (
	"math/big"
	"testing"
)

type ivRow struct {
	Id  int      `json:"id"`
	Op  string   `json:"op"`
	Arg []string `json:"arg"`
}

type ivObs struct {
	Id    int    `json:"id"`
	Rep   string `json:"rep"`
	Built bool   `json:"built"`
	Fault bool   `json:"fault"`
	Err   string `json:"err,omitempty"`
	Val   string `json:"val,omitempty"`
	Canon bool   `json:"canon"` // result representation is canonical (big only when outside int64)
	Panic string `json:"panic,omitempty"`
}

func ivBuild(rep string, dec string) (IntValue, bool) {
	v, ok := new(big.Int).SetString(dec, 10)
	if !ok {
		panic("bad decimal " + dec)
	}
	if len(v.Bytes()) > 32 {
		return IntValue{}, false // not a value the VM can hold; the Executor harness covers these
	}
	if rep == "forcedbig" {
		return IntValue{isbig: true, bigint: v}, true
	}
	iv, err := IntValFromBigInt(v)
	if err != nil {
		return IntValue{}, false
	}
	return iv, true
}

func ivRun(row ivRow, rep string) (obs ivObs) {
	obs = ivObs{Id: row.Id, Rep: rep}
	defer func() {
		if r := recover(); r != nil {
			obs.Panic = "panic"
			if e, ok := r.(error); ok {
				obs.Panic = e.Error()
			} else if s, ok := r.(string); ok {
				obs.Panic = s
			}
		}
	}()
	var args []IntValue
	for _, a := range row.Arg {
		v, ok := ivBuild(rep, a)
		if !ok {
			return
		}
		args = append(args, v)
	}
	obs.Built = true
	var res IntValue
	var err error
	b2i := func(p bool) IntValue {
		if p {
			return IntValFromInt(1)
		}
		return IntValFromInt(0)
	}
	switch row.Op {
	case "ADD":
		res, err = args[0].Add(args[1])
	case "SUB":
		res, err = args[0].Sub(args[1])
	case "MUL":
		res, err = args[0].Mul(args[1])
	case "DIV":
		res, err = args[0].Div(args[1])
	case "MOD":
		res, err = args[0].Mod(args[1])
	case "MAX":
		res, err = args[0].Max(args[1])
	case "MIN":
		res, err = args[0].Min(args[1])
	case "AND":
		res, err = args[0].And(args[1])
	case "OR":
		res, err = args[0].Or(args[1])
	case "XOR":
		res, err = args[0].Xor(args[1])
	case "SHL":
		res, err = args[0].Lsh(args[1])
	case "SHR":
		res, err = args[0].Rsh(args[1])
	case "NUMEQUAL":
		res = b2i(args[0].Cmp(args[1]) == 0)
	case "NUMNOTEQUAL":
		res = b2i(args[0].Cmp(args[1]) != 0)
	case "LT":
		res = b2i(args[0].Cmp(args[1]) < 0)
	case "GT":
		res = b2i(args[0].Cmp(args[1]) > 0)
	case "LTE":
		res = b2i(args[0].Cmp(args[1]) <= 0)
	case "GTE":
		res = b2i(args[0].Cmp(args[1]) >= 0)
	case "INC":
		res, err = args[0].Add(IntValFromInt(1))
	case "DEC":
		res, err = args[0].Sub(IntValFromInt(1))
	case "SIGN":
		res = IntValFromInt(int64(args[0].Sign()))
	case "NEGATE":
		res, err = IntValFromInt(0).Sub(args[0])
	case "ABS":
		res = args[0].Abs()
	case "INVERT":
		res = args[0].Not()
	case "NZ":
		res = b2i(!args[0].IsZero())
	case "WITHIN":
		res = b2i(args[0].Cmp(args[1]) >= 0 && args[0].Cmp(args[2]) < 0)
	default:
		panic("unknown op " + row.Op)
	}
	if err != nil {
		obs.Fault = true
		obs.Err = err.Error()
		return
	}
	if res.isbig {
		obs.Val = res.bigint.String()
		obs.Canon = !res.bigint.IsInt64()
	} else {
		obs.Val = big.NewInt(res.integer).String()
		obs.Canon = true
	}
	return
}

func TestVerifIntVal(t *testing.T) {
	var in struct {
		Rows []ivRow `json:"rows"`
	}
	vhIn(&in)
	out := vhOpenOut()
	defer out.Close()
	for _, row := range in.Rows {
		for _, rep := range []string{"normal", "forcedbig"} {
			out.Emit(ivRun(row, rep))
		}
	}
}
