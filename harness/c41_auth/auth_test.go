package auth

// Conformance harness for spec/Auth.tla (C41): the real auth contract and the real ontid contract over one
// OverlayDB (mem LevelDB); per call a fresh CacheDB + SmartContract + NativeService, committed on success
// and dropped on error.  The calling context is an application contract (initContractAdmin reads it).
// After every step the contract's storage is read back through the package's own getters and
// verifyToken is evaluated for every (identity, function) with a valid proof of key control.

import (
	"bytes"
	"encoding/json"
	"fmt"
	"runtime"
	"sort"
	"sync"
	"testing"

	"github.com/ontio/ontology-crypto/keypair"
	"github.com/ontio/ontology/account"
	"github.com/ontio/ontology/common"
	"github.com/ontio/ontology/common/config"
	"github.com/ontio/ontology/core/store/leveldbstore"
	"github.com/ontio/ontology/core/store/overlaydb"
	"github.com/ontio/ontology/core/types"
	"github.com/ontio/ontology/smartcontract"
	"github.com/ontio/ontology/smartcontract/context"
	"github.com/ontio/ontology/smartcontract/service/native/ontid"
	"github.com/ontio/ontology/smartcontract/service/native/utils"
	"github.com/ontio/ontology/smartcontract/storage"
)

const aBaseTime = 1600000000

type aAct struct {
	Name    string          `json:"name"`
	Id      string          `json:"id"`
	To      string          `json:"to"`
	Role    string          `json:"role"`
	Fns     []string        `json:"fns"`
	Persons []string        `json:"persons"`
	Period  uint64          `json:"period"`
	Level   uint64          `json:"level"`
	K       uint64          `json:"k"`
	Signers [][]interface{} `json:"signers"`
	Fn      string          `json:"fn"`
}

type aPath struct {
	Setup []aAct `json:"setup"`
	Now   uint32 `json:"now"`
	Steps []aAct `json:"steps"`
}

type aInput struct {
	Ids   []string `json:"ids"`
	Roles []string `json:"roles"`
	Fns   []string `json:"fns"`
	Paths []aPath  `json:"paths"`
}

type aDeleg struct {
	Root   string `json:"root"`
	Expire int64  `json:"expire"`
	Level  int    `json:"level"`
}

type aObs struct {
	Path   int                          `json:"path"`
	Step   int                          `json:"step"`
	Res    string                       `json:"res"`
	Err    string                       `json:"err,omitempty"`
	Admin  string                       `json:"admin"`
	Funcs  map[string][]string          `json:"funcs"`
	Tokens map[string][]string          `json:"tokens"`
	Deleg  map[string]map[string]aDeleg `json:"deleg"`
	Grid   map[string]map[string]string `json:"grid"`
}

type aIdent struct {
	name  string
	ontid []byte
	keys  [3]*account.Account // index 1, 2 used
}

type aWorld struct {
	in    *aInput
	ovl   *overlaydb.OverlayDB
	app   common.Address
	ids   map[string]*aIdent
	names map[string]string // ont id string -> model name
	now   uint32
}

var aInitDone = false

func aInit() {
	if !aInitDone {
		Init()
		ontid.Init()
		aInitDone = true
	}
}

// call performs one native invocation as its own transaction.
func (w *aWorld) call(contract common.Address, method string, args []byte, signers []common.Address, commit bool) (ret []byte, err error) {
	return w.callOn(storage.NewCacheDB(w.ovl), contract, method, args, signers, commit)
}

// callOn: as call, on a given transaction cache (read-only observations share one cache that is never committed)
func (w *aWorld) callOn(cache *storage.CacheDB, contract common.Address, method string, args []byte, signers []common.Address, commit bool) (ret []byte, err error) {
	defer func() {
		if r := recover(); r != nil {
			err = fmt.Errorf("PANIC: %v", r)
		}
	}()
	if signers == nil {
		signers = []common.Address{}
	}
	tx := &types.Transaction{SignedAddr: signers}
	if len(signers) == 0 {
		// GetSignatureAddresses would derive the (empty) list from the (empty) signature list
		tx.Sigs = nil
	}
	sc := &smartcontract.SmartContract{
		Config:  &smartcontract.Config{Time: aBaseTime + w.now, Height: config.GetNewOntIdHeight() + 100, Tx: tx},
		CacheDB: cache,
		Gas:     1 << 60,
	}
	sc.PushContext(&context.Context{ContractAddress: w.app})
	ns, e := sc.NewNativeService()
	vhMust(e)
	ret, err = ns.NativeCall(contract, method, args)
	if err == nil && commit {
		cache.Commit()
	}
	return ret, err
}

func aRes(ret []byte, err error) (string, string) {
	if err != nil {
		return "err", err.Error()
	}
	if bytes.Equal(ret, utils.BYTE_TRUE) {
		return "true", ""
	}
	return "false", ""
}

func newAWorld(in *aInput) *aWorld {
	aInit()
	w := &aWorld{in: in, ids: map[string]*aIdent{}, names: map[string]string{}}
	w.ovl = overlaydb.NewOverlayDB(leveldbstore.NewMemLevelDBStore())
	copy(w.app[:], []byte("verif-app-contract-0"))
	for _, name := range in.Ids {
		id, err := account.CreateID([]byte("verif-auth-" + name))
		vhMust(err)
		it := &aIdent{name: name, ontid: []byte(id)}
		it.keys[1] = account.NewAccount("")
		it.keys[2] = account.NewAccount("")
		w.ids[name] = it
		w.names[id] = name
		pk1 := keypair.SerializePublicKey(it.keys[1].PublicKey)
		pk2 := keypair.SerializePublicKey(it.keys[2].PublicKey)
		s1 := []common.Address{it.keys[1].Address}
		// key 1: the registration key
		sink := common.NewZeroCopySink(nil)
		sink.WriteVarBytes(it.ontid)
		sink.WriteVarBytes(pk1)
		r, e := aRes(w.call(utils.OntIDContractAddress, "regIDWithPublicKey", sink.Bytes(), s1, true))
		if r != "true" {
			panic("regIDWithPublicKey: " + e)
		}
		// key 2: added, then removed (revoked)
		sink = common.NewZeroCopySink(nil)
		sink.WriteVarBytes(it.ontid)
		sink.WriteVarBytes(pk2)
		sink.WriteVarBytes(pk1)
		r, e = aRes(w.call(utils.OntIDContractAddress, "addKey", sink.Bytes(), s1, true))
		if r != "true" {
			panic("addKey: " + e)
		}
		r, e = aRes(w.call(utils.OntIDContractAddress, "removeKey", sink.Bytes(), s1, true))
		if r != "true" {
			panic("removeKey: " + e)
		}
	}
	return w
}

func (w *aWorld) oid(name string) []byte {
	if it, ok := w.ids[name]; ok {
		return it.ontid
	}
	panic("unknown identity " + name)
}

func (w *aWorld) signers(a aAct) []common.Address {
	out := []common.Address{}
	for _, p := range a.Signers {
		name := p[0].(string)
		k := int(p[1].(float64))
		out = append(out, w.ids[name].keys[k].Address)
	}
	return out
}

func (w *aWorld) apply(a aAct) (string, string) {
	sg := w.signers(a)
	sink := common.NewZeroCopySink(nil)
	var method string
	switch a.Name {
	case "Tick":
		w.now++
		return "true", ""
	case "InitAdmin":
		method = "initContractAdmin"
		(&InitContractAdminParam{AdminOntID: w.oid(a.Id)}).Serialization(sink)
	case "Transfer":
		method = "transfer"
		(&TransferParam{ContractAddr: w.app, NewAdminOntID: w.oid(a.Id), KeyNo: a.K}).Serialization(sink)
	case "AssignFuncs":
		method = "assignFuncsToRole"
		(&FuncsToRoleParam{ContractAddr: w.app, AdminOntID: w.oid(a.Id), Role: []byte(a.Role), FuncNames: a.Fns, KeyNo: a.K}).Serialization(sink)
	case "AssignIds":
		method = "assignOntIDsToRole"
		ps := [][]byte{}
		for _, p := range a.Persons {
			ps = append(ps, w.oid(p))
		}
		(&OntIDsToRoleParam{ContractAddr: w.app, AdminOntID: w.oid(a.Id), Role: []byte(a.Role), Persons: ps, KeyNo: a.K}).Serialization(sink)
	case "Delegate":
		method = "delegate"
		(&DelegateParam{ContractAddr: w.app, From: w.oid(a.Id), To: w.oid(a.To), Role: []byte(a.Role), Period: a.Period, Level: a.Level, KeyNo: a.K}).Serialization(sink)
	case "Withdraw":
		method = "withdraw"
		(&WithdrawParam{ContractAddr: w.app, Initiator: w.oid(a.Id), Delegate: w.oid(a.To), Role: []byte(a.Role), KeyNo: a.K}).Serialization(sink)
	case "Verify":
		method = "verifyToken"
		(&VerifyTokenParam{ContractAddr: w.app, Caller: w.oid(a.Id), Fn: a.Fn, KeyNo: a.K}).Serialization(sink)
	default:
		panic("unknown action " + a.Name)
	}
	return aRes(w.call(utils.AuthContractAddress, method, sink.Bytes(), sg, true))
}

func (w *aWorld) name(id []byte) string {
	if id == nil {
		return "none"
	}
	if n, ok := w.names[string(id)]; ok {
		return n
	}
	return "?" + string(id)
}

// observe reads the contract's storage back and evaluates verifyToken for every identity and function.
func (w *aWorld) observe(pi, si int, res, errs string) (o aObs) {
	o = aObs{Path: pi, Step: si, Res: res, Err: errs, Funcs: map[string][]string{}, Tokens: map[string][]string{},
		Deleg: map[string]map[string]aDeleg{}, Grid: map[string]map[string]string{}}
	defer func() {
		if r := recover(); r != nil {
			o.Err += fmt.Sprintf(" OBSERVE-PANIC: %v", r)
		}
	}()
	cache := storage.NewCacheDB(w.ovl)
	sc := &smartcontract.SmartContract{
		Config:  &smartcontract.Config{Time: aBaseTime + w.now, Height: config.GetNewOntIdHeight() + 100, Tx: &types.Transaction{SignedAddr: []common.Address{}}},
		CacheDB: cache, Gas: 1 << 60,
	}
	sc.PushContext(&context.Context{ContractAddress: w.app})
	sc.PushContext(&context.Context{ContractAddress: utils.AuthContractAddress})
	ns, e := sc.NewNativeService()
	vhMust(e)
	adm, e := getContractAdmin(ns, w.app)
	vhMust(e)
	o.Admin = w.name(adm)
	for _, r := range w.in.Roles {
		o.Funcs[r] = []string{}
		rf, e := getRoleFunc(ns, w.app, []byte(r))
		vhMust(e)
		if rf != nil {
			o.Funcs[r] = append(o.Funcs[r], rf.funcNames...)
			sort.Strings(o.Funcs[r])
		}
	}
	for _, n := range w.in.Ids {
		o.Tokens[n] = []string{}
		o.Deleg[n] = map[string]aDeleg{}
		o.Grid[n] = map[string]string{}
		tk, e := getOntIDToken(ns, w.app, w.oid(n))
		vhMust(e)
		if tk != nil {
			for _, t := range tk.tokens {
				o.Tokens[n] = append(o.Tokens[n], string(t.role))
				if t.level != 2 || int64(t.expireTime) != future.Unix() {
					o.Err += fmt.Sprintf(" permanent token of %s has level %d expire %d", n, t.level, t.expireTime)
				}
			}
			sort.Strings(o.Tokens[n])
		}
		st, e := getDelegateStatus(ns, w.app, w.oid(n))
		vhMust(e)
		if st != nil {
			for _, s := range st.status {
				if _, dup := o.Deleg[n][string(s.role)]; dup {
					o.Err += " duplicate delegation entry"
				}
				o.Deleg[n][string(s.role)] = aDeleg{Root: w.name(s.root), Expire: int64(s.expireTime) - aBaseTime, Level: int(s.level)}
			}
		}
		for _, f := range w.in.Fns {
			sink := common.NewZeroCopySink(nil)
			(&VerifyTokenParam{ContractAddr: w.app, Caller: w.oid(n), Fn: f, KeyNo: 1}).Serialization(sink)
			r, _ := aRes(w.callOn(cache, utils.AuthContractAddress, "verifyToken", sink.Bytes(), []common.Address{w.ids[n].keys[1].Address}, false))
			o.Grid[n][f] = r
		}
	}
	return o
}

func TestVerifAuthReplay(t *testing.T) {
	var in aInput
	vhIn(&in)
	out := vhOpenOut()
	defer out.Close()
	aInit()
	nw := vhEnvInt("VERIF_WORKERS", runtime.NumCPU())
	var mu sync.Mutex
	var wg sync.WaitGroup
	next := 0
	for k := 0; k < nw; k++ {
		wg.Add(1)
		go func() {
			defer wg.Done()
			for {
				mu.Lock()
				pi := next
				next++
				mu.Unlock()
				if pi >= len(in.Paths) {
					return
				}
				p := in.Paths[pi]
				w := newAWorld(&in)
				for _, a := range p.Setup {
					if r, e := w.apply(a); r != "true" {
						b, _ := json.Marshal(a)
						panic(fmt.Sprintf("setup step %s failed: %s %s", b, r, e))
					}
				}
				w.now = p.Now
				obs := []aObs{w.observe(pi, 0, "init", "")}
				for si, a := range p.Steps {
					r, e := w.apply(a)
					obs = append(obs, w.observe(pi, si+1, r, e))
				}
				mu.Lock()
				for _, o := range obs {
					out.Emit(o)
				}
				mu.Unlock()
			}
		}()
	}
	wg.Wait()
}
