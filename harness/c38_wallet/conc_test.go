package account

// Two client threads on ONE ClientImpl (spec/Wallet.tla: Threads, Split, pend): a pair of calls A, B taken from the
// two-thread model is run on the real wallet from two goroutines under a deterministic scheduler:
//
//	start A; wait until A is inside a critical section of ClientImpl.lock (lock state observed, no hook);
//	start B; wait until B is engaged with the same lock (queued behind A, or running beside it) or has returned;
//	wait for both.
//
// sync.RWMutex queues B behind A's current lock segment and serves it at A's next lock-release point (a pending writer
// also stops A from re-acquiring the lock first), so "B takes effect between two lock segments of A" is forced whenever
// A has more than one segment, and the run is an ordinary sequential A;B when A holds one lock throughout.  The
// window is made wide by the wallet's scrypt parameters (the password check of A runs inside its first segment).
// Whether the overlap really materialised is observed (not assumed) and reported; a run in which A finished before B
// was engaged is retried and never counted as an overlap.

import (
	"fmt"
	"os"
	"path/filepath"
	"reflect"
	"runtime"
	"sync"
	"sync/atomic"
	"testing"
	"time"
	"unsafe"

	"github.com/ontio/ontology-crypto/keypair"
	s "github.com/ontio/ontology-crypto/signature"
)

// ---------------------------------------------------------------- lock observation

type wLockPeek struct {
	ok                                bool
	offState, offReaders, offWaitRead uintptr
}

const wMaxReaders = 1 << 30

var wPeek = wInitPeek()

func wFieldOffset(t reflect.Type, names ...string) (uintptr, bool) {
	var off uintptr
	for _, n := range names {
		if t.Kind() != reflect.Struct {
			return 0, false
		}
		f, ok := t.FieldByName(n)
		if !ok {
			return 0, false
		}
		off += f.Offset
		t = f.Type
	}
	if t.Kind() != reflect.Int32 {
		return 0, false
	}
	return off, true
}

func wInitPeek() wLockPeek {
	t := reflect.TypeOf(sync.RWMutex{})
	p := wLockPeek{}
	var ok1, ok2, ok3 bool
	p.offState, ok1 = wFieldOffset(t, "w", "state")
	if !ok1 {
		p.offState, ok1 = wFieldOffset(t, "w", "mu", "state") // go >= 1.24: sync.Mutex wraps internal/sync.Mutex
	}
	p.offReaders, ok2 = wFieldOffset(t, "readerCount", "v")
	p.offWaitRead, ok3 = wFieldOffset(t, "readerWait", "v")
	p.ok = ok1 && ok2 && ok3
	return p
}

func wLoad(m *sync.RWMutex, off uintptr) int32 {
	return atomic.LoadInt32((*int32)(unsafe.Pointer(uintptr(unsafe.Pointer(m)) + off)))
}

// wEngaged: how many goroutines are engaged with the lock right now (holding it in either mode, or queued for it).
func wEngaged(m *sync.RWMutex) int {
	st := wLoad(m, wPeek.offState)
	rc := wLoad(m, wPeek.offReaders)
	n := 0
	if st&1 != 0 {
		n++ // rw.w held: a writer that holds the lock or waits for the readers to leave
	}
	n += int(st >> 3) // writers queued on rw.w
	if rc < 0 {
		rc += wMaxReaders
	}
	n += int(rc) // readers holding the lock or queued behind a writer
	return n
}

// wPeekSelfTest: the decoding of the lock words agrees with what this Go version does
func wPeekSelfTest() error {
	if !wPeek.ok {
		return fmt.Errorf("sync.RWMutex layout not recognised (%s)", runtime.Version())
	}
	var m sync.RWMutex
	wait := func(want int) error {
		for i := 0; i < 200000; i++ {
			if wEngaged(&m) == want {
				return nil
			}
			time.Sleep(10 * time.Microsecond)
		}
		return fmt.Errorf("lock observation self-test: engaged=%d, want %d (%s)", wEngaged(&m), want, runtime.Version())
	}
	if err := wait(0); err != nil {
		return err
	}
	m.RLock()
	if err := wait(1); err != nil {
		return err
	}
	done := make(chan struct{})
	go func() { m.Lock(); <-done; m.Unlock() }() // a writer queued behind the reader
	if err := wait(2); err != nil {
		return err
	}
	m.RUnlock() // the writer now holds the lock
	if err := wait(1); err != nil {
		return err
	}
	d2 := make(chan struct{})
	go func() { m.Lock(); m.Unlock(); close(d2) }() // a second writer queued on rw.w
	if err := wait(2); err != nil {
		return err
	}
	d3 := make(chan struct{})
	go func() { m.RLock(); m.RUnlock(); close(d3) }() // a reader queued behind the writers
	if err := wait(3); err != nil {
		return err
	}
	close(done)
	<-d2
	<-d3
	return wait(0)
}

// ---------------------------------------------------------------- the pair runner

// wMeasureDk: the (minimal) cost of one decryption under the scrypt parameters of the wallet, in microseconds
func wMeasureDk(param *keypair.ScryptParam) int64 {
	pri, _, err := keypair.GenerateKeyPair(keypair.PK_ECDSA, keypair.P256)
	vhMust(err)
	prot, err := keypair.EncryptWithCustomScrypt(pri, "dk", []byte("p"), param)
	vhMust(err)
	best := int64(1 << 62)
	for i := 0; i < 3; i++ {
		t := time.Now()
		_, err := keypair.DecryptWithCustomScrypt(prot, []byte("p"), param)
		vhMust(err)
		if d := time.Since(t).Microseconds(); d < best {
			best = d
		}
	}
	return best
}

type wCase struct {
	Prefix []wAct   `json:"prefix"`
	Want   []string `json:"want"` // answers of the prefix calls in the model
	A      wAct     `json:"a"`
	B      wAct     `json:"b"`
	Long   bool     `json:"long"` // the model says A's first lock segment contains a key derivation
}

type wConcInput struct {
	wInput
	Cases []wCase `json:"cases"`
	Tries int     `json:"tries"`
}

type wConcObs struct {
	Case       int    `json:"case"`
	Tries      int    `json:"tries"`
	Overlapped bool   `json:"overlapped"` // B was engaged with the lock (or had returned) while A had not returned
	AInLock    bool   `json:"aInLock"`    // A was observed inside the lock before B was started
	ModeStart  string `json:"modeStart"`  // mode in which A held the lock when B was started
	ModeSeen   string `json:"modeSeen"`   // ... and when B was seen engaged
	First      bool   `json:"first"`      // B was engaged while A was still in that same lock segment (see runPair)
	SeenUs     int64  `json:"seenUs"`     // time from the start of A's call to the moment B was seen engaged
	DkUs       int64  `json:"dkUs"`       // measured cost of one key derivation under the wallet's scrypt parameters
	ResA       string `json:"resA"`
	ErrA       string `json:"errA,omitempty"`
	ResB       string `json:"resB"`
	ErrB       string `json:"errB,omitempty"`
	Drift      string `json:"drift,omitempty"` // the sequential prefix did not answer as the model
	Err        string `json:"err,omitempty"`
	Live       *wView `json:"live"`
	Re         *wView `json:"re"`
	DfltOpens  []string `json:"dfltOpens"` // passwords with which GetDefaultAccount answers an account
	DfltListed bool     `json:"dfltListed"` // ... and that account is one of the listed accounts
}

// prepare resolves everything a call needs from the harness' own maps before the goroutines start; post runs after
// both calls have returned
func (w *wWorld) prepare(a wAct) (call func() (string, string), post func()) {
	post = func() {}
	er := func(err error) (string, string) {
		if err != nil {
			return "err", err.Error()
		}
		return "ok", ""
	}
	guard := func(f func() (string, string)) func() (string, string) {
		return func() (res string, errs string) {
			defer func() {
				if r := recover(); r != nil {
					res, errs = "panic", fmt.Sprint(r)
				}
			}()
			return f()
		}
	}
	cli := w.cli
	addr := w.addr(a.Id)
	switch a.Name {
	case "New":
		sch, err := s.GetScheme(a.Scheme)
		vhMust(err)
		var acc *Account
		call = guard(func() (string, string) {
			var err error
			acc, err = cli.NewAccount(a.Label, keypair.PK_ECDSA, keypair.P256, sch, []byte(a.Pwd))
			return er(err)
		})
		post = func() {
			if acc != nil {
				k := wKey{pub: fmt.Sprintf("%x", keypair.SerializePublicKey(acc.PublicKey)), addr: acc.Address.ToBase58()}
				w.keys[a.Id] = k
				w.ids[k.addr] = a.Id
			}
		}
	case "Import":
		m := *w.sh.metas[a.Id][a.Pwd]
		m.Label = a.Label
		call = guard(func() (string, string) { return er(cli.ImportAccount(&m)) })
	case "Delete":
		call = guard(func() (string, string) {
			acc, err := cli.DeleteAccount(addr, []byte(a.Pwd))
			if err != nil {
				return "err", err.Error()
			}
			if acc == nil {
				return "none", ""
			}
			return "ok", ""
		})
	case "SetDefault":
		call = guard(func() (string, string) { return er(cli.SetDefaultAccount(addr)) })
	case "SetLabel":
		call = guard(func() (string, string) { return er(cli.SetLabel(addr, a.Label)) })
	case "ChangePassword":
		call = guard(func() (string, string) { return er(cli.ChangePassword(addr, []byte(a.Old), []byte(a.New))) })
	case "ChangeScheme":
		sch, err := s.GetScheme(a.Scheme)
		vhMust(err)
		call = guard(func() (string, string) { return er(cli.ChangeSigScheme(addr, sch)) })
	case "Open":
		want := w.keys[a.Id]
		call = guard(func() (string, string) {
			acc, err := cli.GetAccountByAddress(addr, []byte(a.Pwd))
			if err != nil {
				return "err", err.Error()
			}
			if acc == nil {
				return "none", ""
			}
			if fmt.Sprintf("%x", keypair.SerializePublicKey(acc.PublicKey)) != want.pub {
				return "wrongkey", ""
			}
			return "ok", ""
		})
	default:
		panic("unknown concurrent action " + a.Name)
	}
	return
}

func wClosed(c chan struct{}) bool {
	select {
	case <-c:
		return true
	default:
		return false
	}
}

// wAMode: the mode in which the lock is held ("R", "W", "" = free), decoded from the lock words
func wAMode(m *sync.RWMutex) string {
	st := wLoad(m, wPeek.offState)
	rc := wLoad(m, wPeek.offReaders)
	if rc < 0 {
		rc += wMaxReaders
	}
	if st&1 == 0 {
		if rc >= 1 {
			return "R"
		}
		return ""
	}
	if wLoad(m, wPeek.offWaitRead) >= 1 {
		return "R" // a writer is pending behind the readers that hold the lock
	}
	return "W"
}

func (w *wWorld) runPair(a, b wAct, o *wConcObs) {
	fa, postA := w.prepare(a)
	fb, postB := w.prepare(b)
	lk := &w.cli.lock
	doneA, doneB := make(chan struct{}), make(chan struct{})
	var bStarted int32
	// B issues its call as soon as it sees A inside a critical section (or A has already returned)
	go func() {
		for !wClosed(doneA) {
			if wEngaged(lk) >= 1 {
				o.AInLock = true
				o.ModeStart = wAMode(lk)
				break
			}
			runtime.Gosched()
		}
		atomic.StoreInt32(&bStarted, 1)
		o.ResB, o.ErrB = fb()
		close(doneB)
	}()
	var tA time.Time
	started := make(chan struct{})
	go func() { tA = time.Now(); close(started); o.ResA, o.ErrA = fa(); close(doneA) }()
	<-started
	// the observer: B is engaged with the lock next to A, or has returned, while A has not returned
	for !wClosed(doneA) {
		if atomic.LoadInt32(&bStarted) == 1 {
			bDone := wClosed(doneB)
			n, mode := wEngaged(lk), wAMode(lk)
			if bDone || n >= 2 {
				// both parties were at the lock at that instant (only A and B use it), or B ran to its end beside A
				if !wClosed(doneA) {
					o.Overlapped = true
					o.ModeSeen = mode
					o.SeenUs = time.Since(tA).Microseconds()
				}
				break
			}
			time.Sleep(30 * time.Microsecond) // B is on its way; the observer need not burn a core
		} else {
			runtime.Gosched()
		}
	}
	<-doneA
	<-doneB
	// A's first lock segment holds a key derivation (the model says so: Long), which takes at least DkUs: B seen
	// engaged well before that is engaged during A's first segment
	o.First = o.Overlapped && o.AInLock && o.ModeSeen == o.ModeStart && o.SeenUs < w.sh.dkUs*3/4
	o.DkUs = w.sh.dkUs
	postA()
	postB()
}

func (w *wWorld) concObserve(o *wConcObs) {
	o.Live = w.view(w.cli, true)
	re, err := NewClientImpl(w.path)
	if err != nil {
		o.Err += " reload:" + err.Error()
		return
	}
	o.Re = w.view(re, false)
	// what GetDefaultAccount serves (looked at when the default account of the live client is not the listed account
	// that the reopened wallet names)
	o.DfltOpens = []string{}
	o.DfltListed = true
	listed := map[string]bool{}
	for _, m := range o.Live.List {
		listed[w.addr(m.Id)] = true
	}
	if o.Live.Dflt == o.Re.Dflt && (o.Live.Dflt.Id == 0 || listed[w.addr(o.Live.Dflt.Id)]) {
		return
	}
	for _, p := range w.sh.in.Pwds {
		acc, err := w.cli.GetDefaultAccount([]byte(p))
		if err == nil && acc != nil {
			o.DfltOpens = append(o.DfltOpens, p)
			if !listed[acc.Address.ToBase58()] {
				o.DfltListed = false
			}
		}
	}
}

func TestVerifWalletConc(t *testing.T) {
	var in wConcInput
	vhIn(&in)
	out := vhOpenOut()
	defer out.Close()
	if err := wPeekSelfTest(); err != nil {
		out.Emit(map[string]interface{}{"case": -1, "err": err.Error()})
		return
	}
	sh := wPrepare(&in.wInput)
	sh.dkUs = wMeasureDk(sh.param)
	nw := in.Workers
	if nw <= 0 {
		nw = runtime.NumCPU() / 2
	}
	if nw < 1 {
		nw = 1
	}
	if in.Tries <= 0 {
		in.Tries = 3
	}
	base := os.Getenv("VERIF_SCRATCH")
	if base == "" {
		base = os.TempDir()
	}
	var mu sync.Mutex
	var wg sync.WaitGroup
	next := 0
	for k := 0; k < nw; k++ {
		wg.Add(1)
		go func(k int) {
			defer wg.Done()
			dir := filepath.Join(base, fmt.Sprintf("wallet-c%d", k))
			vhMust(os.MkdirAll(dir, 0755))
			defer os.RemoveAll(dir)
			for {
				mu.Lock()
				ci := next
				next++
				mu.Unlock()
				if ci >= len(in.Cases) {
					return
				}
				c := in.Cases[ci]
				for try := 1; try <= in.Tries; try++ {
					o := wConcObs{Case: ci, Tries: try}
					w := newWWorld(sh, dir)
					for i, a := range c.Prefix {
						res, errs := w.apply(a)
						if i < len(c.Want) && res != c.Want[i] {
							o.Drift = fmt.Sprintf("prefix step %d %s answered %s (%s), model %s", i, a.Name, res, errs, c.Want[i])
						}
					}
					if o.Drift == "" {
						w.runPair(c.A, c.B, &o)
						w.concObserve(&o)
					}
					// every attempt is reported (and judged); a further attempt is made only to force the overlap
					mu.Lock()
					out.Emit(o)
					mu.Unlock()
					if o.Drift != "" || o.First || !c.Long {
						break
					}
				}
			}
		}(k)
	}
	wg.Wait()
}
