package account

// Conformance harness for spec/Wallet.tla (C38): replays TLC paths on the real ClientImpl with a wallet
// file in a scratch directory; after every step the view of the live client and the view of a client
// freshly opened from the saved file (NewClientImpl) are recorded, including which passwords open which
// account and whether the decrypted key is the account's key.

import (
	"crypto/sha256"
	"encoding/hex"
	"encoding/json"
	"fmt"
	"os"
	"path/filepath"
	"runtime"
	"sync"
	"testing"

	"github.com/ontio/ontology-crypto/keypair"
	s "github.com/ontio/ontology-crypto/signature"
	"github.com/ontio/ontology/core/types"
)

type wAct struct {
	Name   string `json:"name"`
	Id     int    `json:"id"`
	Label  string `json:"label"`
	Scheme string `json:"scheme"`
	Pwd    string `json:"pwd"`
	Old    string `json:"old"`
	New    string `json:"new"`
}

type wInput struct {
	Scrypt    *keypair.ScryptParam `json:"scrypt"` // nil: library default (new wallet file)
	ImportIds []int                `json:"importIds"`
	AllIds    []int                `json:"allIds"`
	Labels    []string             `json:"labels"` // non-empty labels to query
	Pwds      []string             `json:"pwds"`
	OpensLive bool                 `json:"opensLive"`
	Workers   int                  `json:"workers"`
	Paths     [][]wAct             `json:"paths"`
}

type wMeta struct {
	Id     int    `json:"id"`
	Label  string `json:"label"`
	Dflt   bool   `json:"dflt"`
	Scheme string `json:"scheme"`
	H      string `json:"h"` // digest of every metadata field (compared live vs reloaded)
}

type wView struct {
	List    []wMeta          `json:"list"`
	ByAddr  map[string]wMeta `json:"byAddr"`
	ByLabel map[string]int   `json:"byLabel"`
	Dflt    wMeta            `json:"dflt"`
	Num     int              `json:"num"`
	Opens   map[string][]string `json:"opens"`
}

type wObs struct {
	Path int    `json:"path"`
	Step int    `json:"step"`
	Res  string `json:"res"`
	Err  string `json:"err,omitempty"`
	Live *wView `json:"live"`
	Re   *wView `json:"re"`
}

type wKey struct {
	pub  string // hex of serialized public key
	addr string // base58
}

type wShared struct {
	in    *wInput
	param *keypair.ScryptParam
	keys  map[int]wKey                        // import ids
	metas map[int]map[string]*AccountMetadata // id -> pwd -> importable metadata
	dummy string
	dkUs  int64 // conc_test.go: measured cost of one key derivation
}

func wPrepare(in *wInput) *wShared {
	sh := &wShared{in: in, keys: map[int]wKey{}, metas: map[int]map[string]*AccountMetadata{}}
	sh.param = in.Scrypt
	if sh.param == nil {
		sh.param = keypair.GetScryptParameters()
	}
	for _, id := range in.ImportIds {
		pri, pub, err := keypair.GenerateKeyPair(keypair.PK_ECDSA, keypair.P256)
		vhMust(err)
		a20 := types.AddressFromPubKey(pub)
		addr := a20.ToBase58()
		k := wKey{pub: hex.EncodeToString(keypair.SerializePublicKey(pub)), addr: addr}
		sh.keys[id] = k
		sh.metas[id] = map[string]*AccountMetadata{}
		for _, p := range in.Pwds {
			prot, err := keypair.EncryptWithCustomScrypt(pri, addr, []byte(p), sh.param)
			vhMust(err)
			sh.metas[id][p] = &AccountMetadata{
				KeyType: prot.Alg, Curve: prot.Param["curve"], Address: addr, PubKey: k.pub,
				SigSch: s.SHA256withECDSA.Name(), Salt: prot.Salt, Key: prot.Key, EncAlg: prot.EncAlg, Hash: prot.Hash,
			}
		}
	}
	_, pub, err := keypair.GenerateKeyPair(keypair.PK_ECDSA, keypair.P256)
	vhMust(err)
	d20 := types.AddressFromPubKey(pub)
	sh.dummy = d20.ToBase58()
	return sh
}

type wWorld struct {
	sh   *wShared
	path string
	cli  *ClientImpl
	keys map[int]wKey   // id -> key (import ids + created ones)
	ids  map[string]int // address -> id
}

func newWWorld(sh *wShared, dir string) *wWorld {
	w := &wWorld{sh: sh, path: filepath.Join(dir, "wallet.dat"), keys: map[int]wKey{}, ids: map[string]int{}}
	for id, k := range sh.keys {
		w.keys[id] = k
		w.ids[k.addr] = id
	}
	os.Remove(w.path)
	os.RemoveAll(w.path + "~")
	if sh.in.Scrypt != nil {
		// an existing wallet file with its own scrypt settings and no accounts
		wd := NewWalletData()
		wd.Scrypt = sh.in.Scrypt
		vhMust(wd.Save(w.path))
	}
	cli, err := NewClientImpl(w.path)
	vhMust(err)
	w.cli = cli
	return w
}

func (w *wWorld) addr(id int) string {
	if k, ok := w.keys[id]; ok {
		return k.addr
	}
	return w.sh.dummy
}

func (w *wWorld) apply(a wAct) (res string, errs string) {
	defer func() {
		if r := recover(); r != nil {
			res, errs = "panic", fmt.Sprint(r)
		}
	}()
	er := func(err error) (string, string) {
		if err != nil {
			return "err", err.Error()
		}
		return "ok", ""
	}
	switch a.Name {
	case "New":
		sch, err := s.GetScheme(a.Scheme)
		vhMust(err)
		acc, err := w.cli.NewAccount(a.Label, keypair.PK_ECDSA, keypair.P256, sch, []byte(a.Pwd))
		if err != nil {
			return "err", err.Error()
		}
		k := wKey{pub: hex.EncodeToString(keypair.SerializePublicKey(acc.PublicKey)), addr: acc.Address.ToBase58()}
		w.keys[a.Id] = k
		w.ids[k.addr] = a.Id
		return "ok", ""
	case "Import":
		m := *w.sh.metas[a.Id][a.Pwd]
		m.Label = a.Label
		return er(w.cli.ImportAccount(&m))
	case "Delete":
		acc, err := w.cli.DeleteAccount(w.addr(a.Id), []byte(a.Pwd))
		if err != nil {
			return "err", err.Error()
		}
		if acc == nil {
			return "none", ""
		}
		return "ok", ""
	case "SetDefault":
		return er(w.cli.SetDefaultAccount(w.addr(a.Id)))
	case "SetLabel":
		return er(w.cli.SetLabel(w.addr(a.Id), a.Label))
	case "ChangePassword":
		return er(w.cli.ChangePassword(w.addr(a.Id), []byte(a.Old), []byte(a.New)))
	case "ChangeScheme":
		sch, err := s.GetScheme(a.Scheme)
		vhMust(err)
		return er(w.cli.ChangeSigScheme(w.addr(a.Id), sch))
	case "SetFault":
		// save() writes <wallet>~ and renames it: a directory of that name makes every save fail
		return er(os.Mkdir(w.path+"~", 0755))
	case "ClearFault":
		return er(os.Remove(w.path + "~"))
	case "Reload":
		cli, err := NewClientImpl(w.path)
		if err != nil {
			return "err", err.Error()
		}
		w.cli = cli
		return "ok", ""
	}
	panic("unknown action " + a.Name)
}

func (w *wWorld) meta(m *AccountMetadata) wMeta {
	if m == nil {
		return wMeta{}
	}
	id, ok := w.ids[m.Address]
	if !ok {
		id = -1
	}
	b, _ := json.Marshal([]interface{}{m.KeyType, m.Curve, m.Address, m.PubKey, m.SigSch, m.Salt, m.Key, m.EncAlg, m.Hash})
	h := sha256.Sum256(b)
	return wMeta{Id: id, Label: m.Label, Dflt: m.IsDefault, Scheme: m.SigSch, H: hex.EncodeToString(h[:6])}
}

func (w *wWorld) view(cli *ClientImpl, opens bool) *wView {
	v := &wView{List: []wMeta{}, ByAddr: map[string]wMeta{}, ByLabel: map[string]int{}, Opens: map[string][]string{}}
	for i := 1; ; i++ {
		m := cli.GetAccountMetadataByIndex(i)
		if m == nil {
			break
		}
		v.List = append(v.List, w.meta(m))
	}
	for _, id := range w.sh.in.AllIds {
		key := fmt.Sprint(id)
		v.ByAddr[key] = w.meta(cli.GetAccountMetadataByAddress(w.addr(id)))
		v.Opens[key] = []string{}
		if !opens {
			continue
		}
		for _, p := range w.sh.in.Pwds {
			acc, err := cli.GetAccountByAddress(w.addr(id), []byte(p))
			if err != nil || acc == nil {
				continue
			}
			got := hex.EncodeToString(keypair.SerializePublicKey(acc.PublicKey))
			if got == w.keys[id].pub && acc.Address.ToBase58() == w.keys[id].addr {
				v.Opens[key] = append(v.Opens[key], p)
			} else {
				v.Opens[key] = append(v.Opens[key], "WRONGKEY:"+p)
			}
		}
	}
	for _, l := range w.sh.in.Labels {
		m := cli.GetAccountMetadataByLabel(l)
		if m == nil {
			v.ByLabel[l] = 0
		} else {
			v.ByLabel[l] = w.meta(m).Id
		}
	}
	v.Dflt = w.meta(cli.GetDefaultAccountMetadata())
	v.Num = cli.GetAccountNum()
	return v
}

func (w *wWorld) observe(pi, si int, res, errs string) wObs {
	o := wObs{Path: pi, Step: si, Res: res, Err: errs}
	o.Live = w.view(w.cli, w.sh.in.OpensLive)
	re, err := NewClientImpl(w.path)
	if err != nil {
		o.Err += " reload:" + err.Error()
		return o
	}
	o.Re = w.view(re, true)
	return o
}

func TestVerifWalletReplay(t *testing.T) {
	var in wInput
	vhIn(&in)
	sh := wPrepare(&in)
	out := vhOpenOut()
	defer out.Close()
	nw := in.Workers
	if nw <= 0 {
		nw = runtime.NumCPU()
	}
	base := os.Getenv("VERIF_SCRATCH")
	if base == "" {
		base = os.TempDir()
	}
	var mu sync.Mutex
	var wg sync.WaitGroup
	next := 0
	for k := 0; k < nw; k++ {
		wg.Add(1)
		go func(k int) {
			defer wg.Done()
			dir := filepath.Join(base, fmt.Sprintf("wallet-w%d", k))
			vhMust(os.MkdirAll(dir, 0755))
			defer os.RemoveAll(dir)
			for {
				mu.Lock()
				pi := next
				next++
				mu.Unlock()
				if pi >= len(in.Paths) {
					return
				}
				w := newWWorld(sh, dir)
				obs := []wObs{w.observe(pi, 0, "init", "")}
				for si, a := range in.Paths[pi] {
					res, errs := w.apply(a)
					obs = append(obs, w.observe(pi, si+1, res, errs))
				}
				mu.Lock()
				for _, o := range obs {
					out.Emit(o)
				}
				mu.Unlock()
			}
		}(k)
	}
	wg.Wait()
}

// TestVerifWalletProbe reports which named deviations of spec/Wallet.tla the tree under test exhibits.
func TestVerifWalletProbe(t *testing.T) {
	out := vhOpenOut()
	defer out.Close()
	low := &keypair.ScryptParam{N: 16, R: 1, P: 1, DKLen: 64}
	in := &wInput{Scrypt: low, ImportIds: []int{1}, AllIds: []int{1, 2}, Pwds: []string{"p"}}
	sh := wPrepare(in)
	dir, err := os.MkdirTemp(os.Getenv("VERIF_SCRATCH"), "wallet-probe")
	vhMust(err)
	defer os.RemoveAll(dir)
	w := newWWorld(sh, dir)
	res := map[string]interface{}{}
	r, e := w.apply(wAct{Name: "New", Id: 2, Label: "", Scheme: "SHA256withECDSA", Pwd: "p"})
	if r != "ok" {
		res["error"] = "NewAccount failed: " + e
	} else {
		acc, err := w.cli.GetAccountByAddress(w.addr(2), []byte("p"))
		res["NewIgnoresWalletScrypt"] = err != nil || acc == nil
	}
	r1, _ := w.apply(wAct{Name: "Import", Id: 1, Label: "", Pwd: "p"})
	r2, _ := w.apply(wAct{Name: "Import", Id: 1, Label: "", Pwd: "p"})
	if r1 != "ok" {
		res["error"] = "ImportAccount failed"
	}
	res["DupAddrImport"] = r2 == "ok"
	out.Emit(res)
}
