package connect_controller

// Conformance harness for spec/ConnCtrl.tla (C36): replays SCHEDULES produced by TLC on the real
// ConnectController.  Every connection attempt of the model is a real goroutine running the real
// AcceptConnect / Connect.  The goroutine is held at the points where the controller calls into
// harness-supplied objects:
//   * inbound : the net.Conn handed to AcceptConnect is a ccGateConn; HandshakeServer's first call
//               SetDeadline signals "beforeHandshakeCheck passed", its first Read blocks on the gate;
//   * outbound: the Dialer handed to the controller signals "check + tryAddConnecting passed" and blocks
//               on the gate before it returns the connection.
// The model's step Check(c) = start the goroutine and wait for the signal (or the error return),
// Save(c) = open the gate and wait for the return, HandshakeFail(c) = fail the gated call,
// Close(c) = Close() of the returned wrapper.  No sleeps: all synchronisation is by channels; a wait
// that exceeds ccWait is reported as an infrastructure error, never as a verdict.

import (
	"errors"
	"fmt"
	"net"
	"sort"
	"strconv"
	"strings"
	"sync"
	"testing"
	"time"

	"github.com/ontio/ontology/p2pserver/common"
	"github.com/ontio/ontology/p2pserver/handshake"
	"github.com/ontio/ontology/p2pserver/peer"
)

const ccWait = 30 * time.Second

type ccConnSpec struct {
	Dir    string `json:"dir"`
	Ip     string `json:"ip"`
	Addr   string `json:"addr"`
	Listen string `json:"listen"`
	Lport  string `json:"lport"` // the listen port the remote peer announces in its version message
	Fam    string `json:"fam"`
	Kid    string `json:"kid"`
}

type ccAct struct {
	Name string `json:"name"`
	C    string `json:"c"`
	Res  string `json:"res"` // the result the model expects (used only to decide whether to probe)
}

type ccInput struct {
	Conns    map[string]ccConnSpec `json:"conns"` // the attempts of the path being replayed (= Plans[PathPlan[path]])
	// the address plans of the model: per plan the texts of every attempt (remote address as RemoteAddr().String()
	// returns it: "a.b.c.d:port" / "[v6]:port"; dial address; host text as net.SplitHostPort returns it)
	Plans    map[string]map[string]ccConnSpec `json:"plans"`
	PathPlan []string                         `json:"pathPlan"`
	MaxIn    uint                  `json:"maxIn"`
	MaxPerIp uint                  `json:"maxPerIp"`
	MaxOut   uint                  `json:"maxOut"`
	Paths    [][]ccAct             `json:"paths"`
}

type ccObs struct {
	Path     int               `json:"path"`
	Step     int               `json:"step"`
	Res      string            `json:"res"`
	Err      string            `json:"err,omitempty"`
	Inb      []string          `json:"inb"`
	Outb     []string          `json:"outb"`
	Lsn      []string          `json:"lsn"`
	Cing     []string          `json:"cing"`
	Peers    map[string]string `json:"peers"` // kid name -> address recorded in the peers map
	InCount  uint              `json:"inCount"`
	OutCount uint              `json:"outCount"`
	PerIp    map[string]uint   `json:"perIp"`
	OpenIn   int               `json:"openIn"`  // successful AcceptConnect not yet closed
	OpenOut  int               `json:"openOut"` // successful Connect not yet closed
	Fatal    []string          `json:"fatal,omitempty"`
	Infra    string            `json:"infra,omitempty"`
	Probe    bool              `json:"probe,omitempty"`
	Tail     string            `json:"tail,omitempty"` // extra step executed after the path left the model
}

type ccAddr string

func (a ccAddr) Network() string { return "tcp" }
func (a ccAddr) String() string  { return string(a) }

// ccGateConn is the net.Conn seen by the controller.
type ccGateConn struct {
	net.Conn
	remote  ccAddr
	checked chan struct{} // closed by the first SetDeadline
	once    sync.Once
	gate    chan bool // first Read waits here (true = go on, false = fail)
	passed  bool
	gated   bool // inbound connections gate their first Read
}

func (c *ccGateConn) RemoteAddr() net.Addr { return c.remote }

func (c *ccGateConn) SetDeadline(t time.Time) error {
	c.once.Do(func() { close(c.checked) })
	return c.Conn.SetDeadline(t)
}

func (c *ccGateConn) Read(b []byte) (int, error) {
	if c.gated && !c.passed {
		ok := <-c.gate
		c.passed = true
		if !ok {
			return 0, errors.New("verif: handshake failed by schedule")
		}
	}
	return c.Conn.Read(b)
}

type ccResult struct {
	info *peer.PeerInfo
	conn net.Conn
	err  error
}

type ccConn struct {
	id      string
	spec    ccConnSpec
	gc      *ccGateConn
	remote  net.Conn // the remote node's end of the pipe
	done    chan ccResult
	wrapped net.Conn
	rdone   chan error // remote handshake goroutine finished
	state   string
}

type ccLogger struct {
	mu    sync.Mutex
	fatal []string
}

func (l *ccLogger) Debug(a ...interface{})                 {}
func (l *ccLogger) Info(a ...interface{})                  {}
func (l *ccLogger) Warn(a ...interface{})                  {}
func (l *ccLogger) Error(a ...interface{})                 {}
func (l *ccLogger) Debugf(format string, a ...interface{}) {}
func (l *ccLogger) Infof(format string, a ...interface{})  {}
func (l *ccLogger) Warnf(format string, a ...interface{})  {}
func (l *ccLogger) Errorf(format string, a ...interface{}) {}
func (l *ccLogger) Fatal(a ...interface{}) {
	l.mu.Lock()
	l.fatal = append(l.fatal, fmt.Sprint(a...))
	l.mu.Unlock()
}
func (l *ccLogger) Fatalf(format string, a ...interface{}) {
	l.mu.Lock()
	l.fatal = append(l.fatal, fmt.Sprintf(format, a...))
	l.mu.Unlock()
}

// ccDialer is the Dialer of the controller under test.
type ccDialer struct {
	w *ccWorld
}

func (d *ccDialer) Dial(addr string) (net.Conn, error) {
	d.w.mu.Lock()
	c := d.w.dialing[addr]
	d.w.mu.Unlock()
	if c == nil {
		return nil, fmt.Errorf("verif: unexpected dial to %s", addr)
	}
	c.gc.once.Do(func() { close(c.gc.checked) }) // check + tryAddConnecting passed
	if ok := <-c.gc.gate; !ok {
		return nil, errors.New("verif: dial failed by schedule")
	}
	go c.serveRemote(d.w)
	return c.gc, nil
}

type ccWorld struct {
	in      *ccInput
	ctrl    *ConnectController
	logger  *ccLogger
	conns   map[string]*ccConn
	mu      sync.Mutex
	dialing map[string]*ccConn
	openIn  int
	openOut int
}

var ccKeys = map[string]*common.PeerKeyId{}

func ccKey(name string) *common.PeerKeyId {
	if k, ok := ccKeys[name]; ok {
		return k
	}
	k := common.RandPeerKeyId()
	ccKeys[name] = k
	return k
}

func ccPort(s ccConnSpec) uint16 {
	p := s.Lport
	if p == "" {
		var err error
		_, p, err = net.SplitHostPort(s.Listen)
		vhMust(err)
	}
	n, err := strconv.Atoi(p)
	vhMust(err)
	return uint16(n)
}

func newCcWorld(in *ccInput) *ccWorld {
	w := &ccWorld{in: in, conns: map[string]*ccConn{}, dialing: map[string]*ccConn{}, logger: &ccLogger{}}
	self := ccKey("self")
	info := &peer.PeerInfo{Id: self.Id, Port: 20338, SoftVersion: common.MIN_VERSION_FOR_DHT}
	opt := NewConnCtrlOption().MaxInBound(in.MaxIn).MaxInBoundPerIp(in.MaxPerIp).MaxOutBound(in.MaxOut).WithDialer(&ccDialer{w: w})
	w.ctrl = NewConnectController(info, self, opt, w.logger)
	for id, s := range in.Conns {
		ccKey(s.Kid)
		a, b := net.Pipe()
		c := &ccConn{id: id, spec: s, remote: b, done: make(chan ccResult, 1), rdone: make(chan error, 1), state: "idle"}
		c.gc = &ccGateConn{Conn: a, remote: ccAddr(s.Addr), checked: make(chan struct{}), gate: make(chan bool, 1), gated: s.Dir == "in"}
		w.conns[id] = c
	}
	return w
}

// the remote node's side of the handshake (the real handshake code of the repository)
func (c *ccConn) serveRemote(w *ccWorld) {
	key := ccKeys[c.spec.Kid] // created by newCcWorld
	info := &peer.PeerInfo{Id: key.Id, Port: ccPort(c.spec), SoftVersion: common.MIN_VERSION_FOR_DHT}
	var err error
	if c.spec.Dir == "in" {
		_, err = handshake.HandshakeClient(info, key, c.remote)
	} else {
		_, err = handshake.HandshakeServer(info, key, c.remote)
	}
	c.rdone <- err
}

func ccClass(err error) string {
	s := err.Error()
	switch {
	case strings.Contains(s, "already in connection records"):
		return "rej-addr"
	case strings.Contains(s, "connections reach max limit"):
		return "rej-full"
	case strings.Contains(s, "with ip("):
		return "rej-ip"
	case strings.Contains(s, "connecting list"):
		return "rej-connecting"
	case strings.Contains(s, "same peer id from different addr"):
		return "rej-kid"
	case strings.Contains(s, "by schedule"):
		return "failed"
	}
	return "rej-other"
}

func (w *ccWorld) step(a ccAct) (res string, errText string, infra string) {
	c := w.conns[a.C]
	if c == nil {
		return "", "", "unknown connection " + a.C
	}
	timeout := time.After(ccWait)
	switch a.Name {
	case "Check":
		if c.state != "idle" {
			return "", "", "Check on " + c.state
		}
		if c.spec.Dir == "in" {
			go func() {
				info, conn, err := w.ctrl.AcceptConnect(c.gc)
				c.done <- ccResult{info, conn, err}
			}()
		} else {
			w.mu.Lock()
			w.dialing[c.spec.Addr] = c
			w.mu.Unlock()
			go func() {
				info, conn, err := w.ctrl.Connect(c.spec.Addr)
				c.done <- ccResult{info, conn, err}
			}()
		}
		select {
		case <-c.gc.checked:
			c.state = "checked"
			return "checked", "", ""
		case r := <-c.done:
			c.state = "rejected"
			if r.err == nil {
				return "", "", "attempt returned success without a handshake"
			}
			return ccClass(r.err), r.err.Error(), ""
		case <-timeout:
			return "", "", "timeout waiting for Check of " + a.C
		}
	case "Save", "HandshakeFail":
		if c.state != "checked" {
			return "", "", a.Name + " on " + c.state
		}
		if a.Name == "Save" && c.spec.Dir == "in" {
			go c.serveRemote(w)
		}
		c.gc.gate <- a.Name == "Save"
		select {
		case r := <-c.done:
			if r.err != nil {
				c.state = "rejected"
				return ccClass(r.err), r.err.Error(), ""
			}
			c.state = "saved"
			c.wrapped = r.conn
			if c.spec.Dir == "in" {
				w.openIn++
			} else {
				w.openOut++
			}
			return "saved", "", ""
		case <-timeout:
			return "", "", "timeout waiting for " + a.Name + " of " + a.C
		}
	case "Close":
		if c.state != "saved" {
			return "", "", "Close on " + c.state
		}
		_ = c.wrapped.Close()
		c.state = "closed"
		if c.spec.Dir == "in" {
			w.openIn--
		} else {
			w.openOut--
		}
		return "closed", "", ""
	}
	return "", "", "unknown action " + a.Name
}

func ccSorted(xs []string) []string {
	out := append([]string{}, xs...)
	sort.Strings(out)
	return out
}

func (w *ccWorld) observe(o *ccObs) {
	ct := w.ctrl
	ct.mutex.Lock()
	o.Inb = ccSorted(ct.inoutbounds[INBOUND_INDEX].List())
	o.Outb = ccSorted(ct.inoutbounds[OUTBOUND_INDEX].List())
	o.Lsn = ccSorted(ct.inboundListenAddress.List())
	o.Cing = ccSorted(ct.connecting.List())
	o.Peers = map[string]string{}
	for name, k := range ccKeys {
		if p, ok := ct.peers[k.Id]; ok && p != nil {
			o.Peers[name] = p.addr
		}
	}
	ct.mutex.Unlock()
	// the public observers of the property
	o.InCount = ct.InboundsCount()
	o.OutCount = ct.OutboundsCount()
	// per IP: the controller's own counter, the recorded inbound addresses, and the harness's own count of
	// accepted-and-open inbound connections -- the largest of the three is reported
	o.PerIp = map[string]uint{}
	for _, s := range w.in.Conns {
		if _, ok := o.PerIp[s.Ip]; !ok {
			o.PerIp[s.Ip] = ct.getInboundCountWithIp(s.Ip)
		}
	}
	byAddr := map[string]uint{}
	for _, a := range o.Inb {
		if host, _, err := net.SplitHostPort(a); err == nil {
			byAddr[host]++
		}
	}
	open := map[string]uint{}
	for _, c := range w.conns {
		if c.state == "saved" && c.spec.Dir == "in" {
			open[c.spec.Ip]++
		}
	}
	for ip := range o.PerIp {
		if byAddr[ip] > o.PerIp[ip] {
			o.PerIp[ip] = byAddr[ip]
		}
		if open[ip] > o.PerIp[ip] {
			o.PerIp[ip] = open[ip]
		}
	}
	o.OpenIn, o.OpenOut = w.openIn, w.openOut
	w.logger.mu.Lock()
	o.Fatal = append([]string{}, w.logger.fatal...)
	w.logger.mu.Unlock()
}

// finish releases every goroutine of the path.
func (w *ccWorld) finish() string {
	for _, c := range w.conns {
		if c.state == "checked" {
			c.gc.gate <- false
			select {
			case <-c.done:
			case <-time.After(ccWait):
				return "timeout releasing " + c.id
			}
		}
		if c.wrapped != nil && c.state == "saved" {
			_ = c.wrapped.Close()
		}
		_ = c.gc.Conn.Close()
		_ = c.remote.Close()
	}
	return ""
}

// tail: the real controller admitted an attempt the model refuses.  To see what that admission leads to, the
// older recorded connections with the same remote address are closed (they are dead sockets) and every attempt
// that has not started yet is run to completion, one after the other; the real counts and the harness's own count
// of live connections are observed after every step.
func (w *ccWorld) tail(pi, step int, admitted string, out *vhOut) {
	emit := func(name, c, res, errText, infra string) bool {
		o := ccObs{Path: pi, Step: step, Res: res, Err: errText, Infra: infra, Probe: true, Tail: name + "(" + c + ")"}
		w.observe(&o)
		out.Emit(&o)
		return infra == ""
	}
	ids := make([]string, 0, len(w.conns))
	for id := range w.conns {
		ids = append(ids, id)
	}
	sort.Strings(ids)
	adm := w.conns[admitted]
	for _, id := range ids {
		c := w.conns[id]
		if id != admitted && c.state == "saved" && c.spec.Addr == adm.spec.Addr && c.spec.Dir == adm.spec.Dir {
			res, e, infra := w.step(ccAct{Name: "Close", C: id})
			if !emit("Close", id, res, e, infra) {
				return
			}
		}
	}
	for _, id := range ids {
		c := w.conns[id]
		if c.state != "idle" {
			continue
		}
		res, e, infra := w.step(ccAct{Name: "Check", C: id})
		if !emit("Check", id, res, e, infra) {
			return
		}
		if res == "checked" {
			res, e, infra = w.step(ccAct{Name: "Save", C: id})
			if !emit("Save", id, res, e, infra) {
				return
			}
		}
	}
}

func TestVerifConnReplay(t *testing.T) {
	common.Difficulty = 1
	handshake.HANDSHAKE_DURATION = 10 * time.Minute
	var in ccInput
	vhIn(&in)
	out := vhOpenOut()
	defer out.Close()
	for pi, path := range in.Paths {
		if pi < len(in.PathPlan) {
			in.Conns = in.Plans[in.PathPlan[pi]]
		}
		if len(in.Conns) == 0 {
			out.Emit(&ccObs{Path: pi, Step: -1, Infra: "no connection table for the path's address plan"})
			continue
		}
		w := newCcWorld(&in)
		o := ccObs{Path: pi, Step: 0, Res: "init"}
		w.observe(&o)
		out.Emit(&o)
		for si, a := range path {
			res, errText, infra := w.step(a)
			o := ccObs{Path: pi, Step: si + 1, Res: res, Err: errText, Infra: infra}
			w.observe(&o)
			out.Emit(&o)
			if infra != "" {
				break
			}
			if a.Name == "Check" && res == "checked" && strings.HasPrefix(a.Res, "rej-") {
				// the model refuses this attempt but the real check let it pass: complete the handshake to see
				// whether the real controller establishes it (probe), then abandon the path (it left the model)
				pres, perr, pinfra := w.step(ccAct{Name: "Save", C: a.C})
				po := ccObs{Path: pi, Step: si + 1, Res: pres, Err: perr, Infra: pinfra, Probe: true}
				w.observe(&po)
				out.Emit(&po)
				if pinfra == "" && pres == "saved" {
					w.tail(pi, si+1, a.C, out)
				}
				break
			}
			if a.Res == "rej-limit" && (res == "rej-full" || res == "rej-ip") {
				continue // intended-design model: Save re-tests the limits; either limit error is that refusal
			}
			if res != a.Res && a.Res != "" {
				break // diverged from the model: the rest of the schedule is meaningless
			}
		}
		if msg := w.finish(); msg != "" {
			out.Emit(&ccObs{Path: pi, Step: -1, Infra: msg})
		}
	}
}
