package common

// Conformance harness for spec/ZeroCopy.tla (C18): replays TLC paths on the real ZeroCopySource /
// ZeroCopySink and on the legacy common/serialization readers/writers; every call is wrapped in
// recover() -- a panic is an observed outcome.  Also a seeded random driver recording an NDJSON
// trace for ZeroCopy_Trace.

import (
	"bytes"
	"encoding/binary"
	"fmt"
	"math/rand"
	"testing"

	"github.com/ontio/ontology/common/serialization"
)

const zcHuge = 1073741824

type zcAct struct {
	Name string `json:"name"`
	N    uint64 `json:"n"`
	T    string `json:"t,omitempty"`
	V    []int  `json:"v,omitempty"`
}

type zcPath struct {
	Spare []int   `json:"spare"` // stale content of the buffer a sink is created over
	Buf   []int   `json:"buf"`
	Steps []zcAct `json:"steps"`
}

type zcInput struct {
	Paths []zcPath `json:"paths"`
}

type zcLeg struct {
	Name  string `json:"name"`
	Ok    bool   `json:"ok"`
	Val   []int  `json:"val"`
	Panic string `json:"panic,omitempty"`
}

type zcRes struct {
	P     int    `json:"p"`
	S     int    `json:"s"`
	Val   []int  `json:"val"`
	Size  uint64 `json:"size"`
	Irr   bool   `json:"irr"`
	Eof   bool   `json:"eof"`
	Off   uint64 `json:"off"`
	Len   uint64 `json:"len"`
	Err   string `json:"err"`
	Panic string `json:"panic,omitempty"`
	// every concrete count tried for a HUGE argument must give the same outcome
	VariantsDiffer string `json:"variants_differ,omitempty"`
	Leg            *zcLeg `json:"leg,omitempty"`
	// writer
	Sink    []int    `json:"sink,omitempty"`
	LegSink []int    `json:"legsink,omitempty"`
	LegErr  string   `json:"legerr,omitempty"`
	RB      []zcRes  `json:"rb,omitempty"`
	LegRB   []*zcLeg `json:"legrb,omitempty"`
}

func zcBytes(v []int) []byte {
	b := make([]byte, len(v))
	for i, x := range v {
		b[i] = byte(x)
	}
	return b
}

func zcInts(b []byte) []int {
	v := make([]int, len(b))
	for i, x := range b {
		v[i] = int(x)
	}
	return v
}

func zcLE(x uint64, k int) []int {
	var b [8]byte
	binary.LittleEndian.PutUint64(b[:], x)
	return zcInts(b[:k])
}

func zcBool(b bool) []int {
	if b {
		return []int{1}
	}
	return []int{0}
}

func zcErr(err error) string {
	switch err {
	case nil:
		return "ok"
	case ErrIrregularData:
		return "irregular"
	}
	if err.Error() == "unexpected EOF" {
		return "eof"
	}
	return "other:" + err.Error()
}

// zcRead performs one reader call on src (recovering panics) and returns the result tuple.
func zcRead(src *ZeroCopySource, name string, n uint64) (r zcRes) {
	defer func() {
		if e := recover(); e != nil {
			r.Panic = fmt.Sprint(e)
		}
		r.Off = src.Pos()
		r.Len = src.Size()
	}()
	switch name {
	case "NextByte":
		v, eof := src.NextByte()
		r.Val, r.Eof = []int{int(v)}, eof
		if !eof {
			r.Size = 1
		}
	case "NextUint8":
		v, eof := src.NextUint8()
		r.Val, r.Eof = []int{int(v)}, eof
		if !eof {
			r.Size = 1
		}
	case "NextBool":
		before := src.Pos()
		v, irr, eof := src.NextBool()
		r.Val, r.Irr, r.Eof = zcBool(v), irr, eof
		r.Size = src.Pos() - before
	case "NextUint16":
		v, eof := src.NextUint16()
		r.Val, r.Eof = zcLE(uint64(v), 2), eof
	case "NextInt16":
		v, eof := src.NextInt16()
		r.Val, r.Eof = zcLE(uint64(uint16(v)), 2), eof
	case "NextUint32":
		v, eof := src.NextUint32()
		r.Val, r.Eof = zcLE(uint64(v), 4), eof
	case "NextInt32":
		v, eof := src.NextInt32()
		r.Val, r.Eof = zcLE(uint64(uint32(v)), 4), eof
	case "NextUint64":
		v, eof := src.NextUint64()
		r.Val, r.Eof = zcLE(v, 8), eof
	case "NextInt64":
		v, eof := src.NextInt64()
		r.Val, r.Eof = zcLE(uint64(v), 8), eof
	case "NextAddress":
		v, eof := src.NextAddress()
		r.Val, r.Eof = zcInts(v[:]), eof
	case "NextHash":
		v, eof := src.NextHash()
		r.Val, r.Eof = zcInts(v[:]), eof
	case "NextI128":
		v, eof := src.NextI128()
		r.Val, r.Eof = zcInts(v[:]), eof
	case "NextVarUint":
		v, size, irr, eof := src.NextVarUint()
		r.Val, r.Size, r.Irr, r.Eof = zcLE(v, 8), size, irr, eof
	case "NextVarBytes":
		v, size, irr, eof := src.NextVarBytes()
		r.Val, r.Size, r.Irr, r.Eof = zcInts(v), size, irr, eof
	case "NextString":
		v, size, irr, eof := src.NextString()
		r.Val, r.Size, r.Irr, r.Eof = zcInts([]byte(v)), size, irr, eof
	case "ReadVarBytes":
		v, err := src.ReadVarBytes()
		r.Val, r.Err = zcInts(v), zcErr(err)
	case "ReadString":
		v, err := src.ReadString()
		r.Val, r.Err = zcInts([]byte(v)), zcErr(err)
	case "ReadVarUint":
		v, err := src.ReadVarUint()
		r.Val, r.Err = zcLE(v, 8), zcErr(err)
	case "ReadUint32":
		v, err := src.ReadUint32()
		r.Val, r.Err = zcLE(uint64(v), 4), zcErr(err)
	case "ReadUint64":
		v, err := src.ReadUint64()
		r.Val, r.Err = zcLE(v, 8), zcErr(err)
	case "NextBytes":
		v, eof := src.NextBytes(n)
		r.Val, r.Eof, r.Size = zcInts(v), eof, uint64(len(v))
	case "Skip":
		r.Eof = src.Skip(n)
	case "BackUp":
		src.BackUp(n)
	default:
		panic("unknown op " + name)
	}
	if name[:4] == "Next" && name != "NextVarUint" && name != "NextVarBytes" && name != "NextString" &&
		name != "NextBytes" && name != "NextBool" && name != "NextByte" && name != "NextUint8" && !r.Eof {
		r.Size = uint64(len(r.Val))
	}
	return
}

var zcLegacyOf = map[string]string{"NextByte": "ReadByte", "NextUint8": "ReadUint8", "NextUint16": "ReadUint16",
	"NextUint32": "ReadUint32", "NextUint64": "ReadUint64", "NextBool": "ReadBool", "NextVarUint": "ReadVarUint",
	"NextVarBytes": "ReadVarBytes", "NextString": "ReadString", "NextBytes": "ReadBytes"}

// zcLegacy performs the corresponding call of common/serialization on the unread rest of the buffer.
func zcLegacy(rest []byte, name string, n uint64) (l *zcLeg) {
	ln, ok := zcLegacyOf[name]
	if !ok {
		return nil
	}
	l = &zcLeg{Name: ln}
	defer func() {
		if e := recover(); e != nil {
			l.Panic = fmt.Sprint(e)
		}
	}()
	rd := bytes.NewReader(rest)
	var err error
	switch ln {
	case "ReadByte":
		var v byte
		v, err = serialization.ReadByte(rd)
		l.Val = []int{int(v)}
	case "ReadUint8":
		var v uint8
		v, err = serialization.ReadUint8(rd)
		l.Val = []int{int(v)}
	case "ReadUint16":
		var v uint16
		v, err = serialization.ReadUint16(rd)
		l.Val = zcLE(uint64(v), 2)
	case "ReadUint32":
		var v uint32
		v, err = serialization.ReadUint32(rd)
		l.Val = zcLE(uint64(v), 4)
	case "ReadUint64":
		var v uint64
		v, err = serialization.ReadUint64(rd)
		l.Val = zcLE(v, 8)
	case "ReadBool":
		var v bool
		v, err = serialization.ReadBool(rd)
		l.Val = zcBool(v)
	case "ReadVarUint":
		var v uint64
		v, err = serialization.ReadVarUint(rd, 0)
		l.Val = zcLE(v, 8)
	case "ReadVarBytes":
		var v []byte
		v, err = serialization.ReadVarBytes(rd)
		l.Val = zcInts(v)
	case "ReadString":
		var v string
		v, err = serialization.ReadString(rd)
		l.Val = zcInts([]byte(v))
	case "ReadBytes":
		var v []byte
		v, err = serialization.ReadBytes(rd, n)
		l.Val = zcInts(v)
	}
	l.Ok = err == nil
	return
}

func zcSame(a, b zcRes) bool {
	return fmt.Sprint(a.Val, a.Irr, a.Eof, a.Off, a.Err, a.Panic) == fmt.Sprint(b.Val, b.Irr, b.Eof, b.Off, b.Err, b.Panic)
}

// concrete counts standing for the model's HUGE (>= 2^24, including the values that overflow off+n)
func zcHugeVariants(off uint64) []uint64 {
	out := []uint64{1 << 24, 1 << 32, 1<<63 - 1, 1 << 63, ^uint64(0), ^uint64(0) - 1}
	// the two counts around the exact uint64 overflow of off+n
	for _, n := range []uint64{^uint64(0) - off, ^uint64(0) - off + 1} {
		if n >= 1<<24 {
			out = append(out, n)
		}
	}
	return out
}

func zcClone(src *ZeroCopySource) *ZeroCopySource {
	return &ZeroCopySource{s: src.s, off: src.off}
}

// the unread rest of the buffer for the legacy reader; a cursor outside the buffer (itself a violation, reported
// through Off > Len) must not crash the harness
func zcRest(src *ZeroCopySource) []byte {
	if src.off > uint64(len(src.s)) {
		return nil
	}
	return src.s[src.off:]
}

func zcReadStep(src *ZeroCopySource, a zcAct) zcRes {
	rest := zcRest(src)
	if a.N >= zcHuge && (a.Name == "NextBytes" || a.Name == "Skip") {
		var first zcRes
		diff := ""
		vs := zcHugeVariants(src.off)
		for i, n := range vs {
			c := zcClone(src)
			r := zcRead(c, a.Name, n)
			r.Leg = zcLegacy(rest, a.Name, n)
			if i == 0 {
				first = r
			} else if !zcSame(first, r) || fmt.Sprint(*orLeg(first.Leg)) != fmt.Sprint(*orLeg(r.Leg)) {
				diff = fmt.Sprintf("n=%d: %+v %+v vs n=%d: %+v %+v", vs[0], first, *orLeg(first.Leg), n, r, *orLeg(r.Leg))
			}
		}
		r := zcRead(src, a.Name, vs[0])
		r.Leg = first.Leg
		r.VariantsDiffer = diff
		return r
	}
	r := zcRead(src, a.Name, a.N)
	if a.Name != "BackUp" && a.Name != "Skip" {
		r.Leg = zcLegacy(rest, a.Name, a.N)
	}
	return r
}

func orLeg(l *zcLeg) *zcLeg {
	if l == nil {
		return &zcLeg{}
	}
	return l
}

// ---------------------------------------------------------------- writer

func zcU64(v []int) uint64 {
	var b [8]byte
	copy(b[:], zcBytes(v))
	return binary.LittleEndian.Uint64(b[:])
}

func zcWrite(sink *ZeroCopySink, leg *bytes.Buffer, t string, v []int) (size uint64, legerr string, pan string) {
	defer func() {
		if e := recover(); e != nil {
			pan = fmt.Sprint(e)
		}
	}()
	bs := zcBytes(v)
	var err error
	switch t {
	case "Byte":
		sink.WriteByte(bs[0])
		err = serialization.WriteByte(leg, bs[0])
	case "Uint8":
		sink.WriteUint8(bs[0])
		err = serialization.WriteUint8(leg, bs[0])
	case "Bool":
		sink.WriteBool(bs[0] != 0)
		err = serialization.WriteBool(leg, bs[0] != 0)
	case "Uint16":
		sink.WriteUint16(uint16(zcU64(v)))
		err = serialization.WriteUint16(leg, uint16(zcU64(v)))
	case "Int16":
		sink.WriteInt16(int16(uint16(zcU64(v))))
		err = serialization.WriteUint16(leg, uint16(zcU64(v)))
	case "Uint32":
		sink.WriteUint32(uint32(zcU64(v)))
		err = serialization.WriteUint32(leg, uint32(zcU64(v)))
	case "Int32":
		sink.WriteInt32(int32(uint32(zcU64(v))))
		err = serialization.WriteUint32(leg, uint32(zcU64(v)))
	case "Uint64":
		sink.WriteUint64(zcU64(v))
		err = serialization.WriteUint64(leg, zcU64(v))
	case "Int64":
		sink.WriteInt64(int64(zcU64(v)))
		err = serialization.WriteUint64(leg, zcU64(v))
	case "VarUint":
		size = sink.WriteVarUint(zcU64(v))
		err = serialization.WriteVarUint(leg, zcU64(v))
	case "VarBytes":
		size = sink.WriteVarBytes(bs)
		err = serialization.WriteVarBytes(leg, bs)
	case "String":
		size = sink.WriteString(string(bs))
		err = serialization.WriteString(leg, string(bs))
	case "Bytes":
		sink.WriteBytes(bs)
		_, err = leg.Write(bs)
	case "Address":
		var a Address
		copy(a[:], bs)
		sink.WriteAddress(a)
		_, err = leg.Write(bs)
	case "Hash":
		var a Uint256
		copy(a[:], bs)
		sink.WriteHash(a)
		_, err = leg.Write(bs)
	case "I128":
		var a I128
		copy(a[:], bs)
		sink.WriteI128(a)
		_, err = leg.Write(bs)
	default:
		panic("unknown item type " + t)
	}
	if err != nil {
		legerr = err.Error()
	}
	return
}

func zcReaderOf(t string) string {
	if t == "Bytes" {
		return "NextBytes"
	}
	return "Next" + t
}

func TestVerifZCReplay(t *testing.T) {
	var in zcInput
	vhIn(&in)
	out := vhOpenOut()
	defer out.Close()
	for pi, p := range in.Paths {
		src := NewZeroCopySource(zcBytes(p.Buf))
		sink := NewZeroCopySink(nil)
		if len(p.Spare) > 0 {
			// a reused buffer: length 0, dirty spare capacity
			dirty := zcBytes(p.Spare)
			sink = NewZeroCopySink(dirty[:0])
		}
		leg := new(bytes.Buffer)
		var items []zcAct
		for si, a := range p.Steps {
			var r zcRes
			if a.Name == "SinkReset" || a.Name == "SinkBackUp" {
				func() {
					defer func() {
						if e := recover(); e != nil {
							r.Panic = fmt.Sprint(e)
						}
					}()
					if a.Name == "SinkReset" {
						sink.Reset()
						leg.Reset()
						items = nil
					} else {
						sink.BackUp(a.N)
						leg.Truncate(leg.Len() - int(a.N))
						items = items[:len(items)-1]
					}
				}()
				r.Sink = zcInts(sink.Bytes())
				r.Len = sink.Size()
			} else if a.Name == "Write" {
				size, legerr, pan := zcWrite(sink, leg, a.T, a.V)
				items = append(items, a)
				r = zcRes{Size: size, LegErr: legerr, Panic: pan, Sink: zcInts(sink.Bytes()), LegSink: zcInts(leg.Bytes())}
				// read everything back with the real readers
				rs := NewZeroCopySource(append([]byte{}, sink.Bytes()...))
				for _, it := range items {
					rest := zcRest(rs)
					rb := zcRead(rs, zcReaderOf(it.T), uint64(len(it.V)))
					r.RB = append(r.RB, rb)
					lg := zcLegacy(rest, zcReaderOf(it.T), uint64(len(it.V)))
					r.LegRB = append(r.LegRB, lg)
				}
				r.Off, r.Len = rs.Pos(), rs.Size()
			} else {
				r = zcReadStep(src, a)
			}
			r.P, r.S = pi, si
			out.Emit(&r)
		}
	}
}

// ---------------------------------------------------------------- trace driver (code -> spec)

type zcTraceIn struct {
	NTraces int `json:"ntraces"`
	NSteps  int `json:"nsteps"`
	MaxLen  int `json:"maxlen"`
}

var zcOps = []string{"NextByte", "NextUint8", "NextBool", "NextUint16", "NextUint32", "NextUint64", "NextInt16", "NextInt32",
	"NextInt64", "NextAddress", "NextHash", "NextI128", "NextVarUint", "NextVarBytes", "NextString", "ReadVarBytes",
	"ReadString", "ReadVarUint", "ReadUint32", "ReadUint64", "NextBytes", "Skip", "BackUp"}

// zcRandBuf: random bytes biased towards the varuint markers and towards well-formed length prefixes
func zcRandBuf(rng *rand.Rand, maxLen int) []byte {
	n := rng.Intn(maxLen + 1)
	b := make([]byte, 0, n)
	for len(b) < n {
		switch rng.Intn(10) {
		case 0:
			b = append(b, 0xFD, byte(rng.Intn(256)), byte(rng.Intn(2)))
		case 1:
			b = append(b, 0xFE, byte(rng.Intn(256)), byte(rng.Intn(2)), byte(rng.Intn(2)), 0)
		case 2:
			b = append(b, 0xFF, byte(rng.Intn(256)), 0, 0, byte(rng.Intn(2)), byte(rng.Intn(2)), 0, 0, byte(rng.Intn(2))*0xFF)
		case 3, 4:
			b = append(b, byte(rng.Intn(6)))
		case 5:
			b = append(b, []byte{0xFC, 0xFD, 0xFE, 0xFF, 0, 1}[rng.Intn(6)])
		default:
			b = append(b, byte(rng.Intn(256)))
		}
	}
	if len(b) > n {
		b = b[:n]
	}
	return b
}

func TestVerifZCTrace(t *testing.T) {
	var in zcTraceIn
	vhIn(&in)
	out := vhOpenOut()
	defer out.Close()
	rng := vhRand()
	for tr := 0; tr < in.NTraces; tr++ {
		buf := zcRandBuf(rng, in.MaxLen)
		out.Emit(map[string]interface{}{"event": "Reset", "buf": zcInts(buf)})
		src := NewZeroCopySource(buf)
		for s := 0; s < in.NSteps; s++ {
			a := zcAct{Name: zcOps[rng.Intn(len(zcOps))]}
			switch a.Name {
			case "NextBytes", "Skip":
				switch rng.Intn(4) {
				case 0:
					a.N = zcHuge
				default:
					a.N = uint64(rng.Intn(12))
				}
			case "BackUp":
				if src.Pos() == 0 {
					continue
				}
				a.N = 1 + uint64(rng.Intn(int(src.Pos())))
			}
			r := zcReadStep(src, a)
			sizeOut := int64(r.Size)
			if r.Size >= zcHuge {
				sizeOut = zcHuge
			}
			offOut := r.Off
			if offOut > zcHuge {
				offOut = zcHuge
			}
			ev := map[string]interface{}{"event": a.Name, "n": a.N, "val": r.Val, "size": sizeOut, "irr": r.Irr, "eof": r.Eof,
				"off": offOut, "err": r.Err, "panic": r.Panic, "vdiff": r.VariantsDiffer}
			if r.Val == nil {
				ev["val"] = []int{}
			}
			out.Emit(ev)
		}
	}
}
