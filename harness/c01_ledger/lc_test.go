//go:build verif

package ledgerstore

// Conformance harness for spec/LedgerCommit.tla (C01).  Replays TLC paths (submit steps, crashes at
// every commit point, reopen + recovery steps, crashes inside recovery) on a real LedgerStoreImp.
// A crash is the on-disk image copied inside the verifPoint hook (what kill -9 would leave).

import (
	"encoding/hex"
	"fmt"
	"io"
	"math/big"
	"math/rand"
	"os"
	"path/filepath"
	"testing"

	"github.com/ontio/ontology-crypto/keypair"
	"github.com/ontio/ontology/account"
	"github.com/ontio/ontology/common"
	"github.com/ontio/ontology/common/config"
	"github.com/ontio/ontology/common/log"
	"github.com/ontio/ontology/core/genesis"
	"github.com/ontio/ontology/core/payload"
	"github.com/ontio/ontology/core/signature"
	"github.com/ontio/ontology/core/types"
	cutils "github.com/ontio/ontology/core/utils"
	"github.com/ontio/ontology/smartcontract/service/native/ont"
	nutils "github.com/ontio/ontology/smartcontract/service/native/utils"
)

type lcAct struct {
	Name string `json:"name"`
	H    int    `json:"h"`
	At   string `json:"at"`
	Ok   bool   `json:"ok"`
	Torn bool   `json:"torn"`
}

type lcInput struct {
	MaxH   int       `json:"maxh"`
	Shapes []string  `json:"shapes"` // per block 1..MaxH: "xfer" (digit transfer + random transfers), "empty" (no transaction), "fail" (one failing transfer: empty write set)
	Paths  [][]lcAct `json:"paths"`
}

type lcObs struct {
	Path    int    `json:"path"`
	Step    int    `json:"step"`
	Name    string `json:"name"`
	Event   string `json:"event,omitempty"`
	EvH     int    `json:"evh"`
	Blk     int    `json:"blk"`
	Evt     int    `json:"evt"`
	StCur   int    `json:"stcur"`
	StTree  int    `json:"sttree"`
	MemCur  int    `json:"memcur"`
	MemTree int    `json:"memtree"`
	Applied []int  `json:"applied"` // how many times block h (index h-1) has been applied to the committed state
	Ok      bool   `json:"ok"`
	Err     string `json:"err,omitempty"`
}

type lcRef struct {
	blocks    []*types.Block // index h (0 = genesis)
	stateRoot []common.Uint256
	hash      []common.Uint256
	balA      []uint64
	balB      []uint64
	nEvents   []int
	proofs    map[[2]int][]common.Uint256 // (leaf g, tree of height h) -> audit path
	blockRoot []common.Uint256
}

type lcWorld struct {
	maxH     int
	acct     *account.Account
	genesis  *types.Block
	bks      []keypair.PublicKey
	addrB    common.Address
	root     string
	tmpl     string
	ref      lcRef
	ndir     int
	ledger   *LedgerStoreImp
	dir      string
	events   []lcObs
	crashEv  int // index of the hook event (in this operation) at which the image is taken; -1 none
	crashDir string
	rng      *rand.Rand
	shapes   []string
}

func lcCopyDir(src, dst string) {
	vhMust(filepath.Walk(src, func(p string, info os.FileInfo, err error) error {
		if err != nil {
			return err
		}
		rel, _ := filepath.Rel(src, p)
		t := filepath.Join(dst, rel)
		if info.IsDir() {
			return os.MkdirAll(t, 0755)
		}
		in, err := os.Open(p)
		if err != nil {
			return err
		}
		defer in.Close()
		out, err := os.Create(t)
		if err != nil {
			return err
		}
		defer out.Close()
		_, err = io.Copy(out, in)
		return err
	}))
}

// a crash while the eager hash-file append was in flight: a partial hash at the tail of merkle_tree.db
func lcTear(dir string) {
	f, err := os.OpenFile(filepath.Join(dir, MerkleTreeStorePath), os.O_WRONLY|os.O_APPEND|os.O_CREATE, 0644)
	vhMust(err)
	_, err = f.Write([]byte{0xde, 0xad, 0xbe, 0xef, 1, 2, 3, 4, 5, 6, 7, 8, 9, 10, 11, 12, 13})
	vhMust(err)
	vhMust(f.Close())
}

func (w *lcWorld) newDir() string {
	w.ndir++
	return filepath.Join(w.root, fmt.Sprintf("d%d", w.ndir))
}

func (w *lcWorld) ontBalance(l *LedgerStoreImp, addr common.Address) uint64 {
	item, err := l.GetStorageItem(nutils.OntContractAddress, addr[:])
	if err != nil || len(item) == 0 {
		return 0
	}
	src := common.NewZeroCopySource(item)
	x, _ := src.NextUint64()
	return x
}

func (w *lcWorld) mkTransfer(to common.Address, amount uint64, nonce uint32) *types.Transaction {
	sts := []*ont.TransferState{{From: w.acct.Address, To: to, Value: amount}}
	code, err := cutils.BuildNativeInvokeCode(nutils.OntContractAddress, 0, "transfer", []interface{}{sts})
	vhMust(err)
	mtx := &types.MutableTransaction{GasPrice: 0, GasLimit: 30000, TxType: types.InvokeNeo, Nonce: nonce,
		Payer: w.acct.Address, Payload: &payload.InvokeCode{Code: code}}
	txHash := mtx.Hash()
	sig, err := signature.Sign(w.acct, txHash.ToArray())
	vhMust(err)
	mtx.Sigs = []types.Sig{{PubKeys: []keypair.PublicKey{w.acct.PublicKey}, M: 1, SigData: [][]byte{sig}}}
	tx, err := mtx.IntoImmutable()
	vhMust(err)
	return tx
}

func (w *lcWorld) makeBlock(l *LedgerStoreImp, h int) *types.Block {
	// "xfer": one ONT transfer of 10^(h-1) from the bookkeeper account to B (the digits of B's balance tell
	// which blocks have been applied to the state and how often) plus 0..2 random transfers;
	// "empty": no transaction; "fail": one overdrawing transfer (fails, gas price 0: empty write set).
	var txs []*types.Transaction
	switch w.shapes[h-1] {
	case "xfer":
		amount := uint64(1)
		for i := 1; i < h; i++ {
			amount *= 10
		}
		txs = append(txs, w.mkTransfer(w.addrB, amount, uint32(1000+h)))
		for k := 0; k < w.rng.Intn(3); k++ {
			var to common.Address
			for i := range to {
				to[i] = byte(0xC0 + w.rng.Intn(3))
			}
			txs = append(txs, w.mkTransfer(to, uint64(1+w.rng.Intn(9))*100000000, uint32(5000+10*h+k)))
		}
	case "fail":
		var to common.Address
		for i := range to {
			to[i] = 0xC5
		}
		txs = append(txs, w.mkTransfer(to, 2000000000, uint32(7000+h))) // more than the total supply
	case "empty":
	default:
		panic("unknown shape " + w.shapes[h-1])
	}
	var hashes []common.Uint256
	for _, t := range txs {
		hashes = append(hashes, t.Hash())
	}
	txRoot := common.ComputeMerkleRoot(hashes)
	prev := l.GetCurrentBlockHash()
	prevHeader, err := l.GetHeaderByHash(prev)
	vhMust(err)
	nb, err := types.AddressFromBookkeepers(w.bks)
	vhMust(err)
	header := &types.Header{Version: 0, PrevBlockHash: prev, TransactionsRoot: txRoot,
		BlockRoot: l.GetBlockRootWithNewTxRoots(uint32(h), []common.Uint256{txRoot}),
		Timestamp: prevHeader.Timestamp + 10, Height: uint32(h), ConsensusData: uint64(h), NextBookkeeper: nb}
	block := &types.Block{Header: header, Transactions: txs}
	bh := block.Hash()
	bsig, err := signature.Sign(w.acct, bh[:])
	vhMust(err)
	block.Header.Bookkeepers = w.bks
	block.Header.SigData = [][]byte{bsig}
	return block
}

func newLcWorld(maxH int, shapes []string) *lcWorld {
	log.InitLog(4)
	w := &lcWorld{maxH: maxH, crashEv: -1, rng: vhRand(), shapes: shapes}
	root, err := os.MkdirTemp(os.Getenv("VERIF_SCRATCH"), "lc")
	vhMust(err)
	w.root = root
	w.acct = account.NewAccount("")
	w.bks = []keypair.PublicKey{w.acct.PublicKey}
	for i := range w.addrB {
		w.addrB[i] = 0xB0
	}
	config.DefConfig.Genesis.ConsensusType = config.CONSENSUS_TYPE_SOLO
	config.DefConfig.Genesis.SOLO = &config.SOLOConfig{GenBlockTime: 6, Bookkeepers: []string{hex.EncodeToString(keypair.SerializePublicKey(w.acct.PublicKey))}}
	w.genesis, err = genesis.BuildGenesisBlock(w.bks, config.DefConfig.Genesis)
	vhMust(err)
	// template directory: a freshly initialised ledger
	w.tmpl = filepath.Join(root, "tmpl")
	l, err := NewLedgerStore(w.tmpl, 0)
	vhMust(err)
	vhMust(l.InitLedgerStoreWithGenesisBlock(w.genesis, w.bks))
	vhMust(l.Close())
	// reference ledger that never crashes
	refDir := filepath.Join(root, "ref")
	lcCopyDir(w.tmpl, refDir)
	r, err := NewLedgerStore(refDir, 0)
	vhMust(err)
	vhMust(r.InitLedgerStoreWithGenesisBlock(w.genesis, w.bks))
	w.ref.blocks = []*types.Block{w.genesis}
	w.ref.stateRoot = []common.Uint256{{}}
	w.ref.hash = []common.Uint256{w.genesis.Hash()}
	w.ref.balA = []uint64{w.ontBalance(r, w.acct.Address)}
	w.ref.balB = []uint64{0}
	w.ref.nEvents = []int{0}
	for h := 1; h <= maxH; h++ {
		b := w.makeBlock(r, h)
		res, err := r.ExecuteBlock(b)
		vhMust(err)
		vhMust(r.SubmitBlock(b, nil, res))
		w.ref.blocks = append(w.ref.blocks, b)
		w.ref.stateRoot = append(w.ref.stateRoot, res.MerkleRoot)
		w.ref.hash = append(w.ref.hash, b.Hash())
		w.ref.balA = append(w.ref.balA, w.ontBalance(r, w.acct.Address))
		w.ref.balB = append(w.ref.balB, w.ontBalance(r, w.addrB))
		nev := -1
		if ev, err := r.GetEventNotifyByBlock(uint32(h)); err == nil {
			nev = len(ev)
		}
		w.ref.nEvents = append(w.ref.nEvents, nev)
	}
	w.ref.proofs = map[[2]int][]common.Uint256{}
	for h := 0; h <= maxH; h++ {
		for g := 0; g <= h; g++ {
			pr, err := r.GetMerkleProof(uint32(g), uint32(h))
			vhMust(err)
			w.ref.proofs[[2]int{g, h}] = pr
		}
	}
	vhMust(r.Close())
	VerifHook = w.hook
	return w
}

func (w *lcWorld) project(l *LedgerStoreImp, o *lcObs) {
	_, bh, err := l.blockStore.GetCurrentBlock()
	if err != nil {
		o.Err += "blk:" + err.Error() + ";"
	}
	o.Blk = int(bh)
	_, eh, err := l.eventStore.GetCurrentBlock()
	if err != nil {
		o.Err += "evt:" + err.Error() + ";"
	}
	o.Evt = int(eh)
	_, sh, err := l.stateStore.GetCurrentBlock()
	if err != nil {
		o.Err += "st:" + err.Error() + ";"
	}
	o.StCur = int(sh)
	ts, _, err := l.stateStore.GetBlockMerkleTree()
	if err != nil {
		o.Err += "tree:" + err.Error() + ";"
	}
	o.StTree = int(ts)
	o.MemTree = int(l.stateStore.merkleTree.TreeSize())
	o.MemCur = int(l.GetCurrentBlockHeight())
	bal := w.ontBalance(l, w.addrB)
	o.Applied = make([]int, w.maxH)
	for h := 1; h <= w.maxH; h++ {
		o.Applied[h-1] = int(bal % 10)
		if w.shapes[h-1] != "xfer" {
			o.Applied[h-1] = -1 // not observable through the balance
		}
		bal /= 10
	}
}

func (w *lcWorld) hook(name string, h uint32) {
	if w.ledger == nil {
		return
	}
	o := lcObs{Event: name, EvH: int(h), Ok: true}
	w.project(w.ledger, &o)
	w.events = append(w.events, o)
	if w.crashEv == len(w.events)-1 {
		w.crashDir = w.newDir()
		lcCopyDir(w.dir, w.crashDir)
	}
}

// open = NewLedgerStore + InitLedgerStoreWithGenesisBlock (loadCurrentBlock, StateStore.init, recoverStore)
func (w *lcWorld) open() (ok bool, errText string) {
	w.events = nil
	l, err := NewLedgerStore(w.dir, 0)
	if err != nil {
		w.ledger = nil
		return false, "NewLedgerStore: " + err.Error()
	}
	w.ledger = l
	if err := l.InitLedgerStoreWithGenesisBlock(w.genesis, w.bks); err != nil {
		l.Close()
		w.ledger = nil
		return false, "InitLedgerStoreWithGenesisBlock: " + err.Error()
	}
	return true, ""
}

func (w *lcWorld) abandon() {
	// the process "dies": nothing more is written to the image we keep (it was copied earlier)
	if w.ledger != nil {
		VerifHook = nil
		w.ledger.Close()
		VerifHook = w.hook
		w.ledger = nil
	}
}

var lcSubmitHooks = []string{"staged", "blk", "evt", "st", "cur"}
var lcRecHook = map[string]string{"RecStage": "rec-staged", "RecEvt": "rec-evt", "RecSt": "rec-st"}

func isIn(s string, xs ...string) bool {
	for _, x := range xs {
		if s == x {
			return true
		}
	}
	return false
}

func (w *lcWorld) runPath(pi int, steps []lcAct, out *vhOut) {
	w.dir = w.newDir()
	lcCopyDir(w.tmpl, w.dir)
	ok, e := w.open()
	if !ok {
		out.Emit(lcObs{Path: pi, Step: 0, Name: "Init", Err: e})
		return
	}
	o0 := lcObs{Path: pi, Step: 0, Name: "Init", Ok: true}
	w.project(w.ledger, &o0)
	out.Emit(o0)
	emit := func(step int, name string, o lcObs) {
		o.Path, o.Step, o.Name = pi, step+1, name
		out.Emit(o)
	}
	n := len(steps)
	i := 0
	for i < n {
		s := steps[i]
		switch s.Name {
		case "SubmitBegin":
			j := i + 1
			for j < n && isIn(steps[j].Name, "CommitBlk", "CommitEvt", "CommitSt", "SetCurrent") {
				j++
			}
			crash := j < n && steps[j].Name == "Crash"
			w.events, w.crashEv, w.crashDir = nil, -1, ""
			if crash && steps[j].At != "idle" {
				w.crashEv = j - i - 1
			}
			blk := w.ref.blocks[s.H]
			err := w.ledger.AddBlock(blk, nil, w.ref.stateRoot[s.H])
			for k := i; k < j; k++ {
				if k-i < len(w.events) {
					o := w.events[k-i]
					if o.Event != lcSubmitHooks[k-i] || o.EvH != s.H {
						o.Err += fmt.Sprintf("expected hook %s@%d got %s@%d;", lcSubmitHooks[k-i], s.H, o.Event, o.EvH)
					}
					emit(k, steps[k].Name, o)
				} else {
					eo := lcObs{Err: "missing hook event " + lcSubmitHooks[k-i]}
					if err != nil {
						eo.Err += "; AddBlock: " + err.Error()
					}
					emit(k, steps[k].Name, eo)
				}
			}
			if err != nil && len(w.events) >= 5 {
				emit(j-1, "AddBlockResult", lcObs{Err: "AddBlock: " + err.Error()})
			}
			if crash {
				if w.crashDir == "" { // crash after the call returned
					w.crashDir = w.newDir()
					lcCopyDir(w.dir, w.crashDir)
				}
				w.abandon()
				os.RemoveAll(w.dir)
				w.dir = w.crashDir
				if steps[j].Torn {
					lcTear(w.dir)
				}
				emit(j, "Crash", lcObs{Ok: true})
				i = j + 1
			} else {
				i = j
			}
		case "Crash": // crash while idle (directly after Init / RecDone / SetCurrent handled elsewhere)
			d := w.newDir()
			lcCopyDir(w.dir, d)
			w.abandon()
			os.RemoveAll(w.dir)
			w.dir = d
			if s.Torn {
				lcTear(w.dir)
			}
			emit(i, "Crash", lcObs{Ok: true})
			i++
		case "Reopen":
			j := i + 1
			for j < n && isIn(steps[j].Name, "RecStage", "RecEvt", "RecSt", "RecDone") {
				j++
			}
			crash := j < n && steps[j].Name == "Crash"
			w.events, w.crashEv, w.crashDir = nil, -1, ""
			nrec := 0
			for k := i + 1; k < j; k++ {
				if steps[k].Name != "RecDone" {
					nrec++
				}
			}
			if crash {
				if steps[j-1].Name == "Reopen" { // crash before recovery wrote anything
					w.crashDir = w.newDir()
					lcCopyDir(w.dir, w.crashDir)
				} else if steps[j-1].Name != "RecDone" {
					w.crashEv = nrec - 1
				}
			}
			ok, e := w.open()
			emit(i, "Reopen", lcObs{Ok: ok, Err: ""})
			if !ok {
				emit(i, "ReopenError", lcObs{Err: e})
			}
			ev := 0
			for k := i + 1; k < j; k++ {
				if steps[k].Name == "RecDone" {
					o := lcObs{Ok: ok}
					if ok {
						w.project(w.ledger, &o)
					}
					emit(k, "RecDone", o)
					continue
				}
				if ev < len(w.events) {
					o := w.events[ev]
					if o.Event != lcRecHook[steps[k].Name] {
						o.Err += fmt.Sprintf("expected hook %s got %s;", lcRecHook[steps[k].Name], o.Event)
					}
					emit(k, steps[k].Name, o)
				} else {
					emit(k, steps[k].Name, lcObs{Err: "missing hook event " + lcRecHook[steps[k].Name] + " " + e})
				}
				ev++
			}
			if crash {
				if w.crashDir == "" {
					w.crashDir = w.newDir()
					lcCopyDir(w.dir, w.crashDir)
				}
				w.abandon()
				os.RemoveAll(w.dir)
				w.dir = w.crashDir
				if steps[j].Torn {
					lcTear(w.dir)
				}
				emit(j, "Crash", lcObs{Ok: true})
				i = j + 1
			} else {
				i = j
			}
			if !ok && !crash {
				i = n
			}
		default:
			emit(i, s.Name, lcObs{Err: "harness: unexpected step " + s.Name})
			i++
		}
	}
	// C01 itself, for every path: the ledger (reopened if necessary) equals the ledger that never crashed,
	// and continues identically with the remaining blocks.
	fin := lcObs{Ok: true}
	w.events, w.crashEv = nil, -1
	if w.ledger == nil {
		if ok, e := w.open(); !ok {
			fin.Ok = false
			fin.Err = "final reopen failed: " + e
		}
	}
	if w.ledger != nil {
		h := int(w.ledger.GetCurrentBlockHeight())
		w.project(w.ledger, &fin)
		cmp := func(stage string, h int) {
			if w.ledger.GetCurrentBlockHash() != w.ref.hash[h] {
				fin.Err += fmt.Sprintf("%s: current hash differs at %d;", stage, h)
			}
			if h > 0 {
				root, err := w.ledger.GetStateMerkleRoot(uint32(h))
				if err != nil || root != w.ref.stateRoot[h] {
					fin.Err += fmt.Sprintf("%s: state merkle root differs at %d (%v);", stage, h, err)
				}
			}
			if a, b := w.ontBalance(w.ledger, w.acct.Address), w.ontBalance(w.ledger, w.addrB); a != w.ref.balA[h] || b != w.ref.balB[h] {
				fin.Err += fmt.Sprintf("%s: balances differ at %d: A=%d/%d B=%d/%d;", stage, h, a, w.ref.balA[h], b, w.ref.balB[h])
			}
			for g := 0; g <= h; g++ {
				pr, err := w.ledger.GetMerkleProof(uint32(g), uint32(h))
				if err != nil || fmt.Sprint(pr) != fmt.Sprint(w.ref.proofs[[2]int{g, h}]) {
					fin.Err += fmt.Sprintf("%s: block merkle proof (%d,%d) differs (%v);", stage, g, h, err)
				}
				if w.ledger.GetBlockHash(uint32(g)) != w.ref.hash[g] {
					fin.Err += fmt.Sprintf("%s: block hash %d differs;", stage, g)
				}
				if g > 0 {
					nev := -1
					ev, err := w.ledger.GetEventNotifyByBlock(uint32(g))
					if err == nil {
						nev = len(ev)
					}
					if nev != w.ref.nEvents[g] {
						fin.Err += fmt.Sprintf("%s: events of block %d differ: %d, uncrashed ledger has %d (%v);", stage, g, nev, w.ref.nEvents[g], err)
					}
				}
			}
		}
		if h > w.maxH {
			fin.Err += "height beyond chain;"
		} else {
			cmp("recovered", h)
			for g := h + 1; g <= w.maxH; g++ {
				if err := w.ledger.AddBlock(w.ref.blocks[g], nil, w.ref.stateRoot[g]); err != nil {
					fin.Err += fmt.Sprintf("continue: AddBlock %d: %s;", g, err.Error())
					break
				}
			}
			if int(w.ledger.GetCurrentBlockHeight()) == w.maxH {
				cmp("continued", w.maxH)
			} else {
				fin.Err += fmt.Sprintf("continue: stuck at height %d;", w.ledger.GetCurrentBlockHeight())
			}
		}
		if fin.Err != "" {
			fin.Ok = false
		}
		w.abandon()
	}
	emit(n, "Final", fin)
	os.RemoveAll(w.dir)
}

func TestVerifLcReplay(t *testing.T) {
	var in lcInput
	vhIn(&in)
	out := vhOpenOut()
	defer out.Close()
	if len(in.Shapes) != in.MaxH {
		panic("shapes")
	}
	w := newLcWorld(in.MaxH, in.Shapes)
	defer os.RemoveAll(w.root)
	for pi, p := range in.Paths {
		w.runPath(pi, p, out)
		out.w.Flush()
	}
}

var _ = big.NewInt
