package neovm

// C13 harness (spec/NeoVMInt.tla): every row (opcode, operands as decimal strings) is executed by the
// real Executor.ExecuteOp on a fresh evaluation stack, once per operand representation:
//   native : VmValueFromInt64 when the operand fits an int64, VmValueFromBigInt otherwise
//   bytes  : the operand as a NeoVM byte array (what PUSHBYTES leaves on the stack)
// The observation is the fault flag and the top of the evaluation stack after ExecuteOp.

import (
	"fmt"
	"math/big"
	"testing"

	"github.com/ontio/ontology/common"
	"github.com/ontio/ontology/vm/neovm/types"
)

type ioRow struct {
	Id  int      `json:"id"`
	Op  string   `json:"op"`
	Arg []string `json:"arg"` // operands bottom .. top
}

type ioObs struct {
	Id    int    `json:"id"`
	Rep   string `json:"rep"`
	Built bool   `json:"built"` // false: operand not representable in this form
	Fault bool   `json:"fault"`
	Err   string `json:"err,omitempty"`
	Val   string `json:"val,omitempty"`
	Type  int    `json:"type"`
	Count int    `json:"count"`
	Panic string `json:"panic,omitempty"`
}

var ioOpcodes = map[string]OpCode{
	"ADD": ADD, "SUB": SUB, "MUL": MUL, "DIV": DIV, "MOD": MOD, "MAX": MAX, "MIN": MIN,
	"AND": AND, "OR": OR, "XOR": XOR, "SHL": SHL, "SHR": SHR,
	"NUMEQUAL": NUMEQUAL, "NUMNOTEQUAL": NUMNOTEQUAL, "LT": LT, "GT": GT, "LTE": LTE, "GTE": GTE,
	"INC": INC, "DEC": DEC, "SIGN": SIGN, "NEGATE": NEGATE, "ABS": ABS, "INVERT": INVERT, "NZ": NZ,
	"WITHIN": WITHIN,
}

func ioBuild(rep string, dec string) (types.VmValue, bool) {
	v, ok := new(big.Int).SetString(dec, 10)
	if !ok {
		panic("bad decimal " + dec)
	}
	switch rep {
	case "native":
		if v.IsInt64() {
			return types.VmValueFromInt64(v.Int64()), true
		}
		val, err := types.VmValueFromBigInt(v)
		if err != nil {
			return types.VmValue{}, false
		}
		return val, true
	case "bytes":
		val, err := types.VmValueFromBytes(common.BigIntToNeoBytes(v))
		if err != nil {
			return types.VmValue{}, false
		}
		return val, true
	}
	panic("bad rep")
}

func ioRun(row ioRow, rep string) (obs ioObs) {
	obs = ioObs{Id: row.Id, Rep: rep}
	defer func() {
		if r := recover(); r != nil {
			obs.Panic = "panic"
			if e, ok := r.(error); ok {
				obs.Panic = e.Error()
			} else if s, ok := r.(string); ok {
				obs.Panic = s
			}
		}
	}()
	op, ok := ioOpcodes[row.Op]
	if !ok {
		panic("unknown op " + row.Op)
	}
	exec := NewExecutor([]byte{byte(op)}, VmFeatureFlag{})
	for _, a := range row.Arg {
		v, ok := ioBuild(rep, a)
		if !ok {
			return
		}
		vhMust(exec.EvalStack.Push(v))
	}
	obs.Built = true
	state, err := exec.ExecuteOp(op, exec.Context)
	if err != nil || state == FAULT {
		obs.Fault = true
		if err != nil {
			obs.Err = err.Error()
		}
		return
	}
	obs.Count = exec.EvalStack.Count()
	top, err := exec.EvalStack.Peek(0)
	if err != nil {
		obs.Fault = true
		obs.Err = "empty stack: " + err.Error()
		return
	}
	obs.Type = int(top.GetType())
	bi, err := top.AsBigInt()
	if err != nil {
		obs.Err = "top not numeric: " + err.Error()
		return
	}
	obs.Val = bi.String()
	return
}

func TestVerifIntOps(t *testing.T) {
	var in struct {
		Rows []ioRow `json:"rows"`
	}
	vhIn(&in)
	out := vhOpenOut()
	defer out.Close()
	for _, row := range in.Rows {
		for _, rep := range []string{"native", "bytes"} {
			out.Emit(ioRun(row, rep))
		}
	}
}

// ---------------------------------------------------------------------------------------------------------
// "operands are values" rows (NeoVMInt!Kept): every operand is first PRODUCED BY AN ARITHMETIC OPCODE (x 0 ADD, so that a
// value outside int64 is a big.Int-stored stack item), a second reference to it is kept (DUP below the operands / on the
// alt stack / as an array element), then the opcode runs on the real Executor; the kept references are read afterwards.

type iaRow struct {
	Id   int      `json:"id"`
	Op   string   `json:"op"`
	Arg  []string `json:"arg"`
	Keep string   `json:"keep"` // dup | alt | arr
}

type iaObs struct {
	Id    int      `json:"id"`
	Built bool     `json:"built"`
	Fault bool     `json:"fault"`
	Err   string   `json:"err,omitempty"`
	Val   string   `json:"val,omitempty"`
	Kept  []string `json:"kept"`
	Panic string   `json:"panic,omitempty"`
}

func iaMust(state VMState, err error) {
	if err != nil || state == FAULT {
		panic(fmt.Sprintf("set-up opcode failed: %v", err))
	}
}

func iaRun(row iaRow) (obs iaObs) {
	obs = iaObs{Id: row.Id}
	defer func() {
		if r := recover(); r != nil {
			obs.Panic = fmt.Sprint(r)
		}
	}()
	op := ioOpcodes[row.Op]
	exec := NewExecutor([]byte{byte(op)}, VmFeatureFlag{})
	do := func(o OpCode) { iaMust(exec.ExecuteOp(o, exec.Context)) }
	n := len(row.Arg)
	// 1. produce the operands with an arithmetic opcode and keep a second reference to each
	for _, a := range row.Arg {
		v, ok := ioBuild("native", a)
		if !ok {
			return
		}
		vhMust(exec.EvalStack.Push(v))
		vhMust(exec.EvalStack.Push(types.VmValueFromInt64(0)))
		do(ADD)
		do(DUP)
		switch row.Keep {
		case "alt":
			do(TOALTSTACK)
		case "arr":
			vhMust(exec.EvalStack.Push(types.VmValueFromInt64(1)))
			do(PACK)
			do(TOALTSTACK) // the array that holds the second reference waits on the alt stack
		}
	}
	if row.Keep == "dup" && n == 2 { // [x1 x1' x2 x2'] -> [x1 x2 x1' x2']
		do(ROT)
		do(SWAP)
	}
	obs.Built = true
	// 2. the opcode under test
	state, err := exec.ExecuteOp(op, exec.Context)
	if err != nil || state == FAULT {
		obs.Fault = true
		if err != nil {
			obs.Err = err.Error()
		}
	} else {
		top, err := exec.EvalStack.Peek(0)
		vhMust(err)
		bi, err := top.AsBigInt()
		vhMust(err)
		obs.Val = bi.String()
		_, _ = exec.EvalStack.Pop()
	}
	// 3. read the kept references (operand order)
	kept := make([]string, n)
	for i := n - 1; i >= 0; i-- {
		var v types.VmValue
		switch row.Keep {
		case "dup":
			if obs.Fault {
				// a faulting opcode may have popped some operands; the kept copies are the n lowest items
				v, err = exec.EvalStack.Peek(int64(exec.EvalStack.Count() - 1 - i))
			} else {
				v, err = exec.EvalStack.Peek(int64(n - 1 - i))
			}
			vhMust(err)
		case "alt":
			v, err = exec.AltStack.Pop()
			vhMust(err)
		case "arr":
			av, err := exec.AltStack.Pop()
			vhMust(err)
			arr, err := av.AsArrayValue()
			vhMust(err)
			v = arr.Data[0]
		}
		bi, err := v.AsBigInt()
		vhMust(err)
		kept[i] = bi.String()
	}
	obs.Kept = kept
	return
}

func TestVerifIntAlias(t *testing.T) {
	var in struct {
		Rows []iaRow `json:"rows"`
	}
	vhIn(&in)
	out := vhOpenOut()
	defer out.Close()
	for _, row := range in.Rows {
		out.Emit(iaRun(row))
	}
}
